/-
  Line-protocol driver for the correspondence check: one request per line on stdin, one reply per
  line on stdout.  Imports the Mathlib-free model only, so it links as a `lean_exe`.
-/
import OptreeModel.Model.Eval

open Optree Optree.Sexp

partial def loop (h : IO.FS.Stream) (out : IO.FS.Stream) (st : DriverState) : IO Unit := do
  let line ← h.getLine
  if line.isEmpty then return ()
  let trimmed := line.trimAscii.toString
  if trimmed.isEmpty then
    loop h out st
  else
    let (st', reply) := step st trimmed
    out.putStrLn reply
    loop h out st'

def main : IO Unit := do
  let stdin ← IO.getStdin
  let stdout ← IO.getStdout
  loop stdin stdout DriverState.init
  stdout.flush
