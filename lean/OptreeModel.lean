import OptreeModel.Model.Basic
import OptreeModel.Model.Sort
import OptreeModel.Model.Flatten
import OptreeModel.Model.Unflatten
import OptreeModel.Model.Inspect
import OptreeModel.Model.Sexp
import OptreeModel.Model.Eval
