#!/bin/bash
# usage: ./lb.sh Module   -- build one module, print only errors (with context) and the last line
cd /verif/lean
lake build "$1" 2>&1 > /tmp/lb.out
grep -n -A30 "^error" /tmp/lb.out | head -${2:-120}
tail -1 /tmp/lb.out
