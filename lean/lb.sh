#!/bin/bash
# usage: ./lb.sh Module [maxlines]  -- build one module under the checks' build lock, print errors only
cd /verif/lean
flock /verif/lean/.lake/verif.lock lake build "$1" > /tmp/lb.out 2>&1
grep -n -A30 "^error" /tmp/lb.out | head -${2:-120}
tail -1 /tmp/lb.out
