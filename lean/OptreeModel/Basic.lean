def hello := "world"
