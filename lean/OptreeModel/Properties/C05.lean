/-
  C05  tree_map family calls the function once per leaf, in order, on aligned arguments.

  `treeMapGen` is ops.py's `tree_map*` line by line (Model/Ops.lean); the statements below are about
  that model, for every tree, every list of rests, every user function and every configuration.
  What `flattenUpTo` returns per leaf (the subtree at the leaf's path) is C07's subject; what
  `unflatten` builds is C01's.
-/
import OptreeModel.Model.Ops
import OptreeModel.Properties.C07
import OptreeModel.Lemmas.UpToAlign
import OptreeModel.Lemmas.UpToSelf
import OptreeModel.Properties.C01
import OptreeModel.Properties.C03
import OptreeModel.Properties.C04

namespace Optree

theorem callAll_log_ok (f : UserFn) (args : List (List Arg)) (i : Nat) (acc : List PyObj)
    (log : List (List Arg)) (rs : List PyObj) (h : (callAll f i args acc log).1 = .ok rs) :
    (callAll f i args acc log).2 = log.reverse ++ args ∧ rs.length = acc.length + args.length := by
  induction args generalizing i acc log with
  | nil =>
    simp only [callAll, Except.ok.injEq] at h
    subst h
    simp [callAll]
  | cons a as ih =>
    cases hr : f i a with
    | error e => simp [callAll, hr] at h
    | ok r =>
      simp only [callAll, hr] at h ⊢
      obtain ⟨h1, h2⟩ := ih (i + 1) (r :: acc) (a :: log) h
      exact ⟨by simp [h1], by simp [h2]; omega⟩

/-- **Once per leaf, in order.**  When the mapped function never raises, the call log is exactly the
list of argument tuples, one per leaf in flatten order, and there are as many results as calls. -/
theorem C05_calls_in_order (f : UserFn) (args : List (List Arg)) (rs : List PyObj)
    (h : (callAll f 0 args [] []).1 = .ok rs) :
    (callAll f 0 args [] []).2 = args ∧ rs.length = args.length := by
  have := callAll_log_ok f args 0 [] [] rs h
  simpa using this

/-- the calls made before a failure are a prefix of the argument tuples (no call is skipped or
repeated), and the failing call is the last one logged -/
theorem C05_calls_prefix (f : UserFn) (args : List (List Arg)) (i : Nat) (acc : List PyObj)
    (log : List (List Arg)) :
    ∃ k, (callAll f i args acc log).2 = log.reverse ++ args.take k := by
  induction args generalizing i acc log with
  | nil => exact ⟨0, by simp [callAll]⟩
  | cons a as ih =>
    unfold callAll
    split
    · exact ⟨1, by simp⟩
    · rename_i r _
      obtain ⟨k, hk⟩ := ih (i + 1) (r :: acc) (a :: log)
      exact ⟨k + 1, by rw [hk]; simp⟩

/-- **A rest that is not a suffix fails before `f` is called at all** (the error is whatever
`flatten_up_to` raised: a `ValueError` by C07), for all six variants. -/
theorem C05_prefix_failure_before_calls (cfg : Cfg) (variant : MapVariant) (inplace : Bool)
    (f : UserFn) (t : PyObj) (rests : List PyObj) (ls : List PyObj) (sp : Spec) (e : Err)
    (hflat : flatten cfg t = .ok (ls, sp))
    (hwp : ∃ ps ls', flattenWithPath cfg t = .ok (ps, ls', sp))
    (hrest : rests.mapM (flattenUpTo cfg.reg sp) = .error e) :
    (treeMapGen cfg variant inplace f t rests).result = .error e ∧
    (treeMapGen cfg variant inplace f t rests).log = [] := by
  unfold treeMapGen
  cases variant
  · simp [hflat, hrest]
  · obtain ⟨ps, ls', hp⟩ := hwp
    simp [hp, hrest]
  · simp [hflat, hrest]

/-- the underscore variants return the original tree object -/
theorem C05_inplace_returns_tree (cfg : Cfg) (variant : MapVariant) (f : UserFn) (t : PyObj)
    (rests : List PyObj) (r : PyObj)
    (h : (treeMapGen cfg variant true f t rests).result = .ok r) : r = t := by
  unfold treeMapGen at h
  simp only at h
  repeat' split at h
  all_goals first
    | (simp at h; done)
    | (simp at h; exact h.symm)
    | skip
  all_goals simp_all

/-! ### which extra trees are accepted, and what they contribute per leaf

Through the refinement theorems of C07: `flatten_up_to` on the first tree's treespec is the structural match
`STree.upTo` against the first tree's shape, and it succeeds exactly for suffixes of that shape. -/

theorem mapM_except_error_of_mem {α β : Type} (g : α → Except Err β) :
    ∀ (l : List α) (x : α), x ∈ l → (∃ e, g x = .error e) → ∃ e, l.mapM g = .error e
  | [], _, h, _ => by simp at h
  | y :: l, x, h, hx => by
      simp only [List.mapM_cons, bind, Except.bind]
      cases hy : g y with
      | error e => exact ⟨e, rfl⟩
      | ok v =>
        simp only [List.mem_cons] at h
        rcases h with h | h
        · subst h; obtain ⟨e, he⟩ := hx; rw [he] at hy; cases hy
        · obtain ⟨e, he⟩ := mapM_except_error_of_mem g l x h hx
          exact ⟨e, by simp [he]⟩

/-- **an extra tree is accepted iff the first tree's shape is a prefix of its shape** (dict kinds
interchangeable and matched by key, deques regardless of maxlen, same classes and registrations) -/
theorem C05_rest_accepted_iff_suffix (cfg : Cfg) (hp : cfg.pred = Option.none) (t r : PyObj)
    (ht : t.wf = true) (hr : r.wf = true) (ls : List PyObj) (sp : Spec) (h : flatten cfg t = .ok (ls, sp))
    (hns : sp.ns = cfg.ns) :
    okB (flattenUpTo cfg.reg sp r) =
      (shapeOf cfg (!cfg.insertionOrdered) t).prefixB (shapeOf cfg (!cfg.insertionOrdered) r) := by
  obtain ⟨e1, _⟩ := flatten_shapeOf cfg hp t ht ls sp h
  obtain ⟨w1, g1⟩ := wg cfg (!cfg.insertionOrdered) t ht
  rw [e1, hns]
  exact C07_up_to_iff_prefix cfg _ _ w1 g1 r hr

/-- on success every extra tree contributes exactly one sub-tree per leaf of the first tree -/
theorem C05_rest_one_per_leaf (cfg : Cfg) (hp : cfg.pred = Option.none) (t r : PyObj) (ht : t.wf = true)
    (ls : List PyObj) (sp : Spec) (h : flatten cfg t = .ok (ls, sp)) (subs : List PyObj)
    (hs : flattenUpTo cfg.reg sp r = .ok subs) : subs.length = ls.length := by
  obtain ⟨e1, hl⟩ := flatten_shapeOf cfg hp t ht ls sp h
  obtain ⟨w1, _⟩ := wg cfg (!cfg.insertionOrdered) t ht
  rw [e1] at hs
  have := C07_flatten_up_to_count cfg.reg _ w1 _ _ r subs hs
  rw [STree.spec_numLeaves] at this
  rw [this, hl]

/-- **a single extra tree that is not a suffix makes `tree_map` fail before any call of `f`** -/
theorem C05_non_suffix_rejected (cfg : Cfg) (hp : cfg.pred = Option.none) (inplace : Bool) (f : UserFn)
    (t : PyObj) (rests : List PyObj) (ht : t.wf = true) (ls : List PyObj) (sp : Spec)
    (h : flatten cfg t = .ok (ls, sp)) (hns : sp.ns = cfg.ns) (r : PyObj) (hr : r ∈ rests) (hrw : r.wf = true)
    (hnot : (shapeOf cfg (!cfg.insertionOrdered) t).prefixB (shapeOf cfg (!cfg.insertionOrdered) r) = false) :
    (∃ e, (treeMapGen cfg .plain inplace f t rests).result = .error e) ∧
    (treeMapGen cfg .plain inplace f t rests).log = [] := by
  have hacc := C05_rest_accepted_iff_suffix cfg hp t r ht hrw ls sp h hns
  rw [hnot] at hacc
  have herr : ∃ e, flattenUpTo cfg.reg sp r = .error e := by
    cases hx : flattenUpTo cfg.reg sp r with
    | error e => exact ⟨e, rfl⟩
    | ok v => rw [hx] at hacc; simp at hacc
  obtain ⟨e, he⟩ := mapM_except_error_of_mem (flattenUpTo cfg.reg sp) rests r hr herr
  unfold treeMapGen
  simp [h, he]

/-- **aligned arguments**: the i-th sub-tree an accepted extra tree `r` contributes is the one reached from
`r` by following the i-th leaf path of the first tree (positions in sequences, keys in dicts whatever their
kind or order, the registration's entries in custom nodes) -/
theorem C05_rest_aligned (cfg : Cfg) (hp : cfg.pred = Option.none) (t r : PyObj) (ht : t.wf = true)
    (ls : List PyObj) (sp : Spec) (h : flatten cfg t = .ok (ls, sp)) (hns : sp.ns = cfg.ns)
    (subs : List PyObj) (hs : flattenUpTo cfg.reg sp r = .ok subs) :
    ∃ ps, paths sp = .ok ps ∧ ps.length = subs.length ∧
      ∀ (i : Nat) (p : List Key) (x : PyObj), ps[i]? = some p → subs[i]? = some x →
        PyObj.follow cfg r p = some x := by
  obtain ⟨e1, _⟩ := flatten_shapeOf cfg hp t ht ls sp h
  obtain ⟨w1, g1⟩ := wg cfg (!cfg.insertionOrdered) t ht
  obtain ⟨n1, r1⟩ := nr cfg (!cfg.insertionOrdered) t ht
  have hk := eo cfg (!cfg.insertionOrdered) t
  rw [e1, hns] at hs
  rw [C07_flatten_up_to_refines cfg.reg _ w1] at hs
  have hal := upTo_aligned cfg _ w1 hk n1 r1 g1 r [] subs hs
  refine ⟨_, by rw [e1]; exact paths_enc _ w1 hk _ _, hal.length, ?_⟩
  intro i p x h1 h2
  have := hal.get i p x h1 h2
  simpa [Reaches] using this

/-- the first tree matched against its own treespec contributes its own leaves: `tree_map(f, t, t)` calls
`f(leaf_i, leaf_i)` -/
theorem C05_self_rest (cfg : Cfg) (hp : cfg.pred = Option.none) (t : PyObj) (ht : t.wf = true)
    (ls : List PyObj) (sp : Spec) (h : flatten cfg t = .ok (ls, sp)) (hns : sp.ns = cfg.ns) :
    flattenUpTo cfg.reg sp t = .ok ls := flattenUpTo_self cfg hp t ht ls sp h hns


/-! ### the mapped tree: structure of `t`, i-th leaf = i-th result -/

theorem foldl_min_const (a : Nat) : ∀ (l : List Nat), (∀ x ∈ l, x = a) → l.foldl min a = a
  | [], _ => rfl
  | x :: l, h => by
      have hx : x = a := h x (by simp)
      subst hx
      simp only [List.foldl_cons, Nat.min_self]
      exact foldl_min_const x l (fun y hy => h y (by simp [hy]))

/-- `zip(*lists)` of lists of one common length `n`: `n` columns, the i-th holding the i-th items -/
theorem zipArgs_same_length (l0 : List PyObj) (ls : List (List PyObj)) (h : ∀ l ∈ ls, l.length = l0.length) :
    zipArgs (l0 :: ls) = (List.range l0.length).map fun i => (l0 :: ls).map fun l => l[i]! := by
  unfold zipArgs
  have : ((l0 :: ls).map List.length).foldl min ((l0 :: ls).head!.length) = l0.length := by
    have hh : (l0 :: ls).head! = l0 := rfl
    simp only [List.map_cons, List.foldl_cons, hh, Nat.min_self]
    exact foldl_min_const l0.length (ls.map List.length) (by
      intro x hx
      simp only [List.mem_map] at hx
      obtain ⟨l, hl, rfl⟩ := hx
      exact h l hl)
  simp only [this]

/-- **`tree_map(f, t, *rests)`**: when every rest is matched (`flatten_up_to` succeeds for each, one sub-tree per
leaf) and `f` returns leaf-typed objects, the result is a tree that flattens to *exactly the results of the
calls, in order, and the treespec of `t`* — the structure of `t` with the i-th leaf replaced by
`f(leaf_i(t), sub_i(rest_1), …)` — and the call log is one argument tuple per leaf, in flatten order:
the i-th tuple is `(leaf_i, subs_1[i], …, subs_k[i])`. -/
theorem C05_map_result (cfg : Cfg) (hreg : cfg.reg.OK) (hst : PredOnLeaves cfg) (f : UserFn) (t : PyObj)
    (rests : List PyObj) (ht : t.wf = true) (ls : List PyObj) (sp : Spec) (h : flatten cfg t = .ok (ls, sp))
    (restLeaves : List (List PyObj)) (hrest : rests.mapM (flattenUpTo cfg.reg sp) = .ok restLeaves)
    (hlen : ∀ l ∈ restLeaves, l.length = ls.length)
    (rs : List PyObj)
    (hcalls : (callAll f 0 ((List.range ls.length).map fun i => (ls :: restLeaves).map fun l => Arg.obj l[i]!) [] []).1
      = .ok rs)
    (hleafy : ∀ x ∈ rs, LeafObj cfg x) :
    ∃ r, (treeMapGen cfg .plain false f t rests).result = .ok r ∧
      (treeMapGen cfg .plain false f t rests).log =
        ((List.range ls.length).map fun i => (ls :: restLeaves).map fun l => Arg.obj l[i]!) ∧
      flatten cfg r = .ok (rs, sp) := by
  have hcols := zipArgs_same_length ls restLeaves hlen
  obtain ⟨hlog, hrl⟩ := C05_calls_in_order f _ rs hcalls
  have hrl' : rs.length = ls.length := by simpa using hrl
  obtain ⟨r, hu, hf⟩ := C01_replace_leaves cfg hreg hst t ht ls sp h rs hrl' hleafy
  have hargs : (List.range (min (ls.map fun _ => ([] : List Arg)).length (zipArgs (ls :: restLeaves)).length)).map
      (fun i => (ls.map fun _ => ([] : List Arg))[i]! ++ ((zipArgs (ls :: restLeaves))[i]!).map Arg.obj) =
      (List.range ls.length).map fun i => (ls :: restLeaves).map fun l => Arg.obj l[i]! := by
    rw [hcols]
    simp only [List.length_map, List.length_range, Nat.min_self]
    apply List.map_congr_left
    intro i hi
    have hi' : i < ls.length := by simpa using hi
    simp [hi', List.map_map, Function.comp_def]
  refine ⟨r, ?_, ?_, hf⟩
  · unfold treeMapGen
    simp only [h, hrest, hargs]
    cases hc : callAll f 0 ((List.range ls.length).map fun i => (ls :: restLeaves).map fun l => Arg.obj l[i]!) [] [] with
    | mk res log =>
      rw [hc] at hcalls
      simp only at hcalls
      subst hcalls
      simp [hu]
  · unfold treeMapGen
    simp only [h, hrest, hargs]
    cases hc : callAll f 0 ((List.range ls.length).map fun i => (ls :: restLeaves).map fun l => Arg.obj l[i]!) [] [] with
    | mk res log =>
      rw [hc] at hcalls hlog
      simp only at hcalls hlog
      subst hcalls
      simp [hlog]

/-! ### pure leaf functions: identity and composition -/

/-- a side-effect-free function of one leaf as a mapped function -/
def pureFn (g : PyObj → PyObj) : UserFn :=
  fun _ a => match a with
    | [Arg.obj x] => .ok (g x)
    | _ => .error .internal

theorem callAll_pure (g : PyObj → PyObj) : ∀ (xs : List PyObj) (i : Nat) (acc : List PyObj) (log : List (List Arg)),
    (callAll (pureFn g) i (xs.map fun x => [Arg.obj x]) acc log).1 = .ok (acc.reverse ++ xs.map g)
  | [], _, _, _ => by simp [callAll]
  | x :: xs, i, acc, log => by
      have hx : pureFn g i [Arg.obj x] = .ok (g x) := rfl
      simp only [List.map_cons, callAll, hx]
      rw [callAll_pure g xs (i + 1) (g x :: acc) ([Arg.obj x] :: log)]
      simp

theorem args_single (ls : List PyObj) :
    ((List.range ls.length).map fun i => [ls].map fun l => Arg.obj l[i]!) = ls.map fun x => [Arg.obj x] := by
  apply List.ext_getElem
  · simp
  · intro i h1 h2
    have hi : i < ls.length := by simpa using h1
    simp [hi]

/-- **`tree_map(g, t)` for a pure `g` is `unflatten(treespec(t), [g(x) for x in leaves(t)])`** -/
theorem C05_map_pure (cfg : Cfg) (g : PyObj → PyObj) (t : PyObj) (ls : List PyObj) (sp : Spec)
    (h : flatten cfg t = .ok (ls, sp)) :
    (treeMapGen cfg .plain false (pureFn g) t []).result = unflatten sp (ls.map g) := by
  have hcols := zipArgs_same_length ls [] (by simp)
  have hargs : (List.range (min (ls.map fun _ => ([] : List Arg)).length (zipArgs [ls]).length)).map
      (fun i => (ls.map fun _ => ([] : List Arg))[i]! ++ ((zipArgs [ls])[i]!).map Arg.obj) =
      ls.map fun x => [Arg.obj x] := by
    rw [← args_single, hcols]
    simp only [List.length_map, List.length_range, Nat.min_self]
    apply List.map_congr_left
    intro i hi
    have hi' : i < ls.length := by simpa using hi
    simp [hi']
  unfold treeMapGen
  simp only [h, List.mapM_nil, pure, Except.pure, hargs]
  have hc := callAll_pure g ls 0 [] []
  cases hcc : callAll (pureFn g) 0 (ls.map fun x => [Arg.obj x]) [] [] with
  | mk res log =>
    rw [hcc] at hc
    simp only at hc
    subst hc
    simp

/-- **identity map**: `tree_map(lambda x: x, t)` rebuilds `t` (the model identifies a container with its contents:
"a structurally identical copy built from the same leaf objects") -/
theorem C05_map_identity (cfg : Cfg) (hreg : cfg.reg.OK) (t : PyObj) (ht : t.wf = true) (ls : List PyObj)
    (sp : Spec) (h : flatten cfg t = .ok (ls, sp)) :
    (treeMapGen cfg .plain false (pureFn id) t []).result = .ok t := by
  rw [C05_map_pure cfg id t ls sp h]
  simp [C01_roundtrip cfg hreg t ht ls sp h]

/-- **`map(f ∘ g) = map(f) ∘ map(g)` for leaf-valued `g`**: mapping `g` first gives a tree of the same structure
whose leaves are the `g x`; mapping `f` over it is mapping `f ∘ g` over `t` -/
theorem C05_map_compose (cfg : Cfg) (hreg : cfg.reg.OK) (hst : PredOnLeaves cfg) (f g : PyObj → PyObj) (t : PyObj)
    (ht : t.wf = true) (ls : List PyObj) (sp : Spec) (h : flatten cfg t = .ok (ls, sp))
    (hg : ∀ x ∈ ls, LeafObj cfg (g x)) :
    ∃ tg, (treeMapGen cfg .plain false (pureFn g) t []).result = .ok tg ∧
      (treeMapGen cfg .plain false (pureFn f) tg []).result =
        (treeMapGen cfg .plain false (pureFn (f ∘ g)) t []).result := by
  obtain ⟨tg, hu, hf⟩ := C01_replace_leaves cfg hreg hst t ht ls sp h (ls.map g) (by simp)
    (by intro x hx; simp only [List.mem_map] at hx; obtain ⟨y, hy, rfl⟩ := hx; exact hg y hy)
  refine ⟨tg, by rw [C05_map_pure cfg g t ls sp h]; exact hu, ?_⟩
  rw [C05_map_pure cfg f tg (ls.map g) sp hf, C05_map_pure cfg (f ∘ g) t ls sp h]
  simp [List.map_map]


/-! ### the with_path variant -/

/-- **`tree_map_with_path(f, t, *rests)`**: the same as `tree_map`, and every call additionally receives, first, the
path of its leaf: the i-th argument tuple is `(path_i, leaf_i, subs_1[i], …)` where `path_i` is the i-th path of
`flatten_with_path` (= the i-th path of the treespec, `C03_paths_agree`) -/
theorem C05_map_with_path_result (cfg : Cfg) (hreg : cfg.reg.OK) (hst : PredOnLeaves cfg) (f : UserFn) (t : PyObj)
    (rests : List PyObj) (ht : t.wf = true) (ps : List (List Key)) (ls : List PyObj) (sp : Spec)
    (h : flattenWithPath cfg t = .ok (ps, ls, sp)) (hpl : ps.length = ls.length)
    (restLeaves : List (List PyObj)) (hrest : rests.mapM (flattenUpTo cfg.reg sp) = .ok restLeaves)
    (hlen : ∀ l ∈ restLeaves, l.length = ls.length)
    (rs : List PyObj)
    (hcalls : (callAll f 0 ((List.range ls.length).map fun i =>
        Arg.path ps[i]! :: (ls :: restLeaves).map fun l => Arg.obj l[i]!) [] []).1 = .ok rs)
    (hleafy : ∀ x ∈ rs, LeafObj cfg x) :
    ∃ r, (treeMapGen cfg .withPath false f t rests).result = .ok r ∧
      (treeMapGen cfg .withPath false f t rests).log =
        ((List.range ls.length).map fun i => Arg.path ps[i]! :: (ls :: restLeaves).map fun l => Arg.obj l[i]!) ∧
      flatten cfg r = .ok (rs, sp) := by
  have hflat : flatten cfg t = .ok (ls, sp) := by
    rw [← C03_flatten_with_path_agrees cfg t ht, h]; rfl
  have hcols := zipArgs_same_length ls restLeaves hlen
  obtain ⟨hlog, hrl⟩ := C05_calls_in_order f _ rs hcalls
  have hrl' : rs.length = ls.length := by simpa using hrl
  obtain ⟨r, hu, hf⟩ := C01_replace_leaves cfg hreg hst t ht ls sp hflat rs hrl' hleafy
  have hargs : (List.range (min (ps.map fun p => [Arg.path p]).length (zipArgs (ls :: restLeaves)).length)).map
      (fun i => (ps.map fun p => [Arg.path p])[i]! ++ ((zipArgs (ls :: restLeaves))[i]!).map Arg.obj) =
      (List.range ls.length).map fun i => Arg.path ps[i]! :: (ls :: restLeaves).map fun l => Arg.obj l[i]! := by
    rw [hcols]
    simp only [List.length_map, List.length_range, hpl, Nat.min_self]
    apply List.map_congr_left
    intro i hi
    have hi' : i < ls.length := by simpa using hi
    have hi'' : i < ps.length := by omega
    simp [hi', hi'', List.map_map, Function.comp_def]
  refine ⟨r, ?_, ?_, hf⟩
  · unfold treeMapGen
    simp only [h, hrest, hargs]
    cases hc : callAll f 0 ((List.range ls.length).map fun i =>
        Arg.path ps[i]! :: (ls :: restLeaves).map fun l => Arg.obj l[i]!) [] [] with
    | mk res log =>
      rw [hc] at hcalls
      simp only at hcalls
      subst hcalls
      simp [hu]
  · unfold treeMapGen
    simp only [h, hrest, hargs]
    cases hc : callAll f 0 ((List.range ls.length).map fun i =>
        Arg.path ps[i]! :: (ls :: restLeaves).map fun l => Arg.obj l[i]!) [] [] with
    | mk res log =>
      rw [hc] at hcalls hlog
      simp only at hcalls hlog
      subst hcalls
      simp [hlog]


/-- **the underscore variants make the same calls**: the call log of `tree_map_` / `tree_map_with_path_` /
`tree_map_with_accessor_` is the call log of the variant without underscore, whatever happens -/
theorem C05_inplace_same_calls (cfg : Cfg) (variant : MapVariant) (f : UserFn) (t : PyObj) (rests : List PyObj) :
    (treeMapGen cfg variant true f t rests).log = (treeMapGen cfg variant false f t rests).log := by
  unfold treeMapGen
  simp only
  repeat' split
  all_goals first | rfl | simp_all

/-! ### the with_accessor variant -/

/-- **`tree_map_with_accessor(f, t, *rests)`**: the same as `tree_map`, and every call additionally receives, first,
the accessor of its leaf: the i-th argument tuple is `(accessor_i, leaf_i, subs_1[i], …)` where `accessor_i` is the
i-th accessor of the treespec -/
theorem C05_map_with_accessor_result (cfg : Cfg) (hreg : cfg.reg.OK) (hst : PredOnLeaves cfg) (f : UserFn) (t : PyObj)
    (rests : List PyObj) (ht : t.wf = true) (ls : List PyObj) (sp : Spec)
    (h : flatten cfg t = .ok (ls, sp)) (as : List (List AccEntry)) (hacc : accessors sp = .ok as)
    (hal : as.length = ls.length)
    (restLeaves : List (List PyObj)) (hrest : rests.mapM (flattenUpTo cfg.reg sp) = .ok restLeaves)
    (hlen : ∀ l ∈ restLeaves, l.length = ls.length)
    (rs : List PyObj)
    (hcalls : (callAll f 0 ((List.range ls.length).map fun i =>
        Arg.acc as[i]! :: (ls :: restLeaves).map fun l => Arg.obj l[i]!) [] []).1 = .ok rs)
    (hleafy : ∀ x ∈ rs, LeafObj cfg x) :
    ∃ r, (treeMapGen cfg .withAccessor false f t rests).result = .ok r ∧
      (treeMapGen cfg .withAccessor false f t rests).log =
        ((List.range ls.length).map fun i => Arg.acc as[i]! :: (ls :: restLeaves).map fun l => Arg.obj l[i]!) ∧
      flatten cfg r = .ok (rs, sp) := by
  have hcols := zipArgs_same_length ls restLeaves hlen
  obtain ⟨hlog, hrl⟩ := C05_calls_in_order f _ rs hcalls
  have hrl' : rs.length = ls.length := by simpa using hrl
  obtain ⟨r, hu, hf⟩ := C01_replace_leaves cfg hreg hst t ht ls sp h rs hrl' hleafy
  have hargs : (List.range (min (as.map fun a => [Arg.acc a]).length (zipArgs (ls :: restLeaves)).length)).map
      (fun i => (as.map fun a => [Arg.acc a])[i]! ++ ((zipArgs (ls :: restLeaves))[i]!).map Arg.obj) =
      (List.range ls.length).map fun i => Arg.acc as[i]! :: (ls :: restLeaves).map fun l => Arg.obj l[i]! := by
    rw [hcols]
    simp only [List.length_map, List.length_range, hal, Nat.min_self]
    apply List.map_congr_left
    intro i hi
    have hi' : i < ls.length := by simpa using hi
    have hi'' : i < as.length := by omega
    simp [hi', hi'', List.map_map, Function.comp_def]
  refine ⟨r, ?_, ?_, hf⟩
  · unfold treeMapGen
    simp only [h, hrest, hacc, hargs]
    cases hc : callAll f 0 ((List.range ls.length).map fun i =>
        Arg.acc as[i]! :: (ls :: restLeaves).map fun l => Arg.obj l[i]!) [] [] with
    | mk res log =>
      rw [hc] at hcalls
      simp only at hcalls
      subst hcalls
      simp [hu]
  · unfold treeMapGen
    simp only [h, hrest, hacc, hargs]
    cases hc : callAll f 0 ((List.range ls.length).map fun i =>
        Arg.acc as[i]! :: (ls :: restLeaves).map fun l => Arg.obj l[i]!) [] [] with
    | mk res log =>
      rw [hc] at hcalls hlog
      simp only at hcalls hlog
      subst hcalls
      simp [hlog]

/-- without a predicate the accessors exist, one per leaf, and the accessor handed to the i-th call leads from the
tree to the i-th leaf (`C04_accessors_of_flatten`) -/
theorem C05_map_with_accessor_reaches (cfg : Cfg) (hp : cfg.pred = Option.none) (t : PyObj) (ht : t.wf = true)
    (ls : List PyObj) (sp : Spec) (h : flatten cfg t = .ok (ls, sp)) (hns : sp.ns = cfg.ns) :
    ∃ as, accessors sp = .ok as ∧ as.length = ls.length ∧
      ∀ (i : Nat) (a : List AccEntry) (x : PyObj), as[i]? = some a → ls[i]? = some x →
        PyObj.follow cfg t (pathOf a) = some x := by
  obtain ⟨as, h1, _, h3, _, h5⟩ := C04_accessors_of_flatten cfg hp t ht ls sp h hns
  exact ⟨as, h1, h3, h5⟩


end Optree
