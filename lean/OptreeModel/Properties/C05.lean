/-
  C05  tree_map family calls the function once per leaf, in order, on aligned arguments.

  `treeMapGen` is ops.py's `tree_map*` line by line (Model/Ops.lean); the statements below are about
  that model, for every tree, every list of rests, every user function and every configuration.
  What `flattenUpTo` returns per leaf (the subtree at the leaf's path) is C07's subject; what
  `unflatten` builds is C01's.
-/
import OptreeModel.Model.Ops

namespace Optree

theorem callAll_log_ok (f : UserFn) (args : List (List Arg)) (i : Nat) (acc : List PyObj)
    (log : List (List Arg)) (rs : List PyObj) (h : (callAll f i args acc log).1 = .ok rs) :
    (callAll f i args acc log).2 = log.reverse ++ args ∧ rs.length = acc.length + args.length := by
  induction args generalizing i acc log with
  | nil =>
    simp only [callAll, Except.ok.injEq] at h
    subst h
    simp [callAll]
  | cons a as ih =>
    cases hr : f i a with
    | error e => simp [callAll, hr] at h
    | ok r =>
      simp only [callAll, hr] at h ⊢
      obtain ⟨h1, h2⟩ := ih (i + 1) (r :: acc) (a :: log) h
      exact ⟨by simp [h1], by simp [h2]; omega⟩

/-- **Once per leaf, in order.**  When the mapped function never raises, the call log is exactly the
list of argument tuples, one per leaf in flatten order, and there are as many results as calls. -/
theorem C05_calls_in_order (f : UserFn) (args : List (List Arg)) (rs : List PyObj)
    (h : (callAll f 0 args [] []).1 = .ok rs) :
    (callAll f 0 args [] []).2 = args ∧ rs.length = args.length := by
  have := callAll_log_ok f args 0 [] [] rs h
  simpa using this

/-- the calls made before a failure are a prefix of the argument tuples (no call is skipped or
repeated), and the failing call is the last one logged -/
theorem C05_calls_prefix (f : UserFn) (args : List (List Arg)) (i : Nat) (acc : List PyObj)
    (log : List (List Arg)) :
    ∃ k, (callAll f i args acc log).2 = log.reverse ++ args.take k := by
  induction args generalizing i acc log with
  | nil => exact ⟨0, by simp [callAll]⟩
  | cons a as ih =>
    unfold callAll
    split
    · exact ⟨1, by simp⟩
    · rename_i r _
      obtain ⟨k, hk⟩ := ih (i + 1) (r :: acc) (a :: log)
      exact ⟨k + 1, by rw [hk]; simp⟩

/-- **A rest that is not a suffix fails before `f` is called at all** (the error is whatever
`flatten_up_to` raised: a `ValueError` by C07), for all six variants. -/
theorem C05_prefix_failure_before_calls (cfg : Cfg) (variant : MapVariant) (inplace : Bool)
    (f : UserFn) (t : PyObj) (rests : List PyObj) (ls : List PyObj) (sp : Spec) (e : Err)
    (hflat : flatten cfg t = .ok (ls, sp))
    (hwp : ∃ ps ls', flattenWithPath cfg t = .ok (ps, ls', sp))
    (hrest : rests.mapM (flattenUpTo cfg.reg sp) = .error e) :
    (treeMapGen cfg variant inplace f t rests).result = .error e ∧
    (treeMapGen cfg variant inplace f t rests).log = [] := by
  unfold treeMapGen
  cases variant
  · simp [hflat, hrest]
  · obtain ⟨ps, ls', hp⟩ := hwp
    simp [hp, hrest]
  · simp [hflat, hrest]

/-- the underscore variants return the original tree object -/
theorem C05_inplace_returns_tree (cfg : Cfg) (variant : MapVariant) (f : UserFn) (t : PyObj)
    (rests : List PyObj) (r : PyObj)
    (h : (treeMapGen cfg variant true f t rests).result = .ok r) : r = t := by
  unfold treeMapGen at h
  simp only at h
  repeat' split at h
  all_goals first
    | (simp at h; done)
    | (simp at h; exact h.symm)
    | skip
  all_goals simp_all

end Optree
