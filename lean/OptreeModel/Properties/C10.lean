/-
  C10  Transposition swaps outer and inner structure without losing or moving values.

  The list-level core of `tree_transpose` (ops.py:1053-1128): the leaves are cut into `m` rows of
  `n`, the rows are transposed (`zip(*rows)`), each column becomes an outer-shaped subtree and the
  inner treespec is unflattened over them.  What `unflatten` builds is C01's subject.
-/
import OptreeModel.Model.Ops
import OptreeModel.Lemmas.GraftBuild
import OptreeModel.Properties.C01
import OptreeModel.Properties.C02

namespace Optree

theorem chunks_length (n m : Nat) (xs : List PyObj) : (chunks n m xs).length = m := by
  induction m generalizing xs with
  | zero => rfl
  | succ k ih => simp [chunks, ih]

/-- cutting `m * n` leaves into `m` rows of `n` loses nothing and moves nothing -/
theorem C10_chunks_flatten (n m : Nat) (xs : List PyObj) (h : xs.length = m * n) :
    (chunks n m xs).flatten = xs := by
  induction m generalizing xs with
  | zero => simp at h; subst h; rfl
  | succ k ih =>
    simp only [chunks, List.flatten_cons]
    rw [ih (xs.drop n) (by simp [h, Nat.succ_mul])]
    exact List.take_append_drop n xs

/-- every row has exactly `n` entries -/
theorem C10_chunks_row_length (n m : Nat) (xs : List PyObj) (h : xs.length = m * n) :
    ∀ r ∈ chunks n m xs, r.length = n := by
  induction m generalizing xs with
  | zero => intro r hr; simp [chunks] at hr
  | succ k ih =>
    intro r hr
    simp only [chunks, List.mem_cons] at hr
    rcases hr with hr | hr
    · subst hr
      simp [h, Nat.succ_mul]
    · exact ih (xs.drop n) (by simp [h, Nat.succ_mul]) r hr

/-- the i-th row holds the leaves `i*n … i*n+n-1` (outer leaf `i`, inner leaves in order) -/
theorem C10_chunks_get (n m : Nat) (xs : List PyObj) (i : Nat) (hi : i < m) :
    (chunks n m xs)[i]? = some ((xs.drop (i * n)).take n) := by
  induction m generalizing xs i with
  | zero => omega
  | succ k ih =>
    cases i with
    | zero => simp [chunks]
    | succ j =>
      simp only [chunks, List.getElem?_cons_succ]
      rw [ih (xs.drop n) j (by omega)]
      simp [List.drop_drop, Nat.succ_mul, Nat.add_comm]

/-- `zip(*rows)` of `m > 0` rows of equal length `n` has `n` columns of `m` entries, and column `j`
lists the `j`-th entry of every row: the value at (inner `j`, outer `i`) is the input's value at
(outer `i`, inner `j`) -/
theorem C10_transpose_rows (rows : List (List PyObj)) (n : Nat) (hne : rows ≠ [])
    (hrow : ∀ r ∈ rows, r.length = n) :
    transposeRows rows = (List.range n).map fun j => rows.map fun r => r[j]! := by
  unfold transposeRows zipArgs
  cases rows with
  | nil => exact absurd rfl hne
  | cons r rs =>
    simp only
    have hmin : ((r :: rs).map List.length).foldl min (r :: rs).head!.length = n := by
      have h0 : r.length = n := hrow r (by simp)
      have : ∀ (ls : List (List PyObj)) (acc : Nat), (∀ l ∈ ls, l.length = n) → acc = n →
          (ls.map List.length).foldl min acc = n := by
        intro ls
        induction ls with
        | nil => intro acc _ ha; simpa using ha
        | cons l ls ih =>
          intro acc hl ha
          simp only [List.map_cons, List.foldl_cons]
          apply ih _ (fun l' hl' => hl l' (by simp [hl']))
          rw [ha, hl l (by simp)]
          exact Nat.min_self n
      exact this (r :: rs) _ hrow (by show r.length = n; exact h0)
    rw [hmin]

/-- the guards of `tree_transpose`: empty structures and mismatching `none_is_leaf` are rejected -/
theorem C10_rejects (cfg : Cfg) (outer inner : Spec) (t : PyObj)
    (h : outer.noneIsLeaf ≠ inner.noneIsLeaf ∨
         (outer.sane = true ∧ inner.sane = true ∧ (outer.numLeaves = 0 ∨ inner.numLeaves = 0))) :
    treeTranspose cfg outer inner t = .error .value := by
  unfold treeTranspose
  rcases h with h | ⟨h1, h2, h3⟩
  · simp [h]
  · by_cases hn : outer.noneIsLeaf = inner.noneIsLeaf
    · simp only [hn, bne_self_eq_false, Bool.false_eq_true, if_false, h1, h2, Bool.not_true,
        Bool.or_self]
      rcases h3 with h3 | h3 <;> simp [h3]
    · simp [hn]

/-- a tree whose leaf count is not `m * n` is rejected (with `TypeError`, or with the error of
`outer.compose(inner)` if even that fails) -/
theorem C10_wrong_count (cfg : Cfg) (outer inner : Spec) (t : PyObj) (r : PyObj)
    (h : treeTranspose cfg outer inner t = .ok r) :
    ∃ ls sp, flatten { cfg with noneIsLeaf := outer.noneIsLeaf,
                                 ns := if outer.ns != "" then outer.ns else inner.ns } t = .ok (ls, sp) ∧
      sp.numLeaves = outer.numLeaves * inner.numLeaves := by
  unfold treeTranspose at h
  split at h; · simp at h
  split at h; · simp at h
  simp only at h
  split at h; · simp at h
  split at h; · simp at h
  split at h; · simp at h
  rename_i ls sp hflat
  split at h
  · split at h <;> simp at h
  · rename_i hc
    exact ⟨ls, sp, hflat, by simpa using hc⟩

/-! ### non-vacuity -/

example : chunks 2 3 [.leaf 0 1, .leaf 0 2, .leaf 0 3, .leaf 0 4, .leaf 0 5, .leaf 0 6] =
    [[.leaf 0 1, .leaf 0 2], [.leaf 0 3, .leaf 0 4], [.leaf 0 5, .leaf 0 6]] := by rfl


/-! ### transposition at the level of trees

`tree_transpose(outer, inner, t)` = `inner.unflatten([outer.unflatten(col) for col in zip(*rows)])`.
`Lemmas/GraftBuild.lean` says what `unflatten` builds when it is handed trees: the shape with the trees' shapes
grafted onto its leaves, and the trees' leaves in order. -/

theorem mapM_unflatten_graft (cfg : Cfg) (hreg : cfg.reg.OK) (hp : cfg.pred = Option.none) (to : PyObj)
    (hwo : to.wf = true) (lo : List PyObj) (so : Spec) (ho : flatten cfg to = .ok (lo, so)) :
    ∀ cols : List (List PyObj), (∀ c ∈ cols, c.length = lo.length) →
      ∃ os, cols.mapM (unflatten so) = .ok os ∧ os.length = cols.length ∧
        ∀ (j : Nat) (c : List PyObj) (o : PyObj), cols[j]? = some c → os[j]? = some o →
          Gpost cfg (!cfg.insertionOrdered) to c o
  | [], _ => ⟨[], rfl, rfl, by intro j c o h; simp at h⟩
  | c :: cols, h => by
      obtain ⟨o, hu, hg⟩ := unflatten_graft cfg hreg hp to hwo lo so ho c (h c (by simp))
      obtain ⟨os, hm, hl, hall⟩ := mapM_unflatten_graft cfg hreg hp to hwo lo so ho cols
        (fun c' hc' => h c' (by simp [hc']))
      refine ⟨o :: os, by simp [List.mapM_cons, hu, hm, bind, Except.bind, pure, Except.pure], by simp [hl], ?_⟩
      intro j c' o' h1 h2
      cases j with
      | zero => simp at h1 h2; subst h1; subst h2; exact hg
      | succ j => simp at h1 h2; exact hall j c' o' h1 h2

theorem flatMap_leaflike (f : PyObj → List PyObj) : ∀ c : List PyObj, (∀ x ∈ c, f x = [x]) → c.flatMap f = c
  | [], _ => rfl
  | y :: c, h => by
      simp only [List.flatMap_cons]
      rw [h y (by simp), flatMap_leaflike f c (fun x hx => h x (by simp [hx]))]
      rfl

theorem cfg_eta (cfg : Cfg) (hns : cfg.ns = "") :
    ({ cfg with noneIsLeaf := cfg.noneIsLeaf, ns := "" } : Cfg) = cfg := by
  cases cfg; simp_all

/-- **`tree_transpose` at tree level** (global namespace, no predicate): for an outer tree with `m > 0` leaves, an
inner tree with `n > 0` leaves and any tree `t` with `m * n` leaves, the result has the shape *inner-of-outer*
(`compose` at tree level: every leaf of the inner shape replaced by the outer shape) and its leaves are the
columns of the `m × n` leaf matrix of `t`, one after the other — the value at (inner leaf `j`, outer leaf `i`) is
the input's value at (outer leaf `i`, inner leaf `j`) by `C10_transpose_rows` / `C10_chunks_get`. -/
theorem C10_transpose_tree (cfg : Cfg) (hreg : cfg.reg.OK) (hp : cfg.pred = Option.none) (hns : cfg.ns = "")
    (to ti t : PyObj) (hwo : to.wf = true) (hwi : ti.wf = true) (hwt : t.wf = true)
    (lo : List PyObj) (so : Spec) (ho : flatten cfg to = .ok (lo, so))
    (li : List PyObj) (si : Spec) (hi : flatten cfg ti = .ok (li, si))
    (lt : List PyObj) (st : Spec) (ht : flatten cfg t = .ok (lt, st))
    (hm : lo.length ≠ 0) (hn : li.length ≠ 0) (hcount : lt.length = lo.length * li.length) :
    ∃ r, treeTranspose cfg so si t = .ok r ∧
      shapeOf cfg (!cfg.insertionOrdered) r =
        (shapeOf cfg (!cfg.insertionOrdered) ti).subst (shapeOf cfg (!cfg.insertionOrdered) to) ∧
      leavesOf cfg (!cfg.insertionOrdered) r = (transposeRows (chunks li.length lo.length lt)).flatten := by
  obtain ⟨sno, nlo⟩ := C01_flatten_sane cfg to lo so ho
  obtain ⟨sni, nli⟩ := C01_flatten_sane cfg ti li si hi
  obtain ⟨_, nlt⟩ := C01_flatten_sane cfg t lt st ht
  obtain ⟨nso, nilo⟩ : (so.ns = cfg.ns ∨ so.ns = "") ∧ so.noneIsLeaf = cfg.noneIsLeaf := by
    unfold flatten at ho; simp only at ho; split at ho
    · simp at ho
    · simp only [Except.ok.injEq, Prod.mk.injEq] at ho; obtain ⟨_, h2⟩ := ho; subst h2
      simp only [and_true]; split <;> simp
  obtain ⟨nsi, nili⟩ : (si.ns = cfg.ns ∨ si.ns = "") ∧ si.noneIsLeaf = cfg.noneIsLeaf := by
    unfold flatten at hi; simp only at hi; split at hi
    · simp at hi
    · simp only [Except.ok.injEq, Prod.mk.injEq] at hi; obtain ⟨_, h2⟩ := hi; subst h2
      simp only [and_true]; split <;> simp
  have eso : so.ns = "" := by rcases nso with h | h <;> simp [h, hns]
  have esi : si.ns = "" := by rcases nsi with h | h <;> simp [h, hns]
  -- the columns
  have hrows := C10_chunks_row_length li.length lo.length lt hcount
  have hrl := chunks_length li.length lo.length lt
  have hne : chunks li.length lo.length lt ≠ [] := by
    intro e; rw [e] at hrl; simp at hrl; exact hm hrl.symm
  have hcols := C10_transpose_rows (chunks li.length lo.length lt) li.length hne hrows
  have hflat := C10_chunks_flatten li.length lo.length lt hcount
  have hmem : ∀ c ∈ transposeRows (chunks li.length lo.length lt), c.length = lo.length ∧ ∀ x ∈ c, x ∈ lt := by
    intro c hc
    rw [hcols] at hc
    simp only [List.mem_map, List.mem_range] at hc
    obtain ⟨j, hj, rfl⟩ := hc
    refine ⟨by simp [hrl], ?_⟩
    intro x hx
    simp only [List.mem_map] at hx
    obtain ⟨r, hr, rfl⟩ := hx
    have hlen := hrows r hr
    have : r[j]! = r[j]'(by omega) := by simp [getElem!_pos, hlen, hj]
    rw [this, ← hflat]
    exact List.mem_flatten.mpr ⟨r, hr, List.getElem_mem _⟩
  obtain ⟨os, hmap, hosl, hpost⟩ := mapM_unflatten_graft cfg hreg hp to hwo lo so ho
    (transposeRows (chunks li.length lo.length lt)) (fun c hc => (hmem c hc).1)
  have hcl : (transposeRows (chunks li.length lo.length lt)).length = li.length := by rw [hcols]; simp
  obtain ⟨r, hur, hgr⟩ := unflatten_graft cfg hreg hp ti hwi li si hi os (by rw [hosl, hcl])
  -- leaves of `t` are leaf-like
  have hleaf : ∀ x ∈ lt, LeafLike cfg (!cfg.insertionOrdered) x := by
    intro x hx
    rw [C02_leaf_order cfg t lt st ht] at hx
    exact leafLike_of_mem cfg hp _ t hwt x hx
  obtain ⟨e_to, hlo⟩ := flatten_shapeOf cfg hp to hwo lo so ho
  obtain ⟨e_ti, hli⟩ := flatten_shapeOf cfg hp ti hwi li si hi
  -- every column tree has the outer shape and the column as its leaves
  have hos : ∀ (j : Nat) (c : List PyObj) (o : PyObj), (transposeRows (chunks li.length lo.length lt))[j]? = some c →
      os[j]? = some o → shapeOf cfg (!cfg.insertionOrdered) o = shapeOf cfg (!cfg.insertionOrdered) to ∧
        leavesOf cfg (!cfg.insertionOrdered) o = c := by
    intro j c o h1 h2
    obtain ⟨g1, g2, _⟩ := hpost j c o h1 h2
    obtain ⟨cl, cm⟩ := hmem c (List.mem_of_getElem? h1)
    refine ⟨?_, ?_⟩
    · rw [g1]
      apply STree.graftN_leaves
      · simp [cl, hlo]
      · intro x hx
        simp only [List.mem_map] at hx
        obtain ⟨y, hy, rfl⟩ := hx
        exact (hleaf y (cm y hy)).1
    · rw [g2]
      exact flatMap_leaflike _ c (fun x hx => (hleaf x (cm x hx)).2.1)
  refine ⟨r, ?_, ?_, ?_⟩
  · unfold treeTranspose
    have hnil : (so.noneIsLeaf != si.noneIsLeaf) = false := by simp [nilo, nili]
    have hz : (so.numLeaves == 0 || si.numLeaves == 0) = false := by
      simp [nlo, nli, hm, hn]
    have hcfg : ({ cfg with noneIsLeaf := so.noneIsLeaf, ns := "" } : Cfg) = cfg := by
      rw [nilo]; exact cfg_eta cfg hns
    simp only [hnil, Bool.false_eq_true, if_false, sno, sni, Bool.not_true, Bool.or_self, hz, eso, esi,
      bne_self_eq_false, Bool.and_false, ite_self]
    rw [hcfg, ht]
    simp only [nlt, nlo, nli, hcount, bne_self_eq_false, Bool.false_eq_true, if_false, hmap, hur]
  · rw [hgr.1]
    have : os.map (shapeOf cfg (!cfg.insertionOrdered)) =
        List.replicate (shapeOf cfg (!cfg.insertionOrdered) ti).leaves (shapeOf cfg (!cfg.insertionOrdered) to) := by
      apply List.ext_getElem
      · rw [List.length_map, List.length_replicate, hosl, hcl, hli]
      · intro j h1 h2
        simp only [List.getElem_map, List.getElem_replicate]
        have hj : j < os.length := by simpa using h1
        have hjc : j < (transposeRows (chunks li.length lo.length lt)).length := by rw [← hosl]; exact hj
        exact (hos j _ os[j] (List.getElem?_eq_getElem hjc) (List.getElem?_eq_getElem hj)).1
    rw [this, STree.graftN_replicate]
  · rw [hgr.2.1]
    have : ∀ (cs : List (List PyObj)) (ys : List PyObj), ys.length = cs.length →
        (∀ (j : Nat) (c : List PyObj) (o : PyObj), cs[j]? = some c → ys[j]? = some o → leavesOf cfg (!cfg.insertionOrdered) o = c) →
        ys.flatMap (leavesOf cfg (!cfg.insertionOrdered)) = cs.flatten := by
      intro cs
      induction cs with
      | nil =>
        intro ys hl _
        have : ys = [] := by simpa using hl
        subst this; rfl
      | cons c cs ih =>
        intro ys hl hall
        cases ys with
        | nil => simp at hl
        | cons y ys =>
          simp only [List.flatMap_cons, List.flatten_cons]
          rw [hall 0 c y (by simp) (by simp), ih ys (by simpa using hl)
            (fun j c' o' h1 h2 => hall (j + 1) c' o' (by simpa using h1) (by simpa using h2))]
    exact this _ os hosl (fun j c o h1 h2 => (hos j c o h1 h2).2)


/-- non-vacuity: outer `(*, *)`, inner `[*, *, *]`, the tree `([1,2,3], [4,5,6])` transposes to `[(1,4), (2,5), (3,6)]` -/
example :
    let cfg : Cfg := {}
    let to := PyObj.tuple [.leaf 0 101, .leaf 0 102]
    let ti := PyObj.list [.leaf 0 201, .leaf 0 202, .leaf 0 203]
    let t := PyObj.tuple [.list [.leaf 0 1, .leaf 0 2, .leaf 0 3], .list [.leaf 0 4, .leaf 0 5, .leaf 0 6]]
    (match flatten cfg to, flatten cfg ti with
     | .ok (_, so), .ok (_, si) =>
        (match treeTranspose cfg so si t with
         | .ok r => r == PyObj.list [.tuple [.leaf 0 1, .leaf 0 4], .tuple [.leaf 0 2, .leaf 0 5], .tuple [.leaf 0 3, .leaf 0 6]]
         | .error _ => false)
     | _, _ => false) = true := by decide

/-! ### transposing back -/

/-- **transposing twice gives the matrix back**: for `m > 0` rows of equal length `n > 0`,
`zip(*zip(*rows)) = rows` — the leaf matrix of `tree_transpose(inner, outer, tree_transpose(outer, inner, t))` is
the leaf matrix of `t` -/
theorem C10_transpose_involution (rows : List (List PyObj)) (n : Nat) (hne : rows ≠ []) (hn : n ≠ 0)
    (hrow : ∀ r ∈ rows, r.length = n) :
    transposeRows (transposeRows rows) = rows := by
  have h1 := C10_transpose_rows rows n hne hrow
  have hne' : transposeRows rows ≠ [] := by
    rw [h1]; intro h
    have := congrArg List.length h
    simp at this; exact hn this
  have hrow' : ∀ c ∈ transposeRows rows, c.length = rows.length := by
    intro c hc; rw [h1] at hc
    simp only [List.mem_map] at hc
    obtain ⟨j, _, rfl⟩ := hc; simp
  rw [C10_transpose_rows (transposeRows rows) rows.length hne' hrow', h1]
  apply List.ext_getElem
  · simp
  · intro i hi1 hi2
    have hi : i < rows.length := by simpa using hi1
    simp only [List.getElem_map, List.getElem_range, List.map_map]
    have hlen : rows[i].length = n := hrow _ (List.getElem_mem _)
    apply List.ext_getElem
    · simp [hlen]
    · intro j hj1 hj2
      have hj : j < n := by simpa using hj1
      simp [hi, hj, hlen]

/-- and on the flat leaf lists: chunk, transpose, flatten, then chunk the other way, transpose, flatten returns the leaves -/
theorem C10_transpose_leaves_involution (n m : Nat) (xs : List PyObj) (h : xs.length = m * n) (hm : m ≠ 0) (hn : n ≠ 0) :
    (transposeRows (transposeRows (chunks n m xs))).flatten = xs := by
  have hne : chunks n m xs ≠ [] := by
    intro e
    have := chunks_length n m xs
    rw [e] at this; simp at this; exact hm this.symm
  rw [C10_transpose_involution (chunks n m xs) n hne hn (C10_chunks_row_length n m xs h), C10_chunks_flatten n m xs h]


end Optree
