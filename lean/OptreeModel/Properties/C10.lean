/-
  C10  Transposition swaps outer and inner structure without losing or moving values.

  The list-level core of `tree_transpose` (ops.py:1053-1128): the leaves are cut into `m` rows of
  `n`, the rows are transposed (`zip(*rows)`), each column becomes an outer-shaped subtree and the
  inner treespec is unflattened over them.  What `unflatten` builds is C01's subject.
-/
import OptreeModel.Model.Ops

namespace Optree

theorem chunks_length (n m : Nat) (xs : List PyObj) : (chunks n m xs).length = m := by
  induction m generalizing xs with
  | zero => rfl
  | succ k ih => simp [chunks, ih]

/-- cutting `m * n` leaves into `m` rows of `n` loses nothing and moves nothing -/
theorem C10_chunks_flatten (n m : Nat) (xs : List PyObj) (h : xs.length = m * n) :
    (chunks n m xs).flatten = xs := by
  induction m generalizing xs with
  | zero => simp at h; subst h; rfl
  | succ k ih =>
    simp only [chunks, List.flatten_cons]
    rw [ih (xs.drop n) (by simp [h, Nat.succ_mul])]
    exact List.take_append_drop n xs

/-- every row has exactly `n` entries -/
theorem C10_chunks_row_length (n m : Nat) (xs : List PyObj) (h : xs.length = m * n) :
    ∀ r ∈ chunks n m xs, r.length = n := by
  induction m generalizing xs with
  | zero => intro r hr; simp [chunks] at hr
  | succ k ih =>
    intro r hr
    simp only [chunks, List.mem_cons] at hr
    rcases hr with hr | hr
    · subst hr
      simp [h, Nat.succ_mul]
    · exact ih (xs.drop n) (by simp [h, Nat.succ_mul]) r hr

/-- the i-th row holds the leaves `i*n … i*n+n-1` (outer leaf `i`, inner leaves in order) -/
theorem C10_chunks_get (n m : Nat) (xs : List PyObj) (i : Nat) (hi : i < m) :
    (chunks n m xs)[i]? = some ((xs.drop (i * n)).take n) := by
  induction m generalizing xs i with
  | zero => omega
  | succ k ih =>
    cases i with
    | zero => simp [chunks]
    | succ j =>
      simp only [chunks, List.getElem?_cons_succ]
      rw [ih (xs.drop n) j (by omega)]
      simp [List.drop_drop, Nat.succ_mul, Nat.add_comm]

/-- `zip(*rows)` of `m > 0` rows of equal length `n` has `n` columns of `m` entries, and column `j`
lists the `j`-th entry of every row: the value at (inner `j`, outer `i`) is the input's value at
(outer `i`, inner `j`) -/
theorem C10_transpose_rows (rows : List (List PyObj)) (n : Nat) (hne : rows ≠ [])
    (hrow : ∀ r ∈ rows, r.length = n) :
    transposeRows rows = (List.range n).map fun j => rows.map fun r => r[j]! := by
  unfold transposeRows zipArgs
  cases rows with
  | nil => exact absurd rfl hne
  | cons r rs =>
    simp only
    have hmin : ((r :: rs).map List.length).foldl min (r :: rs).head!.length = n := by
      have h0 : r.length = n := hrow r (by simp)
      have : ∀ (ls : List (List PyObj)) (acc : Nat), (∀ l ∈ ls, l.length = n) → acc = n →
          (ls.map List.length).foldl min acc = n := by
        intro ls
        induction ls with
        | nil => intro acc _ ha; simpa using ha
        | cons l ls ih =>
          intro acc hl ha
          simp only [List.map_cons, List.foldl_cons]
          apply ih _ (fun l' hl' => hl l' (by simp [hl']))
          rw [ha, hl l (by simp)]
          exact Nat.min_self n
      exact this (r :: rs) _ hrow (by show r.length = n; exact h0)
    rw [hmin]

/-- the guards of `tree_transpose`: empty structures and mismatching `none_is_leaf` are rejected -/
theorem C10_rejects (cfg : Cfg) (outer inner : Spec) (t : PyObj)
    (h : outer.noneIsLeaf ≠ inner.noneIsLeaf ∨
         (outer.sane = true ∧ inner.sane = true ∧ (outer.numLeaves = 0 ∨ inner.numLeaves = 0))) :
    treeTranspose cfg outer inner t = .error .value := by
  unfold treeTranspose
  rcases h with h | ⟨h1, h2, h3⟩
  · simp [h]
  · by_cases hn : outer.noneIsLeaf = inner.noneIsLeaf
    · simp only [hn, bne_self_eq_false, Bool.false_eq_true, if_false, h1, h2, Bool.not_true,
        Bool.or_self]
      rcases h3 with h3 | h3 <;> simp [h3]
    · simp [hn]

/-- a tree whose leaf count is not `m * n` is rejected (with `TypeError`, or with the error of
`outer.compose(inner)` if even that fails) -/
theorem C10_wrong_count (cfg : Cfg) (outer inner : Spec) (t : PyObj) (r : PyObj)
    (h : treeTranspose cfg outer inner t = .ok r) :
    ∃ ls sp, flatten { cfg with noneIsLeaf := outer.noneIsLeaf,
                                 ns := if outer.ns != "" then outer.ns else inner.ns } t = .ok (ls, sp) ∧
      sp.numLeaves = outer.numLeaves * inner.numLeaves := by
  unfold treeTranspose at h
  split at h; · simp at h
  split at h; · simp at h
  simp only at h
  split at h; · simp at h
  split at h; · simp at h
  split at h; · simp at h
  rename_i ls sp hflat
  split at h
  · split at h <;> simp at h
  · rename_i hc
    exact ⟨ls, sp, hflat, by simpa using hc⟩

/-! ### non-vacuity -/

example : chunks 2 3 [.leaf 0 1, .leaf 0 2, .leaf 0 3, .leaf 0 4, .leaf 0 5, .leaf 0 6] =
    [[.leaf 0 1, .leaf 0 2], [.leaf 0 3, .leaf 0 4], [.leaf 0 5, .leaf 0 6]] := by rfl

end Optree
