/-
  C20  tree_ravel and its unravel function are mutually inverse.
  (tree level: `tree_ravel = ravelLeaves ∘ flatten`, `unravel_func = unflatten ∘ unravel`; the
  flatten / unflatten round trip is C01.)  NumPy / JAX / PyTorch are not modelled: `lib.cast` and the
  promoted dtype are parameters with the stated laws as hypotheses.
-/
import OptreeModel.Model.Ravel

namespace Optree

theorem splitSizes_flatten (pieces : List (List Int)) :
    splitSizes (pieces.map List.length) pieces.flatten = pieces := by
  induction pieces with
  | nil => rfl
  | cons p ps ih => simp [splitSizes, ih]

theorem splitSizes_join (sizes : List Nat) (xs : List Int) (h : xs.length = sizes.sum) :
    (splitSizes sizes xs).flatten = xs ∧ (splitSizes sizes xs).map List.length = sizes := by
  induction sizes generalizing xs with
  | nil => simp at h; subst h; simp [splitSizes]
  | cons n ns ih =>
    simp only [List.sum_cons] at h
    obtain ⟨h1, h2⟩ := ih (xs.drop n) (by simp [h])
    refine ⟨by simp [splitSizes, h1], ?_⟩
    simp only [splitSizes, List.map_cons, List.length_take, h2]
    congr 1
    omega

/-- **ravel = concatenation in leaf order** of the raveled leaves converted to the promoted dtype,
and its length is the total number of elements -/
theorem C20_ravel_concat (lib : ArrLib) (to : Nat) (leaves : List Arr) (hne : leaves ≠ [])
    (hwf : ∀ a ∈ leaves, a.wf = true) :
    let flat := (ravelLeaves lib to leaves).1
    flat.dtype = to ∧ flat.shape = [(leaves.map Arr.size).sum] ∧
    flat.data.length = (leaves.map Arr.size).sum ∧
    (leaves.all (·.dtype == to) → flat.data = leaves.flatMap (·.data)) ∧
    (¬ leaves.all (·.dtype == to) → flat.data = leaves.flatMap fun a => a.data.map (lib.cast a.dtype to)) := by
  have hemp : leaves.isEmpty = false := by cases leaves <;> simp_all
  have hlen : ∀ (f : Arr → List Int), (∀ a ∈ leaves, (f a).length = a.size) →
      (leaves.flatMap f).length = (leaves.map Arr.size).sum := by
    intro f hf
    induction leaves with
    | nil => rfl
    | cons a as ih =>
      simp only [List.flatMap_cons, List.length_append, List.map_cons, List.sum_cons]
      rw [hf a (by simp)]
      by_cases hcs : as = []
      · subst hcs; simp
      · rw [ih hcs (fun b hb => hwf b (by simp [hb])) (by cases as <;> simp_all)
          (fun b hb => hf b (by simp [hb]))]
  have hsz : ∀ a ∈ leaves, a.data.length = a.size := by
    intro a ha; simpa [Arr.wf] using hwf a ha
  unfold ravelLeaves
  simp only [hemp, Bool.false_eq_true, if_false]
  split
  · rename_i hall
    exact ⟨rfl, rfl, hlen _ hsz, fun _ => rfl, fun h => absurd hall h⟩
  · rename_i hall
    exact ⟨rfl, rfl, hlen _ (fun a ha => by simp [hsz a ha]), fun h => absurd h hall, fun _ => rfl⟩

/-- the empty tree gives the empty array, and its unravel function only accepts shape (0,) -/
theorem C20_empty (lib : ArrLib) (to : Nat) :
    (ravelLeaves lib to []).1 = ⟨[0], lib.defaultDtype, []⟩ ∧
    unravel lib (ravelLeaves lib to []).2 ⟨[0], lib.defaultDtype, []⟩ = .ok [] ∧
    ∀ flat : Arr, flat.shape ≠ [0] → unravel lib (ravelLeaves lib to []).2 flat = .error .value := by
  refine ⟨rfl, rfl, ?_⟩
  intro flat h
  simp [ravelLeaves, unravel, h]

/-- **unravel ∘ ravel = id** when all leaves have the promoted dtype -/
theorem C20_unravel_ravel_single (lib : ArrLib) (to : Nat) (leaves : List Arr) (hne : leaves ≠ [])
    (hwf : ∀ a ∈ leaves, a.wf = true) (hall : leaves.all (·.dtype == to) = true) :
    unravel lib (ravelLeaves lib to leaves).2 (ravelLeaves lib to leaves).1 = .ok leaves := by
  have hemp : leaves.isEmpty = false := by cases leaves <;> simp_all
  unfold ravelLeaves
  simp only [hemp, Bool.false_eq_true, if_false, hall, if_true, unravel, bne_self_eq_false]
  have hsizes : leaves.map Arr.size = (leaves.map (·.data)).map List.length := by
    simp only [List.map_map, Function.comp_def]
    apply List.map_congr_left
    intro a ha
    have := hwf a ha
    simp only [Arr.wf, beq_iff_eq] at this
    exact this.symm
  have hflat : leaves.flatMap (·.data) = (leaves.map (·.data)).flatten := by
    simp [List.flatMap]
  rw [hsizes, hflat, splitSizes_flatten]
  simp only [Except.ok.injEq]
  have hd : ∀ a ∈ leaves, a.dtype = to := by
    intro a ha
    have := List.all_eq_true.mp hall a ha
    simpa using this
  clear hsizes hflat hemp hall hwf hne
  induction leaves with
  | nil => rfl
  | cons a as ih =>
    simp only [List.map_cons, List.zip_cons_cons, List.cons.injEq]
    refine ⟨?_, ih (fun b hb => hd b (by simp [hb]))⟩
    cases a with
    | mk s d dat => simp [← hd ⟨s, d, dat⟩ (by simp)]

/-- **unravel ∘ ravel = id** for mixed dtypes, provided every value survives the cast to the
promoted dtype and back (`v` is representable) -/
theorem C20_unravel_ravel_mixed (lib : ArrLib) (to : Nat) (leaves : List Arr) (hne : leaves ≠ [])
    (hwf : ∀ a ∈ leaves, a.wf = true) (hmixed : leaves.all (·.dtype == to) = false)
    (hcast : ∀ a ∈ leaves, ∀ v ∈ a.data, lib.cast to a.dtype (lib.cast a.dtype to v) = v) :
    unravel lib (ravelLeaves lib to leaves).2 (ravelLeaves lib to leaves).1 = .ok leaves := by
  have hemp : leaves.isEmpty = false := by cases leaves <;> simp_all
  unfold ravelLeaves
  simp only [hemp, Bool.false_eq_true, if_false, hmixed, unravel, bne_self_eq_false]
  have hsizes : leaves.map Arr.size =
      (leaves.map fun a => a.data.map (lib.cast a.dtype to)).map List.length := by
    simp only [List.map_map, Function.comp_def, List.length_map]
    apply List.map_congr_left
    intro a ha
    have := hwf a ha
    simp only [Arr.wf, beq_iff_eq] at this
    exact this.symm
  have hflat : (leaves.flatMap fun a => a.data.map (lib.cast a.dtype to)) =
      (leaves.map fun a => a.data.map (lib.cast a.dtype to)).flatten := by
    simp [List.flatMap]
  rw [hsizes, hflat, splitSizes_flatten]
  simp only [Except.ok.injEq]
  clear hsizes hflat hemp hmixed hwf hne
  induction leaves with
  | nil => rfl
  | cons a as ih =>
    simp only [List.map_cons, List.zip_cons_cons, List.cons.injEq]
    refine ⟨?_, ih (fun b hb v hv => hcast b (by simp [hb]) v hv)⟩
    cases a with
    | mk s d dat =>
      simp only [Arr.mk.injEq, true_and, List.map_map]
      have : ∀ v ∈ dat, (lib.cast to d ∘ lib.cast d to) v = v := fun v hv => hcast ⟨s, d, dat⟩ (by simp) v hv
      rw [List.map_congr_left this]
      simp

/-- **ravel ∘ unravel = id** on any 1-D array of the right length (single-dtype case; in the mixed
case additionally the right dtype and values that survive the two casts) -/
theorem C20_ravel_unravel_single (lib : ArrLib) (to : Nat) (sizes : List Nat) (shapes : List (List Nat))
    (flat : Arr) (hshape : flat.shape = [sizes.sum]) (hlen : flat.data.length = sizes.sum)
    (hsl : shapes.length = sizes.length) (out : List Arr)
    (h : unravel lib (.single sizes shapes) flat = .ok out) :
    out.flatMap (·.data) = flat.data ∧ out.map (·.shape) = shapes ∧ ∀ a ∈ out, a.dtype = flat.dtype := by
  simp only [unravel, hshape, bne_self_eq_false, Bool.false_eq_true, if_false, Except.ok.injEq] at h
  subst h
  obtain ⟨hj, hl⟩ := splitSizes_join sizes flat.data hlen
  have hlen2 : (splitSizes sizes flat.data).length = shapes.length := by
    have := congrArg List.length hl
    simpa [hsl] using this
  refine ⟨?_, ?_, ?_⟩
  · simp only [List.flatMap, List.map_map, Function.comp_def]
    have : ((splitSizes sizes flat.data).zip shapes).map (fun x => x.1) = splitSizes sizes flat.data :=
      List.map_fst_zip (by omega)
    rw [show (fun x : List Int × List Nat => ({ shape := x.2, dtype := flat.dtype, data := x.1 } : Arr).data)
        = fun x => x.1 from rfl, this, hj]
  · simp only [List.map_map, Function.comp_def]
    exact List.map_snd_zip (by omega)
  · intro a ha
    simp only [List.mem_map] at ha
    obtain ⟨_, _, rfl⟩ := ha
    rfl

/-- **rejections**: wrong shape always; wrong dtype when the leaves had mixed dtypes -/
theorem C20_rejects (lib : ArrLib) (sizes : List Nat) (shapes : List (List Nat)) (froms : List Nat)
    (to : Nat) (flat : Arr) :
    (flat.shape ≠ [sizes.sum] → unravel lib (.single sizes shapes) flat = .error .value) ∧
    (flat.shape ≠ [sizes.sum] → unravel lib (.mixed sizes shapes froms to) flat = .error .value) ∧
    (flat.dtype ≠ to → unravel lib (.mixed sizes shapes froms to) flat = .error .value) := by
  refine ⟨fun h => by simp [unravel, h], fun h => by simp [unravel, h], fun h => ?_⟩
  by_cases hs : flat.shape = [sizes.sum] <;> simp [unravel, hs, h]

/-! ### non-vacuity: rank-0, zero-size and ordinary leaves -/

def C20_lib : ArrLib := { cast := fun _ _ v => v, defaultDtype := 9 }
def C20_leaves : List Arr := [⟨[2, 2], 3, [1, 2, 3, 4]⟩, ⟨[], 3, [5]⟩, ⟨[0, 3], 3, []⟩, ⟨[3], 3, [6, 7, 8]⟩]

example : (∀ a ∈ C20_leaves, a.wf = true) ∧ C20_leaves.all (·.dtype == 3) = true := by decide
example : (ravelLeaves C20_lib 3 C20_leaves).1 = ⟨[8], 3, [1, 2, 3, 4, 5, 6, 7, 8]⟩ := by decide

end Optree
