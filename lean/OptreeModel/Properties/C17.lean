/-
  C17  Concurrent use from several threads is equivalent to some sequential use.
-/
import OptreeModel.Model.Threads
import OptreeModel.Properties.C12
import OptreeModel.Generated.Locks

namespace Optree

/-! ### no dead-lock when user code never runs under an engine mutex -/

/-- every thread follows the discipline from where it is, and only the running thread holds mutexes -/
structure TInv (s : TState) : Prop where
  ok : ∀ t, okProg (s.held t) (s.progs t) = true
  idle : ∀ t, t ≠ s.running → s.held t = []

theorem upd_same {α : Type} (f : Nat → α) (t : Nat) (v : α) : upd f t v t = v := by simp [upd]
theorem upd_other {α : Type} (f : Nat → α) (t u : Nat) (v : α) (h : u ≠ t) : upd f t v u = f u := by
  simp [upd, h]

/-- **One step never gets stuck, and the invariant is kept** — whatever the scheduler picks. -/
theorem tstep_inv (s : TState) (choice : Nat) (h : TInv s) :
    ∃ s', tstep s choice = .next s' ∧ TInv s' := by
  have hok := h.ok s.running
  cases hp : s.progs s.running with
  | nil =>
    rw [hp] at hok
    simp only [okProg, List.isEmpty_iff] at hok
    refine ⟨{ s with running := choice }, by simp [tstep, hp], ⟨h.ok, ?_⟩⟩
    intro t _
    by_cases ht : t = s.running
    · rw [ht]; exact hok
    · exact h.idle t ht
  | cons a rest =>
    rw [hp] at hok
    cases a with
    | acqE l =>
      simp only [okProg, Bool.and_eq_true, Bool.not_eq_true', List.contains_eq_mem,
        decide_eq_false_iff_not] at hok
      have h1 : l ∉ s.held s.running := hok.1
      have h2 : (List.range s.n).any (fun t' => t' != s.running && (s.held t').contains l) = false := by
        rw [List.any_eq_false]
        intro t' _
        by_cases ht : t' = s.running
        · simp [ht]
        · simp [h.idle t' ht]
      refine ⟨{ s with progs := upd s.progs s.running rest,
                       held := upd s.held s.running (l :: s.held s.running) },
              by simp only [tstep, hp, h1, if_false, h2, Bool.false_eq_true], ⟨?_, ?_⟩⟩
      · intro t
        by_cases ht : t = s.running
        · subst ht; simp only [upd_same]; exact hok.2
        · simp only [upd_other _ _ _ _ ht]; exact h.ok t
      · intro t ht
        have ht' : t ≠ s.running := ht
        simp only [upd_other _ _ _ _ ht']
        exact h.idle t ht'
    | relE l =>
      simp only [okProg, Bool.and_eq_true] at hok
      refine ⟨{ s with progs := upd s.progs s.running rest,
                       held := upd s.held s.running ((s.held s.running).erase l) },
              by simp [tstep, hp], ⟨?_, ?_⟩⟩
      · intro t
        by_cases ht : t = s.running
        · subst ht; simp only [upd_same]; exact hok.2
        · simp only [upd_other _ _ _ _ ht]; exact h.ok t
      · intro t ht
        have ht' : t ≠ s.running := ht
        simp only [upd_other _ _ _ _ ht']
        exact h.idle t ht'
    | cb =>
      simp only [okProg, Bool.and_eq_true, List.isEmpty_iff] at hok
      refine ⟨{ s with progs := upd s.progs s.running rest, running := choice },
              by simp [tstep, hp], ⟨?_, ?_⟩⟩
      · intro t
        by_cases ht : t = s.running
        · subst ht; simp only [upd_same]; rw [hok.1]; exact hok.2
        · simp only [upd_other _ _ _ _ ht]; exact h.ok t
      · intro t _
        by_cases ht : t = s.running
        · rw [ht]; exact hok.1
        · exact h.idle t ht
    | step =>
      simp only [okProg] at hok
      refine ⟨{ s with progs := upd s.progs s.running rest }, by simp [tstep, hp], ⟨?_, ?_⟩⟩
      · intro t
        by_cases ht : t = s.running
        · subst ht; simp only [upd_same]; exact hok
        · simp only [upd_other _ _ _ _ ht]; exact h.ok t
      · exact h.idle

/-- **Dead-lock freedom.**  If every operation's lock program keeps user code out of engine-mutex
scopes (`okProg`), then no schedule — any number of threads, any switch choices, any length — reaches
a state in which a thread waits for an engine mutex while holding the GIL. -/
theorem C17_deadlock_free (s : TState) (h : TInv s) (schedule : List Nat) :
    ∃ s', trun s schedule = some s' ∧ TInv s' := by
  induction schedule generalizing s with
  | nil => exact ⟨s, rfl, h⟩
  | cons c cs ih =>
    obtain ⟨s1, h1, hi1⟩ := tstep_inv s c h
    simp only [trun, h1]
    exact ih s1 hi1

/-- the initial state: nobody holds anything, every program follows the discipline -/
theorem C17_initial_inv (n : Nat) (progs : Nat → ThreadProg) (hp : ∀ t, okProg [] (progs t) = true)
    (r : Nat) : TInv ⟨n, progs, fun _ => [], r⟩ :=
  ⟨fun t => hp t, fun _ _ => rfl⟩

/-- **the converse**: one operation that runs user code inside a mutex scope and another that takes
the same mutex dead-lock under the schedule "switch at the callback" — the replay -/
theorem C17_callback_under_lock_deadlocks (l : Nat) :
    trun ⟨2, fun t => if t = 0 then [.acqE l, .cb, .relE l] else if t = 1 then [.acqE l, .relE l] else [],
          fun _ => [], 0⟩ [0, 1, 1] = Option.none := by
  simp [trun, tstep, upd, List.range, List.range.loop]

example : okProg [] [.acqE 0, .step, .relE 0, .cb, .acqE 1, .relE 1] = true := by decide
example : okProg [] [.acqE 0, .cb, .relE 0] = false := by decide

/-! ### obligation regenerated from the source on every run -/

/-- no engine-mutex scope in src/ or include/ contains a call that can re-enter Python (T-locks):
every lock program satisfies the discipline `C17_deadlock_free` needs -/
theorem C17_no_callback_under_engine_lock :
    Generated.lockProgs.all (fun p => okProg [] p.2) = true ∧ Generated.lockProgs.length ≥ 15 := by
  decide

/-- the scopes T-locks found cover the registry, the classification caches, the hash / repr guards
and the dict-order table -/
theorem C17_lock_scopes_found :
    ["src/registry.cpp:Lookup", "src/treespec/hashing.cpp:HashValue", "src/treespec/serialization.cpp:ToString",
     "include/optree/pytypes.h:IsNamedTupleClass", "include/optree/treespec.h:IsDictInsertionOrdered"].all
      (fun n => Generated.lockScopes.any (·.1 == n)) = true := by decide

/-! ### concurrent registrations of one (type, namespace)

`register_pytree_node` holds the Python registry lock and the engine write lock for the whole call and
(given the discipline above) runs no user code inside, so two concurrent calls are two calls in some
order.  In either order exactly one succeeds. -/

theorem find_append_self (t : RTable) (k : String) (c r : Nat) :
    ((t ++ [((k, c), r)]).find k c).isSome = true := by
  unfold RTable.find
  rw [Option.isSome_map, List.find?_isSome]
  exact ⟨((k, c), r), by simp, by simp⟩

theorem C17_register_once (info : Nat → ClsInfo) (w : Bool) (s : RState) (i j : Nat) (c : Nat)
    (ns : RNs) (bad : Bool) (h : (rstep info w s i (.reg c ns bad)).2 = Option.none) :
    (rstep info w (rstep info w s i (.reg c ns bad)).1 j (.reg c ns bad)).2.isSome = true := by
  apply C12_no_double
  simp only [rstep] at h ⊢
  split at h; · simp at h
  split at h; · simp at h
  split at h; · simp at h
  rename_i h1 h2 h3
  simp only [h1, h2, h3, Bool.false_eq_true, if_false]
  unfold engineRegister at h ⊢
  split at h; · simp at h
  split at h; · simp at h
  split at h; · simp at h
  rename_i h4 h5 h6
  simp only [h4, h5, h6, Bool.false_eq_true, if_false]
  exact find_append_self _ _ _ _

/-! ### a shared iterator hands each leaf to exactly one consumer -/

/-- what is still to come, in any order: the agenda and the nodes consumers are holding -/
def IterState.pendingOf (inflight : Nat → Option ITree) (cs : List Nat) : List Nat :=
  cs.flatMap fun c => match inflight c with | some x => x.leaves | Option.none => []

theorem leavesList_append (xs ys : List ITree) :
    ITree.leavesList (xs ++ ys) = ITree.leavesList xs ++ ITree.leavesList ys := by
  induction xs with
  | nil => simp [ITree.leavesList]
  | cons x xs ih => simp [ITree.leavesList, ih]

theorem pendingOf_upd_notin (f : Nat → Option ITree) (c : Nat) (v : Option ITree) (cs : List Nat)
    (h : c ∉ cs) : IterState.pendingOf (upd f c v) cs = IterState.pendingOf f cs := by
  induction cs with
  | nil => rfl
  | cons d ds ih =>
    simp only [List.mem_cons, not_or] at h
    have hd : d ≠ c := fun e => h.1 e.symm
    simp only [IterState.pendingOf, List.flatMap_cons, upd, hd, if_false] at ih ⊢
    rw [ih h.2]

/-- leaves accounted for: delivered, on the agenda, or held by one of the consumers `cs` -/
def IterState.account (s : IterState) (cs : List Nat) : List Nat :=
  s.delivered.map (·.2) ++ ITree.leavesList s.agenda ++ IterState.pendingOf s.inflight cs

theorem pendingOf_perm_upd (f : Nat → Option ITree) (c : Nat) (cs : List Nat) (hn : cs.Nodup)
    (hc : c ∈ cs) (v : Option ITree) :
    (IterState.pendingOf (upd f c v) cs).Perm
      ((match v with | some x => x.leaves | Option.none => []) ++
        IterState.pendingOf (upd f c Option.none) cs) := by
  induction cs with
  | nil => simp at hc
  | cons d ds ih =>
    simp only [List.nodup_cons] at hn
    simp only [List.mem_cons] at hc
    by_cases hd : d = c
    · subst hd
      simp only [IterState.pendingOf, List.flatMap_cons, upd_same, List.nil_append]
      have e1 := pendingOf_upd_notin f d v ds hn.1
      have e2 := pendingOf_upd_notin f d Option.none ds hn.1
      simp only [IterState.pendingOf] at e1 e2
      rw [e1, e2]
    · have hc' : c ∈ ds := by
        rcases hc with hc | hc
        · exact absurd hc.symm hd
        · exact hc
      have := ih hn.2 hc'
      simp only [IterState.pendingOf, List.flatMap_cons, upd, hd, if_false] at this ⊢
      refine (List.Perm.append_left _ this).trans ?_
      simp only [← List.append_assoc]
      exact List.Perm.append_right _ List.perm_append_comm

/-- one atomic move of a consumer preserves the account up to order -/
theorem istep_account (s : IterState) (cs : List Nat) (hn : cs.Nodup) (c : Nat) (hc : c ∈ cs) :
    ((istep s c).account cs).Perm (s.account cs) := by
  have hself : s.inflight = upd s.inflight c (s.inflight c) := by
    funext i; simp only [upd]; split <;> simp_all
  unfold istep
  cases hi : s.inflight c with
  | none =>
    cases ha : s.agenda with
    | nil => simp [hi, ha]
    | cons x rest =>
      simp only [IterState.account, ha, ITree.leavesList]
      have h1 := pendingOf_perm_upd s.inflight c cs hn hc (some x)
      have h0 : IterState.pendingOf (upd s.inflight c Option.none) cs = IterState.pendingOf s.inflight cs := by
        conv => rhs; rw [hself, hi]
      rw [h0] at h1
      simp only [List.append_assoc]
      refine List.Perm.append_left _ ?_
      refine (List.Perm.append_left _ h1).trans ?_
      simp only [← List.append_assoc]
      exact List.Perm.append_right _ List.perm_append_comm
  | some x =>
    have h1 := pendingOf_perm_upd s.inflight c cs hn hc (some x)
    have hx : IterState.pendingOf s.inflight cs = IterState.pendingOf (upd s.inflight c (some x)) cs := by
      conv => lhs; rw [hself, hi]
    cases x with
    | leaf n =>
      simp only [IterState.account, List.map_append, List.map_cons, List.map_nil]
      rw [hx]
      simp only [ITree.leaves] at h1
      simp only [List.append_assoc]
      refine List.Perm.append_left _ ?_
      refine List.Perm.trans ?_ (List.Perm.append_left _ h1.symm)
      simp only [← List.append_assoc]
      exact List.Perm.append_right _ List.perm_append_comm
    | node ch =>
      simp only [IterState.account, leavesList_append]
      rw [hx]
      simp only [ITree.leaves] at h1
      simp only [List.append_assoc]
      refine List.Perm.append_left _ ?_
      refine List.Perm.trans ?_ (List.Perm.append_left _ h1.symm)
      simp only [← List.append_assoc]
      exact List.Perm.append_right _ List.perm_append_comm

/-- **Exactly once.**  However the moves of the consumers interleave (switches at every `is_leaf`
call), the leaves delivered so far, those still on the agenda and those inside nodes held by
consumers are together a permutation of the leaves of the tree: no leaf is lost, none is delivered
twice. -/
theorem C17_iterator_exactly_once (t : ITree) (cs : List Nat) (hn : cs.Nodup) (schedule : List Nat)
    (hs : ∀ c ∈ schedule, c ∈ cs) :
    ((irun ⟨[t], fun _ => Option.none, []⟩ schedule).account cs).Perm t.leaves := by
  have gen : ∀ (s : IterState), (∀ c ∈ schedule, c ∈ cs) → ((irun s schedule).account cs).Perm (s.account cs) := by
    induction schedule with
    | nil => intro s _; exact List.Perm.refl _
    | cons c rest ih =>
      intro s hs'
      simp only [irun, List.foldl_cons]
      have h1 := ih (fun c' hc' => hs c' (by simp [hc'])) (istep s c) (fun c' hc' => hs' c' (by simp [hc']))
      exact h1.trans (istep_account s cs hn c (hs' c (by simp)))
  refine (gen _ hs).trans ?_
  have : IterState.pendingOf (fun _ => (Option.none : Option ITree)) cs = [] := by
    simp [IterState.pendingOf]
  simp [IterState.account, ITree.leavesList, this]

/-- when the run is over (agenda empty, nobody holds a node) the delivered leaves are exactly the
leaves of the tree, each once -/
theorem C17_iterator_complete (t : ITree) (cs : List Nat) (hn : cs.Nodup) (schedule : List Nat)
    (hs : ∀ c ∈ schedule, c ∈ cs)
    (hdone : (irun ⟨[t], fun _ => Option.none, []⟩ schedule).agenda = [] ∧
      ∀ c, (irun ⟨[t], fun _ => Option.none, []⟩ schedule).inflight c = Option.none) :
    ((irun ⟨[t], fun _ => Option.none, []⟩ schedule).delivered.map (·.2)).Perm t.leaves := by
  have h := C17_iterator_exactly_once t cs hn schedule hs
  have hp : IterState.pendingOf (irun ⟨[t], fun _ => Option.none, []⟩ schedule).inflight cs = [] := by
    simp [IterState.pendingOf, hdone.2]
  simpa [IterState.account, hdone.1, hp, ITree.leavesList] using h

end Optree
