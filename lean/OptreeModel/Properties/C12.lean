/-
  C12  Registry changes are namespace-isolated, atomic and reversible.
  All statements are for every class universe `info`, every warnings mode, every state reachable
  by any history of calls (successful or failing).
-/
import OptreeModel.Model.RegSM

namespace Optree

/-- the two engine variants and the Python mirror describe the same registrations -/
def RState.Inv (s : RState) : Prop := s.node = s.leaf ∧ s.node = s.mirror

theorem C12_inv_init : RState.init.Inv := ⟨rfl, rfl⟩

theorem engineRegister_inv (info : Nat → ClsInfo) (w : Bool) (s : RState) (cls : Nat) (key : String)
    (rid : Nat) (h : s.Inv) : (engineRegister info w s cls key rid).1.Inv := by
  unfold engineRegister
  split; · exact h
  split; · exact h
  split; · exact h
  obtain ⟨h1, h2⟩ := h
  exact ⟨by simp [h1], by simp [h2]⟩

/-- **Invariant step.** -/
theorem C12_inv_step (info : Nat → ClsInfo) (w : Bool) (s : RState) (rid : Nat) (op : ROp)
    (h : s.Inv) : (rstep info w s rid op).1.Inv := by
  cases op with
  | reg cls ns bad =>
    simp only [rstep]
    split; · exact h
    split; · exact h
    split; · exact h
    exact engineRegister_inv info w s cls _ rid h
  | regClass cls ns =>
    simp only [rstep]
    split; · exact h
    split; · exact h
    split; · exact h
    exact engineRegister_inv info w s cls _ rid h
  | unreg cls ns =>
    simp only [rstep]
    split; · exact h
    split; · exact h
    split; · exact h
    split; · exact h
    obtain ⟨h1, h2⟩ := h
    exact ⟨by simp [h1], by simp [h2]⟩

/-- **Invariant, every reachable state** (induction over the history). -/
theorem C12_inv (info : Nat → ClsInfo) (w : Bool) (ops : List ROp) (s : RState) (i : Nat)
    (h : s.Inv) : (rrun info w s i ops).Inv := by
  induction ops generalizing s i with
  | nil => simpa [rrun] using h
  | cons op ops ih => exact ih _ _ (C12_inv_step info w s i op h)

/-- The same with the warnings filter changing from call to call. -/
theorem C12_inv_any_filter (info : Nat → ClsInfo) (ops : List (Bool × ROp)) (s : RState) (i : Nat)
    (h : s.Inv) : (rrunW info s i ops).Inv := by
  induction ops generalizing s i with
  | nil => simpa [rrunW] using h
  | cons op ops ih => exact ih _ _ (C12_inv_step info op.1 s i op.2 h)

theorem engineRegister_atomic (info : Nat → ClsInfo) (w : Bool) (s : RState) (cls : Nat)
    (key : String) (rid : Nat) (e : RErr) (h : (engineRegister info w s cls key rid).2 = some e) :
    (engineRegister info w s cls key rid).1 = s := by
  unfold engineRegister at h ⊢
  split; · rfl
  split; · rfl
  split; · rfl
  rename_i h1 h2 h3
  simp [h1, h2, h3] at h

/-- **Atomicity.**  A call that raises — for any reason, including a warning turned into an error —
leaves the registry exactly as it was. -/
theorem C12_atomic (info : Nat → ClsInfo) (w : Bool) (s : RState) (rid : Nat) (op : ROp) (e : RErr)
    (h : (rstep info w s rid op).2 = some e) : (rstep info w s rid op).1 = s := by
  cases op with
  | reg cls ns bad =>
    simp only [rstep] at h ⊢
    split; · rfl
    split; · rfl
    split; · rfl
    rename_i h1 h2 h3
    simp only [h1, h2, h3, if_false, Bool.false_eq_true] at h
    exact engineRegister_atomic info w s cls _ rid e h
  | regClass cls ns =>
    simp only [rstep] at h ⊢
    split; · rfl
    split; · rfl
    split; · rfl
    rename_i h1 h2 h3
    simp only [h1, h2, h3, if_false, Bool.false_eq_true] at h
    exact engineRegister_atomic info w s cls _ rid e h
  | unreg cls ns =>
    simp only [rstep] at h ⊢
    split; · rfl
    split; · rfl
    split; · rfl
    split; · rfl
    rename_i h1 h2 h3 h4
    simp [h1, h2, h3, h4] at h

theorem find_append_other (t : RTable) (k : String) (c : Nat) (r : Nat) (k' : String) (c' : Nat)
    (h : ¬ (k' = k ∧ c' = c)) : RTable.find (t ++ [((k, c), r)]) k' c' = t.find k' c' := by
  unfold RTable.find
  rw [List.find?_append]
  have hb : ((k == k') && (c == c')) = false := by
    cases hkk : (k == k') <;> cases hcc : (c == c') <;> simp_all
  cases hf : List.find? (fun e => e.1.1 == k' && e.1.2 == c') t with
  | some x => simp
  | none => simp [List.find?_cons, hb]

theorem find_remove_other (t : RTable) (k : String) (c : Nat) (k' : String) (c' : Nat)
    (h : ¬ (k' = k ∧ c' = c)) : RTable.find (t.remove k c) k' c' = t.find k' c' := by
  unfold RTable.find RTable.remove
  congr 1
  induction t with
  | nil => rfl
  | cons e t ih =>
    simp only [List.filter_cons, List.find?_cons]
    cases he : (e.1.1 == k && e.1.2 == c)
    · -- kept
      simp only [Bool.not_false, if_true, List.find?_cons]
      cases (e.1.1 == k' && e.1.2 == c')
      · exact ih
      · rfl
    · -- removed: it cannot be the entry looked for
      have hb : (e.1.1 == k' && e.1.2 == c') = false := by
        simp only [Bool.and_eq_true, beq_iff_eq] at he
        cases hkk : (e.1.1 == k') <;> cases hcc : (e.1.2 == c') <;> simp_all
      simp only [Bool.not_true, Bool.false_eq_true, if_false, hb]
      exact ih

/-- the entry for `(k', c')` of the engine table is untouched by a call about another key -/
theorem C12_step_other_key (info : Nat → ClsInfo) (w : Bool) (s : RState) (rid : Nat) (op : ROp)
    (k' : String) (c' : Nat)
    (h : match op with
      | .reg c ns _ | .regClass c ns | .unreg c ns => ¬ (k' = ns.key ∧ c' = c)) :
    (rstep info w s rid op).1.node.find k' c' = s.node.find k' c' := by
  cases op with
  | reg cls ns bad =>
    simp only [rstep]
    split; · rfl
    split; · rfl
    split; · rfl
    unfold engineRegister
    split; · rfl
    split; · rfl
    split; · rfl
    exact find_append_other _ _ _ _ _ _ h
  | regClass cls ns =>
    simp only [rstep]
    split; · rfl
    split; · rfl
    split; · rfl
    unfold engineRegister
    split; · rfl
    split; · rfl
    split; · rfl
    exact find_append_other _ _ _ _ _ _ h
  | unreg cls ns =>
    simp only [rstep]
    split; · rfl
    split; · rfl
    split; · rfl
    split; · rfl
    exact find_remove_other _ _ _ _ _ h

/-- **Namespace isolation.**  A call made in namespace `N` (not the global one) never alters what
flattening does in another namespace `N'`. -/
theorem C12_isolation (info : Nat → ClsInfo) (w : Bool) (s : RState) (rid : Nat) (op : ROp)
    (N N' : String) (hN : N ≠ "") (hNN : N' ≠ N)
    (hop : match op with
      | .reg _ ns _ | .regClass _ ns | .unreg _ ns => ns = .named N)
    (c : Nat) :
    engineObs info (rstep info w s rid op).1.node N' c = engineObs info s.node N' c := by
  have key : ∀ k, (k = N' ∨ k = "") →
      (rstep info w s rid op).1.node.find k c = s.node.find k c := by
    intro k hk
    apply C12_step_other_key
    cases op <;> simp only at hop ⊢ <;> subst hop <;> simp only [RNs.key] <;>
      rcases hk with rfl | rfl <;> simp_all
  unfold engineObs RTable.lookup
  rw [key N' (Or.inl rfl), key "" (Or.inr rfl)]

/-- built-in node types can never be re-registered or unregistered -/
theorem C12_builtins (info : Nat → ClsInfo) (w : Bool) (s : RState) (rid : Nat) (c : Nat)
    (ns : RNs) (bad : Bool) (hb : info c = .builtin) :
    (rstep info w s rid (.reg c ns bad)).2.isSome ∧ (rstep info w s rid (.unreg c ns)).2.isSome ∧
    (rstep info w s rid (.regClass c ns)).2.isSome := by
  refine ⟨?_, ?_, ?_⟩
  · simp only [rstep]
    split; · rfl
    split; · rfl
    split; · rfl
    simp [engineRegister, hb]
  · simp only [rstep]
    split; · rfl
    split; · rfl
    simp [hb]
  · simp only [rstep]
    split; · rfl
    split; · rfl
    simp [hb]

/-- the same (type, namespace) cannot be registered twice -/
theorem C12_no_double (info : Nat → ClsInfo) (w : Bool) (s : RState) (rid : Nat) (c : Nat)
    (ns : RNs) (bad : Bool) (h : (s.node.find ns.key c).isSome) :
    (rstep info w s rid (.reg c ns bad)).2.isSome := by
  simp only [rstep]
  split; · rfl
  split; · rfl
  split; · rfl
  unfold engineRegister
  split; · rfl
  simp [h]

/-- unregistering something absent fails -/
theorem C12_unregister_absent (info : Nat → ClsInfo) (w : Bool) (s : RState) (rid : Nat) (c : Nat)
    (ns : RNs) (h : (s.node.find ns.key c).isNone) :
    (rstep info w s rid (.unreg c ns)).2.isSome := by
  simp only [rstep]
  split; · rfl
  split; · rfl
  split; · rfl
  simp [h]

/-- **The Python-visible registry describes what flattening does**, with a class … -/
theorem C12_get_describes_flatten (info : Nat → ClsInfo) (s : RState) (h : s.Inv) (ns : String)
    (c : Nat) : pyGet info s ns c = engineObs info s.node ns c ∧
                pyGet info s ns c = engineObs info s.leaf ns c := by
  obtain ⟨h1, h2⟩ := h
  have : pyGet info s ns c = engineObs info s.mirror ns c := by
    unfold pyGet engineObs RTable.lookup
    cases (if ns != "" then s.mirror.find ns c else Option.none) with
    | some r => rfl
    | none => rfl
  exact ⟨by rw [this, ← h2], by rw [this, ← h2, h1]⟩

/-- … and without a class (the whole-namespace dictionary) -/
theorem C12_getall_describes_flatten (info : Nat → ClsInfo) (s : RState) (h : s.Inv) (ns : String)
    (c : Nat) :
    engineObs info s.node ns c =
      (match pyGetAll s ns c with
       | some r => .custom r
       | Option.none => defaultObs info c) := by
  obtain ⟨_, h2⟩ := h
  unfold engineObs pyGetAll RTable.lookup
  rw [h2]
  cases (if ns != "" then s.mirror.find ns c else Option.none) with
  | some r => rfl
  | none => rfl

/-! ### non-vacuity -/

def C12_demoInfo : Nat → ClsInfo
  | 0 => .plain true | 1 => .namedtuple | 2 => .builtin | 3 => .nonClass | _ => .plain false

/-- a history with successes and failures of every kind; the invariant's premises hold for it -/
example :
    let ops := [ROp.reg 0 (.named "a") false, .reg 0 .glob false, .reg 0 (.named "a") false,
                .reg 1 .glob false, .reg 2 .glob false, .reg 3 .glob false, .unreg 0 (.named "b"),
                .unreg 0 (.named "a"), .regClass 4 (.named "b"), .reg 0 .empty false]
    (rrun C12_demoInfo true RState.init 0 ops).node = [(("", 0), 1)] := by decide

/-! ### reversibility -/

theorem RTable.remove_of_find_none (t : RTable) (ns : String) (cls : Nat) (h : t.find ns cls = Option.none) :
    t.remove ns cls = t := by
  unfold RTable.find at h
  unfold RTable.remove
  simp only [Option.map_eq_none_iff, List.find?_eq_none] at h
  apply List.filter_eq_self.mpr
  intro e he
  have := h e he
  simp only [Bool.and_eq_true, beq_iff_eq, not_and] at this
  simp only [Bool.not_eq_true', Bool.and_eq_false_iff, beq_eq_false_iff_ne, ne_eq]
  by_cases h0 : e.1.1 = ns
  · exact Or.inr (this h0)
  · exact Or.inl h0

theorem RTable.remove_append_self (t : RTable) (ns : String) (cls rid : Nat) (h : t.find ns cls = Option.none) :
    (t ++ [((ns, cls), rid)]).remove ns cls = t := by
  unfold RTable.remove
  rw [List.filter_append]
  have := RTable.remove_of_find_none t ns cls h
  unfold RTable.remove at this
  rw [this]
  simp

/-- **reversible**: a registration that succeeded is undone exactly by unregistering the same class in the same
namespace — all three tables return to what they were, whatever the warnings filter and whatever happened to other
classes and namespaces in between is covered by `C12_step_other_key` -/
theorem C12_register_then_unregister (info : Nat → ClsInfo) (w w' : Bool) (s s' : RState) (rid rid' : Nat)
    (cls : Nat) (ns : RNs) (bad : Bool) (hinv : s.Inv)
    (h : rstep info w s rid (.reg cls ns bad) = (s', Option.none)) :
    rstep info w' s' rid' (.unreg cls ns) = (s, Option.none) := by
  obtain ⟨h1, h2⟩ := hinv
  simp only [rstep] at h
  split at h; · simp at h
  rename_i hcls
  split at h; · simp at h
  split at h; · simp at h
  rename_i hns
  unfold engineRegister at h
  split at h; · simp at h
  rename_i hb
  split at h; · simp at h
  rename_i hfind
  split at h; · simp at h
  simp only [Prod.mk.injEq, and_true] at h
  subst h
  have hf : s.node.find ns.key cls = Option.none := by simpa using hfind
  simp only [rstep, hcls, hns, hb, Bool.false_eq_true, if_false]
  have hfound : ((s.node ++ [((ns.key, cls), rid)]).find ns.key cls).isNone = false := by
    unfold RTable.find at hf ⊢
    simp only [Option.map_eq_none_iff] at hf
    simp [List.find?_append, hf]
  simp only [hfound, Bool.false_eq_true, if_false]
  have e1 := RTable.remove_append_self s.node ns.key cls rid hf
  have e2 : (s.leaf ++ [((ns.key, cls), rid)]).remove ns.key cls = s.leaf := by
    rw [← h1]; exact e1
  have e3 : (s.mirror ++ [((ns.key, cls), rid)]).remove ns.key cls = s.mirror := by
    rw [← h2]; exact e1
  simp [e1, e2, e3]


end Optree
