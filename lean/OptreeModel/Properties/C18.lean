/-
  C18  The Python twins of engine logic give the same answers as the engine.
  `Generated.sortRestores` / `Generated.twinFieldsExact` are regenerated from pytypes.h and
  typing.py on every run (translator T-twins).
-/
import OptreeModel.Model.Twins
import OptreeModel.Generated.Twins

namespace Optree

/-- **Sort twin.**  With the restore steps in place the engine's in-place sort equals the Python
twin for every key list, whatever state a failing `list.sort()` leaves the list in. -/
theorem C18_sort_twin (scr1 scr2 : List Key → List Key) (ks : List Key) :
    cxxSort true scr1 scr2 ks = pySort ks := by
  unfold cxxSort pySort failingSort
  cases h1 : stage1Ok ks <;> cases h2 : stage2Ok ks <;> simp [h1, h2]

/-- **Generated obligation.**  `TotalOrderSort` in the source restores the saved order. -/
theorem C18_sort_restores : Generated.sortRestores = true := by decide

/-- both equal the specification `totalOrderSort` used by the flatten model -/
theorem C18_sort_spec (ks : List Key) : pySort ks = totalOrderSort ks := by
  unfold pySort totalOrderSort totalOrderSortOn
  simp

/-- without the restore the engine's result depends on the scrambled state (so the obligation above
is not vacuous): a concrete key list and a concrete scramble -/
theorem C18_sort_twin_needs_restore :
    cxxSort false (fun ks => ks.reverse) (fun ks => ks)
      [.obj "vk.KU" false 0 1, .int 1, .obj "vk.KU" false 0 2] ≠
    pySort [.obj "vk.KU" false 0 1, .int 1, .obj "vk.KU" false 0 2] := by decide

/-- **namedtuple twin**, for every class descriptor (finite table, decided exhaustively) -/
theorem C18_namedtuple_twin : ∀ d : ClsDesc, cxxIsNamedTuple d = pyIsNamedTuple true d := by
  intro d
  simp [cxxIsNamedTuple, pyIsNamedTuple]

/-- **Generated obligation.**  The Python twin requires `_fields` to be exactly a tuple. -/
theorem C18_twin_fields_exact : Generated.twinFieldsExact = true := by decide

/-- the twin that accepts tuple subclasses disagrees with the engine -/
theorem C18_namedtuple_twin_needs_exact :
    ∃ d : ClsDesc, cxxIsNamedTuple d ≠ pyIsNamedTuple false d :=
  ⟨{ isType := true, tupleSubclass := true, fields := .tupleSubclass true, makeCallable := true,
     asdictCallable := true, basesIsTuple := false, nFields := .absent, nSequenceFields := .absent,
     nUnnamedFields := .absent, baseType := true }, by decide⟩

/-- **struct-sequence twin**, for every class Python can construct -/
theorem C18_structseq_twin (d : ClsDesc) (h : d.realisable = true) :
    cxxIsStructSeq d = pyIsStructSeq d := by
  obtain ⟨isType, tsub, fields, mk, asd, bases, n1, n2, n3, bt⟩ := d
  simp only [ClsDesc.realisable, Bool.and_eq_true, Bool.or_eq_true, Bool.not_eq_true',
    beq_iff_eq] at h
  simp only [cxxIsStructSeq, pyIsStructSeq]
  cases isType <;> cases tsub <;> cases bases <;> cases bt <;> cases n1 <;> cases n2 <;> cases n3 <;>
    simp_all

/-- **One-level twin.**  For every built-in node kind, in either dict-order mode, the Python
registry's flatten function yields the same children (in the same order), metadata, entries and
kind as the engine. -/
theorem C18_one_level_twin (insertion : Bool) (x : PyObj) :
    (pyOneLevel insertion x).map (fun o => (o.children, o.data, o.entries, o.kind)) =
    (engineOneLevel (!insertion) x).map (fun o => (o.children, o.data, o.entries, o.kind)) := by
  cases x <;> simp [pyOneLevel, engineOneLevel, dictOrder] <;> cases insertion <;> simp

/-! ### the type caches -/

/-- every memo entry belongs to a live type and stores that type's answer -/
def CacheState.Inv (s : CacheState) : Prop :=
  ∀ a v, lookupA a s.cache = some v → lookupA a s.live = some v

theorem lookupA_filter_ne (a b : Addr) (t : List (Addr × Bool)) :
    lookupA a (t.filter fun e => e.1 != b) = if a = b then Option.none else lookupA a t := by
  unfold lookupA
  induction t with
  | nil => simp
  | cons e t ih =>
    simp only [List.filter_cons]
    by_cases hb : e.1 = b
    · simp only [hb, bne_self_eq_false, Bool.false_eq_true, if_false, ih, List.find?_cons]
      by_cases hab : a = b
      · simp [hab]
      · have : (b == a) = false := by simp; exact fun h => hab h.symm
        simp [hab, this]
    · have hne : (e.1 != b) = true := by simp [hb]
      simp only [hne, if_true, List.find?_cons]
      by_cases hea : e.1 = a
      · have : a ≠ b := by rw [← hea]; exact hb
        simp [hea, this]
      · have : (e.1 == a) = false := by simp [hea]
        simp only [this]
        exact ih

theorem C18_cache_inv_step (s : CacheState) (op : CacheOp) (h : s.Inv) : (cacheStep s op).1.Inv := by
  cases op with
  | alloc a ans =>
    simp only [cacheStep]
    split
    · exact h
    · rename_i hfree
      intro b v hb
      have hlive := h b v hb
      by_cases hab : a = b
      · subst hab
        rw [hlive] at hfree
        simp at hfree
      · have hne : (a == b) = false := by simp [hab]
        unfold lookupA at hlive ⊢
        simp only [List.find?_cons, hne]
        exact hlive
  | free a =>
    simp only [cacheStep]
    intro b v hb
    rw [lookupA_filter_ne] at hb ⊢
    split at hb
    · simp at hb
    · rename_i hne; simp only [hne, if_false]; exact h b v hb
  | query a =>
    simp only [cacheStep]
    split
    · exact h
    · rename_i ans hl
      split
      · exact h
      · split
        · intro b v hb
          simp only [lookupA, List.find?_cons] at hb
          by_cases hab : a = b
          · subst hab; simp at hb; subst hb; exact hl
          · have : (a == b) = false := by simp [hab]
            simp only [this] at hb
            exact h b v hb
        · exact h

/-- **Cache transparency.**  In every state reachable by any history of class creation, queries,
garbage collection and address reuse — including histories that exceed the cache capacity — a
query returns the uncached answer of the type that lives at that address *now*. -/
theorem C18_cache_transparent (s : CacheState) (h : s.Inv) (a : Addr) (v : Bool)
    (hq : (cacheStep s (.query a)).2 = some v) : lookupA a s.live = some v := by
  simp only [cacheStep] at hq
  split at hq
  · simp at hq
  · rename_i ans hl
    split at hq
    · rename_i v' hc
      simp at hq; subst hq
      exact h a v' hc
    · split at hq <;> (simp at hq; subst hq; exact hl)

theorem C18_cache_inv (ops : List CacheOp) (s : CacheState) (h : s.Inv) :
    (ops.foldl (fun st op => (cacheStep st op).1) s).Inv := by
  induction ops generalizing s with
  | nil => simpa using h
  | cons op ops ih => exact ih _ (C18_cache_inv_step s op h)

/-! ### non-vacuity -/

example : (CacheState.mk [] [] 2).Inv := by intro a v h; simp [lookupA] at h

/-- a history with address reuse after a free: the stale answer is not served -/
example :
    let s := [CacheOp.alloc 7 true, .query 7, .free 7, .alloc 7 false].foldl
      (fun st op => (cacheStep st op).1) (CacheState.mk [] [] 2)
    (cacheStep s (.query 7)).2 = some false := by decide

end Optree
