/-
  C02  Leaf order and node/leaf classification follow the documented rules.
  Helper lemmas: Lemmas/Leaves.lean (reference order `leavesOf`, homomorphism lemma), Lemmas/Sort.lean.
-/
import OptreeModel.Lemmas.Leaves
import OptreeModel.Lemmas.SortCanon
import OptreeModel.Lemmas.ShapeOf

namespace Optree

/-- **Leaf order.**  Whenever flattening succeeds, the leaves are exactly the documented depth-first
left-to-right order `leavesOf` (sequences by position, OrderedDict by insertion order, dict /
defaultdict by `totalOrderSort` unless the namespace is insertion-ordered, custom nodes in yield
order, predicate first, exact-type registry lookup, `None` by `none_is_leaf`) — for every tree,
registry, namespace, predicate and depth limit. -/
theorem C02_leaf_order (cfg : Cfg) (t : PyObj) (ls : List PyObj) (sp : Spec)
    (h : flatten cfg t = .ok (ls, sp)) : ls = leavesOf cfg (!cfg.insertionOrdered) t := by
  unfold flatten at h
  simp only at h
  split at h
  · simp at h
  · rename_i out hout
    simp only [Except.ok.injEq, Prod.mk.injEq] at h
    rw [← h.1]
    exact lobj cfg _ t 0 out hout

/-- the engine-level statement, at any depth and in either dict-order mode -/
theorem C02_leaf_order_go (cfg : Cfg) (sorted : Bool) (d : Nat) (t : PyObj) (out : FlatOut)
    (h : flattenGo cfg sorted d t = .ok out) : out.leaves = leavesOf cfg sorted t :=
  lobj cfg sorted t d out h

/-! ### the key order -/

/-- sorting only permutes the keys -/
theorem C02_sort_perm (ks : List Key) : (totalOrderSort ks).Perm ks :=
  totalOrderSortOn_perm id ks

/-- when neither the direct sort nor the (type name, key) sort is possible the keys stay in
insertion order -/
theorem C02_sort_fallback (ks : List Key) (h1 : stage1Ok ks = false) (h2 : stage2Ok ks = false) :
    totalOrderSort ks = ks := by
  simp [totalOrderSort, totalOrderSortOn, h1, h2]

/-- OrderedDict children are never re-ordered; dict / defaultdict children are re-ordered only in
sorted mode -/
theorem C02_dictOrder_cases {α : Type} (od sorted : Bool) (items : List (Key × α)) :
    dictOrder od sorted items =
      if !od && sorted then totalOrderSortOn (·.1) items else items := rfl

/-! ### node / leaf classification -/

/-- opaque objects (including sub-class instances of built-in containers) are leaves -/
theorem C02_kind_leaf (cfg : Cfg) (ty uid : Nat) : getKind cfg (.leaf ty uid) = (.leaf, Option.none) := rfl

/-- `None` is a childless node unless `none_is_leaf` -/
theorem C02_kind_none (cfg : Cfg) :
    getKind cfg .none = if cfg.noneIsLeaf then (.leaf, Option.none) else (.none, Option.none) := rfl

/-- an instance of a user class is an internal node iff its exact type is registered in the
requested namespace or globally -/
theorem C02_kind_user (cfg : Cfg) (c : TypeId) (m : Option Key) (q : Quirk) (xs : List PyObj) :
    (getKind cfg (.user c m q xs)).1 = .custom ↔ (cfg.reg.lookup cfg.ns 0 c).isSome := by
  simp only [getKind]
  cases cfg.reg.lookup cfg.ns 0 c <;> simp

/-- a registration in the requested namespace shadows the global one -/
theorem C02_lookup_namespace_first (r : Registry) (ns : String) (ck : Nat) (c : TypeId) (reg : Reg)
    (hns : ns ≠ "")
    (h : (r.named.find? fun e => e.1 == ns && e.2.1 == c && e.2.2.1 == ck) = some (ns, c, ck, reg)) :
    r.lookup ns ck c = some reg := by
  simp [Registry.lookup, hns, h]

/-- a predicate that returns true makes the object a leaf before any registry lookup -/
theorem C02_pred_first (cfg : Cfg) (sorted : Bool) (d : Nat) (x : PyObj) (hd : d ≤ cfg.maxDepth)
    (hp : cfg.evalPred x = .ok true) : flattenGo cfg sorted d x = .ok (leafOut x) := by
  have hd' : ¬ d > cfg.maxDepth := by omega
  cases x <;> rw [flattenGo] <;> simp [hd', hp]

/-! ### consequences -/

theorem leavesOf_of_predTrue (cfg : Cfg) (s : Bool) (x : PyObj) (h : cfg.predTrue x = true) :
    leavesOf cfg s x = [x] := by
  cases x <;> simp [leavesOf, h]

theorem predTrue_nil (cfg : Cfg) (b : Bool) (x : PyObj) :
    ({ cfg with noneIsLeaf := b } : Cfg).predTrue x = cfg.predTrue x := rfl

theorem beq_none_iff (x : PyObj) : (x == PyObj.none) = true ↔ x = .none := by
  cases x <;> simp [BEq.beq, PyObj.beq]

/-- **None filter.**  If the predicate does not claim `None`, the `none_is_leaf=False` leaves are
exactly the `none_is_leaf=True` leaves with the `None` objects removed. -/
theorem C02_none_filter (cfg : Cfg) (s : Bool) (t : PyObj) (hnone : cfg.predTrue .none = false) :
    (leavesOf { cfg with noneIsLeaf := true } s t).filter (fun x => !(x == PyObj.none)) =
      leavesOf { cfg with noneIsLeaf := false } s t := by
  apply hobj (F := fun ls => ls.filter (fun x => !(x == PyObj.none)))
  refine ⟨rfl, fun a b => List.filter_append .., rfl, rfl, ?_, ?_, ?_, ?_, ?_⟩
  · intro x hx
    rw [predTrue_nil] at hx
    have hne : ¬ (x == PyObj.none) = true := by
      rw [beq_none_iff]
      intro e; subst e; rw [hnone] at hx; exact Bool.noConfusion hx
    rw [leavesOf_of_predTrue _ _ _ (by rw [predTrue_nil]; exact hx)]
    simp [hne]
  · intro x hx; rw [predTrue_nil] at hx ⊢; exact hx
  · intro ty uid _; simp [BEq.beq, PyObj.beq]
  · intro c m q xs _ _; simp [BEq.beq, PyObj.beq]
  · intro _; simp [BEq.beq, PyObj.beq]

/-- **Predicate refinement.**  Flattening (without the predicate) the leaves obtained under a
predicate yields the leaves obtained without it. -/
theorem C02_pred_refines (cfg : Cfg) (s : Bool) (t : PyObj) :
    (leavesOf cfg s t).flatMap (leavesOf { cfg with pred := Option.none } s) =
      leavesOf { cfg with pred := Option.none } s t := by
  apply hobj (F := fun ls => ls.flatMap (leavesOf { cfg with pred := Option.none } s))
  have hnp : ∀ x, ({ cfg with pred := Option.none } : Cfg).predTrue x = false := by
    intro x; simp [Cfg.predTrue, Cfg.evalPred]
  refine ⟨rfl, fun a b => List.flatMap_append .., rfl, rfl, ?_, ?_, ?_, ?_, ?_⟩
  · intro x _; simp
  · intro x _; exact hnp x
  · intro ty uid _; simp [leavesOf]
  · intro c m q xs _ hl
    simp only [List.flatMap_cons, List.flatMap_nil, List.append_nil, leavesOf, hnp]
    simp [hl]
  · intro _
    by_cases hn : cfg.noneIsLeaf = true <;> simp [hn, leavesOf, hnp]

/-! ### non-vacuity -/

/-- mixed key types sort by (type name, key); two unorderable objects of one class fall back to
insertion order -/
example : totalOrderSort [.str "b", .int 3, .str "a", .int 1] = [.int 1, .int 3, .str "a", .str "b"] := by
  decide
example :
    totalOrderSort [.obj "vk.KU" false 0 1, .int 3, .obj "vk.KU" false 0 2, .int 1] =
      [.obj "vk.KU" false 0 1, .int 3, .obj "vk.KU" false 0 2, .int 1] := by decide

end Optree

namespace Optree

/-! ### the insertion order of a dict with sortable keys is irrelevant -/

theorem Key.comparable_symm (a b : Key) : Key.comparable a b = Key.comparable b a := by
  cases a <;> cases b <;> simp [Key.comparable, Key.lt?]
  rename_i t1 o1 r1 u1 t2 o2 r2 u2
  cases o1 <;> cases o2 <;> simp [Key.lt?]
  by_cases h : t1 = t2
  · subst h; simp
  · have h' : ¬ t2 = t1 := fun e => h e.symm
    simp [h, h']

/-- **Sorting is canonical.**  If the keys are pairwise distinct and `<` is a strict total order on
them (ints, strings, tuples of ints, objects of one orderable class with distinct ranks, …), every
insertion order of the same key set sorts to the same list. -/
theorem C02_sort_canonical (ks ks' : List Key) (hp : ks.Perm ks') (hnd : ks.Nodup)
    (hto : StrictTotalOn Key.ltD ks) : totalOrderSort ks = totalOrderSort ks' := by
  unfold totalOrderSort totalOrderSortOn
  simp only [List.map_id]
  have hs : stage1Ok ks' = stage1Ok ks :=
    (allPairs_perm Key.comparable Key.comparable_symm ks ks' hnd hp).symm
  have hs2 : stage2Ok ks' = stage2Ok ks := by
    unfold stage2Ok
    refine (allPairs_perm _ ?_ ks ks' hnd hp).symm
    intro a b
    rw [Key.comparable_symm a b]
    by_cases h : a.tag = b.tag
    · rw [h]
    · have h' : ¬ b.tag = a.tag := fun e => h e.symm
      have e1 : (a.tag != b.tag) = true := by simp [h]
      have e2 : (b.tag != a.tag) = true := by simp [h']
      rw [e1, e2]
  rw [hs, hs2]
  split
  · exact sortBy_canonical _ ks ks' hto hp hnd
  · split
    · rename_i h1 h2
      -- a strict total order for `<` makes every pair comparable: stage 1 cannot have failed
      exfalso
      apply h1
      unfold stage1Ok
      rw [allPairs_iff_mem Key.comparable Key.comparable_symm ks hnd]
      intro a ha b hb hne
      rcases hto.total a ha b hb hne with h | h
      · simp only [Key.ltD] at h
        unfold Key.comparable
        cases hl : Key.lt? a b <;> simp_all
      · rw [Key.comparable_symm]
        simp only [Key.ltD] at h
        unfold Key.comparable
        cases hl : Key.lt? b a <;> simp_all
    · rename_i h1 _
      exfalso
      apply h1
      unfold stage1Ok
      rw [allPairs_iff_mem Key.comparable Key.comparable_symm ks hnd]
      intro a ha b hb hne
      rcases hto.total a ha b hb hne with h | h
      · simp only [Key.ltD] at h
        unfold Key.comparable
        cases hl : Key.lt? a b <;> simp_all
      · rw [Key.comparable_symm]
        simp only [Key.ltD] at h
        unfold Key.comparable
        cases hl : Key.lt? b a <;> simp_all

/-- integer keys are always totally ordered -/
theorem intKeys_strictTotal (is : List Int) : StrictTotalOn Key.ltD (is.map Key.int) := by
  refine ⟨?_, ?_, ?_⟩
  · intro a ha
    simp only [List.mem_map] at ha
    obtain ⟨i, _, rfl⟩ := ha
    simp [Key.ltD, Key.lt?]
  · intro a ha b hb c hc
    simp only [List.mem_map] at ha hb hc
    obtain ⟨i, _, rfl⟩ := ha
    obtain ⟨j, _, rfl⟩ := hb
    obtain ⟨k, _, rfl⟩ := hc
    simp only [Key.ltD, Key.lt?, Option.getD_some, decide_eq_true_eq]
    omega
  · intro a ha b hb hne
    simp only [List.mem_map] at ha hb
    obtain ⟨i, _, rfl⟩ := ha
    obtain ⟨j, _, rfl⟩ := hb
    simp only [Key.ltD, Key.lt?, Option.getD_some, decide_eq_true_eq]
    have : i ≠ j := fun e => hne (by rw [e])
    omega

/-- a dict with integer keys is flattened in the same order whatever its insertion order -/
theorem C02_int_keys_canonical (is is' : List Int) (hp : is.Perm is') (hnd : is.Nodup) :
    totalOrderSort (is.map Key.int) = totalOrderSort (is'.map Key.int) := by
  apply C02_sort_canonical _ _ (hp.map _) _ (intKeys_strictTotal is)
  clear hp
  induction is with
  | nil => simp
  | cons i is ih =>
    simp only [List.nodup_cons, List.map_cons, List.mem_map, not_exists, not_and] at hnd ⊢
    refine ⟨?_, ih hnd.2⟩
    intro j hj e
    injection e with e
    exact hnd.1 (e ▸ hj)

example : totalOrderSort [.int 3, .int (-1), .int 2] = totalOrderSort [.int 2, .int 3, .int (-1)] := by decide


/-! ### the insertion order of a dict with sortable keys is irrelevant -/

theorem nodup_of_map_fst {α : Type} : ∀ (l : List (Key × α)), (l.map (·.1)).Nodup → l.Nodup
  | [], _ => List.nodup_nil
  | p :: l, h => by
      simp only [List.map_cons, List.nodup_cons] at h ⊢
      exact ⟨fun hm => h.1 (List.mem_map_of_mem hm), nodup_of_map_fst l h.2⟩

theorem fst_inj_of_nodup {α : Type} : ∀ (l : List (Key × α)), (l.map (·.1)).Nodup →
    ∀ a ∈ l, ∀ b ∈ l, a.1 = b.1 → a = b
  | [], _, a, ha, _, _, _ => by simp at ha
  | p :: l, h, a, ha, b, hb, e => by
      simp only [List.map_cons, List.nodup_cons] at h
      simp only [List.mem_cons] at ha hb
      rcases ha with rfl | ha <;> rcases hb with rfl | hb
      · rfl
      · exact absurd (e ▸ List.mem_map_of_mem (f := (·.1)) hb) h.1
      · exact absurd (e ▸ List.mem_map_of_mem (f := (·.1)) ha) h.1
      · exact fst_inj_of_nodup l h.2 a ha b hb e

/-- items with pairwise distinct, strictly totally ordered keys sort to the same list from every order -/
theorem totalOrderSortOn_canonical {α : Type} (items items' : List (Key × α)) (hp : items.Perm items')
    (hnd : (items.map (·.1)).Nodup) (hto : StrictTotalOn Key.ltD (items.map (·.1))) :
    totalOrderSortOn (·.1) items = totalOrderSortOn (·.1) items' := by
  have hpk : (items.map (·.1)).Perm (items'.map (·.1)) := hp.map _
  have hndI : items.Nodup := nodup_of_map_fst items hnd
  have hinj : ∀ a ∈ items, ∀ b ∈ items, a ≠ b → a.1 ≠ b.1 := by
    intro a ha b hb hne e
    exact hne (fst_inj_of_nodup items hnd a ha b hb e)
  have htoI : StrictTotalOn (fun a b : Key × α => Key.ltD a.1 b.1) items :=
    ⟨fun a ha => hto.irrefl a.1 (List.mem_map_of_mem ha),
     fun a ha b hb c hc => hto.trans a.1 (List.mem_map_of_mem ha) b.1 (List.mem_map_of_mem hb) c.1
       (List.mem_map_of_mem hc),
     fun a ha b hb hne => hto.total a.1 (List.mem_map_of_mem ha) b.1 (List.mem_map_of_mem hb) (hinj a ha b hb hne)⟩
  have hs1 : stage1Ok (items.map (·.1)) = true := by
    unfold stage1Ok
    rw [allPairs_iff_mem Key.comparable Key.comparable_symm _ hnd]
    intro a ha b hb hne
    rcases hto.total a ha b hb hne with h | h
    · simp only [Key.ltD] at h
      unfold Key.comparable
      cases hl : Key.lt? a b <;> simp_all
    · rw [Key.comparable_symm]
      simp only [Key.ltD] at h
      unfold Key.comparable
      cases hl : Key.lt? b a <;> simp_all
  have hs1' : stage1Ok (items'.map (·.1)) = true := by
    rw [← hs1]
    exact (allPairs_perm Key.comparable Key.comparable_symm _ _ hnd hpk).symm
  unfold totalOrderSortOn
  simp only [hs1, hs1', if_true]
  exact sortBy_canonical _ items items' htoI hp hndI

/-- **One dict node, two insertion orders** (sorted mode, keys pairwise distinct and strictly totally ordered by
`<`: ints, strings, int tuples, objects of one orderable class with distinct ranks): the node's children are
visited in the same order, so the leaves are identical, and the two treespec nodes have the same sorted keys
and the same children — they differ only in the remembered insertion order (`original_keys`), which `==`
and `hash` ignore (C06) and `unflatten` uses to restore each dict's own order (C01). -/
theorem C02_dict_insertion_order_irrelevant (cfg : Cfg) (hpn : cfg.pred = Option.none)
    (kvs kvs' : List (Key × PyObj)) (hp : kvs.Perm kvs') (hnd : (kvs.map (·.1)).Nodup)
    (hto : StrictTotalOn Key.ltD (kvs.map (·.1))) :
    leavesOf cfg true (.dict kvs) = leavesOf cfg true (.dict kvs') ∧
    ∃ ks cs, shapeOf cfg true (.dict kvs) = .node (plainInfo .dict (.keys ks) (some (kvs.map (·.1)))) cs ∧
      shapeOf cfg true (.dict kvs') = .node (plainInfo .dict (.keys ks) (some (kvs'.map (·.1)))) cs := by
  have hpt : ∀ x, cfg.predTrue x = false := fun x => by simp [Cfg.predTrue, Cfg.evalPred, hpn]
  have eK : ∀ l : List (Key × PyObj), leavesOfKVs cfg true l = l.map fun p => (p.1, leavesOf cfg true p.2) := by
    intro l
    induction l with
    | nil => rfl
    | cons p l ih => obtain ⟨k, x⟩ := p; simp only [leavesOfKVs, List.map_cons, ih]
  have e1 := eK kvs
  have e1' := eK kvs'
  have key : ∀ {β : Type} (g : Key × PyObj → Key × β), (∀ p, (g p).1 = p.1) →
      dictOrder false true (kvs.map g) = dictOrder false true (kvs'.map g) := by
    intro β g hg
    simp only [dictOrder, Bool.not_false, Bool.and_self, if_true]
    apply totalOrderSortOn_canonical _ _ (hp.map g)
    · simpa [List.map_map, Function.comp_def, hg] using hnd
    · simpa [List.map_map, Function.comp_def, hg] using hto
  refine ⟨?_, ?_⟩
  · simp only [leavesOf, hpt, Bool.false_eq_true, if_false, e1, e1']
    rw [key (fun p => (p.1, leavesOf cfg true p.2)) (fun _ => rfl)]
  · simp only [shapeOf, shapeOfKVs_eq]
    rw [key (fun p => (p.1, shapeOf cfg true p.2)) (fun _ => rfl)]
    exact ⟨_, _, rfl, rfl⟩

/-- non-vacuity: integer keys inserted as 3, 1, 2 and as 2, 3, 1 -/
example : StrictTotalOn Key.ltD ([(Key.int 3, PyObj.leaf 0 1), (.int 1, .leaf 0 2), (.int 2, .leaf 0 3)].map (·.1)) :=
  intKeys_strictTotal [3, 1, 2]

end Optree
