/-
  C02  Leaf order and node/leaf classification follow the documented rules.
  Helper lemmas: Lemmas/Leaves.lean (reference order `leavesOf`, homomorphism lemma), Lemmas/Sort.lean.
-/
import OptreeModel.Lemmas.Leaves

namespace Optree

/-- **Leaf order.**  Whenever flattening succeeds, the leaves are exactly the documented depth-first
left-to-right order `leavesOf` (sequences by position, OrderedDict by insertion order, dict /
defaultdict by `totalOrderSort` unless the namespace is insertion-ordered, custom nodes in yield
order, predicate first, exact-type registry lookup, `None` by `none_is_leaf`) — for every tree,
registry, namespace, predicate and depth limit. -/
theorem C02_leaf_order (cfg : Cfg) (t : PyObj) (ls : List PyObj) (sp : Spec)
    (h : flatten cfg t = .ok (ls, sp)) : ls = leavesOf cfg (!cfg.insertionOrdered) t := by
  unfold flatten at h
  simp only at h
  split at h
  · simp at h
  · rename_i out hout
    simp only [Except.ok.injEq, Prod.mk.injEq] at h
    rw [← h.1]
    exact lobj cfg _ t 0 out hout

/-- the engine-level statement, at any depth and in either dict-order mode -/
theorem C02_leaf_order_go (cfg : Cfg) (sorted : Bool) (d : Nat) (t : PyObj) (out : FlatOut)
    (h : flattenGo cfg sorted d t = .ok out) : out.leaves = leavesOf cfg sorted t :=
  lobj cfg sorted t d out h

/-! ### the key order -/

/-- sorting only permutes the keys -/
theorem C02_sort_perm (ks : List Key) : (totalOrderSort ks).Perm ks :=
  totalOrderSortOn_perm id ks

/-- when neither the direct sort nor the (type name, key) sort is possible the keys stay in
insertion order -/
theorem C02_sort_fallback (ks : List Key) (h1 : stage1Ok ks = false) (h2 : stage2Ok ks = false) :
    totalOrderSort ks = ks := by
  simp [totalOrderSort, totalOrderSortOn, h1, h2]

/-- OrderedDict children are never re-ordered; dict / defaultdict children are re-ordered only in
sorted mode -/
theorem C02_dictOrder_cases {α : Type} (od sorted : Bool) (items : List (Key × α)) :
    dictOrder od sorted items =
      if !od && sorted then totalOrderSortOn (·.1) items else items := rfl

/-! ### node / leaf classification -/

/-- opaque objects (including sub-class instances of built-in containers) are leaves -/
theorem C02_kind_leaf (cfg : Cfg) (ty uid : Nat) : getKind cfg (.leaf ty uid) = (.leaf, Option.none) := rfl

/-- `None` is a childless node unless `none_is_leaf` -/
theorem C02_kind_none (cfg : Cfg) :
    getKind cfg .none = if cfg.noneIsLeaf then (.leaf, Option.none) else (.none, Option.none) := rfl

/-- an instance of a user class is an internal node iff its exact type is registered in the
requested namespace or globally -/
theorem C02_kind_user (cfg : Cfg) (c : TypeId) (m : Option Key) (q : Quirk) (xs : List PyObj) :
    (getKind cfg (.user c m q xs)).1 = .custom ↔ (cfg.reg.lookup cfg.ns 0 c).isSome := by
  simp only [getKind]
  cases cfg.reg.lookup cfg.ns 0 c <;> simp

/-- a registration in the requested namespace shadows the global one -/
theorem C02_lookup_namespace_first (r : Registry) (ns : String) (ck : Nat) (c : TypeId) (reg : Reg)
    (hns : ns ≠ "")
    (h : (r.named.find? fun e => e.1 == ns && e.2.1 == c && e.2.2.1 == ck) = some (ns, c, ck, reg)) :
    r.lookup ns ck c = some reg := by
  simp [Registry.lookup, hns, h]

/-- a predicate that returns true makes the object a leaf before any registry lookup -/
theorem C02_pred_first (cfg : Cfg) (sorted : Bool) (d : Nat) (x : PyObj) (hd : d ≤ cfg.maxDepth)
    (hp : cfg.evalPred x = .ok true) : flattenGo cfg sorted d x = .ok (leafOut x) := by
  have hd' : ¬ d > cfg.maxDepth := by omega
  cases x <;> rw [flattenGo] <;> simp [hd', hp]

/-! ### consequences -/

theorem leavesOf_of_predTrue (cfg : Cfg) (s : Bool) (x : PyObj) (h : cfg.predTrue x = true) :
    leavesOf cfg s x = [x] := by
  cases x <;> simp [leavesOf, h]

theorem predTrue_nil (cfg : Cfg) (b : Bool) (x : PyObj) :
    ({ cfg with noneIsLeaf := b } : Cfg).predTrue x = cfg.predTrue x := rfl

theorem beq_none_iff (x : PyObj) : (x == PyObj.none) = true ↔ x = .none := by
  cases x <;> simp [BEq.beq, PyObj.beq]

/-- **None filter.**  If the predicate does not claim `None`, the `none_is_leaf=False` leaves are
exactly the `none_is_leaf=True` leaves with the `None` objects removed. -/
theorem C02_none_filter (cfg : Cfg) (s : Bool) (t : PyObj) (hnone : cfg.predTrue .none = false) :
    (leavesOf { cfg with noneIsLeaf := true } s t).filter (fun x => !(x == PyObj.none)) =
      leavesOf { cfg with noneIsLeaf := false } s t := by
  apply hobj (F := fun ls => ls.filter (fun x => !(x == PyObj.none)))
  refine ⟨rfl, fun a b => List.filter_append .., rfl, rfl, ?_, ?_, ?_, ?_, ?_⟩
  · intro x hx
    rw [predTrue_nil] at hx
    have hne : ¬ (x == PyObj.none) = true := by
      rw [beq_none_iff]
      intro e; subst e; rw [hnone] at hx; exact Bool.noConfusion hx
    rw [leavesOf_of_predTrue _ _ _ (by rw [predTrue_nil]; exact hx)]
    simp [hne]
  · intro x hx; rw [predTrue_nil] at hx ⊢; exact hx
  · intro ty uid _; simp [BEq.beq, PyObj.beq]
  · intro c m q xs _ _; simp [BEq.beq, PyObj.beq]
  · intro _; simp [BEq.beq, PyObj.beq]

/-- **Predicate refinement.**  Flattening (without the predicate) the leaves obtained under a
predicate yields the leaves obtained without it. -/
theorem C02_pred_refines (cfg : Cfg) (s : Bool) (t : PyObj) :
    (leavesOf cfg s t).flatMap (leavesOf { cfg with pred := Option.none } s) =
      leavesOf { cfg with pred := Option.none } s t := by
  apply hobj (F := fun ls => ls.flatMap (leavesOf { cfg with pred := Option.none } s))
  have hnp : ∀ x, ({ cfg with pred := Option.none } : Cfg).predTrue x = false := by
    intro x; simp [Cfg.predTrue, Cfg.evalPred]
  refine ⟨rfl, fun a b => List.flatMap_append .., rfl, rfl, ?_, ?_, ?_, ?_, ?_⟩
  · intro x _; simp
  · intro x _; exact hnp x
  · intro ty uid _; simp [leavesOf]
  · intro c m q xs _ hl
    simp only [List.flatMap_cons, List.flatMap_nil, List.append_nil, leavesOf, hnp]
    simp [hl]
  · intro _
    by_cases hn : cfg.noneIsLeaf = true <;> simp [hn, leavesOf, hnp]

/-! ### non-vacuity -/

/-- mixed key types sort by (type name, key); two unorderable objects of one class fall back to
insertion order -/
example : totalOrderSort [.str "b", .int 3, .str "a", .int 1] = [.int 1, .int 3, .str "a", .str "b"] := by
  decide
example :
    totalOrderSort [.obj "vk.KU" false 0 1, .int 3, .obj "vk.KU" false 0 2, .int 1] =
      [.obj "vk.KU" false 0 1, .int 3, .obj "vk.KU" false 0 2, .int 1] := by decide

end Optree
