/-
  C07  Prefix matching is exact and its three implementations agree.
-/
import OptreeModel.Model.Compare
import OptreeModel.Lemmas.EncPrefix
import OptreeModel.Lemmas.EncFlatten
import OptreeModel.Lemmas.UpToPrefix
import OptreeModel.Lemmas.PrefixOrder
import OptreeModel.Lemmas.PrefixErrors

namespace Optree

def C07_leafSpec (nil : Bool) : Spec := { nodes := [Node.leaf], noneIsLeaf := nil, ns := "" }

/-- `is_prefix` is `False` (never an error) for mismatching `none_is_leaf`, conflicting namespaces,
or a prefix candidate with more nodes -/
theorem C07_guards (a b : Spec) (strict : Bool) (hs : a.sane = true ∧ b.sane = true)
    (h : a.noneIsLeaf ≠ b.noneIsLeaf ∨ nsCompatible a.ns b.ns = false ∨ a.numNodes > b.numNodes) :
    isPrefix a b strict = .ok false := by
  unfold isPrefix
  simp only [hs.1, hs.2, Bool.not_true, Bool.or_self, Bool.false_eq_true, if_false]
  rcases h with h | h | h
  · simp [h]
  · by_cases hn : a.noneIsLeaf = b.noneIsLeaf <;> simp [hn, h]
  · by_cases hn : a.noneIsLeaf = b.noneIsLeaf
    · by_cases hc : nsCompatible a.ns b.ns = true <;> simp [hn, hc, h]
    · simp [hn]

/-- **A leaf is a prefix of every treespec** with the same `none_is_leaf`; strictly so exactly when
the other treespec is not a leaf itself -/
theorem C07_leaf_is_prefix (b : Spec) (hb : b.sane = true) (strict : Bool) :
    isPrefix (C07_leafSpec b.noneIsLeaf) b strict =
      .ok (!strict || !(b.kind == .leaf)) := by
  obtain ⟨root, hroot⟩ : ∃ r, b.nodes.getLast? = some r := by
    cases h : b.nodes.getLast? with
    | none => simp [Spec.sane, h] at hb
    | some r => exact ⟨r, rfl⟩
  have hnum : root.numNodes = b.nodes.length := by simpa [Spec.sane, hroot] using hb
  have hne : b.nodes ≠ [] := by intro e; simp [e] at hroot
  have hlen : 0 < b.nodes.length := List.length_pos_iff.mpr hne
  have hrev : b.nodes.reverse = root :: b.nodes.dropLast.reverse := by
    have hl : b.nodes.getLast hne = root := by
      have := List.getLast?_eq_some_getLast hne
      rw [hroot] at this
      exact (Option.some.inj this).symm
    have := List.dropLast_concat_getLast hne
    rw [hl] at this
    have h2 : b.nodes.reverse = (b.nodes.dropLast ++ [root]).reverse := by rw [this]
    rw [h2]
    simp
  unfold isPrefix C07_leafSpec
  have hsl : (⟨[Node.leaf], b.noneIsLeaf, ""⟩ : Spec).sane = true := rfl
  simp only [hsl, hb, Bool.not_true, Bool.or_self, Bool.false_eq_true, if_false, bne_self_eq_false,
    nsCompatible, beq_self_eq_true, Bool.true_or, Spec.numNodes, List.length_singleton]
  have hgt : ¬ (1 > b.nodes.length) := by omega
  simp only [hgt, if_false, List.reverse_cons, List.reverse_nil, List.nil_append]
  rw [hrev]
  simp only [isPrefixGo, Node.leaf, beq_self_eq_true, if_true]
  have hz : (root.numNodes == 0) = false := by simp [hnum]; omega
  have hl : ¬ ((root :: b.nodes.dropLast.reverse).length < root.numNodes) := by
    simp [hnum]; omega
  have hdrop : (root :: b.nodes.dropLast.reverse).drop root.numNodes = [] := by
    apply List.drop_of_length_le
    simp [hnum]; omega
  simp only [hz, Bool.false_or, decide_eq_true_eq, hl, if_false, hdrop, isPrefixGo, List.isEmpty_nil,
    Bool.not_true, Bool.false_eq_true, Bool.true_and]
  simp [Spec.kind, hroot]

/-- `flatten_up_to` with the leaf treespec returns the whole tree as the single "leaf" -/
theorem C07_flatten_up_to_leaf (reg : Registry) (nil : Bool) (t : PyObj) :
    flattenUpTo reg { nodes := [Node.leaf], noneIsLeaf := nil, ns := "" } t = .ok [t] := by
  simp [flattenUpTo, Spec.sane, Spec.numLeaves, Node.leaf, flattenUpToGo]

/-- a tuple treespec never accepts a list (and vice versa): `ValueError`, not another exception -/
theorem C07_kind_mismatch_value_error (reg : Registry) (nil : Bool) (ns : String) (n : Nat)
    (node : Node) (hk : node.kind = .tuple) (nodes : List Node) (xs : List PyObj)
    (agenda acc : List PyObj) :
    flattenUpToGo reg nil ns n (node :: nodes) (.list xs :: agenda) acc = .error .value := by
  simp [flattenUpToGo, hk]

/-- a dict-kind treespec node matches dict, OrderedDict and defaultdict objects alike, by key *set*:
an object with a different key set is rejected with `ValueError` -/
theorem C07_dict_keyset_mismatch (reg : Registry) (nil : Bool) (ns : String) (n : Nat)
    (node : Node) (hk : node.kind = .dict) (nodes : List Node) (kvs : List (Key × PyObj))
    (agenda acc : List PyObj) (hne : keySetEq node.keys (kvs.map (·.1)) = false) :
    flattenUpToGo reg nil ns n (node :: nodes) (.odict kvs :: agenda) acc = .error .value ∧
    flattenUpToGo reg nil ns n (node :: nodes) (.ddict Option.none kvs :: agenda) acc = .error .value := by
  simp [flattenUpToGo, hk, dictItems?, hne]

/-! ### refinement: the array walk of `IsPrefix` decides the tree-level prefix relation

`STree.prefixB` (Model/STree.lean) is the relation the property describes, as a structural
recursion over shapes: a leaf is a prefix of anything; a `None` / tuple / list / deque node matches a
node of the same kind and arity (whatever the deque's `maxlen`); namedtuple / struct-sequence /
custom nodes additionally need the same class / metadata and the same registration; the three dict
kinds match one another when their key *sets* agree, the children being paired **by key**.
`STree.sameB` says that no leaf of the first sits over an internal node of the second. -/

/-- **`is_prefix` / `<=` / `<` on treespecs decide exactly the tree-level prefix relation**, for all
well-formed shapes of any size, any nesting of dict nodes whose key orders differ, and any
`none_is_leaf` / namespace combination.  (Pinned tree before `fix: 077e6b2`: false — nested
re-orderings with unequal sub-tree sizes.) -/
theorem C07_is_prefix_refines (a b : STree) (ha : a.wf = true) (hb : b.wf = true)
    (nil nil' : Bool) (ns ns' : String) (strict : Bool) :
    isPrefix (a.spec nil ns) (b.spec nil' ns') strict =
      .ok (nil == nil' && nsCompatible ns ns' && a.prefixB b && (!strict || !a.sameB b)) := by
  unfold isPrefix
  simp only [STree.spec_sane, Bool.not_true, Bool.or_self, Bool.false_eq_true, if_false,
    STree.spec_numNodes]
  simp only [STree.spec]
  by_cases hn : nil = nil'
  · subst hn
    simp only [bne_self_eq_false, Bool.false_eq_true, if_false, beq_self_eq_true, Bool.true_and]
    by_cases hc : nsCompatible ns ns' = true
    · simp only [hc, Bool.not_true, Bool.false_eq_true, if_false, Bool.true_and]
      have hgo := isPrefixGo_enc strict a ha b hb [] [] true
      simp only [List.append_nil, STree.renc] at hgo
      by_cases hp : a.prefixB b = true
      · have hsz := STree.prefixB_size a ha b hb hp
        have hng : ¬ (a.size > b.size) := by omega
        simp only [hng, if_false, hgo, hp, if_true, Bool.true_and, isPrefixGo, List.isEmpty_nil,
          Bool.not_true, Bool.false_eq_true]
      · simp only [hgo, hp, Bool.false_eq_true, if_false, Bool.false_and, ite_self]
    · simp [hc]
  · simp [hn]

/-- non-strict form: `a <= b` / `a.is_prefix(b)` -/
theorem C07_is_prefix_iff (a b : STree) (ha : a.wf = true) (hb : b.wf = true) (nil : Bool)
    (ns : String) :
    isPrefix (a.spec nil ns) (b.spec nil ns) false = .ok (a.prefixB b) := by
  rw [C07_is_prefix_refines a b ha hb]
  simp [nsCompatible]

/-- strict form: `a < b` iff `a` is a prefix of `b` and some leaf of `a` covers an internal node -/
theorem C07_is_prefix_strict_iff (a b : STree) (ha : a.wf = true) (hb : b.wf = true) (nil : Bool)
    (ns : String) :
    isPrefix (a.spec nil ns) (b.spec nil ns) true = .ok (a.prefixB b && !a.sameB b) := by
  rw [C07_is_prefix_refines a b ha hb]
  simp [nsCompatible]

/-- the walk never raises (no `InternalError`) on encodings of well-formed shapes -/
theorem C07_is_prefix_total (a b : STree) (ha : a.wf = true) (hb : b.wf = true)
    (nil nil' : Bool) (ns ns' : String) (strict : Bool) :
    ∃ r, isPrefix (a.spec nil ns) (b.spec nil' ns') strict = .ok r :=
  ⟨_, C07_is_prefix_refines a b ha hb nil nil' ns ns' strict⟩

/-- a prefix never has more nodes (so the size guard of `IsPrefix` never changes the answer) -/
theorem C07_prefix_not_larger (a b : STree) (ha : a.wf = true) (hb : b.wf = true)
    (h : a.prefixB b = true) : a.size ≤ b.size := STree.prefixB_size a ha b hb h

/-- the same for treespecs made by flattening any two well-formed trees under one configuration: they
are encodings of well-formed shapes (`flatten_isEnc`), so `is_prefix` decides the prefix relation of
their shapes -/
theorem C07_is_prefix_of_flatten (cfg : Cfg) (t u : PyObj) (ht : t.wf = true) (hu : u.wf = true)
    (lt lu : List PyObj) (st su : Spec) (h1 : flatten cfg t = .ok (lt, st)) (h2 : flatten cfg u = .ok (lu, su))
    (strict : Bool) :
    ∃ a b : STree, a.wf = true ∧ b.wf = true ∧ lt.length = a.leaves ∧ lu.length = b.leaves ∧
      isPrefix st su strict = .ok (nsCompatible st.ns su.ns && a.prefixB b && (!strict || !a.sameB b)) := by
  obtain ⟨a, ha, ea, la⟩ := flatten_isEnc cfg t ht lt st h1
  obtain ⟨b, hb, eb, lb⟩ := flatten_isEnc cfg u hu lu su h2
  refine ⟨a, b, ha, hb, la, lb, ?_⟩
  rw [ea, eb, C07_is_prefix_refines a b ha hb]
  simp [STree.spec]

/-! ### `flatten_up_to` and its agreement with `is_prefix`

`STree.upTo` (Lemmas/EncUpTo.lean) matches a tree against a shape by structural recursion and returns
the sub-trees sitting at the shape's leaves; `shapeOf` (Lemmas/ShapeOf.lean) is the shape `flatten`
assigns to a tree. -/

/-- **`flatten_up_to` on an encoding is the structural match** (agenda machine of `FlattenUpTo`,
reversed array, children pushed in reverse), for every shape and every tree -/
theorem C07_flatten_up_to_refines (reg : Registry) (a : STree) (ha : a.wf = true) (nil : Bool)
    (ns : String) (t : PyObj) : flattenUpTo reg (a.spec nil ns) t = a.upTo reg nil ns t :=
  flattenUpTo_enc reg a ha nil ns t

/-- on success there is exactly one result per leaf of the shape -/
theorem C07_flatten_up_to_count (reg : Registry) (a : STree) (ha : a.wf = true) (nil : Bool)
    (ns : String) (t : PyObj) (ls : List PyObj) (h : flattenUpTo reg (a.spec nil ns) t = .ok ls) :
    ls.length = (a.spec nil ns).numLeaves := by
  rw [C07_flatten_up_to_refines reg a ha] at h
  rw [STree.spec_numLeaves]
  exact STree.upTo_length reg nil ns a t ls h

/-- **matching a tree against a shape succeeds exactly when the shape is a prefix of the tree's own
shape** — for every shape that fits the registry (`STree.good`: what `flatten` and the constructors
build) and every well-formed tree; dict kinds interchangeable, children paired by key, deques
regardless of `maxlen`, registrations identical -/
theorem C07_up_to_iff_prefix (cfg : Cfg) (s : Bool) (a : STree) (ha : a.wf = true)
    (hg : a.good cfg.reg cfg.ns = true) (t : PyObj) (ht : t.wf = true) :
    okB (flattenUpTo cfg.reg (a.spec cfg.noneIsLeaf cfg.ns) t) = a.prefixB (shapeOf cfg s t) := by
  rw [C07_flatten_up_to_refines cfg.reg a ha]
  exact upTo_iff_prefix cfg s a ha hg t ht

theorem flatten_ns (cfg : Cfg) (t : PyObj) (ls : List PyObj) (sp : Spec) (h : flatten cfg t = .ok (ls, sp)) :
    sp.ns = cfg.ns ∨ sp.ns = "" := by
  unfold flatten at h
  simp only at h
  split at h
  · simp at h
  · simp only [Except.ok.injEq, Prod.mk.injEq] at h
    obtain ⟨_, h2⟩ := h
    subst h2
    simp only
    split <;> simp

/-- **the two engine implementations of the prefix test agree**: for a prefix treespec made by
flattening `p` and any tree `t` (same configuration, no predicate), `flatten_up_to(p_spec, t)` succeeds
iff `p_spec.is_prefix(tree_structure(t))` -/
theorem C07_flatten_up_to_agrees_with_is_prefix (cfg : Cfg) (hp : cfg.pred = Option.none) (p t : PyObj)
    (hpw : p.wf = true) (htw : t.wf = true) (lp lt : List PyObj) (sp st : Spec)
    (h1 : flatten cfg p = .ok (lp, sp)) (h2 : flatten cfg t = .ok (lt, st)) (hns : sp.ns = cfg.ns) :
    okB (flattenUpTo cfg.reg sp t) = true ↔ isPrefix sp st false = .ok true := by
  obtain ⟨e1, _⟩ := flatten_shapeOf cfg hp p hpw lp sp h1
  obtain ⟨e2, _⟩ := flatten_shapeOf cfg hp t htw lt st h2
  obtain ⟨w1, g1⟩ := wg cfg (!cfg.insertionOrdered) p hpw
  obtain ⟨w2, _⟩ := wg cfg (!cfg.insertionOrdered) t htw
  have hc : nsCompatible sp.ns st.ns = true := by
    rcases flatten_ns cfg t lt st h2 with h | h <;> simp [nsCompatible, hns, h]
  rw [e1, e2, hns]
  rw [C07_up_to_iff_prefix cfg (!cfg.insertionOrdered) _ w1 g1 t htw, C07_is_prefix_refines _ _ w1 w2]
  simp only [STree.spec, hns] at hc ⊢
  simp [hc]

/-- in the global namespace the side condition on the recorded namespace is void -/
theorem C07_flatten_up_to_agrees_with_is_prefix_global (cfg : Cfg) (hp : cfg.pred = Option.none)
    (hns : cfg.ns = "") (p t : PyObj) (hpw : p.wf = true) (htw : t.wf = true) (lp lt : List PyObj)
    (sp st : Spec) (h1 : flatten cfg p = .ok (lp, sp)) (h2 : flatten cfg t = .ok (lt, st)) :
    okB (flattenUpTo cfg.reg sp t) = true ↔ isPrefix sp st false = .ok true := by
  apply C07_flatten_up_to_agrees_with_is_prefix cfg hp p t hpw htw lp lt sp st h1 h2
  rcases flatten_ns cfg p lp sp h1 with h | h
  · exact h
  · rw [h, hns]

/-! ### order laws -/

/-- `spec <= spec` -/
theorem C07_is_prefix_refl (a : STree) (ha : a.wf = true) (nil : Bool) (ns : String) :
    isPrefix (a.spec nil ns) (a.spec nil ns) false = .ok true := by
  rw [C07_is_prefix_iff a a ha ha, STree.prefixB_refl a ha]

/-- **`<=` on treespecs is transitive** (same options): through any chain of dict kinds and key orders -/
theorem C07_is_prefix_trans (a b c : STree) (ha : a.wf = true) (hb : b.wf = true) (hc : c.wf = true)
    (nil : Bool) (ns : String)
    (h1 : isPrefix (a.spec nil ns) (b.spec nil ns) false = .ok true)
    (h2 : isPrefix (b.spec nil ns) (c.spec nil ns) false = .ok true) :
    isPrefix (a.spec nil ns) (c.spec nil ns) false = .ok true := by
  rw [C07_is_prefix_iff a b ha hb] at h1
  rw [C07_is_prefix_iff b c hb hc] at h2
  rw [C07_is_prefix_iff a c ha hc]
  simp only [Except.ok.injEq] at h1 h2 ⊢
  exact STree.prefixB_trans a ha b hb c hc h1 h2

/-- `a <= b` and `b <= a` force equal node counts (the shapes then differ at most in dict kind / key
order / deque maxlen), and then neither is a *strict* prefix of the other -/
theorem C07_is_prefix_antisymm (a b : STree) (ha : a.wf = true) (hb : b.wf = true) (nil : Bool) (ns : String)
    (h1 : isPrefix (a.spec nil ns) (b.spec nil ns) false = .ok true)
    (h2 : isPrefix (b.spec nil ns) (a.spec nil ns) false = .ok true) :
    (a.spec nil ns).numNodes = (b.spec nil ns).numNodes := by
  rw [C07_is_prefix_iff a b ha hb] at h1
  rw [C07_is_prefix_iff b a hb ha] at h2
  simp only [Except.ok.injEq] at h1 h2
  rw [STree.spec_numNodes, STree.spec_numNodes]
  exact STree.prefixB_antisymm_size a b ha hb h1 h2

/-- non-vacuity, on the witness of the repaired defect: `OD(a=OD(x=*,y=*), b=*)` is a prefix of
`OD(b=*, a=OD(y=(*,), x=*))` (outer and inner dict both re-ordered, unequal sub-tree sizes) -/
def C07_witnessA : STree :=
  .node ⟨.ordereddict, .keys [.str "a", .str "b"], Option.none, Option.none, Option.none⟩
    [.node ⟨.ordereddict, .keys [.str "x", .str "y"], Option.none, Option.none, Option.none⟩
      [.leaf, .leaf], .leaf]
def C07_witnessB : STree :=
  .node ⟨.ordereddict, .keys [.str "b", .str "a"], Option.none, Option.none, Option.none⟩
    [.leaf, .node ⟨.ordereddict, .keys [.str "y", .str "x"], Option.none, Option.none, Option.none⟩
      [.node ⟨.tuple, .none, Option.none, Option.none, Option.none⟩ [.leaf], .leaf]]

example : C07_witnessA.wf = true ∧ C07_witnessB.wf = true ∧
    C07_witnessA.prefixB C07_witnessB = true ∧ C07_witnessA.sameB C07_witnessB = false := by
  decide

example : isPrefix (C07_witnessA.spec false "") (C07_witnessB.spec false "") true = .ok true := by
  rw [C07_is_prefix_strict_iff _ _ (by decide) (by decide)]
  exact congrArg _ (by decide)

/-! ### the third implementation: `prefix_errors` -/

/-- **`prefix_errors` reports nothing exactly when `flatten_up_to` succeeds** — for every prefix tree without
registered custom nodes (leaves, None, tuple, list, deque, dict / OrderedDict / defaultdict in either dict-order
mode, unregistered namedtuple and struct-sequence classes, any nesting), every full tree, every registry,
`none_is_leaf` and namespace, no predicate, with no assumption on the registry or on flatten functions.  *Partial* (the full statement under assumptions is `C07_prefix_errors_agree` below): it also covers prefix trees with
registered custom nodes (there the Python side goes through `tree_flatten_one_level`, which additionally
validates what the flatten function of the *full* tree's node returns, where `flatten_up_to` does not look at
its entries: equality then needs well-behaved flatten functions and a consistent registry); those are
decided by the correspondence stream (`(prefix_errors …)` lines incl. misbehaving flatten functions) and the
oracle. -/
theorem C07_prefix_errors_agree_partial (cfg : Cfg) (hp : cfg.pred = Option.none) (p : PyObj)
    (hwf : p.wf = true) (hnc : p.noCustom cfg = true) (ls : List PyObj) (sp : Spec)
    (h : flatten cfg p = .ok (ls, sp)) (hns : sp.ns = cfg.ns) (t : PyObj) :
    prefixErrors cfg p t = .ok [] ↔ ∃ subtrees, flattenUpTo cfg.reg sp t = .ok subtrees := by
  obtain ⟨e, _⟩ := flatten_shapeOf cfg hp p hwf ls sp h
  obtain ⟨w, _⟩ := wg cfg (!cfg.insertionOrdered) p hwf
  rw [e, hns, flattenUpTo_enc cfg.reg _ w]
  exact pe_agree cfg (!cfg.insertionOrdered) hp p hnc [] t

/-- the tree-level form (no treespec involved): against the structural matcher -/
theorem C07_prefix_errors_structural_partial (cfg : Cfg) (hp : cfg.pred = Option.none) (p : PyObj)
    (hnc : p.noCustom cfg = true) (t : PyObj) :
    prefixErrors cfg p t = .ok [] ↔
      ∃ subtrees, STree.upTo cfg.reg cfg.noneIsLeaf cfg.ns (shapeOf cfg (!cfg.insertionOrdered) p) t = .ok subtrees :=
  pe_agree cfg (!cfg.insertionOrdered) hp p hnc [] t

/-- non-vacuity: a defaultdict prefix against an OrderedDict in another key order matches; against a renamed key
it reports one `keys` error at the root; a tuple against a list one `types` error at the path -/
def okIs (r : Except Err PErrs) (es : PErrs) : Bool :=
  match r with
  | .ok a => a == es
  | .error _ => false

example :
    let cfg : Cfg := {}
    let p : PyObj := .list [.ddict (some 0) [(.str "b", .leaf 0 1), (.str "a", .tuple [.leaf 0 2])]]
    p.noCustom cfg = true ∧ p.wf = true ∧
    okIs (prefixErrors cfg p (.list [.odict [(.str "a", .tuple [.none]), (.str "b", .list [])]])) [] = true ∧
    okIs (prefixErrors cfg p (.list [.dict [(.str "a", .tuple [.none]), (.str "c", .list [])]])) [(.keys, [.int 0])] = true ∧
    okIs (prefixErrors cfg p (.list [.dict [(.str "a", .list [.none]), (.str "b", .list [])]]))
      [(.types, [.int 0, .str "a"])] = true := by decide



/-- **the three implementations agree**: for every pair of well-formed trees whose registered classes have
well-behaved flatten functions (`tame`: the 2- or 3-tuple with as many entries as children), a registry that files
every registration under its own class, no predicate: `prefix_errors(p, t)` reports nothing ⇔
`tree_structure(p).flatten_up_to(t)` succeeds ⇔ `tree_structure(p).is_prefix(tree_structure(t))` — every node
kind, registered custom nodes included, any nesting, both dict-order modes, every namespace and `none_is_leaf`.
(Where a flatten function of the *full* tree misbehaves the first two differ by design of the code:
`tree_flatten_one_level` validates its return value, `flatten_up_to` never looks at its entries — the
correspondence stream runs both on such trees.) -/
theorem C07_prefix_errors_agree (cfg : Cfg) (hp : cfg.pred = Option.none) (hreg : cfg.reg.OK) (p t : PyObj)
    (hwf : p.wf = true) (htp : p.tame = true) (htt : t.tame = true) (ls : List PyObj) (sp : Spec)
    (h : flatten cfg p = .ok (ls, sp)) (hns : sp.ns = cfg.ns) :
    prefixErrors cfg p t = .ok [] ↔ ∃ subtrees, flattenUpTo cfg.reg sp t = .ok subtrees := by
  obtain ⟨e, _⟩ := flatten_shapeOf cfg hp p hwf ls sp h
  obtain ⟨w, _⟩ := wg cfg (!cfg.insertionOrdered) p hwf
  rw [e, hns, flattenUpTo_enc cfg.reg _ w]
  exact pe_full cfg (!cfg.insertionOrdered) hp hreg p htp [] t htt

theorem C07_three_way (cfg : Cfg) (hp : cfg.pred = Option.none) (hreg : cfg.reg.OK) (p t : PyObj)
    (hpw : p.wf = true) (htw : t.wf = true) (htp : p.tame = true) (htt : t.tame = true)
    (lp lt : List PyObj) (sp st : Spec)
    (h1 : flatten cfg p = .ok (lp, sp)) (h2 : flatten cfg t = .ok (lt, st)) (hns : sp.ns = cfg.ns) :
    (prefixErrors cfg p t = .ok [] ↔ ∃ subtrees, flattenUpTo cfg.reg sp t = .ok subtrees) ∧
    ((∃ subtrees, flattenUpTo cfg.reg sp t = .ok subtrees) ↔ isPrefix sp st false = .ok true) := by
  refine ⟨C07_prefix_errors_agree cfg hp hreg p t hpw htp htt lp sp h1 hns, ?_⟩
  have := C07_flatten_up_to_agrees_with_is_prefix cfg hp p t hpw htw lp lt sp st h1 h2 hns
  rw [← this]
  cases flattenUpTo cfg.reg sp t <;> simp [okB]

/-- non-vacuity with a registered class: equal metadata and children match; different metadata is one `metadata`
error at the node; an instance of another class one `types` error -/
def C07_demoCfg : Cfg :=
  { reg := { global := [(0, 0, ⟨7, 0, 0, .flattened, .named⟩)], named := [] } }

example :
    let cfg := C07_demoCfg
    let p : PyObj := .tuple [.user 0 (some (.int 1)) .ok [.leaf 0 1, .list [.leaf 0 2]]]
    cfg.reg.okB = true ∧ p.tame = true ∧ p.wf = true ∧
    okIs (prefixErrors cfg p (.tuple [.user 0 (some (.int 1)) .ok [.none, .list [.tuple []]]])) [] = true ∧
    okIs (prefixErrors cfg p (.tuple [.user 0 (some (.int 2)) .ok [.none, .list [.tuple []]]]))
      [(.metadata, [.int 0])] = true ∧
    okIs (prefixErrors cfg p (.tuple [.user 0 (some (.int 1)) .ok [.none, .tuple []]]))
      [(.types, [.int 0, .str "c1"])] = true := by decide

end Optree
