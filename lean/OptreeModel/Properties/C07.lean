/-
  C07  Prefix matching is exact and its three implementations agree.
-/
import OptreeModel.Model.Compare

namespace Optree

def C07_leafSpec (nil : Bool) : Spec := { nodes := [Node.leaf], noneIsLeaf := nil, ns := "" }

/-- `is_prefix` is `False` (never an error) for mismatching `none_is_leaf`, conflicting namespaces,
or a prefix candidate with more nodes -/
theorem C07_guards (a b : Spec) (strict : Bool) (hs : a.sane = true ∧ b.sane = true)
    (h : a.noneIsLeaf ≠ b.noneIsLeaf ∨ nsCompatible a.ns b.ns = false ∨ a.numNodes > b.numNodes) :
    isPrefix a b strict = .ok false := by
  unfold isPrefix
  simp only [hs.1, hs.2, Bool.not_true, Bool.or_self, Bool.false_eq_true, if_false]
  rcases h with h | h | h
  · simp [h]
  · by_cases hn : a.noneIsLeaf = b.noneIsLeaf <;> simp [hn, h]
  · by_cases hn : a.noneIsLeaf = b.noneIsLeaf
    · by_cases hc : nsCompatible a.ns b.ns = true <;> simp [hn, hc, h]
    · simp [hn]

/-- **A leaf is a prefix of every treespec** with the same `none_is_leaf`; strictly so exactly when
the other treespec is not a leaf itself -/
theorem C07_leaf_is_prefix (b : Spec) (hb : b.sane = true) (strict : Bool) :
    isPrefix (C07_leafSpec b.noneIsLeaf) b strict =
      .ok (!strict || !(b.kind == .leaf)) := by
  obtain ⟨root, hroot⟩ : ∃ r, b.nodes.getLast? = some r := by
    cases h : b.nodes.getLast? with
    | none => simp [Spec.sane, h] at hb
    | some r => exact ⟨r, rfl⟩
  have hnum : root.numNodes = b.nodes.length := by simpa [Spec.sane, hroot] using hb
  have hne : b.nodes ≠ [] := by intro e; simp [e] at hroot
  have hlen : 0 < b.nodes.length := List.length_pos_iff.mpr hne
  have hrev : b.nodes.reverse = root :: b.nodes.dropLast.reverse := by
    have hl : b.nodes.getLast hne = root := by
      have := List.getLast?_eq_some_getLast hne
      rw [hroot] at this
      exact (Option.some.inj this).symm
    have := List.dropLast_concat_getLast hne
    rw [hl] at this
    have h2 : b.nodes.reverse = (b.nodes.dropLast ++ [root]).reverse := by rw [this]
    rw [h2]
    simp
  unfold isPrefix C07_leafSpec
  have hsl : (⟨[Node.leaf], b.noneIsLeaf, ""⟩ : Spec).sane = true := rfl
  simp only [hsl, hb, Bool.not_true, Bool.or_self, Bool.false_eq_true, if_false, bne_self_eq_false,
    nsCompatible, beq_self_eq_true, Bool.true_or, Spec.numNodes, List.length_singleton]
  have hgt : ¬ (1 > b.nodes.length) := by omega
  simp only [hgt, if_false, List.reverse_cons, List.reverse_nil, List.nil_append]
  rw [hrev]
  simp only [isPrefixGo, Node.leaf, beq_self_eq_true, if_true]
  have hz : (root.numNodes == 0) = false := by simp [hnum]; omega
  have hl : ¬ ((root :: b.nodes.dropLast.reverse).length < root.numNodes) := by
    simp [hnum]; omega
  have hdrop : (root :: b.nodes.dropLast.reverse).drop root.numNodes = [] := by
    apply List.drop_of_length_le
    simp [hnum]; omega
  simp only [hz, Bool.false_or, decide_eq_true_eq, hl, if_false, hdrop, isPrefixGo, List.isEmpty_nil,
    Bool.not_true, Bool.false_eq_true, Bool.true_and]
  simp [Spec.kind, hroot]

/-- `flatten_up_to` with the leaf treespec returns the whole tree as the single "leaf" -/
theorem C07_flatten_up_to_leaf (reg : Registry) (nil : Bool) (t : PyObj) :
    flattenUpTo reg { nodes := [Node.leaf], noneIsLeaf := nil, ns := "" } t = .ok [t] := by
  simp [flattenUpTo, Spec.sane, Spec.numLeaves, Node.leaf, flattenUpToGo]

/-- a tuple treespec never accepts a list (and vice versa): `ValueError`, not another exception -/
theorem C07_kind_mismatch_value_error (reg : Registry) (nil : Bool) (ns : String) (n : Nat)
    (node : Node) (hk : node.kind = .tuple) (nodes : List Node) (xs : List PyObj)
    (agenda acc : List PyObj) :
    flattenUpToGo reg nil ns n (node :: nodes) (.list xs :: agenda) acc = .error .value := by
  simp [flattenUpToGo, hk]

/-- a dict-kind treespec node matches dict, OrderedDict and defaultdict objects alike, by key *set*:
an object with a different key set is rejected with `ValueError` -/
theorem C07_dict_keyset_mismatch (reg : Registry) (nil : Bool) (ns : String) (n : Nat)
    (node : Node) (hk : node.kind = .dict) (nodes : List Node) (kvs : List (Key × PyObj))
    (agenda acc : List PyObj) (hne : keySetEq node.keys (kvs.map (·.1)) = false) :
    flattenUpToGo reg nil ns n (node :: nodes) (.odict kvs :: agenda) acc = .error .value ∧
    flattenUpToGo reg nil ns n (node :: nodes) (.ddict Option.none kvs :: agenda) acc = .error .value := by
  simp [flattenUpToGo, hk, dictItems?, hne]

end Optree
