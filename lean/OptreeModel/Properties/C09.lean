/-
  C09  Broadcasting replicates prefix leaves onto the matching positions.
-/
import OptreeModel.Model.Ops
import OptreeModel.Lemmas.EncBroadcast
import OptreeModel.Lemmas.PrefixOrder
import OptreeModel.Lemmas.LubOrder
import OptreeModel.Properties.C07
import OptreeModel.Properties.C05
import OptreeModel.Properties.C02
import OptreeModel.Lemmas.GraftBuild

namespace Optree

/-- mismatching `none_is_leaf` or conflicting namespaces are rejected with `ValueError` -/
theorem C09_rejects (a b : Spec) (hs : a.sane = true ∧ b.sane = true)
    (h : a.noneIsLeaf ≠ b.noneIsLeaf ∨ nsCompatible a.ns b.ns = false) :
    broadcast a b = .error .value := by
  unfold broadcast
  simp only [hs.1, hs.2, Bool.not_true, Bool.or_self, Bool.false_eq_true, if_false]
  rcases h with h | h
  · simp [h]
  · by_cases hn : a.noneIsLeaf = b.noneIsLeaf <;> simp [hn, h]

theorem copyRev_all (nodes : List Node) (hne : nodes ≠ []) :
    copyRev nodes ((nodes.length : Int) - 1) nodes.length = nodes.reverse := by
  unfold copyRev
  have h1 : ((nodes.length : Int) - 1).toNat + 1 = nodes.length := by
    have : 0 < nodes.length := List.length_pos_iff.mpr hne
    omega
  rw [h1]
  simp

/-- **A leaf is a prefix of everything** (engine level): where the first treespec has a leaf, the
merge walk copies the other treespec's whole subtree and reports its counts -/
theorem C09_leaf_left_go (fuel : Nat) (otr : List Node) (opos : Pos) (out : List Node)
    (oroot : Node) (hat : nodeAt otr opos = .ok oroot) (hsize : ¬ (opos + 1 < (oroot.numNodes : Int))) :
    broadcastGo (fuel + 1) [Node.leaf] 0 otr opos out =
      .ok (⟨1, oroot.numNodes, oroot.numNodes, oroot.numLeaves⟩,
           out ++ copyRev otr opos oroot.numNodes) := by
  rw [broadcastGo]
  have h0 : nodeAt [Node.leaf] 0 = .ok Node.leaf := rfl
  simp only [h0, hat]
  have hg : (decide ((0 : Int) + 1 < ((Node.leaf).numNodes : Int)) ||
      decide (opos + 1 < (oroot.numNodes : Int))) = false := by
    simp [Node.leaf, hsize]
  simp only [hg, Bool.false_eq_true, if_false]
  simp [Node.leaf]

/-- symmetric case: where the *other* treespec has a leaf, the first one's subtree is kept -/
theorem C09_leaf_right_go (fuel : Nat) (tr : List Node) (pos : Pos) (out : List Node)
    (root : Node) (hat : nodeAt tr pos = .ok root) (hsize : ¬ (pos + 1 < (root.numNodes : Int)))
    (hk : root.kind ≠ .leaf) :
    broadcastGo (fuel + 1) tr pos [Node.leaf] 0 out =
      .ok (⟨root.numNodes, 1, root.numNodes, root.numLeaves⟩, out ++ copyRev tr pos root.numNodes) := by
  rw [broadcastGo]
  have h0 : nodeAt [Node.leaf] 0 = .ok Node.leaf := rfl
  simp only [h0, hat]
  have hg : (decide (pos + 1 < (root.numNodes : Int)) ||
      decide ((0 : Int) + 1 < ((Node.leaf).numNodes : Int))) = false := by
    simp [Node.leaf, hsize]
  have hkb : (root.kind == Kind.leaf) = false := by simpa using hk
  simp only [hg, Bool.false_eq_true, if_false, hkb]
  simp [Node.leaf]

/-- conflicting node kinds are rejected with `ValueError` (tuple against list, …) -/
theorem C09_kind_conflict (fuel : Nat) (tr otr : List Node) (pos opos : Pos) (out : List Node)
    (root oroot : Node) (hat : nodeAt tr pos = .ok root) (hoat : nodeAt otr opos = .ok oroot)
    (hsz : ¬ (pos + 1 < (root.numNodes : Int))) (hosz : ¬ (opos + 1 < (oroot.numNodes : Int)))
    (hk : root.kind = .tuple) (hok : oroot.kind = .list) :
    broadcastGo (fuel + 1) tr pos otr opos out = .error .value := by
  rw [broadcastGo]
  simp only [hat, hoat]
  have hg : (decide (pos + 1 < (root.numNodes : Int)) ||
      decide (opos + 1 < (oroot.numNodes : Int))) = false := by simp [hsz, hosz]
  simp [hg, hk, hok]

/-! ### non-vacuity -/

def C09_demo : Spec :=
  { nodes := [Node.leaf, Node.leaf,
              { kind := .tuple, arity := 2, data := .none, entries := Option.none, custom := Option.none,
                numLeaves := 2, numNodes := 3, originalKeys := Option.none }],
    noneIsLeaf := false, ns := "" }

example : C09_demo.sane = true := by decide

/-! ### refinement: the merge walk computes the least common suffix of the two shapes

`STree.lub` (Model/STree.lean) is the property's "least structure that both are prefixes of", as a
structural recursion: a leaf gives way to the other side; compatible nodes are merged child by child
(by position, or by key for the dict kinds) keeping the first operand's node. -/

/-- **`broadcast_to_common_suffix` on encodings is `lub`**: `ValueError` exactly on a conflict, otherwise the
encoding of the merged shape — for all well-formed shapes whose payloads fit their kinds, any nesting,
any dict key orders.  (The C++ walks both arrays with integer cursors, writes the result in reverse
post-order and patches each node's counts after every child.) -/
theorem C09_broadcast_refines (a b : STree) (ha : a.wf = true) (hfa : a.fitsT = true) (hb : b.wf = true)
    (hfb : b.fitsT = true) (nil : Bool) (ns ns' : String) (hc : nsCompatible ns ns' = true) :
    broadcast (a.spec nil ns) (b.spec nil ns') = bcastSpec a b nil (mergeNs ns ns') := by
  rw [broadcast_enc a b ha hfa hb hfb]
  simp [hc]

/-- spelled out: a conflict is a `ValueError`, otherwise the result is the treespec of `lub a b` -/
theorem C09_broadcast_cases (a b : STree) (nil : Bool) (ns : String) :
    (a.lub b = Option.none → bcastSpec a b nil ns = .error .value) ∧
    (∀ c, a.lub b = some c → bcastSpec a b nil ns = .ok (c.spec nil ns)) := by
  constructor
  · intro h; simp [bcastSpec, h]
  · intro c h; simp [bcastSpec, h]

/-- a leaf is replaced by the whole other operand, on either side -/
theorem C09_lub_leaf (b : STree) : STree.leaf.lub b = some b ∧ (∀ i cs, (STree.node i cs).lub .leaf = some (.node i cs)) :=
  ⟨rfl, fun _ _ => rfl⟩

mutual
/-- **the first operand is a prefix of the merged shape** (the result keeps its node types, key order and
custom entries, only leaves were replaced) -/
theorem C09_lub_extends_left : ∀ a : STree, a.wf = true → ∀ b : STree, b.wf = true → ∀ c : STree,
    a.lub b = some c → a.prefixB c = true
  | .leaf, _, _, _, _, _ => rfl
  | .node i cs, ha, .leaf, _, c, h => by
      simp only [STree.lub, Option.some.injEq] at h
      subst h
      exact STree.prefixB_refl _ ha
  | .node i cs, ha, .node j ds, hb, c, h => by
      obtain ⟨hnl, hnone, hdict, hw⟩ := STree.wf_node ha
      obtain ⟨_, _, hdictb, hwb⟩ := STree.wf_node hb
      have key : ∀ (rc : List STree), rc.length = cs.length → STree.prefixL cs rc = true →
          (i.kind.isDict = false) → (STree.node i cs).prefixB (.node i rc) = true := by
        intro rc hl hp hnd
        simp only [STree.prefixB, hl, beq_self_eq_true, Bool.true_and]
        rcases Kind.cases_eq i.kind with hk | hk | hk | hk | hk | hk | hk | hk | hk | hk | hk <;>
          first
            | exact absurd hk hnl
            | (simp [hk, Kind.isDict] at hnd; done)
            | (simp [hk, hp]; done)
      have keyD : ∀ (rc : List STree), rc.length = cs.length → STree.prefixL cs rc = true →
          (i.kind.isDict = true) → (STree.node i cs).prefixB (.node i rc) = true := by
        intro rc hl hp hd
        obtain ⟨hkl, hnd⟩ := hdict hd
        have hks : keySetEq i.keys i.keys = true := (keySetEq_iff _ _).mpr ⟨rfl, fun _ h => h⟩
        have hpd := STree.prefixD_eq i.keys rc (by omega) i.keys cs hkl (fun _ h => h)
        rw [pickD_self i.keys rc (by omega) hnd] at hpd
        simp only [STree.prefixB, hl, beq_self_eq_true, Bool.true_and]
        rcases Kind.cases_eq i.kind with hk | hk | hk | hk | hk | hk | hk | hk | hk | hk | hk <;>
          first
            | (simp [hk, Kind.isDict] at hd; done)
            | (simp only [hk, Kind.isDict, hks, hpd, hp, Bool.true_and])
      have seqCase : ∀ rc, STree.lubL cs ds = some rc → i.kind.isDict = false →
          (STree.node i cs).prefixB (.node i rc) = true := fun rc hl hnd =>
        key rc (STree.lubL_length cs ds rc hl).1 (C09_lubL_extends_left cs hw ds hwb rc hl) hnd
      have dictCase : j.kind.isDict = true → keySetEq i.keys j.keys = true → i.kind.isDict = true →
          ∀ rc, STree.lubD i.keys cs j.keys ds = some rc → (STree.node i cs).prefixB (.node i rc) = true := by
        intro hjd hks hid rc hl
        obtain ⟨hkl, hnd⟩ := hdict hid
        obtain ⟨hklb, hndb⟩ := hdictb hjd
        have hmem := ((keySetEq_iff _ _).mp hks).2
        rw [STree.lubD_eq j.keys ds hklb i.keys cs hkl hmem] at hl
        have hperm := pickD_perm hks hnd hndb hklb
        exact keyD rc (STree.lubL_length cs _ rc hl).1
          (C09_lubL_extends_left cs hw _ (STree.wfL_perm hperm hwb) rc hl) hid
      simp only [STree.lub] at h
      rcases Kind.cases_eq i.kind with hk | hk | hk | hk | hk | hk | hk | hk | hk | hk | hk
      · -- custom
        simp only [hk] at h
        cases hci : i.custom with
        | none => simp [hci] at h
        | some r =>
          cases hcj : j.custom with
          | none => simp [hci, hcj] at h
          | some r' =>
            simp only [hci, hcj] at h
            split at h
            · simp at h
            · cases hl : STree.lubL cs ds with
              | none => simp [hl] at h
              | some rc =>
                simp only [hl, Option.map_some, Option.some.injEq] at h
                subst h
                exact seqCase rc hl (by simp [hk, Kind.isDict])
      · exact absurd hk hnl
      · simp only [hk] at h
        split at h
        · simp at h
        · simp only [Option.some.injEq] at h; subst h; exact STree.prefixB_refl _ ha
      · simp only [hk] at h
        split at h
        · simp at h
        · cases hl : STree.lubL cs ds with
          | none => simp [hl] at h
          | some rc =>
            simp only [hl, Option.map_some, Option.some.injEq] at h; subst h
            exact seqCase rc hl (by simp [hk, Kind.isDict])
      · simp only [hk] at h
        split at h
        · simp at h
        · cases hl : STree.lubL cs ds with
          | none => simp [hl] at h
          | some rc =>
            simp only [hl, Option.map_some, Option.some.injEq] at h; subst h
            exact seqCase rc hl (by simp [hk, Kind.isDict])
      · simp only [hk] at h
        split at h
        · simp at h
        · rename_i hcond
          simp only [Bool.or_eq_true, Bool.not_eq_true', not_or, Bool.not_eq_false] at hcond
          cases hl : STree.lubD i.keys cs j.keys ds with
          | none => simp [hl] at h
          | some rc =>
            simp only [hl, Option.map_some, Option.some.injEq] at h; subst h
            exact dictCase hcond.1 hcond.2 (by simp [hk, Kind.isDict]) rc hl
      · simp only [hk] at h
        split at h
        · simp at h
        · cases hl : STree.lubL cs ds with
          | none => simp [hl] at h
          | some rc =>
            simp only [hl, Option.map_some, Option.some.injEq] at h; subst h
            exact seqCase rc hl (by simp [hk, Kind.isDict])
      · simp only [hk] at h
        split at h
        · simp at h
        · rename_i hcond
          simp only [Bool.or_eq_true, Bool.not_eq_true', not_or, Bool.not_eq_false] at hcond
          cases hl : STree.lubD i.keys cs j.keys ds with
          | none => simp [hl] at h
          | some rc =>
            simp only [hl, Option.map_some, Option.some.injEq] at h; subst h
            exact dictCase hcond.1 hcond.2 (by simp [hk, Kind.isDict]) rc hl
      · simp only [hk] at h
        split at h
        · simp at h
        · rename_i hcond
          simp only [Bool.or_eq_true, Bool.not_eq_true', not_or, Bool.not_eq_false] at hcond
          cases hl : STree.lubD i.keys cs j.keys ds with
          | none => simp [hl] at h
          | some rc =>
            simp only [hl, Option.map_some, Option.some.injEq] at h; subst h
            exact dictCase hcond.1 hcond.2 (by simp [hk, Kind.isDict]) rc hl
      · simp only [hk] at h
        split at h
        · simp at h
        · cases hl : STree.lubL cs ds with
          | none => simp [hl] at h
          | some rc =>
            simp only [hl, Option.map_some, Option.some.injEq] at h; subst h
            exact seqCase rc hl (by simp [hk, Kind.isDict])
      · simp only [hk] at h
        split at h
        · simp at h
        · cases hl : STree.lubL cs ds with
          | none => simp [hl] at h
          | some rc =>
            simp only [hl, Option.map_some, Option.some.injEq] at h; subst h
            exact seqCase rc hl (by simp [hk, Kind.isDict])
theorem C09_lubL_extends_left : ∀ cs : List STree, STree.wfL cs = true → ∀ ds : List STree,
    STree.wfL ds = true → ∀ rc : List STree, STree.lubL cs ds = some rc → STree.prefixL cs rc = true
  | [], _, [], _, rc, h => by simp [STree.lubL] at h; subst h; rfl
  | [], _, _ :: _, _, _, h => by simp [STree.lubL] at h
  | _ :: _, _, [], _, _, h => by simp [STree.lubL] at h
  | c :: cs, hw, d :: ds, hwd, rc, h => by
      simp only [STree.wfL, Bool.and_eq_true] at hw hwd
      simp only [STree.lubL] at h
      cases h1 : c.lub d with
      | none => simp [h1] at h
      | some x =>
        cases h2 : STree.lubL cs ds with
        | none => simp [h1, h2] at h
        | some xs =>
          simp [h1, h2] at h
          subst h
          simp [STree.prefixL, C09_lub_extends_left c hw.1 d hwd.1 x h1,
            C09_lubL_extends_left cs hw.2 ds hwd.2 xs h2]
end

mutual
/-- **idempotence**: broadcasting a shape with itself gives the shape back -/
theorem C09_lub_idem : ∀ a : STree, a.wf = true → a.fitsT = true → a.lub a = some a
  | .leaf, _, _ => rfl
  | .node i cs, ha, hf => by
      obtain ⟨hnl, hnone, hdict, hw⟩ := STree.wf_node ha
      simp only [STree.fitsT, Bool.and_eq_true] at hf
      have hL := C09_lubL_idem cs hw hf.2
      simp only [STree.lub]
      rcases Kind.cases_eq i.kind with hk | hk | hk | hk | hk | hk | hk | hk | hk | hk | hk
      · obtain ⟨r, hr⟩ : ∃ r, i.custom = some r := by
          have := hf.1
          simp only [NInfo.fits, hk, Bool.and_eq_true] at this
          exact Option.isSome_iff_exists.mp this.2
        simp [hk, hr, hL]
      · exact absurd hk hnl
      · simp [hk]
      · simp [hk, hL]
      · simp [hk, hL]
      · obtain ⟨hkl, hnd⟩ := hdict (by simp [hk, Kind.isDict])
        have hks : keySetEq i.keys i.keys = true := (keySetEq_iff _ _).mpr ⟨rfl, fun _ h => h⟩
        rw [show STree.lubD i.keys cs i.keys cs = some cs from by
          rw [STree.lubD_eq i.keys cs hkl i.keys cs hkl (fun _ h => h), pickD_self i.keys cs hkl hnd]; exact hL]
        simp [hk, Kind.isDict, hks]
      · simp [hk, hL]
      · obtain ⟨hkl, hnd⟩ := hdict (by simp [hk, Kind.isDict])
        have hks : keySetEq i.keys i.keys = true := (keySetEq_iff _ _).mpr ⟨rfl, fun _ h => h⟩
        rw [show STree.lubD i.keys cs i.keys cs = some cs from by
          rw [STree.lubD_eq i.keys cs hkl i.keys cs hkl (fun _ h => h), pickD_self i.keys cs hkl hnd]; exact hL]
        simp [hk, Kind.isDict, hks]
      · obtain ⟨hkl, hnd⟩ := hdict (by simp [hk, Kind.isDict])
        have hks : keySetEq i.keys i.keys = true := (keySetEq_iff _ _).mpr ⟨rfl, fun _ h => h⟩
        rw [show STree.lubD i.keys cs i.keys cs = some cs from by
          rw [STree.lubD_eq i.keys cs hkl i.keys cs hkl (fun _ h => h), pickD_self i.keys cs hkl hnd]; exact hL]
        simp [hk, Kind.isDict, hks]
      · simp [hk, hL]
      · simp [hk, hL]
theorem C09_lubL_idem : ∀ cs : List STree, STree.wfL cs = true → STree.fitsL cs = true →
    STree.lubL cs cs = some cs
  | [], _, _ => rfl
  | c :: cs, hw, hf => by
      simp only [STree.wfL, STree.fitsL, Bool.and_eq_true] at hw hf
      simp [STree.lubL, C09_lub_idem c hw.1 hf.1, C09_lubL_idem cs hw.2 hf.2]
end

/-- hence `spec.broadcast_to_common_suffix(spec) == spec` -/
theorem C09_broadcast_idem (a : STree) (ha : a.wf = true) (hfa : a.fitsT = true) (nil : Bool) (ns : String) :
    broadcast (a.spec nil ns) (a.spec nil ns) = .ok (a.spec nil (mergeNs ns ns)) := by
  rw [C09_broadcast_refines a a ha hfa ha hfa nil ns ns (by simp [nsCompatible])]
  simp [bcastSpec, C09_lub_idem a ha hfa]

/-! ### the merged shape is the *least* common suffix

`Lemmas/LubOrder.lean`: normal forms of `prefixB` / `lub` at a pair of nodes, then mutual structural
induction (children of dict kinds re-paired by key in both directions).  `RegsAgree`: each custom class has
one registration record among the two shapes — `is_prefix` compares registrations by identity while
`broadcast_to_common_suffix` compares the registered *class*, so two treespecs made before and after a
re-registration merge but are not prefixes of the result; that is the code, and the hypothesis says so. -/

/-- the merged shape is again well-formed with payloads fitting the kinds -/
theorem C09_lub_closed (a b c : STree) (ha : a.wf = true) (hfa : a.fitsT = true) (hb : b.wf = true)
    (hfb : b.fitsT = true) (h : a.lub b = some c) : c.wf = true ∧ c.fitsT = true :=
  STree.lub_wf a ha hfa b hb hfb c h

/-- **the second operand is a prefix of the merged shape** -/
theorem C09_lub_extends_right (a b c : STree) (ha : a.wf = true) (hfa : a.fitsT = true) (hb : b.wf = true)
    (hfb : b.fitsT = true) (hreg : RegsAgree a.regs b.regs) (h : a.lub b = some c) : b.prefixB c = true :=
  STree.lub_extends_right a ha hfa b hb hfb hreg c h

/-- **leastness**: whenever both operands are prefixes of some shape `d`, the merge succeeds and the
merged shape is a prefix of `d` -/
theorem C09_lub_least (a b d : STree) (ha : a.wf = true) (hfa : a.fitsT = true) (hb : b.wf = true)
    (hfb : b.fitsT = true) (hd : d.wf = true) (h1 : a.prefixB d = true) (h2 : b.prefixB d = true) :
    ∃ c, a.lub b = some c ∧ c.prefixB d = true :=
  STree.lub_least a ha hfa b hb hfb d hd h1 h2

/-- **`ValueError` exactly when the two shapes have no common suffix** -/
theorem C09_conflict_iff (a b : STree) (ha : a.wf = true) (hfa : a.fitsT = true) (hb : b.wf = true)
    (hfb : b.fitsT = true) (hreg : RegsAgree a.regs b.regs) :
    a.lub b = Option.none ↔ ¬ ∃ d : STree, d.wf = true ∧ a.prefixB d = true ∧ b.prefixB d = true := by
  constructor
  · rintro h ⟨d, hd, h1, h2⟩
    obtain ⟨c, hc, _⟩ := C09_lub_least a b d ha hfa hb hfb hd h1 h2
    simp [h] at hc
  · intro h
    cases hl : a.lub b with
    | none => rfl
    | some c =>
      exact absurd ⟨c, (C09_lub_closed a b c ha hfa hb hfb hl).1, C09_lub_extends_left a ha b hb c hl,
        C09_lub_extends_right a b c ha hfa hb hfb hreg hl⟩ h

/-- engine level: `a.broadcast_to_common_suffix(b)` raises `ValueError` iff no treespec has both as prefixes -/
theorem C09_broadcast_error_iff (a b : STree) (ha : a.wf = true) (hfa : a.fitsT = true) (hb : b.wf = true)
    (hfb : b.fitsT = true) (hreg : RegsAgree a.regs b.regs) (nil : Bool) (ns : String) :
    broadcast (a.spec nil ns) (b.spec nil ns) = .error .value ↔
      ¬ ∃ d : STree, d.wf = true ∧ a.prefixB d = true ∧ b.prefixB d = true := by
  rw [C09_broadcast_refines a b ha hfa hb hfb nil ns ns (by simp [nsCompatible]),
    ← C09_conflict_iff a b ha hfa hb hfb hreg]
  unfold bcastSpec
  cases a.lub b <;> simp

/-- engine level: both operands are `<=` the result, and the result is `<=` every common suffix -/
theorem C09_broadcast_is_least (a b : STree) (ha : a.wf = true) (hfa : a.fitsT = true) (hb : b.wf = true)
    (hfb : b.fitsT = true) (hreg : RegsAgree a.regs b.regs) (nil : Bool) (ns : String) (r : Spec)
    (h : broadcast (a.spec nil ns) (b.spec nil ns) = .ok r) :
    isPrefix (a.spec nil ns) r false = .ok true ∧ isPrefix (b.spec nil ns) r false = .ok true ∧
      ∀ d : STree, d.wf = true → isPrefix (a.spec nil ns) (d.spec nil ns) false = .ok true →
        isPrefix (b.spec nil ns) (d.spec nil ns) false = .ok true →
        isPrefix r (d.spec nil ns) false = .ok true := by
  rw [C09_broadcast_refines a b ha hfa hb hfb nil ns ns (by simp [nsCompatible])] at h
  unfold bcastSpec at h
  cases hl : a.lub b with
  | none => simp [hl] at h
  | some c =>
    simp only [hl, Except.ok.injEq] at h
    have hns : mergeNs ns ns = ns := by unfold mergeNs; split <;> simp_all
    rw [hns] at h
    subst h
    have hc := C09_lub_closed a b c ha hfa hb hfb hl
    refine ⟨?_, ?_, ?_⟩
    · rw [C07_is_prefix_iff a c ha hc.1, C09_lub_extends_left a ha b hb c hl]
    · rw [C07_is_prefix_iff b c hb hc.1, C09_lub_extends_right a b c ha hfa hb hfb hreg hl]
    · intro d hd h1 h2
      rw [C07_is_prefix_iff a d ha hd] at h1
      rw [C07_is_prefix_iff b d hb hd] at h2
      simp only [Except.ok.injEq] at h1 h2
      obtain ⟨c', hc', hp⟩ := C09_lub_least a b d ha hfa hb hfb hd h1 h2
      rw [hl] at hc'
      simp only [Option.some.injEq] at hc'
      subst hc'
      rw [C07_is_prefix_iff c d hc.1 hd, hp]

/-- **independent of argument order up to dict kind / key order**: the two results are prefixes of each
other (same nodes; only the node records taken from the other operand — dict kind, key order, custom
entries — may differ) -/
theorem C09_lub_comm (a b c : STree) (ha : a.wf = true) (hfa : a.fitsT = true) (hb : b.wf = true)
    (hfb : b.fitsT = true) (hreg : RegsAgree a.regs b.regs) (h : a.lub b = some c) :
    ∃ c', b.lub a = some c' ∧ c.prefixB c' = true ∧ c'.prefixB c = true := by
  have hc := C09_lub_closed a b c ha hfa hb hfb h
  have hac := C09_lub_extends_left a ha b hb c h
  have hbc := C09_lub_extends_right a b c ha hfa hb hfb hreg h
  obtain ⟨c', hc', hp'⟩ := C09_lub_least b a c hb hfb ha hfa hc.1 hbc hac
  have hcw := C09_lub_closed b a c' hb hfb ha hfa hc'
  have hbc' := C09_lub_extends_left b hb a ha c' hc'
  have hreg' : RegsAgree b.regs a.regs := fun r hr r' hr' e1 e2 => (hreg r' hr' r hr e1.symm e2.symm).symm
  have hac' := C09_lub_extends_right b a c' hb hfb ha hfa hreg' hc'
  obtain ⟨c'', hc'', hp''⟩ := C09_lub_least a b c' ha hfa hb hfb hcw.1 hac' hbc'
  rw [h] at hc''
  simp only [Option.some.injEq] at hc''
  subst hc''
  exact ⟨c', hc', hp'', hp'⟩

/-- **when one operand is already a prefix of the other, the result is the other operand** (up to the
node records the result takes from the first operand: dict kind, key order, custom entries) -/
theorem C09_lub_of_prefix (a b : STree) (ha : a.wf = true) (hfa : a.fitsT = true) (hb : b.wf = true)
    (hfb : b.fitsT = true) (hreg : RegsAgree a.regs b.regs) (h : a.prefixB b = true) :
    ∃ c, a.lub b = some c ∧ c.prefixB b = true ∧ b.prefixB c = true ∧ c.size = b.size := by
  obtain ⟨c, hc, hp⟩ := C09_lub_least a b b ha hfa hb hfb hb h (STree.prefixB_refl b hb)
  have hcw := C09_lub_closed a b c ha hfa hb hfb hc
  have hbc := C09_lub_extends_right a b c ha hfa hb hfb hreg hc
  exact ⟨c, hc, hp, hbc, STree.prefixB_antisymm_size c b hcw.1 hb hp hbc⟩

/-- non-vacuity: `{"a": *, "b": (*, *)}` and `OrderedDict(b=*, a=[*])` merge to `{"a": [*], "b": (*, *)}` -/
def C09_demoA : STree :=
  .node ⟨.dict, .keys [.str "a", .str "b"], Option.none, Option.none, some [.str "a", .str "b"]⟩
    [.leaf, .node ⟨.tuple, .none, Option.none, Option.none, Option.none⟩ [.leaf, .leaf]]
def C09_demoB : STree :=
  .node ⟨.ordereddict, .keys [.str "b", .str "a"], Option.none, Option.none, Option.none⟩
    [.leaf, .node ⟨.list, .none, Option.none, Option.none, Option.none⟩ [.leaf]]

example : C09_demoA.wf = true ∧ C09_demoA.fitsT = true ∧ C09_demoB.wf = true ∧ C09_demoB.fitsT = true ∧
    ((C09_demoA.lub C09_demoB).map STree.leaves) = some 3 := by decide

/-- the hypotheses of the order theorems are met by the demo pair (no custom nodes: `RegsAgree` holds
trivially), and the pair has a common suffix -/
example : RegsAgree C09_demoA.regs C09_demoB.regs := by
  intro r hr; simp [C09_demoA, STree.regs, STree.regsL] at hr

example : ∃ c, C09_demoA.lub C09_demoB = some c ∧ C09_demoB.prefixB c = true ∧ c.size = 6 := by
  refine ⟨_, rfl, ?_, ?_⟩ <;> decide

/-- a genuinely conflicting pair (`(*, *)` against `[*, *]`) has no common suffix -/
example : (STree.node ⟨.tuple, .none, Option.none, Option.none, Option.none⟩ [.leaf, .leaf]).lub
    (.node ⟨.list, .none, Option.none, Option.none, Option.none⟩ [.leaf, .leaf]) = Option.none := by decide


/-! ### leaf replication: `tree_broadcast_prefix` / `broadcast_prefix` at tree level -/

/-- what `broadcast_leaves(x, subtree)` returns: a tree of the subtree's shape whose every leaf is `x` -/
def BcastRel (cfg : Cfg) (p : PyObj × PyObj) (y : PyObj) : Prop :=
  broadcastLeaves cfg p.1 p.2 = .ok y ∧
  shapeOf cfg (!cfg.insertionOrdered) y = shapeOf cfg (!cfg.insertionOrdered) p.2 ∧
  leavesOf cfg (!cfg.insertionOrdered) y = List.replicate (leavesOf cfg (!cfg.insertionOrdered) p.2).length p.1 ∧
  y.wf = true

theorem bcast_one (cfg : Cfg) (hreg : cfg.reg.OK) (hp : cfg.pred = Option.none) (x sub : PyObj)
    (hx : LeafLike cfg (!cfg.insertionOrdered) x) (hw : sub.wf = true) (ls : List PyObj) (ss : Spec)
    (hf : flatten cfg sub = .ok (ls, ss)) : ∃ y, BcastRel cfg (x, sub) y := by
  obtain ⟨_, hnl⟩ := C01_flatten_sane cfg sub ls ss hf
  obtain ⟨y, hu, g1, g2, g3⟩ := unflatten_graft cfg hreg hp sub hw ls ss hf (List.replicate ss.numLeaves x)
    (by simp [hnl])
  obtain ⟨_, hlen⟩ := flatten_shapeOf cfg hp sub hw ls ss hf
  have hls := C02_leaf_order cfg sub ls ss hf
  refine ⟨y, ?_, ?_, ?_, ?_⟩
  · simp [broadcastLeaves, hf, hu]
  · rw [g1]
    apply STree.graftN_leaves
    · simp [hnl, hlen]
    · intro z hz
      simp only [List.map_replicate, List.mem_replicate] at hz
      rw [hz.2]; exact hx.1
  · rw [g2, ← hls, ← hnl]
    generalize ss.numLeaves = n
    induction n with
    | zero => rfl
    | succ n ih => simp only [List.replicate_succ, List.flatMap_cons, hx.2.1, ih]; rfl
  · exact g3 (fun z hz => by rw [(List.mem_replicate.mp hz).2]; exact hx.2.2)

theorem bcast_all (cfg : Cfg) (hreg : cfg.reg.OK) (hp : cfg.pred = Option.none) :
    ∀ (pairs : List (PyObj × PyObj)),
      (∀ p ∈ pairs, LeafLike cfg (!cfg.insertionOrdered) p.1 ∧ p.2.wf = true ∧ ∃ ls ss, flatten cfg p.2 = .ok (ls, ss)) →
      ∃ outs : List PyObj, List.Forall₂ (BcastRel cfg) pairs outs
  | [], _ => ⟨[], List.Forall₂.nil⟩
  | p :: pairs, h => by
      obtain ⟨hx, hw, ls, ss, hf⟩ := h p (by simp)
      obtain ⟨y, hy⟩ := bcast_one cfg hreg hp p.1 p.2 hx hw ls ss hf
      obtain ⟨outs, ho⟩ := bcast_all cfg hreg hp pairs (fun q hq => h q (by simp [hq]))
      exact ⟨y :: outs, List.Forall₂.cons hy ho⟩

theorem forall₂_length {α β : Type} {R : α → β → Prop} : ∀ {l : List α} {m : List β}, List.Forall₂ R l m → l.length = m.length
  | [], [], _ => rfl
  | _ :: _, _ :: _, .cons _ h => by simp [forall₂_length h]

theorem callAll_forall₂ (cfg : Cfg) (f : UserFn)
    (hf : ∀ i x sub, f i [Arg.obj x, Arg.obj sub] = broadcastLeaves cfg x sub) :
    ∀ (pairs : List (PyObj × PyObj)) (outs : List PyObj),
    List.Forall₂ (BcastRel cfg) pairs outs → ∀ (i : Nat) (acc : List PyObj) (log : List (List Arg)),
    (callAll f i (pairs.map fun p => [Arg.obj p.1, Arg.obj p.2]) acc log).1 = .ok (acc.reverse ++ outs)
  | [], [], _, _, _, _ => by simp [callAll]
  | p :: pairs, y :: outs, .cons hy ho, i, acc, log => by
      have hx : f i [Arg.obj p.1, Arg.obj p.2] = .ok y := by rw [hf]; exact hy.1
      simp only [List.map_cons, callAll, hx]
      rw [callAll_forall₂ cfg f hf pairs outs ho (i + 1) (y :: acc) _]
      simp

theorem zip_args_pairs (ls subs : List PyObj) (hl : subs.length = ls.length) :
    ((List.range ls.length).map fun i => [ls, subs].map fun l => Arg.obj l[i]!) =
      (ls.zip subs).map fun p => [Arg.obj p.1, Arg.obj p.2] := by
  apply List.ext_getElem
  · simp [hl]
  · intro i h1 h2
    have hi : i < ls.length := by simpa using h1
    have hi' : i < subs.length := by omega
    simp [hi, hi']

/-- **`tree_broadcast_prefix` at tree level** (no predicate): when the prefix tree's treespec matches the full tree
(`flatten_up_to` succeeds, C07) the result is built from the prefix tree's records with, in place of its i-th leaf
`x_i`, a tree of the shape of the i-th matched subtree whose every leaf is `x_i`: its shape is the prefix shape
with the matched subtrees' shapes grafted on, and its leaves are each prefix leaf repeated once per leaf of the
subtree it covers — "every leaf equals the unique prefix leaf above it". -/
theorem C09_broadcast_prefix_tree (cfg : Cfg) (hreg : cfg.reg.OK) (hp : cfg.pred = Option.none) (pre full : PyObj)
    (hwp : pre.wf = true) (lp : List PyObj) (sp : Spec) (hfp : flatten cfg pre = .ok (lp, sp))
    (subs : List PyObj) (hup : flattenUpTo cfg.reg sp full = .ok subs) (hlen : subs.length = lp.length)
    (hsubs : ∀ sub ∈ subs, sub.wf = true ∧ ∃ ls ss, flatten cfg sub = .ok (ls, ss)) :
    ∃ r, treeBroadcastPrefix cfg pre full = .ok r ∧
      shapeOf cfg (!cfg.insertionOrdered) r =
        (shapeOf cfg (!cfg.insertionOrdered) pre).graftN (subs.map (shapeOf cfg (!cfg.insertionOrdered))) ∧
      leavesOf cfg (!cfg.insertionOrdered) r =
        (lp.zip subs).flatMap fun p => List.replicate (leavesOf cfg (!cfg.insertionOrdered) p.2).length p.1 := by
  have hleaf : ∀ x ∈ lp, LeafLike cfg (!cfg.insertionOrdered) x := by
    intro x hx
    rw [C02_leaf_order cfg pre lp sp hfp] at hx
    exact leafLike_of_mem cfg hp _ pre hwp x hx
  obtain ⟨outs, hrel⟩ := bcast_all cfg hreg hp (lp.zip subs) (by
    intro p hpm
    have := List.of_mem_zip hpm
    exact ⟨hleaf p.1 this.1, hsubs p.2 this.2⟩)
  have hol : outs.length = lp.length := by
    have := forall₂_length hrel
    simp [List.length_zip, hlen] at this
    exact this.symm
  obtain ⟨r, hur, g1, g2, _⟩ := unflatten_graft cfg hreg hp pre hwp lp sp hfp outs hol
  have hshapes : outs.map (shapeOf cfg (!cfg.insertionOrdered)) = subs.map (shapeOf cfg (!cfg.insertionOrdered)) := by
    have : ∀ (pairs : List (PyObj × PyObj)) (os : List PyObj), List.Forall₂ (BcastRel cfg) pairs os →
        os.map (shapeOf cfg (!cfg.insertionOrdered)) = pairs.map fun p => shapeOf cfg (!cfg.insertionOrdered) p.2 := by
      intro pairs os h
      induction h with
      | nil => rfl
      | cons hy _ ih => simp [hy.2.1, ih]
    rw [this _ _ hrel]
    have hz : (lp.zip subs).map (·.2) = subs := by rw [List.map_snd_zip]; omega
    have e : ((lp.zip subs).map fun p => shapeOf cfg (!cfg.insertionOrdered) p.2) =
        ((lp.zip subs).map (·.2)).map (shapeOf cfg (!cfg.insertionOrdered)) := by
      simp [List.map_map, Function.comp_def]
    rw [e, hz]
  have hleaves : outs.flatMap (leavesOf cfg (!cfg.insertionOrdered)) =
      (lp.zip subs).flatMap fun p => List.replicate (leavesOf cfg (!cfg.insertionOrdered) p.2).length p.1 := by
    have : ∀ (pairs : List (PyObj × PyObj)) (os : List PyObj), List.Forall₂ (BcastRel cfg) pairs os →
        os.flatMap (leavesOf cfg (!cfg.insertionOrdered)) =
          pairs.flatMap fun p => List.replicate (leavesOf cfg (!cfg.insertionOrdered) p.2).length p.1 := by
      intro pairs os h
      induction h with
      | nil => rfl
      | cons hy _ ih => simp [List.flatMap_cons, hy.2.2.1, ih]
    exact this _ _ hrel
  refine ⟨r, ?_, by rw [g1, hshapes], by rw [g2, hleaves]⟩
  -- the Python layer: tree_map(broadcast_leaves, prefix_tree, full_tree)
  have key : ∀ f : UserFn, (∀ i x sub, f i [Arg.obj x, Arg.obj sub] = broadcastLeaves cfg x sub) →
      (treeMapGen cfg .plain false f pre [full]).result = .ok r := by
    intro f hf
    unfold treeMapGen
    have hcols := zipArgs_same_length lp [subs] (by simp [hlen])
    have hargs : (List.range (min (lp.map fun _ => ([] : List Arg)).length (zipArgs [lp, subs]).length)).map
        (fun i => (lp.map fun _ => ([] : List Arg))[i]! ++ ((zipArgs [lp, subs])[i]!).map Arg.obj) =
        (lp.zip subs).map fun p => [Arg.obj p.1, Arg.obj p.2] := by
      rw [← zip_args_pairs lp subs hlen, hcols]
      simp only [List.length_map, List.length_range, Nat.min_self]
      apply List.map_congr_left
      intro i hi
      have hi' : i < lp.length := by simpa using hi
      simp [hi']
    have hcall := callAll_forall₂ cfg f hf (lp.zip subs) outs hrel 0 [] []
    simp only [hfp, List.mapM_cons, List.mapM_nil, hup, bind, Except.bind, pure, Except.pure, hargs]
    cases hc : callAll f 0 ((lp.zip subs).map fun p => [Arg.obj p.1, Arg.obj p.2]) [] [] with
    | mk res log =>
      rw [hc] at hcall
      simp only at hcall
      subst hcall
      simp [hur]
  unfold treeBroadcastPrefix
  exact key _ (fun _ _ _ => rfl)

end Optree
