/-
  C09  Broadcasting replicates prefix leaves onto the matching positions.
-/
import OptreeModel.Model.Ops

namespace Optree

/-- mismatching `none_is_leaf` or conflicting namespaces are rejected with `ValueError` -/
theorem C09_rejects (a b : Spec) (hs : a.sane = true ∧ b.sane = true)
    (h : a.noneIsLeaf ≠ b.noneIsLeaf ∨ nsCompatible a.ns b.ns = false) :
    broadcast a b = .error .value := by
  unfold broadcast
  simp only [hs.1, hs.2, Bool.not_true, Bool.or_self, Bool.false_eq_true, if_false]
  rcases h with h | h
  · simp [h]
  · by_cases hn : a.noneIsLeaf = b.noneIsLeaf <;> simp [hn, h]

theorem copyRev_all (nodes : List Node) (hne : nodes ≠ []) :
    copyRev nodes ((nodes.length : Int) - 1) nodes.length = nodes.reverse := by
  unfold copyRev
  have h1 : ((nodes.length : Int) - 1).toNat + 1 = nodes.length := by
    have : 0 < nodes.length := List.length_pos_iff.mpr hne
    omega
  rw [h1]
  simp

/-- **A leaf is a prefix of everything** (engine level): where the first treespec has a leaf, the
merge walk copies the other treespec's whole subtree and reports its counts -/
theorem C09_leaf_left_go (fuel : Nat) (otr : List Node) (opos : Pos) (out : List Node)
    (oroot : Node) (hat : nodeAt otr opos = .ok oroot) (hsize : ¬ (opos + 1 < (oroot.numNodes : Int))) :
    broadcastGo (fuel + 1) [Node.leaf] 0 otr opos out =
      .ok (⟨1, oroot.numNodes, oroot.numNodes, oroot.numLeaves⟩,
           out ++ copyRev otr opos oroot.numNodes) := by
  rw [broadcastGo]
  have h0 : nodeAt [Node.leaf] 0 = .ok Node.leaf := rfl
  simp only [h0, hat]
  have hg : (decide ((0 : Int) + 1 < ((Node.leaf).numNodes : Int)) ||
      decide (opos + 1 < (oroot.numNodes : Int))) = false := by
    simp [Node.leaf, hsize]
  simp only [hg, Bool.false_eq_true, if_false]
  simp [Node.leaf]

/-- symmetric case: where the *other* treespec has a leaf, the first one's subtree is kept -/
theorem C09_leaf_right_go (fuel : Nat) (tr : List Node) (pos : Pos) (out : List Node)
    (root : Node) (hat : nodeAt tr pos = .ok root) (hsize : ¬ (pos + 1 < (root.numNodes : Int)))
    (hk : root.kind ≠ .leaf) :
    broadcastGo (fuel + 1) tr pos [Node.leaf] 0 out =
      .ok (⟨root.numNodes, 1, root.numNodes, root.numLeaves⟩, out ++ copyRev tr pos root.numNodes) := by
  rw [broadcastGo]
  have h0 : nodeAt [Node.leaf] 0 = .ok Node.leaf := rfl
  simp only [h0, hat]
  have hg : (decide (pos + 1 < (root.numNodes : Int)) ||
      decide ((0 : Int) + 1 < ((Node.leaf).numNodes : Int))) = false := by
    simp [Node.leaf, hsize]
  have hkb : (root.kind == Kind.leaf) = false := by simpa using hk
  simp only [hg, Bool.false_eq_true, if_false, hkb]
  simp [Node.leaf]

/-- conflicting node kinds are rejected with `ValueError` (tuple against list, …) -/
theorem C09_kind_conflict (fuel : Nat) (tr otr : List Node) (pos opos : Pos) (out : List Node)
    (root oroot : Node) (hat : nodeAt tr pos = .ok root) (hoat : nodeAt otr opos = .ok oroot)
    (hsz : ¬ (pos + 1 < (root.numNodes : Int))) (hosz : ¬ (opos + 1 < (oroot.numNodes : Int)))
    (hk : root.kind = .tuple) (hok : oroot.kind = .list) :
    broadcastGo (fuel + 1) tr pos otr opos out = .error .value := by
  rw [broadcastGo]
  simp only [hat, hoat]
  have hg : (decide (pos + 1 < (root.numNodes : Int)) ||
      decide (opos + 1 < (oroot.numNodes : Int))) = false := by simp [hsz, hosz]
  simp [hg, hk, hok]

/-! ### non-vacuity -/

def C09_demo : Spec :=
  { nodes := [Node.leaf, Node.leaf,
              { kind := .tuple, arity := 2, data := .none, entries := Option.none, custom := Option.none,
                numLeaves := 2, numNodes := 3, originalKeys := Option.none }],
    noneIsLeaf := false, ns := "" }

example : C09_demo.sane = true := by decide

end Optree
