/-
  C08  Treespec inspection, constructors, transform and compose are consistent.
-/
import OptreeModel.Model.Serial
import OptreeModel.Lemmas.EncInspect
import OptreeModel.Lemmas.EncTransform
import OptreeModel.Lemmas.EncConstruct
import OptreeModel.Properties.C06
import OptreeModel.Properties.C02
import OptreeModel.Lemmas.Graft
import OptreeModel.Lemmas.UpToPrefix
import OptreeModel.Lemmas.EncTransformNode

namespace Optree

/-- **Python index semantics** of `child(i)` / `entry(i)`: valid exactly on `[-n, n)`, negative
indices count from the end -/
theorem C08_normIndex_none (i : Int) (n : Nat) :
    normIndex i n = Option.none ↔ (i < -(n : Int) ∨ i ≥ (n : Int)) := by
  unfold normIndex
  split
  · rename_i h; simp only [Bool.or_eq_true, decide_eq_true_eq] at h; simp [h]
  · rename_i h
    simp only [Bool.or_eq_true, decide_eq_true_eq, not_or, Int.not_lt, ge_iff_le] at h
    split <;> simp <;> omega

theorem C08_normIndex_some (i : Int) (n k : Nat) (h : normIndex i n = some k) :
    k < n ∧ ((0 ≤ i ∧ (k : Int) = i) ∨ (i < 0 ∧ (k : Int) = i + n)) := by
  unfold normIndex at h
  split at h
  · simp at h
  · rename_i hr
    simp only [Bool.or_eq_true, decide_eq_true_eq, not_or, Int.not_lt, ge_iff_le] at hr
    split at h
    · simp at h; subst h; omega
    · simp at h; subst h; omega

/-- `child(i)` and `entry(i)` raise `IndexError` exactly outside `[-n, n)` (on a sane treespec) -/
theorem C08_child_index_error (sp : Spec) (i : Int) (hs : sp.sane = true) (root : Node)
    (hr : sp.nodes.getLast? = some root) (hi : i < -(root.arity : Int) ∨ i ≥ (root.arity : Int)) :
    child sp i = .error .index ∧ entry sp i = .error .index := by
  have := (C08_normIndex_none i root.arity).mpr hi
  simp [child, entry, hs, hr, this]

/-- `entries()` and `entry(i)` agree (non-negative and negative indices) -/
theorem C08_entry_of_entries (sp : Spec) (i : Int) (e : Key) (es : List Key)
    (hes : entries sp = .ok es) (he : entry sp i = .ok e) :
    ∃ k, normIndex i sp.numChildren = some k ∧ es[k]? = some e := by
  unfold entries at hes
  unfold entry at he
  split at hes; · simp at hes
  rename_i hs
  simp only [hs, Bool.false_eq_true, if_false] at he
  split at hes; · simp at hes
  rename_i root hroot
  simp only [hroot] at he
  split at he; · simp at he
  rename_i k hk
  refine ⟨k, by simpa [Spec.numChildren, hroot] using hk, ?_⟩
  have hk' := (C08_normIndex_some i root.arity k hk).1
  split at hes
  · rename_i es' hes'
    simp only [hes'] at he
    simp at hes; subst hes
    split at he
    · rename_i e' he'; simp at he; subst he; exact he'
    · simp at he
  · rename_i hnone
    simp only [hnone] at he
    simp at hes; subst hes
    unfold Node.defaultEntries
    split at he
    · simp at he
    · simp at he
    · split at he
      · rename_i e' he'; simp at he; subst he; simpa using he'
      · simp at he
    · split at he
      · rename_i e' he'; simp at he; subst he; simpa using he'
      · simp at he
    · split at he
      · rename_i e' he'; simp at he; subst he; simpa using he'
      · simp at he
    · simp at he; subst he
      simp [intEntries, hk']

/-- `one_level()` is a one-level treespec with the same root kind, arity and entries -/
theorem C08_one_level (sp : Spec) (ol : Spec) (h : oneLevel sp = .ok ol) (hk : sp.kind ≠ .leaf) :
    ol.isOneLevel = true ∧ ol.kind = sp.kind ∧ ol.numChildren = sp.numChildren ∧ ol.sane = true := by
  unfold oneLevel at h
  split at h; · simp at h
  split at h; · simp at h
  rename_i root hroot
  simp at h; subst h
  have hkind : root.kind ≠ .leaf := by simpa [Spec.kind, hroot] using hk
  have hb : (root.kind == Kind.leaf) = false := by simpa using hkind
  simp [oneLevelOf, Spec.isOneLevel, Spec.numNodes, Spec.numChildren, Spec.numLeaves, Spec.kind,
    Spec.sane, hroot, hb]

/-- **compose**: leaf and node counts multiply as documented; `none_is_leaf` is kept, the inner
namespace wins when present -/
theorem C08_compose_counts (a b c : Spec) (h : compose a b = .ok c) :
    c.numLeaves = a.numLeaves * b.numLeaves ∧
    c.numNodes = (a.numNodes - a.numLeaves) + a.numLeaves * b.numNodes ∧
    c.noneIsLeaf = a.noneIsLeaf ∧ c.ns = mergeNs a.ns b.ns ∧ c.sane = true := by
  unfold compose at h
  split at h; · simp at h
  split at h; · simp at h
  split at h; · simp at h
  simp only at h
  generalize (a.nodes.flatMap _) = nodes at h
  generalize a.numLeaves * b.numLeaves = L at h ⊢
  generalize (a.numNodes - a.numLeaves) + a.numLeaves * b.numNodes = N at h ⊢
  split at h; · simp at h
  rename_i root hroot
  split at h; · simp at h
  split at h; · simp at h
  split at h; · simp at h
  rename_i h1 h2 h3
  simp only [bne_iff_ne, ne_eq, Decidable.not_not] at h1 h2
  simp only [Bool.not_eq_true, Bool.not_eq_false'] at h3
  cases h
  have hsane := h3
  simp only [Spec.sane, hroot, beq_iff_eq] at hsane
  refine ⟨?_, ?_, rfl, rfl, h3⟩
  · simp only [Spec.numLeaves, hroot, Option.map_some, Option.getD_some]
    exact h1
  · simp only [Spec.numNodes]
    rw [← hsane, h2]

/-- mismatching `none_is_leaf` or conflicting namespaces are rejected with `ValueError` -/
theorem C08_compose_rejects (a b : Spec) (hs : a.sane = true ∧ b.sane = true)
    (h : a.noneIsLeaf ≠ b.noneIsLeaf ∨ nsCompatible a.ns b.ns = false) :
    compose a b = .error .value := by
  unfold compose
  simp only [hs.1, hs.2, Bool.not_true, Bool.or_self, Bool.false_eq_true, if_false]
  rcases h with h | h
  · simp [h]
  · by_cases hn : a.noneIsLeaf = b.noneIsLeaf <;> simp [hn, h]

/-- `transform` with no functions is the identity -/
theorem C08_transform_none (sp : Spec) (hs : sp.sane = true) :
    transform sp Option.none Option.none = .ok sp := by
  simp [transform, hs]

/-- the constructors for a leaf and for `None` -/
theorem C08_make_leaf_none (nil : Bool) :
    (makeLeaf nil).isLeaf = true ∧ (makeLeaf nil).sane = true ∧
    (makeNone nil).numNodes = 1 ∧ (makeNone nil).numLeaves = (if nil then 1 else 0) ∧
    (makeNone nil).sane = true := by
  cases nil <;> decide

/-- **repr**: a leaf renders as `*`, `None` as `None`, and the `NoneIsLeaf` / `namespace=` suffixes
appear exactly when set -/
theorem C08_repr_affixes (names : Names) (sp : Spec) (r : String) (h : toString names sp = .ok r) :
    ∃ body, toStringGo names sp.nodes [] = .ok body ∧
      r = "PyTreeSpec(" ++ body ++ (if sp.noneIsLeaf then ", NoneIsLeaf" else "") ++
          (if sp.ns != "" then ", namespace='" ++ sp.ns ++ "'" else "") ++ ")" := by
  unfold toString at h
  split at h; · simp at h
  split at h; · simp at h
  rename_i body hb
  simp only [Except.ok.injEq] at h
  exact ⟨body, hb, h.symm⟩

example : (match toString stdNames (makeLeaf true) with | .ok s => s == "PyTreeSpec(*, NoneIsLeaf)" | _ => false) = true := by decide
example : (match toString stdNames (makeNone false) with | .ok s => s == "PyTreeSpec(None)" | _ => false) = true := by decide

/-! ### refinement: the index walkers on encodings are the tree operations

`STree` (Model/STree.lean) is the shape a treespec stands for, `STree.spec` its treespec (post-order
array with counts).  For every shape, of any size and any pattern of sibling sub-tree sizes: -/

/-- **`children()` returns the child treespecs in order** (offset slicing by `num_nodes`, right to left) -/
theorem C08_children_refines (s : STree) (nil : Bool) (ns : String) :
    children (s.spec nil ns) = .ok (s.children.map fun c => c.spec nil ns) := children_enc s nil ns

/-- **`child(i)` is the `i`-th child under Python index semantics**, `IndexError` exactly outside `[-n, n)` -/
theorem C08_child_refines (s : STree) (nil : Bool) (ns : String) (index : Int) :
    child (s.spec nil ns) index =
      match normIndex index s.children.length with
      | Option.none => .error .index
      | some j =>
          match s.children[j]? with
          | some c => .ok (c.spec nil ns)
          | Option.none => .error .index := child_enc s nil ns index

/-- `child(i)` agrees with `children()[i]` for every valid index, negative ones included -/
theorem C08_child_of_children (s : STree) (nil : Bool) (ns : String) (index : Int) (j : Nat)
    (hj : normIndex index s.children.length = some j) :
    ∃ cs c, children (s.spec nil ns) = .ok cs ∧ cs[j]? = some c ∧ child (s.spec nil ns) index = .ok c := by
  have hlt := normIndex_lt hj
  refine ⟨_, (s.children[j]).spec nil ns, children_enc s nil ns, ?_, ?_⟩
  · simp [hlt]
  · rw [child_enc, hj]; simp [hlt]

/-- the counts of a node are the sums over its children (plus the node itself) -/
theorem C08_counts_sum (i : NInfo) (cs : List STree) (nil : Bool) (ns : String) :
    ((STree.node i cs).spec nil ns).numNodes = (cs.map fun c => (c.spec nil ns).numNodes).sum + 1 ∧
    ((STree.node i cs).spec nil ns).numLeaves = (cs.map fun c => (c.spec nil ns).numLeaves).sum ∧
    ((STree.node i cs).spec nil ns).numChildren = cs.length := by
  refine ⟨?_, ?_, ?_⟩
  · simp only [STree.spec_numNodes, STree.size, STree.sizeL_eq_sum]
  · simp only [STree.spec_numLeaves, STree.leaves, STree.leavesL_eq_sum]
  · simp [STree.spec, Spec.numChildren, STree.enc_getLast?, STree.root, NInfo.toNode]

/-- **`compose` substitutes the inner shape for every leaf of the outer one**; the result is again the
encoding of a well-formed shape; leaves multiply -/
theorem C08_compose_refines (a b : STree) (ha : a.wf = true) (hb : b.wf = true) (nil : Bool)
    (ns ns' : String) (hc : nsCompatible ns ns' = true) :
    compose (a.spec nil ns) (b.spec nil ns') = .ok ((a.subst b).spec nil (mergeNs ns ns')) ∧
    (a.subst b).wf = true ∧ (a.subst b).leaves = a.leaves * b.leaves :=
  ⟨compose_enc a b ha nil ns ns' hc, STree.subst_wf b hb a ha, STree.subst_leaves b a⟩

/-- composing with the leaf treespec changes nothing; composing the leaf with `b` gives `b` -/
theorem C08_compose_leaf (a : STree) : STree.leaf.subst a = a := rfl

mutual
theorem C08_compose_leaf_right : ∀ a : STree, a.subst .leaf = a
  | .leaf => rfl
  | .node i cs => by simp [STree.subst, C08_compose_leaf_rightL cs]
theorem C08_compose_leaf_rightL : ∀ cs : List STree, STree.substL cs .leaf = cs
  | [] => rfl
  | c :: cs => by simp [STree.substL, C08_compose_leaf_right c, C08_compose_leaf_rightL cs]
end

/-- **`transform` replacing every leaf by the treespec of `b` builds the shape `compose` builds** (left-to-right
loop with a stack of pending counts; the namespace of the outer treespec is kept) -/
theorem C08_transform_leaf_refines (a b : STree) (ha : a.wf = true) (nil : Bool) (ns nsb : String)
    (hnsb : nsb = ns ∨ nsb = "") :
    transform (a.spec nil ns) Option.none (some fun _ => .ok (b.spec nil nsb)) = .ok ((a.subst b).spec nil ns) :=
  transform_enc a b ha nil ns nsb hnsb

/-- ... and therefore equals `compose` whenever the latter keeps the outer namespace -/
theorem C08_transform_leaf_is_compose (a b : STree) (ha : a.wf = true) (nil : Bool) (ns : String) :
    transform (a.spec nil ns) Option.none (some fun _ => .ok (b.spec nil ns)) =
      compose (a.spec nil ns) (b.spec nil ns) := by
  rw [C08_transform_leaf_refines a b ha nil ns ns (Or.inl rfl),
    compose_enc a b ha nil ns ns (by simp [nsCompatible])]
  simp [mergeNs]

/-- **`transform` with a leaf function that returns the leaf treespec (the identity) is the identity** -/
theorem C08_transform_id (a : STree) (ha : a.wf = true) (nil : Bool) (ns : String) :
    transform (a.spec nil ns) Option.none (some fun _ => .ok (STree.leaf.spec nil ns)) = .ok (a.spec nil ns) := by
  rw [C08_transform_leaf_refines a .leaf ha nil ns ns (Or.inl rfl), C08_compose_leaf_right a]

/-! ### rebuilding the root from its children with the constructors -/

/-- the namespace a rebuilt treespec carries: the children's (none when there are no children) -/
def rebuiltNs (cs : List STree) (ns : String) : String := if cs.isEmpty then "" else ns

/-- **`treespec_tuple / list / deque / ordereddict / namedtuple / structseq` over `children()` rebuild the
root**: for every node of those kinds, `MakeFromCollection` applied to the collection of its child
treespecs returns the same node array (namespace of the children) -/
theorem C08_rebuild_from_children (cfg : Cfg) (cs : List STree) :
    makeFromCollection cfg (.tuple (cs.map fun c => c.spec cfg.noneIsLeaf cfg.ns)) =
      .ok ((STree.node ⟨.tuple, .none, Option.none, Option.none, Option.none⟩ cs).spec cfg.noneIsLeaf
        (rebuiltNs cs cfg.ns)) ∧
    makeFromCollection cfg (.list (cs.map fun c => c.spec cfg.noneIsLeaf cfg.ns)) =
      .ok ((STree.node ⟨.list, .none, Option.none, Option.none, Option.none⟩ cs).spec cfg.noneIsLeaf
        (rebuiltNs cs cfg.ns)) ∧
    (∀ m, makeFromCollection cfg (.deque m (cs.map fun c => c.spec cfg.noneIsLeaf cfg.ns)) =
      .ok ((STree.node ⟨.deque, .maxlen m, Option.none, Option.none, Option.none⟩ cs).spec cfg.noneIsLeaf
        (rebuiltNs cs cfg.ns))) := by
  have hv := verifyChildren_uniform cfg.noneIsLeaf cfg.ns cs
  refine ⟨?_, ?_, ?_⟩
  · simp only [makeFromCollection, hv]
    rw [assemble_enc _ _ cs _ _ .tuple _ _ _ _ (by simp)]; rfl
  · simp only [makeFromCollection, hv]
    rw [assemble_enc _ _ cs _ _ .list _ _ _ _ (by simp)]; rfl
  · intro m
    simp only [makeFromCollection, hv]
    rw [assemble_enc _ _ cs _ _ .deque _ _ _ _ (by simp)]; rfl

/-- the same for an `OrderedDict` of child treespecs (keys kept in the given order) -/
theorem C08_rebuild_ordereddict (cfg : Cfg) (ks : List Key) (cs : List STree) (hl : ks.length = cs.length) :
    makeFromCollection cfg (.odict (ks.zip (cs.map fun c => c.spec cfg.noneIsLeaf cfg.ns))) =
      .ok ((STree.node ⟨.ordereddict, .keys ks, Option.none, Option.none, Option.none⟩ cs).spec cfg.noneIsLeaf
        (rebuiltNs cs cfg.ns)) := by
  have hv := verifyChildren_uniform cfg.noneIsLeaf cfg.ns cs
  have h1 : (ks.zip (cs.map fun c => c.spec cfg.noneIsLeaf cfg.ns)).map (·.2) =
      cs.map fun c => c.spec cfg.noneIsLeaf cfg.ns := by
    rw [List.map_snd_zip]; simp [hl]
  have h2 : (ks.zip (cs.map fun c => c.spec cfg.noneIsLeaf cfg.ns)).map (·.1) = ks := by
    rw [List.map_fst_zip]; simp [hl]
  simp only [makeFromCollection, h1, h2, hv]
  rw [assemble_enc _ _ cs _ _ .ordereddict _ _ _ _ (by simp)]; rfl

/-- hence `treespec_tuple(spec.children()) == spec` for a tuple treespec (and likewise for the other kinds):
equal node arrays, namespaces compatible -/
theorem C08_rebuild_equal (cfg : Cfg) (cs : List STree) (hw : STree.wfL cs = true) :
    let s : STree := .node ⟨.tuple, .none, Option.none, Option.none, Option.none⟩ cs
    ∃ sp cs', children (s.spec cfg.noneIsLeaf cfg.ns) = .ok cs' ∧ makeFromCollection cfg (.tuple cs') = .ok sp ∧
      equalTo sp (s.spec cfg.noneIsLeaf cfg.ns) = .ok true := by
  intro s
  have hs : s.wf = true := by simp [s, STree.wf, hw, Kind.isDict]
  refine ⟨_, _, children_enc s _ _, (C08_rebuild_from_children cfg cs).1, ?_⟩
  rw [equalTo_enc_true s s hs hs]
  refine ⟨rfl, ?_, C06_shape_eq_refl s⟩
  unfold rebuiltNs nsCompatible
  split <;> simp

/-- non-vacuity: sibling sub-trees of sizes 1, 3, 2 -/
def C08_demo : STree :=
  .node ⟨.tuple, .none, Option.none, Option.none, Option.none⟩
    [.leaf, .node ⟨.list, .none, Option.none, Option.none, Option.none⟩ [.leaf, .leaf],
     .node ⟨.tuple, .none, Option.none, Option.none, Option.none⟩ [.leaf]]

example : C08_demo.wf = true ∧ C08_demo.size = 7 ∧ (C08_demo.subst C08_demo).leaves = 16 := by decide


/-! ### compose at the level of trees -/

theorem flatten_ns_nil (cfg : Cfg) (t : PyObj) (ls : List PyObj) (sp : Spec) (h : flatten cfg t = .ok (ls, sp)) :
    (sp.ns = cfg.ns ∨ sp.ns = "") ∧ sp.noneIsLeaf = cfg.noneIsLeaf := by
  unfold flatten at h
  simp only at h
  split at h
  · simp at h
  · simp only [Except.ok.injEq, Prod.mk.injEq] at h
    obtain ⟨_, h2⟩ := h
    subst h2
    simp only [and_true]
    split <;> simp

/-- **`a.compose(b)` is the structure of an a-shaped tree whose every leaf is a b-shaped tree, and the leaves of
such a tree are the leaves of the b-shaped trees in order (so `num_leaves` multiply).**
`ta.mapLeaves cfg σ` replaces every leaf of `ta` by `σ leaf`; every `σ leaf` has the shape of `tb`.  If the
grafted tree flattens at all (it is within the depth limit), its treespec has exactly the node array of
`treespec(ta).compose(treespec(tb))` and its leaves are the concatenation of the leaves of the `σ leaf`
(`Lemmas/Graft.lean`: structural induction, dict children re-sorted under the same keys). -/
theorem C08_compose_is_structure (cfg : Cfg) (hp : cfg.pred = Option.none) (ta tb : PyObj)
    (hwa : ta.wf = true) (hwb : tb.wf = true) (σ : PyObj → PyObj) (hσw : ∀ p, (σ p).wf = true)
    (hσ : ∀ p, shapeOf cfg (!cfg.insertionOrdered) (σ p) = shapeOf cfg (!cfg.insertionOrdered) tb)
    (la : List PyObj) (sa : Spec) (ha : flatten cfg ta = .ok (la, sa))
    (lb : List PyObj) (sb : Spec) (hb : flatten cfg tb = .ok (lb, sb))
    (lc : List PyObj) (sc : Spec) (hc : flatten cfg (ta.mapLeaves cfg σ) = .ok (lc, sc)) :
    (∃ c, compose sa sb = .ok c ∧ c.nodes = sc.nodes ∧ c.noneIsLeaf = sc.noneIsLeaf) ∧
      lc = la.flatMap (fun p => leavesOf cfg (!cfg.insertionOrdered) (σ p)) ∧
      sc.numLeaves = sa.numLeaves * sb.numLeaves := by
  obtain ⟨ea, _⟩ := flatten_shapeOf cfg hp ta hwa la sa ha
  obtain ⟨eb, _⟩ := flatten_shapeOf cfg hp tb hwb lb sb hb
  obtain ⟨ec, _⟩ := flatten_shapeOf cfg hp _ (wf_mapLeaves cfg σ hσw ta hwa) lc sc hc
  obtain ⟨wa, _⟩ := wg cfg (!cfg.insertionOrdered) ta hwa
  obtain ⟨wb, _⟩ := wg cfg (!cfg.insertionOrdered) tb hwb
  obtain ⟨nsa, nila⟩ := flatten_ns_nil cfg ta la sa ha
  obtain ⟨nsb, nilb⟩ := flatten_ns_nil cfg tb lb sb hb
  obtain ⟨_, nilc⟩ := flatten_ns_nil cfg _ lc sc hc
  have hcompat : nsCompatible sa.ns sb.ns = true := by
    unfold nsCompatible
    rcases nsa with h | h <;> rcases nsb with h' | h' <;> simp [h, h']
  rw [shapeOf_mapLeaves cfg _ σ _ hσ ta] at ec
  obtain ⟨hcomp, _, hleaves⟩ := C08_compose_refines _ _ wa wb cfg.noneIsLeaf sa.ns sb.ns hcompat
  have h1 : compose sa sb = compose ((shapeOf cfg (!cfg.insertionOrdered) ta).spec cfg.noneIsLeaf sa.ns)
      ((shapeOf cfg (!cfg.insertionOrdered) tb).spec cfg.noneIsLeaf sb.ns) := by rw [← ea, ← eb]
  refine ⟨⟨((shapeOf cfg (!cfg.insertionOrdered) ta).subst (shapeOf cfg (!cfg.insertionOrdered) tb)).spec
      cfg.noneIsLeaf (mergeNs sa.ns sb.ns), ?_, ?_, ?_⟩, ?_, ?_⟩
  · rw [h1]; exact hcomp
  · rw [ec]; simp [STree.spec]
  · rw [ec]; simp [STree.spec]
  · rw [C02_leaf_order cfg _ lc sc hc, leavesOf_mapLeaves cfg hp _ σ ta, ← C02_leaf_order cfg ta la sa ha]
  · have e1 : sc.numLeaves = ((shapeOf cfg (!cfg.insertionOrdered) ta).subst (shapeOf cfg (!cfg.insertionOrdered) tb)).leaves := by
      rw [ec]; exact STree.spec_numLeaves _ _ _
    have e2 : sa.numLeaves = (shapeOf cfg (!cfg.insertionOrdered) ta).leaves := by
      rw [ea]; exact STree.spec_numLeaves _ _ _
    have e3 : sb.numLeaves = (shapeOf cfg (!cfg.insertionOrdered) tb).leaves := by
      rw [eb]; exact STree.spec_numLeaves _ _ _
    rw [e1, e2, e3, hleaves]

/-- non-vacuity: `(x, [y])` grafted with `{"k": *}`-shaped trees -/
example :
    let cfg : Cfg := {}
    let ta := PyObj.tuple [.leaf 0 1, .list [.leaf 0 2]]
    let tb := PyObj.dict [(.str "k", .leaf 0 3)]
    let σ : PyObj → PyObj := fun p => .dict [(.str "k", p)]
    (match flatten cfg ta, flatten cfg tb, flatten cfg (ta.mapLeaves cfg σ) with
     | .ok (_, sa), .ok (_, sb), .ok (lc, sc) =>
        (match compose sa sb with
         | .ok c => c.nodes == sc.nodes && lc == [PyObj.leaf 0 1, .leaf 0 2] && sc.numLeaves == 2
         | .error _ => false)
     | _, _, _ => false) = true := by decide

/-! ### constructors over child treespecs against the structure of the tree -/


/-- the treespec of a sub-tree, as `tree_structure` returns it -/
def specOf (cfg : Cfg) (x : PyObj) : Spec :=
  (shapeOf cfg (!cfg.insertionOrdered) x).spec cfg.noneIsLeaf cfg.ns

/-- the same container with every child replaced by its treespec: the argument of
`treespec_from_collection` / `treespec_tuple` / `treespec_dict` / … -/
def collOf (cfg : Cfg) : PyObj → Coll
  | .leaf _ _ => .leafObj
  | .none => .none
  | .tuple xs => .tuple (xs.map (specOf cfg))
  | .list xs => .list (xs.map (specOf cfg))
  | .dict kvs => .dict (kvs.map fun p => (p.1, specOf cfg p.2))
  | .odict kvs => .odict (kvs.map fun p => (p.1, specOf cfg p.2))
  | .ddict f kvs => .ddict f (kvs.map fun p => (p.1, specOf cfg p.2))
  | .deque m xs => .deque m (xs.map (specOf cfg))
  | .ntuple cls xs => .ntuple cls (xs.map (specOf cfg))
  | .sseq cls xs => .sseq cls (xs.map (specOf cfg))
  | .user cls md q xs => .user cls md q (xs.map (specOf cfg))

/-- containers handled by the engine itself (no registered flatten function is consulted) -/
def PyObj.plainNode (cfg : Cfg) : PyObj → Bool
  | .tuple _ | .list _ | .dict _ | .odict _ | .ddict _ _ | .deque _ _ => true
  | .ntuple cls _ => (cfg.reg.lookup cfg.ns 1 cls).isNone
  | .sseq cls _ => (cfg.reg.lookup cfg.ns 2 cls).isNone
  | _ => false

theorem plain_shape (cfg : Cfg) (cs : List STree) (kind : Kind) (data : NodeData) (okeys : Option (List Key))
    (hk : kind ≠ .leaf) :
    (match verifyChildren cfg.noneIsLeaf cfg.ns false (cs.map fun (c : STree) => c.spec cfg.noneIsLeaf cfg.ns) with
      | .error e => Except.error e
      | .ok ns => Except.ok (assemble cfg.noneIsLeaf ns (cs.map fun (c : STree) => c.spec cfg.noneIsLeaf cfg.ns) kind data
          Option.none Option.none okeys)) =
      .ok ((STree.node (plainInfo kind data okeys) cs).spec cfg.noneIsLeaf (rebuiltNs cs cfg.ns)) := by
  rw [verifyChildren_uniform cfg.noneIsLeaf cfg.ns cs]
  simp only []
  rw [assemble_enc _ _ cs _ _ kind _ _ _ _ hk]; rfl

/-- **a constructor applied to the child treespecs is the structure of the tree**: for every container the
engine handles itself — tuple, list, deque, dict, OrderedDict, defaultdict (the dict kinds with their keys sorted
or in insertion order as the namespace's mode says), unregistered namedtuple and struct-sequence classes —
`treespec_from_collection` over the same container holding the children's treespecs returns exactly the node
array `tree_structure` returns for the tree (namespace: that of the children). -/
theorem C08_constructor_is_structure (cfg : Cfg) (t : PyObj) (hpl : t.plainNode cfg = true) :
    ∃ cs, (∃ i, shapeOf cfg (!cfg.insertionOrdered) t = .node i cs) ∧
      makeFromCollection cfg (collOf cfg t) =
        .ok ((shapeOf cfg (!cfg.insertionOrdered) t).spec cfg.noneIsLeaf (rebuiltNs cs cfg.ns)) := by
  have hseq : ∀ xs : List PyObj, xs.map (specOf cfg) =
      (shapeOfList cfg (!cfg.insertionOrdered) xs).map fun (c : STree) => c.spec cfg.noneIsLeaf cfg.ns := by
    intro xs; rw [shapeOfList_eq, List.map_map]; rfl
  have hkv : ∀ (od : Bool) (kvs : List (Key × PyObj)),
      dictOrder od (!cfg.insertionOrdered) (kvs.map fun p => (p.1, specOf cfg p.2)) =
        (dictOrder od (!cfg.insertionOrdered) (shapeOfKVs cfg (!cfg.insertionOrdered) kvs)).map
          fun p => (p.1, p.2.spec cfg.noneIsLeaf cfg.ns) := by
    intro od kvs
    rw [shapeOfKVs_eq, ← dictOrder_mapVals od _ (fun (c : STree) => c.spec cfg.noneIsLeaf cfg.ns), List.map_map]; rfl
  have hfst : ∀ (l : List (Key × STree)),
      (l.map fun p => (p.1, p.2.spec cfg.noneIsLeaf cfg.ns)).map (·.1) = l.map (·.1) := by
    intro l; simp [List.map_map, Function.comp_def]
  have hsnd : ∀ (l : List (Key × STree)),
      (l.map fun p => (p.1, p.2.spec cfg.noneIsLeaf cfg.ns)).map (·.2) =
        (l.map (·.2)).map fun (c : STree) => c.spec cfg.noneIsLeaf cfg.ns := by
    intro l; simp [List.map_map, Function.comp_def]
  have hkeys : ∀ (kvs : List (Key × PyObj)), (kvs.map fun p => (p.1, specOf cfg p.2)).map (·.1) = kvs.map (·.1) := by
    intro kvs; simp [List.map_map, Function.comp_def]
  cases t with
  | leaf a b => simp [PyObj.plainNode] at hpl
  | none => simp [PyObj.plainNode] at hpl
  | user c m q xs => simp [PyObj.plainNode] at hpl
  | tuple xs =>
    refine ⟨_, ⟨_, by first | (simp only [shapeOf]; done) | (simp only [shapeOf]; rfl)⟩, ?_⟩
    simp only [collOf, makeFromCollection, hseq, shapeOf]
    exact plain_shape cfg _ .tuple .none Option.none (by simp)
  | list xs =>
    refine ⟨_, ⟨_, by first | (simp only [shapeOf]; done) | (simp only [shapeOf]; rfl)⟩, ?_⟩
    simp only [collOf, makeFromCollection, hseq, shapeOf]
    exact plain_shape cfg _ .list .none Option.none (by simp)
  | deque m xs =>
    refine ⟨_, ⟨_, by first | (simp only [shapeOf]; done) | (simp only [shapeOf]; rfl)⟩, ?_⟩
    simp only [collOf, makeFromCollection, hseq, shapeOf]
    exact plain_shape cfg _ .deque (.maxlen m) Option.none (by simp)
  | dict kvs =>
    refine ⟨_, ⟨_, by first | (simp only [shapeOf]; done) | (simp only [shapeOf]; rfl)⟩, ?_⟩
    simp only [collOf, makeFromCollection, hkv, hfst, hsnd, hkeys, shapeOf]
    exact plain_shape cfg _ .dict _ _ (by simp)
  | odict kvs =>
    refine ⟨_, ⟨_, by first | (simp only [shapeOf]; done) | (simp only [shapeOf]; rfl)⟩, ?_⟩
    have := hkv true kvs
    simp only [dictOrder, Bool.not_true, Bool.false_and, Bool.false_eq_true, if_false] at this
    simp only [collOf, makeFromCollection, this, hfst, hsnd, shapeOf]
    exact plain_shape cfg _ .ordereddict _ _ (by simp)
  | ddict f kvs =>
    refine ⟨_, ⟨_, by first | (simp only [shapeOf]; done) | (simp only [shapeOf]; rfl)⟩, ?_⟩
    simp only [collOf, makeFromCollection, hkv, hfst, hsnd, hkeys, shapeOf]
    exact plain_shape cfg _ .defaultdict _ _ (by simp)
  | ntuple cls xs =>
    simp only [PyObj.plainNode, Option.isNone_iff_eq_none] at hpl
    refine ⟨_, ⟨_, by first | (simp only [shapeOf, hpl]; done) | (simp only [shapeOf, hpl]; rfl)⟩, ?_⟩
    simp only [collOf, makeFromCollection, hseq, shapeOf, hpl]
    exact plain_shape cfg _ .namedtuple _ _ (by simp)
  | sseq cls xs =>
    simp only [PyObj.plainNode, Option.isNone_iff_eq_none] at hpl
    refine ⟨_, ⟨_, by first | (simp only [shapeOf, hpl]; done) | (simp only [shapeOf, hpl]; rfl)⟩, ?_⟩
    simp only [collOf, makeFromCollection, hseq, shapeOf, hpl]
    exact plain_shape cfg _ .structseq _ _ (by simp)


/-- hence, for every tree whose root the engine handles itself: the constructor over the children's treespecs
and `tree_structure` of the tree return the same node array -/
theorem C08_constructor_matches_flatten (cfg : Cfg) (hp : cfg.pred = Option.none) (t : PyObj) (ht : t.wf = true)
    (hpl : t.plainNode cfg = true) (ls : List PyObj) (sp : Spec) (h : flatten cfg t = .ok (ls, sp)) :
    ∃ sp', makeFromCollection cfg (collOf cfg t) = .ok sp' ∧ sp'.nodes = sp.nodes ∧
      sp'.noneIsLeaf = sp.noneIsLeaf := by
  obtain ⟨e, _⟩ := flatten_shapeOf cfg hp t ht ls sp h
  obtain ⟨cs, _, hm⟩ := C08_constructor_is_structure cfg t hpl
  refine ⟨_, hm, ?_, ?_⟩
  · rw [e]; rfl
  · rw [e]; rfl

/-- non-vacuity: `treespec_dict({"b": *, "a": (*, *)})` has its keys sorted, like the structure of the tree -/
example :
    let cfg : Cfg := {}
    let t : PyObj := .dict [(.str "b", .leaf 0 1), (.str "a", .tuple [.leaf 0 2, .leaf 0 3])]
    t.plainNode cfg = true ∧
    (match makeFromCollection cfg (collOf cfg t), flatten cfg t with
      | .ok sp', .ok (_, sp) => sp'.nodes == sp.nodes && sp'.nodes.length == 5
      | _, _ => false) = true := by decide


/-! ### `transform` with a node function -/

/-- **`transform(f_node, f_leaf)` rewrites every node and replaces every leaf**: if `f_node` answers, for the
one-level treespec of a node with information `i` and `k` children, the one-level treespec of `g i k` with `k`
children (in the same namespace or none), and `f_leaf` always answers the treespec of `b`, then `transform`
returns the encoding of the tree with every node's information rewritten by `g` and every leaf replaced by `b`
— all well-formed shapes, any nesting (the result must itself be well-formed: `g` keeps dict keys distinct etc.) -/
theorem C08_transform_node_refines (a b : STree) (g : NInfo → Nat → NInfo) (ha : a.wf = true)
    (ha' : (a.mapInfo g).wf = true) (nil : Bool) (ns nsb : String) (hnsb : nsb = ns ∨ nsb = "")
    (fN : Spec → Except Err Spec)
    (hN : ∀ (i : NInfo) (k : Nat), i.kind ≠ .leaf → ∃ nsT, (nsT = ns ∨ nsT = "") ∧
      fN (olSpec nil ns i k) = .ok (olSpec nil nsT (g i k) k)) :
    transform (a.spec nil ns) (some fN) (some fun _ => .ok (b.spec nil nsb)) =
      .ok (((a.mapInfo g).subst b).spec nil ns) :=
  transform_node_enc a b g ha ha' nil ns nsb hnsb fN hN

/-- counts are those of `compose`: the node function cannot change the number of leaves or nodes -/
theorem C08_transform_node_counts (a b : STree) (g : NInfo → Nat → NInfo) :
    ((a.mapInfo g).subst b).leaves = a.leaves * b.leaves := by
  rw [STree.subst_leaves, STree.mapInfo_leaves]

/-- non-vacuity: turning every list node into a tuple node -/
def C08_listToTuple (i : NInfo) (_ : Nat) : NInfo :=
  if i.kind == .list then ⟨.tuple, .none, Option.none, Option.none, Option.none⟩ else i

def C08_listToTupleFn (sp : Spec) : Except Err Spec :=
  match sp.nodes.getLast? with
  | some r =>
      if r.kind == .list then
        .ok { sp with nodes := sp.nodes.dropLast ++ [{ r with kind := .tuple }] }
      else .ok sp
  | Option.none => .error .internal

example :
    let a : STree := .node ⟨.list, .none, Option.none, Option.none, Option.none⟩
      [.leaf, .node ⟨.tuple, .none, Option.none, Option.none, Option.none⟩ [.leaf, .node ⟨.list, .none, Option.none, Option.none, Option.none⟩ []]]
    a.wf = true ∧ (a.mapInfo C08_listToTuple).wf = true ∧
    (match transform (a.spec false "") (some C08_listToTupleFn) (some fun _ => .ok (STree.leaf.spec false "")) with
      | .ok sp => sp.nodes == ((a.mapInfo C08_listToTuple).subst .leaf).enc
      | .error _ => false) = true := by decide


end Optree
