/-
  C06  Treespec equality means same structure, and equal treespecs hash equally.

  `Generated.hashSpecFields / hashNodeFields / eqFields` are regenerated from hashing.cpp and
  richcomparison.cpp on every run (translator T-hash); the three `*_ok` theorems below are the
  generated obligations: they are re-checked against what the code says now.
-/
import OptreeModel.Lemmas.EqHash
import OptreeModel.Generated.Hash
import OptreeModel.Lemmas.EncEq
import OptreeModel.Lemmas.EncFlatten

namespace Optree

/-- treespec-level fields that `==` forces to be equal (namespace is *not* among them: an empty
namespace is a wildcard for `==`) -/
def C06_eqDeterminedSpecFields : List String := ["num_leaves", "num_nodes", "none_is_leaf"]

/-- node-level fields that `==` forces to be equal -/
def C06_eqDeterminedNodeFields : List String := ["kind", "arity", "num_leaves", "num_nodes", "data"]

/-- **Generated obligation.** Every treespec-level value that is hashed is determined by `==`. -/
theorem C06_hashSpecFields_ok :
    ∀ f ∈ Generated.hashSpecFields, f ∈ C06_eqDeterminedSpecFields := by decide

/-- **Generated obligation.** Every node-level value that is hashed is determined by `==`. -/
theorem C06_hashNodeFields_ok :
    ∀ f ∈ Generated.hashNodeFields, f ∈ C06_eqDeterminedNodeFields := by decide

/-- **Generated obligation.** `EqualTo` in the source performs the comparisons the model's `equalTo`
performs. -/
theorem C06_eqFields_ok :
    ∀ f ∈ ["size", "none_is_leaf", "namespace_compat", "num_leaves", "kind", "arity", "has_data",
           "custom", "data", "node_num_leaves", "node_num_nodes"], f ∈ Generated.eqFields := by decide

/-- Equal treespecs have equal hash input, for every selection of hashed fields that `==`
determines (hence equal hashes for any combining function). -/
theorem C06_eq_hash (specFields nodeFields : List String)
    (hs : ∀ f ∈ specFields, f ∈ C06_eqDeterminedSpecFields) (a b : Spec)
    (h : equalTo a b = .ok true) :
    hashInput specFields nodeFields a = hashInput specFields nodeFields b := by
  unfold equalTo at h
  split at h; · simp at h
  split at h; · simp at h
  rename_i h2
  split at h; · simp at h
  split at h; · simp at h
  rename_i h4
  simp only [Bool.or_eq_true, bne_iff_ne, ne_eq, not_or, Decidable.not_not] at h2 h4
  have hkeys := nodesEq_true _ _ h
  unfold hashInput
  simp only
  congr 1
  · -- treespec-level part
    clear h hkeys
    induction specFields with
    | nil => rfl
    | cons f fs ih =>
      simp only [List.flatMap_cons]
      rw [ih (fun g hg => hs g (by simp [hg]))]
      congr 1
      have := hs f (by simp)
      simp only [C06_eqDeterminedSpecFields, List.mem_cons, List.not_mem_nil, or_false] at this
      rcases this with rfl | rfl | rfl
      · simp [h4.2]
      · simp [h4.1]
      · simp [h2.2]
  · exact nodePart_congr nodeFields _ _ hkeys

/-- The statement for the field lists found in the source today. -/
theorem C06_eq_hash_generated (a b : Spec) (h : equalTo a b = .ok true) :
    hashInput Generated.hashSpecFields Generated.hashNodeFields a =
    hashInput Generated.hashSpecFields Generated.hashNodeFields b :=
  C06_eq_hash _ _ C06_hashSpecFields_ok a b h

/-- `==` is symmetric (as a result, including the internal-error outcome). -/
theorem C06_nodesEq_symm (xs ys : List Node) : nodesEq xs ys = nodesEq ys xs := by
  induction xs generalizing ys with
  | nil => cases ys <;> simp [nodesEq]
  | cons x xs ih =>
    cases ys with
    | nil => simp [nodesEq]
    | cons y ys =>
      unfold nodesEq
      rw [ih ys]
      have e1 : (x.kind != y.kind || x.arity != y.arity || x.data.isSome != y.data.isSome
          || x.custom != y.custom) = (y.kind != x.kind || y.arity != x.arity ||
          y.data.isSome != x.data.isSome || y.custom != x.custom) := by
        simp only [bne_comm]
      rw [e1]
      split
      · rfl
      · rename_i hne
        simp only [Bool.or_eq_true, bne_iff_ne, ne_eq, not_or, Decidable.not_not] at hne
        have e2 : (x.data.isSome && x.data != y.data) = (y.data.isSome && y.data != x.data) := by
          rw [hne.1.2, bne_comm]
        rw [e2]
        have e3 : (x.numLeaves != y.numLeaves || x.numNodes != y.numNodes) =
            (y.numLeaves != x.numLeaves || y.numNodes != x.numNodes) := by simp only [bne_comm]
        rw [e3]

theorem C06_symm (a b : Spec) : equalTo a b = equalTo b a := by
  unfold equalTo
  have e0 : (!a.sane || !b.sane) = (!b.sane || !a.sane) := Bool.or_comm _ _
  have e1 : (a.nodes.length != b.nodes.length || a.noneIsLeaf != b.noneIsLeaf) =
      (b.nodes.length != a.nodes.length || b.noneIsLeaf != a.noneIsLeaf) := by simp only [bne_comm]
  have e2 : nsCompatible a.ns b.ns = nsCompatible b.ns a.ns := by
    unfold nsCompatible
    rw [Bool.or_comm (a.ns == "") (b.ns == "")]
    congr 1
    exact Bool.beq_comm
  have e3 : (a.numNodes != b.numNodes || a.numLeaves != b.numLeaves) =
      (b.numNodes != a.numNodes || b.numLeaves != a.numLeaves) := by simp only [bne_comm]
  rw [e0, e1, e2, e3, C06_nodesEq_symm]

/-- `==` is reflexive on every treespec whose node array passes the sanity check. -/
theorem C06_nodesEq_refl (xs : List Node) : nodesEq xs xs = .ok true := by
  induction xs with
  | nil => simp [nodesEq]
  | cons x xs ih => simp [nodesEq, ih]

theorem C06_refl (a : Spec) (h : a.sane = true) : equalTo a a = .ok true := by
  simp [equalTo, h, nsCompatible, C06_nodesEq_refl]

/-! ### non-vacuity -/

def C06_demoA : Spec :=
  { nodes := [Node.leaf, { Node.leaf with kind := .tuple, arity := 1, numNodes := 2 }],
    noneIsLeaf := false, ns := "" }
def C06_demoB : Spec := { C06_demoA with ns := "ns" }

/-- two treespecs that differ only in the namespace are `==` … -/
example : (match equalTo C06_demoA C06_demoB with | .ok true => true | _ => false) = true := by decide
/-- … so a hash that mixed in the namespace would separate equal treespecs -/
example : hashInput ["namespace"] [] C06_demoA ≠ hashInput ["namespace"] [] C06_demoB := by decide

/-! ### refinement: `==` decides equality of shapes

`STree.eqB` (Lemmas/EncEq.lean) is structural equality of shapes as the property words it: same node
kinds, arities, classes / metadata / keys *in the same order* / maxlen / default factory and identical
registrations at every node; custom path entries and the remembered insertion order of dict keys do
not take part. -/

/-- **`a == b` is `True` exactly when the shapes are equal**, `none_is_leaf` agrees and the namespaces are
compatible — for all well-formed shapes of any size -/
theorem C06_eq_iff (a b : STree) (ha : a.wf = true) (hb : b.wf = true) (nil nil' : Bool) (ns ns' : String) :
    equalTo (a.spec nil ns) (b.spec nil' ns') = .ok true ↔
      (nil = nil' ∧ nsCompatible ns ns' = true ∧ a.eqB b = true) :=
  equalTo_enc_true a b ha hb nil nil' ns ns'

/-- hence two treespecs made by flattening compare equal iff their shapes are equal (same options) -/
theorem C06_eq_of_flatten (cfg : Cfg) (t u : PyObj) (ht : t.wf = true) (hu : u.wf = true)
    (lt lu : List PyObj) (st su : Spec) (h1 : flatten cfg t = .ok (lt, st)) (h2 : flatten cfg u = .ok (lu, su)) :
    ∃ a b : STree, a.wf = true ∧ b.wf = true ∧ st = a.spec cfg.noneIsLeaf st.ns ∧ su = b.spec cfg.noneIsLeaf su.ns ∧
      (equalTo st su = .ok true ↔ (nsCompatible st.ns su.ns = true ∧ a.eqB b = true)) := by
  obtain ⟨a, ha, ea, _⟩ := flatten_isEnc cfg t ht lt st h1
  obtain ⟨b, hb, eb, _⟩ := flatten_isEnc cfg u hu lu su h2
  refine ⟨a, b, ha, hb, ea, eb, ?_⟩
  rw [ea, eb, C06_eq_iff a b ha hb]
  simp [STree.spec]

mutual
theorem C06_shape_eq_refl : ∀ a : STree, a.eqB a = true
  | .leaf => rfl
  | .node i cs => by
      simp only [STree.eqB, NInfo.eqv, beq_self_eq_true, Bool.true_and, Bool.and_eq_true]
      exact ⟨by cases i.data.isSome <;> simp, C06_shape_eq_reflL cs⟩
theorem C06_shape_eq_reflL : ∀ cs : List STree, STree.eqL cs cs = true
  | [] => rfl
  | c :: cs => by simp [STree.eqL, C06_shape_eq_refl c, C06_shape_eq_reflL cs]
end

theorem NInfo.eqv_symm_of (i j : NInfo) (h : i.eqv j = true) : j.eqv i = true := by
  unfold NInfo.eqv at *
  simp only [Bool.and_eq_true, beq_iff_eq, Bool.or_eq_true, Bool.not_eq_true'] at *
  obtain ⟨⟨⟨a1, a2⟩, a3⟩, a4⟩ := h
  refine ⟨⟨⟨a1.symm, a2.symm⟩, a3.symm⟩, ?_⟩
  rcases a4 with a4 | a4
  · left; rw [← a2]; exact a4
  · right; exact a4.symm

theorem NInfo.eqv_symm (i j : NInfo) : i.eqv j = j.eqv i := by
  cases h : i.eqv j with
  | true => exact (NInfo.eqv_symm_of i j h).symm
  | false =>
    cases h' : j.eqv i with
    | false => rfl
    | true => rw [NInfo.eqv_symm_of j i h'] at h; exact absurd h (by simp)

theorem NInfo.eqv_trans (i j k : NInfo) (h1 : i.eqv j = true) (h2 : j.eqv k = true) : i.eqv k = true := by
  unfold NInfo.eqv at *
  simp only [Bool.and_eq_true, beq_iff_eq, Bool.or_eq_true, Bool.not_eq_true'] at *
  obtain ⟨⟨⟨a1, a2⟩, a3⟩, a4⟩ := h1
  obtain ⟨⟨⟨b1, b2⟩, b3⟩, b4⟩ := h2
  refine ⟨⟨⟨a1.trans b1, a2.trans b2⟩, a3.trans b3⟩, ?_⟩
  rcases a4 with a4 | a4
  · left; exact a4
  · rcases b4 with b4 | b4
    · left; rw [a2]; exact b4
    · right; exact a4.trans b4

mutual
theorem C06_shape_eq_symm : ∀ a b : STree, a.eqB b = b.eqB a
  | .leaf, .leaf => rfl
  | .leaf, .node _ _ => rfl
  | .node _ _, .leaf => rfl
  | .node i cs, .node j ds => by
      simp only [STree.eqB, NInfo.eqv_symm i j, C06_shape_eq_symmL cs ds]
theorem C06_shape_eq_symmL : ∀ cs ds : List STree, STree.eqL cs ds = STree.eqL ds cs
  | [], [] => rfl
  | [], _ :: _ => rfl
  | _ :: _, [] => rfl
  | c :: cs, d :: ds => by simp only [STree.eqL, C06_shape_eq_symm c d, C06_shape_eq_symmL cs ds]
end

mutual
theorem C06_shape_eq_trans : ∀ a b c : STree, a.eqB b = true → b.eqB c = true → a.eqB c = true
  | .leaf, .leaf, .leaf, _, _ => rfl
  | .leaf, .leaf, .node _ _, _, h => by simp [STree.eqB] at h
  | .leaf, .node _ _, _, h, _ => by simp [STree.eqB] at h
  | .node _ _, .leaf, _, h, _ => by simp [STree.eqB] at h
  | .node _ _, .node _ _, .leaf, _, h => by simp [STree.eqB] at h
  | .node i cs, .node j ds, .node k es, h1, h2 => by
      simp only [STree.eqB, Bool.and_eq_true] at h1 h2 ⊢
      exact ⟨NInfo.eqv_trans i j k h1.1 h2.1, C06_shape_eq_transL cs ds es h1.2 h2.2⟩
theorem C06_shape_eq_transL : ∀ cs ds es : List STree, STree.eqL cs ds = true → STree.eqL ds es = true →
    STree.eqL cs es = true
  | [], [], [], _, _ => rfl
  | [], [], _ :: _, _, h => by simp [STree.eqL] at h
  | [], _ :: _, _, h, _ => by simp [STree.eqL] at h
  | _ :: _, [], _, h, _ => by simp [STree.eqL] at h
  | _ :: _, _ :: _, [], _, h => by simp [STree.eqL] at h
  | c :: cs, d :: ds, e :: es, h1, h2 => by
      simp only [STree.eqL, Bool.and_eq_true] at h1 h2 ⊢
      exact ⟨C06_shape_eq_trans c d e h1.1 h2.1, C06_shape_eq_transL cs ds es h1.2 h2.2⟩
end

/-- `==` between treespecs with the same options is an equivalence relation (transitivity is where the
empty-namespace wildcard could bite: it is stated for equal namespaces) -/
theorem C06_trans_same_ns (a b c : STree) (ha : a.wf = true) (hb : b.wf = true) (hc : c.wf = true)
    (nil : Bool) (ns : String)
    (h1 : equalTo (a.spec nil ns) (b.spec nil ns) = .ok true)
    (h2 : equalTo (b.spec nil ns) (c.spec nil ns) = .ok true) :
    equalTo (a.spec nil ns) (c.spec nil ns) = .ok true := by
  rw [C06_eq_iff a b ha hb] at h1
  rw [C06_eq_iff b c hb hc] at h2
  rw [C06_eq_iff a c ha hc]
  exact ⟨rfl, h1.2.1, C06_shape_eq_trans a b c h1.2.2 h2.2.2⟩

/-- equal shapes have equal counts, so the count guards of `EqualTo` never change the answer -/
theorem C06_eq_counts (a b : STree) (h : a.eqB b = true) : a.size = b.size ∧ a.leaves = b.leaves :=
  STree.eqB_counts a b h

end Optree
