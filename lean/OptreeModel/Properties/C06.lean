/-
  C06  Treespec equality means same structure, and equal treespecs hash equally.

  `Generated.hashSpecFields / hashNodeFields / eqFields` are regenerated from hashing.cpp and
  richcomparison.cpp on every run (translator T-hash); the three `*_ok` theorems below are the
  generated obligations: they are re-checked against what the code says now.
-/
import OptreeModel.Lemmas.EqHash
import OptreeModel.Generated.Hash

namespace Optree

/-- treespec-level fields that `==` forces to be equal (namespace is *not* among them: an empty
namespace is a wildcard for `==`) -/
def C06_eqDeterminedSpecFields : List String := ["num_leaves", "num_nodes", "none_is_leaf"]

/-- node-level fields that `==` forces to be equal -/
def C06_eqDeterminedNodeFields : List String := ["kind", "arity", "num_leaves", "num_nodes", "data"]

/-- **Generated obligation.** Every treespec-level value that is hashed is determined by `==`. -/
theorem C06_hashSpecFields_ok :
    ∀ f ∈ Generated.hashSpecFields, f ∈ C06_eqDeterminedSpecFields := by decide

/-- **Generated obligation.** Every node-level value that is hashed is determined by `==`. -/
theorem C06_hashNodeFields_ok :
    ∀ f ∈ Generated.hashNodeFields, f ∈ C06_eqDeterminedNodeFields := by decide

/-- **Generated obligation.** `EqualTo` in the source performs the comparisons the model's `equalTo`
performs. -/
theorem C06_eqFields_ok :
    ∀ f ∈ ["size", "none_is_leaf", "namespace_compat", "num_leaves", "kind", "arity", "has_data",
           "custom", "data", "node_num_leaves", "node_num_nodes"], f ∈ Generated.eqFields := by decide

/-- Equal treespecs have equal hash input, for every selection of hashed fields that `==`
determines (hence equal hashes for any combining function). -/
theorem C06_eq_hash (specFields nodeFields : List String)
    (hs : ∀ f ∈ specFields, f ∈ C06_eqDeterminedSpecFields) (a b : Spec)
    (h : equalTo a b = .ok true) :
    hashInput specFields nodeFields a = hashInput specFields nodeFields b := by
  unfold equalTo at h
  split at h; · simp at h
  split at h; · simp at h
  rename_i h2
  split at h; · simp at h
  split at h; · simp at h
  rename_i h4
  simp only [Bool.or_eq_true, bne_iff_ne, ne_eq, not_or, Decidable.not_not] at h2 h4
  have hkeys := nodesEq_true _ _ h
  unfold hashInput
  simp only
  congr 1
  · -- treespec-level part
    clear h hkeys
    induction specFields with
    | nil => rfl
    | cons f fs ih =>
      simp only [List.flatMap_cons]
      rw [ih (fun g hg => hs g (by simp [hg]))]
      congr 1
      have := hs f (by simp)
      simp only [C06_eqDeterminedSpecFields, List.mem_cons, List.not_mem_nil, or_false] at this
      rcases this with rfl | rfl | rfl
      · simp [h4.2]
      · simp [h4.1]
      · simp [h2.2]
  · exact nodePart_congr nodeFields _ _ hkeys

/-- The statement for the field lists found in the source today. -/
theorem C06_eq_hash_generated (a b : Spec) (h : equalTo a b = .ok true) :
    hashInput Generated.hashSpecFields Generated.hashNodeFields a =
    hashInput Generated.hashSpecFields Generated.hashNodeFields b :=
  C06_eq_hash _ _ C06_hashSpecFields_ok a b h

/-- `==` is symmetric (as a result, including the internal-error outcome). -/
theorem C06_nodesEq_symm (xs ys : List Node) : nodesEq xs ys = nodesEq ys xs := by
  induction xs generalizing ys with
  | nil => cases ys <;> simp [nodesEq]
  | cons x xs ih =>
    cases ys with
    | nil => simp [nodesEq]
    | cons y ys =>
      unfold nodesEq
      rw [ih ys]
      have e1 : (x.kind != y.kind || x.arity != y.arity || x.data.isSome != y.data.isSome
          || x.custom != y.custom) = (y.kind != x.kind || y.arity != x.arity ||
          y.data.isSome != x.data.isSome || y.custom != x.custom) := by
        simp only [bne_comm]
      rw [e1]
      split
      · rfl
      · rename_i hne
        simp only [Bool.or_eq_true, bne_iff_ne, ne_eq, not_or, Decidable.not_not] at hne
        have e2 : (x.data.isSome && x.data != y.data) = (y.data.isSome && y.data != x.data) := by
          rw [hne.1.2, bne_comm]
        rw [e2]
        have e3 : (x.numLeaves != y.numLeaves || x.numNodes != y.numNodes) =
            (y.numLeaves != x.numLeaves || y.numNodes != x.numNodes) := by simp only [bne_comm]
        rw [e3]

theorem C06_symm (a b : Spec) : equalTo a b = equalTo b a := by
  unfold equalTo
  have e0 : (!a.sane || !b.sane) = (!b.sane || !a.sane) := Bool.or_comm _ _
  have e1 : (a.nodes.length != b.nodes.length || a.noneIsLeaf != b.noneIsLeaf) =
      (b.nodes.length != a.nodes.length || b.noneIsLeaf != a.noneIsLeaf) := by simp only [bne_comm]
  have e2 : nsCompatible a.ns b.ns = nsCompatible b.ns a.ns := by
    unfold nsCompatible
    rw [Bool.or_comm (a.ns == "") (b.ns == "")]
    congr 1
    exact Bool.beq_comm
  have e3 : (a.numNodes != b.numNodes || a.numLeaves != b.numLeaves) =
      (b.numNodes != a.numNodes || b.numLeaves != a.numLeaves) := by simp only [bne_comm]
  rw [e0, e1, e2, e3, C06_nodesEq_symm]

/-- `==` is reflexive on every treespec whose node array passes the sanity check. -/
theorem C06_nodesEq_refl (xs : List Node) : nodesEq xs xs = .ok true := by
  induction xs with
  | nil => simp [nodesEq]
  | cons x xs ih => simp [nodesEq, ih]

theorem C06_refl (a : Spec) (h : a.sane = true) : equalTo a a = .ok true := by
  simp [equalTo, h, nsCompatible, C06_nodesEq_refl]

/-! ### non-vacuity -/

def C06_demoA : Spec :=
  { nodes := [Node.leaf, { Node.leaf with kind := .tuple, arity := 1, numNodes := 2 }],
    noneIsLeaf := false, ns := "" }
def C06_demoB : Spec := { C06_demoA with ns := "ns" }

/-- two treespecs that differ only in the namespace are `==` … -/
example : (match equalTo C06_demoA C06_demoB with | .ok true => true | _ => false) = true := by decide
/-- … so a hash that mixed in the namespace would separate equal treespecs -/
example : hashInput ["namespace"] [] C06_demoA ≠ hashInput ["namespace"] [] C06_demoB := by decide

end Optree
