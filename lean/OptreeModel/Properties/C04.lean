/-
  C04  Paths and accessors address exactly the leaves.
-/
import OptreeModel.Model.Inspect

namespace Optree

def pathOf (a : List AccEntry) : List Key := a.map (·.entry)

/-- the index walkers `AccessorsImpl` and `PathsImpl` run in lock step: whenever the accessor walk
succeeds, the path walk over the same (reversed) array with the projected stack succeeds, consumes
the same nodes and yields the projected accessors -/
theorem accessorsGo_paths (fuel : Nat) :
    (∀ nodes stack acc as rest,
      accessorsGo fuel nodes stack acc = .ok (as, rest) →
      pathsGo fuel nodes (pathOf stack) (acc.map pathOf) = .ok (as.map pathOf, rest)) ∧
    (∀ es nodes stack acc as rest,
      accessorsChildren fuel es nodes stack acc = .ok (as, rest) →
      pathsChildren fuel (es.map (·.entry)) nodes (pathOf stack) (acc.map pathOf) =
        .ok (as.map pathOf, rest)) := by
  induction fuel with
  | zero =>
    constructor
    · intro nodes stack acc as rest h
      simp [accessorsGo] at h
    · intro es
      induction es with
      | nil =>
        intro nodes stack acc as rest h
        simp only [accessorsChildren, Except.ok.injEq, Prod.mk.injEq] at h
        simp [pathsChildren, h.1, h.2]
      | cons e es _ =>
        intro nodes stack acc as rest h
        simp [accessorsChildren, accessorsGo] at h
  | succ n ih =>
    obtain ⟨ihGo, ihCh⟩ := ih
    have hGo : ∀ nodes stack acc as rest,
        accessorsGo (n + 1) nodes stack acc = .ok (as, rest) →
        pathsGo (n + 1) nodes (pathOf stack) (acc.map pathOf) = .ok (as.map pathOf, rest) := by
      intro nodes stack acc as rest h
      cases nodes with
      | nil => simp [accessorsGo] at h
      | cons root rest' =>
        unfold accessorsGo at h
        unfold pathsGo
        split at h
        · simp at h
        · simp at h
        · rename_i ty ek? hty hek
          split at h; · simp at h
          split at h
          · -- leaf without entries
            rename_i he hk
            simp only [Except.ok.injEq, Prod.mk.injEq] at h
            simp [he, hk, ← h.1, ← h.2, pathOf]
          · rename_i he hk
            simp only [Except.ok.injEq, Prod.mk.injEq] at h
            simp [he, hk, ← h.1, ← h.2]
          · rename_i hne
            split at h; · simp at h
            rename_i ek hek'
            split at h; · simp at h
            rename_i hlen
            have := ihCh _ _ _ _ _ _ h
            simp only [List.map_map, Function.comp_def, List.map_reverse] at this
            have hmap : (List.map (fun e => e) root.childEntries).reverse = root.childEntries.reverse := by simp
            split
            all_goals first
              | (simpa [hlen, pathOf, List.map_map, Function.comp_def] using this)
              | (simp_all; done)
    refine ⟨hGo, ?_⟩
    intro es
    induction es with
    | nil =>
      intro nodes stack acc as rest h
      simp only [accessorsChildren, Except.ok.injEq, Prod.mk.injEq] at h
      simp [pathsChildren, h.1, h.2]
    | cons e es ihes =>
      intro nodes stack acc as rest h
      unfold accessorsChildren at h
      simp only [List.map_cons]
      unfold pathsChildren
      split at h
      · simp at h
      · rename_i acc' rest' hgo
        have h1 := hGo _ _ _ _ _ hgo
        simp only [pathOf, List.map_append, List.map_cons, List.map_nil] at h1
        simp only [pathOf] 
        rw [h1]
        exact ihes _ _ _ _ _ h

end Optree

namespace Optree

/-- **The path of the i-th accessor is the i-th path.**  Whenever `accessors()` succeeds on a
treespec, `paths()` succeeds and equals the accessors' `.path`s, entry by entry — for any node
array (no well-formedness assumption), any size.  (`Paths()` has a fast path for the one-node leaf
treespec, treated in `C04_path_of_accessor_leaf`.) -/
theorem C04_path_of_accessor (sp : Spec) (as : List (List AccEntry)) (h : accessors sp = .ok as)
    (hfast : (sp.numNodes == 1 && sp.numLeaves == 1) = false) :
    paths sp = .ok (as.map pathOf) := by
  unfold accessors at h
  unfold paths
  split at h; · simp at h
  rename_i hs
  simp only [hs, Bool.false_eq_true, if_false]
  split at h
  · rename_i h0; simp at h; subst h; simp [h0]
  · rename_i h0
    simp only [h0, Bool.false_eq_true, if_false, hfast]
    split at h; · simp at h
    rename_i as' rest hgo
    split at h; · simp at h
    rename_i hrest
    split at h; · simp at h
    rename_i hlen
    simp only [Except.ok.injEq] at h
    subst h
    have hp := (accessorsGo_paths (sp.nodes.length + 1)).1 _ _ _ _ _ hgo
    simp only [pathOf, List.map_nil] at hp
    simp only [pathOf, hp]
    simp only [Bool.not_eq_true', Bool.not_eq_true] at hrest hlen
    simp [hrest, hlen]

/-- the one-node leaf treespec: one empty accessor, one empty path -/
theorem C04_path_of_accessor_leaf (nil : Bool) (ns : String) :
    accessors ⟨[Node.leaf], nil, ns⟩ = .ok [[]] ∧ paths ⟨[Node.leaf], nil, ns⟩ = .ok [[]] := by
  constructor
  · simp [accessors, Spec.sane, Spec.numLeaves, Node.leaf, accessorsGo, Node.typeRef, Node.pathEntryKind]
  · simp [paths, Spec.sane, Spec.numLeaves, Spec.numNodes, Node.leaf]

/-- every entry of an accessor carries the node type and kind of the node it was created for and
the path-entry class chosen for that node -/
theorem C04_resolveEntryKind_not_auto (ek : EntryKind) (ty : TypeRef) :
    resolveEntryKind ek ty ≠ .auto := by
  cases ek <;> simp [resolveEntryKind]
  split <;> simp_all

/-! ### non-vacuity -/

def C04_demoSpec : Spec :=
  { nodes := [Node.leaf, Node.leaf,
              { kind := .tuple, arity := 2, data := .none, entries := Option.none, custom := Option.none,
                numLeaves := 2, numNodes := 3, originalKeys := Option.none }],
    noneIsLeaf := false, ns := "" }

example : (C04_demoSpec.numNodes == 1 && C04_demoSpec.numLeaves == 1) = false := by decide

end Optree
