/-
  C04  Paths and accessors address exactly the leaves.
-/
import OptreeModel.Model.Inspect
import OptreeModel.Lemmas.EncPaths
import OptreeModel.Lemmas.UpToSelf
import OptreeModel.Lemmas.EncAccessors

namespace Optree

def pathOf (a : List AccEntry) : List Key := a.map (·.entry)

/-- the index walkers `AccessorsImpl` and `PathsImpl` run in lock step: whenever the accessor walk
succeeds, the path walk over the same (reversed) array with the projected stack succeeds, consumes
the same nodes and yields the projected accessors -/
theorem accessorsGo_paths (fuel : Nat) :
    (∀ nodes stack acc as rest,
      accessorsGo fuel nodes stack acc = .ok (as, rest) →
      pathsGo fuel nodes (pathOf stack) (acc.map pathOf) = .ok (as.map pathOf, rest)) ∧
    (∀ es nodes stack acc as rest,
      accessorsChildren fuel es nodes stack acc = .ok (as, rest) →
      pathsChildren fuel (es.map (·.entry)) nodes (pathOf stack) (acc.map pathOf) =
        .ok (as.map pathOf, rest)) := by
  induction fuel with
  | zero =>
    constructor
    · intro nodes stack acc as rest h
      simp [accessorsGo] at h
    · intro es
      induction es with
      | nil =>
        intro nodes stack acc as rest h
        simp only [accessorsChildren, Except.ok.injEq, Prod.mk.injEq] at h
        simp [pathsChildren, h.1, h.2]
      | cons e es _ =>
        intro nodes stack acc as rest h
        simp [accessorsChildren, accessorsGo] at h
  | succ n ih =>
    obtain ⟨ihGo, ihCh⟩ := ih
    have hGo : ∀ nodes stack acc as rest,
        accessorsGo (n + 1) nodes stack acc = .ok (as, rest) →
        pathsGo (n + 1) nodes (pathOf stack) (acc.map pathOf) = .ok (as.map pathOf, rest) := by
      intro nodes stack acc as rest h
      cases nodes with
      | nil => simp [accessorsGo] at h
      | cons root rest' =>
        unfold accessorsGo at h
        unfold pathsGo
        split at h
        · simp at h
        · simp at h
        · rename_i ty ek? hty hek
          split at h; · simp at h
          split at h
          · -- leaf without entries
            rename_i he hk
            simp only [Except.ok.injEq, Prod.mk.injEq] at h
            simp [he, hk, ← h.1, ← h.2, pathOf]
          · rename_i he hk
            simp only [Except.ok.injEq, Prod.mk.injEq] at h
            simp [he, hk, ← h.1, ← h.2]
          · rename_i hne
            split at h; · simp at h
            rename_i ek hek'
            split at h; · simp at h
            rename_i hlen
            have := ihCh _ _ _ _ _ _ h
            simp only [List.map_map, Function.comp_def, List.map_reverse] at this
            have hmap : (List.map (fun e => e) root.childEntries).reverse = root.childEntries.reverse := by simp
            split
            all_goals first
              | (simpa [hlen, pathOf, List.map_map, Function.comp_def] using this)
              | (simp_all; done)
    refine ⟨hGo, ?_⟩
    intro es
    induction es with
    | nil =>
      intro nodes stack acc as rest h
      simp only [accessorsChildren, Except.ok.injEq, Prod.mk.injEq] at h
      simp [pathsChildren, h.1, h.2]
    | cons e es ihes =>
      intro nodes stack acc as rest h
      unfold accessorsChildren at h
      simp only [List.map_cons]
      unfold pathsChildren
      split at h
      · simp at h
      · rename_i acc' rest' hgo
        have h1 := hGo _ _ _ _ _ hgo
        simp only [pathOf, List.map_append, List.map_cons, List.map_nil] at h1
        simp only [pathOf] 
        rw [h1]
        exact ihes _ _ _ _ _ h

end Optree

namespace Optree

/-- **The path of the i-th accessor is the i-th path.**  Whenever `accessors()` succeeds on a
treespec, `paths()` succeeds and equals the accessors' `.path`s, entry by entry — for any node
array (no well-formedness assumption), any size.  (`Paths()` has a fast path for the one-node leaf
treespec, treated in `C04_path_of_accessor_leaf`.) -/
theorem C04_path_of_accessor (sp : Spec) (as : List (List AccEntry)) (h : accessors sp = .ok as)
    (hfast : (sp.numNodes == 1 && sp.numLeaves == 1) = false) :
    paths sp = .ok (as.map pathOf) := by
  unfold accessors at h
  unfold paths
  split at h; · simp at h
  rename_i hs
  simp only [hs, Bool.false_eq_true, if_false]
  split at h
  · rename_i h0; simp at h; subst h; simp [h0]
  · rename_i h0
    simp only [h0, Bool.false_eq_true, if_false, hfast]
    split at h; · simp at h
    rename_i as' rest hgo
    split at h; · simp at h
    rename_i hrest
    split at h; · simp at h
    rename_i hlen
    simp only [Except.ok.injEq] at h
    subst h
    have hp := (accessorsGo_paths (sp.nodes.length + 1)).1 _ _ _ _ _ hgo
    simp only [pathOf, List.map_nil] at hp
    simp only [pathOf, hp]
    simp only [Bool.not_eq_true', Bool.not_eq_true] at hrest hlen
    simp [hrest, hlen]

/-- the one-node leaf treespec: one empty accessor, one empty path -/
theorem C04_path_of_accessor_leaf (nil : Bool) (ns : String) :
    accessors ⟨[Node.leaf], nil, ns⟩ = .ok [[]] ∧ paths ⟨[Node.leaf], nil, ns⟩ = .ok [[]] := by
  constructor
  · simp [accessors, Spec.sane, Spec.numLeaves, Node.leaf, accessorsGo, Node.typeRef, Node.pathEntryKind]
  · simp [paths, Spec.sane, Spec.numLeaves, Spec.numNodes, Node.leaf]

/-- every entry of an accessor carries the node type and kind of the node it was created for and
the path-entry class chosen for that node -/
theorem C04_resolveEntryKind_not_auto (ek : EntryKind) (ty : TypeRef) :
    resolveEntryKind ek ty ≠ .auto := by
  cases ek <;> simp [resolveEntryKind]
  split <;> simp_all

/-! ### non-vacuity -/

def C04_demoSpec : Spec :=
  { nodes := [Node.leaf, Node.leaf,
              { kind := .tuple, arity := 2, data := .none, entries := Option.none, custom := Option.none,
                numLeaves := 2, numNodes := 3, originalKeys := Option.none }],
    noneIsLeaf := false, ns := "" }

example : (C04_demoSpec.numNodes == 1 && C04_demoSpec.numLeaves == 1) = false := by decide

/-! ### refinement: `paths()` lists the entries from the root to every leaf

`STree.pathsT s pre` (Model/STree.lean) is the documented meaning of a path: for a leaf, the entries
collected so far; for a node, the paths of its children, each extended by that child's entry (position,
dict key in the stored key order, or the entry the registration declares), concatenated in child order.
`None` nodes and childless containers contribute nothing. -/

/-- **`paths()` on an encoding is `pathsT`** (reversed-array index walk with an explicit stack), for all
shapes with one entry per child -/
theorem C04_paths_refines (s : STree) (hw : s.wf = true) (hk : s.entriesOk = true) (nil : Bool)
    (ns : String) : paths (s.spec nil ns) = .ok (s.pathsT []) := paths_enc s hw hk nil ns

/-- one path per leaf -/
theorem C04_paths_count (s : STree) (hk : s.entriesOk = true) (pre : List Key) :
    (s.pathsT pre).length = s.leaves := STree.pathsT_length s pre hk

/-- for a treespec made by flattening any well-formed tree: the paths are those of its shape, one per
leaf returned -/
theorem C04_paths_of_flatten (cfg : Cfg) (hp : cfg.pred = Option.none) (t : PyObj) (ht : t.wf = true)
    (ls : List PyObj) (sp : Spec) (h : flatten cfg t = .ok (ls, sp)) :
    ∃ ps, paths sp = .ok ps ∧ ps = (shapeOf cfg (!cfg.insertionOrdered) t).pathsT [] ∧ ps.length = ls.length := by
  obtain ⟨e, hl⟩ := flatten_shapeOf cfg hp t ht ls sp h
  obtain ⟨w, _⟩ := wg cfg (!cfg.insertionOrdered) t ht
  have hk := eo cfg (!cfg.insertionOrdered) t
  refine ⟨_, ?_, rfl, ?_⟩
  · rw [e]; exact C04_paths_refines _ w hk _ _
  · rw [C04_paths_count _ hk, hl]

/-- two lists neither of which is a prefix of the other -/
def Incomparable (p q : List Key) : Prop := ¬ p <+: q ∧ ¬ q <+: p

theorem incomparable_of_entries (pre p q : List Key) (e e' : Key) (hne : e ≠ e')
    (hp : (pre ++ [e]) <+: p) (hq : (pre ++ [e']) <+: q) : Incomparable p q := by
  obtain ⟨p', rfl⟩ := hp
  obtain ⟨q', rfl⟩ := hq
  constructor
  · rintro ⟨r, hr⟩
    simp only [List.append_assoc, List.append_cancel_left_eq, List.singleton_append, List.cons_append,
      List.cons.injEq] at hr
    exact hne hr.1
  · rintro ⟨r, hr⟩
    simp only [List.append_assoc, List.append_cancel_left_eq, List.singleton_append, List.cons_append,
      List.cons.injEq] at hr
    exact hne hr.1.symm

mutual
/-- **the paths of a treespec are pairwise distinct and prefix-free** when the child entries of every
node are distinct -/
theorem C04_paths_prefix_free : ∀ (s : STree) (pre : List Key), s.entriesNodup = true →
    (s.pathsT pre).Pairwise Incomparable
  | .leaf, pre, _ => by simp [STree.pathsT]
  | .node i cs, pre, h => by
      simp only [STree.entriesNodup, Bool.and_eq_true, decide_eq_true_eq] at h
      exact C04_paths_prefix_freeL cs _ pre h.1 h.2
theorem C04_paths_prefix_freeL : ∀ (cs : List STree) (es pre : List Key), es.Nodup →
    STree.entriesNodupL cs = true → (STree.pathsL cs es pre).Pairwise Incomparable
  | [], _, _, _, _ => by simp [STree.pathsL]
  | _ :: _, [], _, _, _ => by simp [STree.pathsL]
  | c :: cs, e :: es, pre, hnd, h => by
      simp only [STree.entriesNodupL, Bool.and_eq_true] at h
      simp only [List.nodup_cons] at hnd
      simp only [STree.pathsL]
      rw [List.pairwise_append]
      refine ⟨C04_paths_prefix_free c (pre ++ [e]) h.1, C04_paths_prefix_freeL cs es pre hnd.2 h.2, ?_⟩
      intro p hp q hq
      obtain ⟨e', he', hq'⟩ := STree.pathsL_prefix cs es pre q hq
      have hne : e ≠ e' := fun heq => hnd.1 (heq ▸ he')
      exact incomparable_of_entries pre p q e e' hne (STree.pathsT_prefix c (pre ++ [e]) p hp) hq'
end

/-- **the i-th path addresses the i-th leaf**: following `treespec.paths()[i]` from the tree (position in a
sequence, key in a dict, the registration's entry in a custom node) reaches exactly the i-th leaf
`tree_flatten` returned — every well-formed tree, registry, namespace, dict-order mode (no predicate).
By `C04_path_of_accessor` the i-th accessor carries the same entries. -/
theorem C04_path_reaches_leaf (cfg : Cfg) (hp : cfg.pred = Option.none) (t : PyObj) (ht : t.wf = true)
    (ls : List PyObj) (sp : Spec) (h : flatten cfg t = .ok (ls, sp)) (hns : sp.ns = cfg.ns) :
    ∃ ps, paths sp = .ok ps ∧ ps.length = ls.length ∧
      ∀ (i : Nat) (p : List Key) (x : PyObj), ps[i]? = some p → ls[i]? = some x → PyObj.follow cfg t p = some x := by
  have hself := flattenUpTo_self cfg hp t ht ls sp h hns
  obtain ⟨e1, _⟩ := flatten_shapeOf cfg hp t ht ls sp h
  obtain ⟨w1, g1⟩ := wg cfg (!cfg.insertionOrdered) t ht
  obtain ⟨n1, r1⟩ := nr cfg (!cfg.insertionOrdered) t ht
  have hk := eo cfg (!cfg.insertionOrdered) t
  rw [e1, hns, flattenUpTo_enc cfg.reg _ w1] at hself
  have hal := upTo_aligned cfg _ w1 hk n1 r1 g1 t [] ls hself
  refine ⟨_, by rw [e1]; exact paths_enc _ w1 hk _ _, hal.length, ?_⟩
  intro i p x h1 h2
  have := hal.get i p x h1 h2
  simpa [Reaches] using this

/-- non-vacuity: `{"a": (*, *), "b": *}` has the three paths `a.0`, `a.1`, `b` -/
def C04_demo : STree :=
  .node ⟨.dict, .keys [.str "a", .str "b"], Option.none, Option.none, some [.str "b", .str "a"]⟩
    [.node ⟨.tuple, .none, Option.none, Option.none, Option.none⟩ [.leaf, .leaf], .leaf]

example : C04_demo.wf = true ∧ C04_demo.entriesOk = true ∧ C04_demo.entriesNodup = true ∧
    C04_demo.pathsT [] = [[.str "a", .int 0], [.str "a", .int 1], [.str "b"]] := by decide

/-! ### refinement: `accessors()` lists the typed entries from the root to every leaf -/


/-- **`accessors()` on an encoding is the tree-level typed listing `accsT`** (all well-formed shapes with one
entry per child and typed nodes), and stripping the types gives `pathsT` -/
theorem C04_accessors_refines (s : STree) (hw : s.wf = true) (hk : s.entriesOk = true) (ht : s.typedOk = true)
    (nil : Bool) (ns : String) :
    accessors (s.spec nil ns) = .ok (s.accsT []) ∧ (s.accsT []).map pathOf = s.pathsT [] := by
  refine ⟨accessors_enc s hw hk ht nil ns, ?_⟩
  exact STree.accsT_path s [] hw ht

/-- **for a treespec made by flattening any well-formed tree `accessors()` succeeds**, returns one accessor per
leaf — the typed listing of the tree's shape — its entries are those of `paths()`, and following the entries of
the i-th accessor from the tree reaches the i-th leaf. -/
theorem C04_accessors_of_flatten (cfg : Cfg) (hp : cfg.pred = Option.none) (t : PyObj) (ht : t.wf = true)
    (ls : List PyObj) (sp : Spec) (h : flatten cfg t = .ok (ls, sp)) (hns : sp.ns = cfg.ns) :
    ∃ as, accessors sp = .ok as ∧ as = (shapeOf cfg (!cfg.insertionOrdered) t).accsT [] ∧
      as.length = ls.length ∧ paths sp = .ok (as.map pathOf) ∧
      ∀ (i : Nat) (a : List AccEntry) (x : PyObj), as[i]? = some a → ls[i]? = some x →
        PyObj.follow cfg t (pathOf a) = some x := by
  obtain ⟨e, hl⟩ := flatten_shapeOf cfg hp t ht ls sp h
  obtain ⟨w, _⟩ := wg cfg (!cfg.insertionOrdered) t ht
  have hk := eo cfg (!cfg.insertionOrdered) t
  have hty := ty cfg (!cfg.insertionOrdered) t
  obtain ⟨hacc, hpath⟩ := C04_accessors_refines _ w hk hty sp.noneIsLeaf sp.ns
  obtain ⟨ps, hps, hlen, hreach⟩ := C04_path_reaches_leaf cfg hp t ht ls sp h hns
  have hps' : ps = ((shapeOf cfg (!cfg.insertionOrdered) t).accsT []).map pathOf := by
    rw [e, C04_paths_refines _ w hk] at hps
    rw [hpath]; exact (Except.ok.inj hps).symm
  refine ⟨_, by rw [e]; exact hacc, rfl, ?_, by rw [hps, hps'], ?_⟩
  · rw [← hlen, hps']; simp
  · intro i a x h1 h2
    exact hreach i (pathOf a) x (by rw [hps']; simp [h1]) h2

/-- every entry of every accessor of such a treespec has a concrete entry class (never the `AutoEntry`
dispatcher itself) -/
theorem accEntries_resolved (i : NInfo) (n : Nat) : ∀ e ∈ i.accEntries n, e.ek ≠ .auto := by
  intro e he
  unfold NInfo.accEntries at he
  cases h : i.accTy with
  | none => simp [h] at he
  | some p =>
    obtain ⟨ty, ek⟩ := p
    simp only [h, List.mem_map] at he
    obtain ⟨k, _, rfl⟩ := he
    unfold NInfo.accTy at h
    split at h
    · simp only [Option.some.injEq, Prod.mk.injEq] at h
      rw [← h.2]; exact C04_resolveEntryKind_not_auto _ _
    · simp at h

mutual
theorem C04_accessor_entries_resolved : ∀ (s : STree) (pre : List AccEntry),
    (∀ e ∈ pre, e.ek ≠ .auto) → ∀ a ∈ s.accsT pre, ∀ e ∈ a, e.ek ≠ .auto
  | .leaf, pre, hpre, a, ha => by
      simp only [STree.accsT, List.mem_singleton] at ha
      subst ha; exact hpre
  | .node i cs, pre, hpre, a, ha => by
      simp only [STree.accsT] at ha
      exact C04_accessor_entries_resolvedL cs _ pre (accEntries_resolved i _) hpre a ha
theorem C04_accessor_entries_resolvedL : ∀ (cs : List STree) (es pre : List AccEntry),
    (∀ e ∈ es, e.ek ≠ .auto) → (∀ e ∈ pre, e.ek ≠ .auto) → ∀ a ∈ STree.accsL cs es pre, ∀ e ∈ a, e.ek ≠ .auto
  | [], _, _, _, _, a, ha => by simp [STree.accsL] at ha
  | _ :: _, [], _, _, _, a, ha => by simp [STree.accsL] at ha
  | c :: cs, e :: es, pre, hes, hpre, a, ha => by
      simp only [STree.accsL, List.mem_append] at ha
      rcases ha with ha | ha
      · refine C04_accessor_entries_resolved c (pre ++ [e]) ?_ a ha
        intro x hx
        simp only [List.mem_append, List.mem_singleton] at hx
        rcases hx with hx | hx
        · exact hpre x hx
        · subst hx; exact hes _ (by simp)
      · exact C04_accessor_entries_resolvedL cs es pre (fun x hx => hes x (by simp [hx])) hpre a ha
end

example : C04_demo.typedOk = true ∧
    (C04_demo.accsT []).map pathOf = [[.str "a", .int 0], [.str "a", .int 1], [.str "b"]] ∧
    ((C04_demo.accsT []).map fun a => a.map fun e => (e.kind, e.ek)) =
      [[(.dict, .mapping), (.tuple, .sequence)], [(.dict, .mapping), (.tuple, .sequence)], [(.dict, .mapping)]] := by decide

end Optree
