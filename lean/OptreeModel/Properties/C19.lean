/-
  C19  optree dataclasses and optree partial are faithful pytree nodes.
-/
import OptreeModel.Model.Dataclass

namespace Optree

/-- **Partition.**  On success the children are exactly the pytree-node fields and the metadata
exactly the other init fields, both in declaration order; no field is in both lists; non-init,
non-pytree fields are in neither. -/
theorem C19_partition (c : DcCall) (ch md : List String) (h : dcPartition c = .ok (ch, md)) :
    ch = (c.fields.filter (·.pytreeNode)).map (·.name) ∧
    md = (c.fields.filter (fun f => !f.pytreeNode && f.init)).map (·.name) ∧
    (∀ f ∈ c.fields, f.pytreeNode = true → f.init = true) := by
  unfold dcPartition at h
  split at h; · simp at h
  rename_i hany
  split at h; · simp at h
  split at h; · simp at h
  split at h; · simp at h
  simp only [Except.ok.injEq, Prod.mk.injEq] at h
  refine ⟨h.1.symm, h.2.symm, ?_⟩
  intro f hf hp
  simp only [List.any_eq_true, Bool.and_eq_true, Bool.not_eq_true', not_exists, not_and] at hany
  have := hany f hf hp
  simpa using this

/-- **Rejections**: a non-init field declared as pytree node, decorating twice, an empty namespace,
a non-class -/
theorem C19_rejects (c : DcCall) :
    ((∃ f ∈ c.fields, f.pytreeNode = true ∧ f.init = false) → dcPartition c = .error .type_) ∧
    (c.alreadyDecorated = true → ∃ e, dcPartition c = .error e ∧ e = .type_) ∧
    (c.nsEmpty = true → ∃ e, dcPartition c = .error e) ∧
    ((∀ f ∈ c.fields, f.pytreeNode = true → f.init = true) → c.isClass = true →
      c.alreadyDecorated = false → c.nsEmpty = true → dcPartition c = .error .value) ∧
    (c.isClass = false → dcPartition c = .error .type_) := by
  have hany : (∃ f ∈ c.fields, f.pytreeNode = true ∧ f.init = false) →
      c.fields.any (fun f => f.pytreeNode && !f.init) = true := by
    intro ⟨f, hf, hp, hi⟩
    simp only [List.any_eq_true, Bool.and_eq_true, Bool.not_eq_true']
    exact ⟨f, hf, hp, hi⟩
  refine ⟨?_, ?_, ?_, ?_, ?_⟩
  · intro h; simp [dcPartition, hany h]
  · intro h2; unfold dcPartition; split
    · exact ⟨_, rfl, rfl⟩
    · split
      · exact ⟨_, rfl, rfl⟩
      · simp [h2]
  · intro h3; unfold dcPartition
    split; · exact ⟨_, rfl⟩
    split; · exact ⟨_, rfl⟩
    split; · exact ⟨_, rfl⟩
    simp [h3]
  · intro hall h1 h2 h3
    have : c.fields.any (fun f => f.pytreeNode && !f.init) = false := by
      rw [Bool.eq_false_iff]; intro hc
      simp only [List.any_eq_true, Bool.and_eq_true, Bool.not_eq_true'] at hc
      obtain ⟨f, hf, hp, hi⟩ := hc
      have := hall f hf hp; simp_all
    simp [dcPartition, h1, h2, h3, this]
  · intro h1; unfold dcPartition; split <;> simp [h1]

/-- children are addressed by field name: the entries are the children's field names, one per child -/
theorem C19_entries {α : Type} [Inhabited α] (ch md : List String) (o : DcObj α) :
    (dcFlatten ch md o).2.2 = ch ∧ (dcFlatten ch md o).1.length = ch.length ∧
    (dcFlatten ch md o).2.1.map (·.1) = md := by
  simp [dcFlatten, List.map_map, Function.comp_def]

/-- **Round trip.**  Unflattening hands the constructor every init field exactly once with its
original value: children by their field names, metadata as stored. -/
theorem C19_roundtrip_kwargs {α : Type} [Inhabited α] (ch md : List String) (o : DcObj α) :
    dcUnflattenKwargs ch (dcFlatten ch md o).2.1 (dcFlatten ch md o).1 =
      (ch ++ md).map fun n => (n, dcGet o n) := by
  simp only [dcUnflattenKwargs, dcFlatten, List.map_append]
  congr 1
  induction ch with
  | nil => rfl
  | cons n ns ih => simp [ih]

/-- **partial** flattens to (args, keywords) with the wrapped callable as metadata and entries
('args', 'keywords'); unflatten ∘ flatten is the identity; the callable is never looked into, so a
nested partial is never merged -/
theorem C19_partial_roundtrip {α : Type} (p : Partial α) :
    partialUnflatten (partialFlatten p).2.1 (partialFlatten p).1 = p ∧
    (partialFlatten p).2.2 = ["args", "keywords"] ∧ (partialFlatten p).2.1 = p.func := by
  cases p; simp [partialUnflatten, partialFlatten]

/-- after mapping the children the rebuilt partial keeps the same function -/
theorem C19_call_after_map {α : Type} (p : Partial α) (f : α → α) :
    (partialUnflatten (partialFlatten p).2.1
      ((partialFlatten p).1.1.map f, (partialFlatten p).1.2.map fun kv => (kv.1, f kv.2))).func = p.func ∧
    (partialUnflatten (partialFlatten p).2.1
      ((partialFlatten p).1.1.map f, (partialFlatten p).1.2.map fun kv => (kv.1, f kv.2))).args = p.args.map f := by
  cases p; simp [partialUnflatten, partialFlatten]

/-- the partition depends on the `(name, init, pytree_node)` triples in field order only: decorator
options (`slots`, `frozen`, `kw_only`, `order`), per-field `kw_only` / defaults / inheritance and the
route (decorator or `make_dataclass`) do not change it.  (Pinned tree before the `fix:` of
`make_dataclass`: false for `via = 1` — the second application of `dataclasses.dataclass` dropped the
`Field` objects, so `pytree_node=False` fields became children.) -/
theorem C19_partition_options_irrelevant (c c' : DcCall)
    (hf : c.fields.map (fun f => (f.name, f.init, f.pytreeNode)) =
          c'.fields.map (fun f => (f.name, f.init, f.pytreeNode)))
    (h1 : c.alreadyDecorated = c'.alreadyDecorated) (h2 : c.nsEmpty = c'.nsEmpty)
    (h3 : c.isClass = c'.isClass) : dcPartition c = dcPartition c' := by
  have key : ∀ (g : String × Bool × Bool → Bool) (l : List FieldSpec),
      (l.map (fun f => (f.name, f.init, f.pytreeNode))).filter g =
        (l.filter (fun f => g (f.name, f.init, f.pytreeNode))).map (fun f => (f.name, f.init, f.pytreeNode)) := by
    intro g l
    induction l with
    | nil => rfl
    | cons x xs ih =>
      simp only [List.map_cons, List.filter_cons]
      split <;> simp [ih]
  have hany : c.fields.any (fun f => f.pytreeNode && !f.init) = c'.fields.any (fun f => f.pytreeNode && !f.init) := by
    have := congrArg (fun l => l.any (fun t : String × Bool × Bool => t.2.2 && !t.2.1)) hf
    simpa [List.any_map, Function.comp_def] using this
  have hch : (c.fields.filter (·.pytreeNode)).map (·.name) = (c'.fields.filter (·.pytreeNode)).map (·.name) := by
    have := congrArg (fun l => (l.filter (fun t : String × Bool × Bool => t.2.2)).map (·.1)) hf
    simp only [key, List.map_map] at this
    simpa [Function.comp_def] using this
  have hmd : (c.fields.filter (fun f => !f.pytreeNode && f.init)).map (·.name) =
      (c'.fields.filter (fun f => !f.pytreeNode && f.init)).map (·.name) := by
    have := congrArg (fun l => (l.filter (fun t : String × Bool × Bool => !t.2.2 && t.2.1)).map (·.1)) hf
    simp only [key, List.map_map] at this
    simpa [Function.comp_def] using this
  unfold dcPartition
  rw [hany, h1, h2, h3, hch, hmd]

/-! ### non-vacuity -/

def C19_demo : DcCall :=
  { fields := [{ name := "x", init := true, pytreeNode := true }, { name := "tag", init := true, pytreeNode := false },
      { name := "y", init := true, pytreeNode := true }, { name := "norm", init := false, pytreeNode := false, dflt := 1 }],
    alreadyDecorated := false, nsEmpty := false, isClass := true }

example : dcPartition C19_demo = .ok (["x", "y"], ["tag"]) := by rfl

end Optree
