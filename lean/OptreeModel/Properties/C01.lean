/-
  C01  Flatten then unflatten reconstructs the same tree.

  Property theorems only (helper lemmas: Lemmas/Roundtrip.lean, Lemmas/Dict.lean, Lemmas/Sort.lean).
  Quantification: every `PyObj` (all node kinds, any nesting), every `Cfg` (none_is_leaf, namespace,
  registry, insertion-ordered set, any predicate — even a partial one — any depth limit).
  Equality of `PyObj` terms *is* "same container type at every node, same keys in the same
  (insertion) order, same class / maxlen / factory / metadata, identical leaves at the same positions".
-/
import OptreeModel.Lemmas.Roundtrip
import OptreeModel.Lemmas.Replace

namespace Optree

/-- the treespec produced by `flatten` passes the engine's sanity check -/
theorem C01_flatten_sane (cfg : Cfg) (t : PyObj) (ls : List PyObj) (sp : Spec)
    (h : flatten cfg t = .ok (ls, sp)) : sp.sane = true ∧ sp.numLeaves = ls.length := by
  unfold flatten at h
  simp only at h
  split at h
  · simp at h
  · rename_i out hout
    simp only [Except.ok.injEq, Prod.mk.injEq] at h
    obtain ⟨hl, hs⟩ := h
    subst hl hs
    obtain ⟨n, h1, h2, h3⟩ := flattenGo_sane cfg _ 0 t out hout
    simp [Spec.sane, Spec.numLeaves, h1, h2, h3]

/-- **Round trip.**  If flattening succeeds, unflattening the treespec with the returned leaves
rebuilds exactly the original tree.  Hypotheses: dict keys are pairwise distinct, deques respect
their `maxlen`, registered flatten functions are well-behaved (`wf`), and the registry files every
registration under its own class (`Registry.OK`). -/
theorem C01_roundtrip (cfg : Cfg) (hreg : cfg.reg.OK) (t : PyObj) (hwf : t.wf = true)
    (ls : List PyObj) (sp : Spec) (h : flatten cfg t = .ok (ls, sp)) :
    unflatten sp ls = .ok t := by
  have hs := (C01_flatten_sane cfg t ls sp h).1
  unfold flatten at h
  simp only at h
  split at h
  · simp at h
  · rename_i out hout
    simp only [Except.ok.injEq, Prod.mk.injEq] at h
    obtain ⟨hl, hsp⟩ := h
    subst hl
    have hrt := pobj cfg hreg _ t hwf 0 out hout [] [] []
    unfold unflatten
    simp only [hs, Bool.not_true, Bool.false_eq_true, if_false]
    have hn : sp.nodes = out.nodes := by rw [← hsp]
    rw [hn]
    simpa [unflattenGo] using hrt

/-- Flattening the rebuilt tree again yields the identical leaves and the identical treespec. -/
theorem C01_reflatten (cfg : Cfg) (hreg : cfg.reg.OK) (t : PyObj) (hwf : t.wf = true)
    (ls : List PyObj) (sp : Spec) (h : flatten cfg t = .ok (ls, sp)) (t' : PyObj)
    (h' : unflatten sp ls = .ok t') : flatten cfg t' = .ok (ls, sp) := by
  rw [C01_roundtrip cfg hreg t hwf ls sp h] at h'
  cases h'
  exact h

/-- The machine-level statement behind the round trip: running `unflattenGo` over the records and
leaves produced for `t`, in the middle of any larger run, pushes exactly `t`. -/
theorem C01_machine (cfg : Cfg) (hreg : cfg.reg.OK) (sorted : Bool) (t : PyObj) (hwf : t.wf = true)
    (d : Nat) (out : FlatOut) (h : flattenGo cfg sorted d t = .ok out)
    (rest : List Node) (ls stack : List PyObj) :
    unflattenGo (out.nodes ++ rest) (out.leaves ++ ls) stack = unflattenGo rest ls (t :: stack) := by
  simpa using pobj cfg hreg sorted t hwf d out h rest ls stack

/-! ### non-vacuity: concrete, non-trivial instances satisfy the hypotheses -/

def C01_demoReg : Registry :=
  { global := [(0, 0, { rid := 1, cls := 0, clsKind := 0, entryKind := .auto, mode := .named })]
    named := [("a", 2, 0, { rid := 2, cls := 2, clsKind := 0, entryKind := .getitem, mode := .shifted })] }

def C01_demoTree : PyObj :=
  .tuple [.leaf 0 1,
          .dict [(.str "b", .leaf 0 2), (.int 3, .list [.leaf 0 3, .none]), (.str "a", .deque (some 2) [.leaf 0 4])],
          .user 0 (some (.int 5)) .ok [.leaf 0 6, .ddict (some 1) [(.tup [1], .leaf 0 7)]],
          .ntuple 0 [.leaf 0 8, .odict [(.obj "vk.KU" false 0 1, .leaf 0 9)]]]

example : C01_demoTree.wf = true := by decide

example : (C01_demoReg).OK := Registry.OK_of_okB _ (by decide)

/-- the demo tree flattens (mixed int/str keys: stage-2 order), and the round trip closes -/
example :
    (match flatten { reg := C01_demoReg } C01_demoTree with
     | .ok (ls, sp) =>
        ls.length == 8 &&
        (match unflatten sp ls with
         | .ok t' => t' == C01_demoTree
         | .error _ => false)
     | .error _ => false) = true := by decide

end Optree

namespace Optree

/-! ### any n replacement leaves are accepted, any other number is a ValueError -/

/-- whether `MakeNode` succeeds depends on the number of children only -/
theorem makeNode_isOk_congr (node : Node) (cs1 cs2 : List PyObj) (h : cs1.length = cs2.length) :
    (∃ r, makeNode node cs1 = .ok r) → ∃ r, makeNode node cs2 = .ok r := by
  unfold makeNode
  rw [h]
  split
  · simp
  · cases node.kind <;> simp only [] <;> (try (split <;> simp)) <;> simp

/-- **control flow of `UnflattenImpl` does not depend on the leaf objects**: if a node array unflattens
with one list of leaves, then it unflattens with any other list of the same length, and raises
ValueError ("too few" / "too many" leaves) for any list of a different length -/
theorem unflattenGo_leaf_count (nodes : List Node) :
    ∀ (ls1 st1 : List PyObj) (r : PyObj), unflattenGo nodes ls1 st1 = .ok r →
      ∀ (ls2 st2 : List PyObj), st2.length = st1.length →
        (ls2.length = ls1.length → ∃ r', unflattenGo nodes ls2 st2 = .ok r') ∧
        (ls2.length ≠ ls1.length → unflattenGo nodes ls2 st2 = .error .value) := by
  induction nodes with
  | nil =>
    intro ls1 st1 r h ls2 st2 hst
    simp only [unflattenGo] at h ⊢
    split at h; · simp at h
    rename_i he
    simp only [Bool.not_eq_true', List.isEmpty_eq_false_iff, ne_eq, Decidable.not_not] at he
    subst he
    split at h
    · rename_i r0
      constructor
      · intro hl
        have : ls2 = [] := List.eq_nil_of_length_eq_zero (by simpa using hl)
        subst this
        match st2, hst with
        | [x], _ => exact ⟨x, by simp⟩
      · intro hl
        have : ls2 ≠ [] := by intro hc; subst hc; simp at hl
        simp [this]
    · simp at h
  | cons node rest ih =>
    intro ls1 st1 r h ls2 st2 hst
    rw [unflattenGo.eq_def] at h
    rw [unflattenGo.eq_def]
    simp only at h ⊢
    split at h; · simp at h
    rename_i harity
    have harity2 : ¬ st2.length < node.arity := by omega
    simp only [harity2, if_false]
    cases hk : node.kind with
    | leaf =>
      simp only [hk] at h ⊢
      cases ls1 with
      | nil => simp at h
      | cons l1 ls1' =>
        simp only at h
        cases ls2 with
        | nil =>
          exact ⟨fun hl => by simp at hl, fun _ => rfl⟩
        | cons l2 ls2' =>
          have := ih ls1' (l1 :: st1) r h ls2' (l2 :: st2) (by simp [hst])
          exact ⟨fun hl => this.1 (by simpa using hl), fun hl => this.2 (by simpa using hl)⟩
    | _ =>
      simp only [hk] at h ⊢
      all_goals
        cases hm : makeNode node (st1.take node.arity).reverse with
        | error e => simp [hm] at h
        | ok out =>
          simp only [hm] at h
          obtain ⟨out2, hm2⟩ := makeNode_isOk_congr node _ (st2.take node.arity).reverse
            (by simp [List.length_take, hst]) ⟨out, hm⟩
          simp only [hm2]
          exact ih ls1 _ r h ls2 _ (by simp [List.length_drop, hst])

/-- **Leaf count.**  A treespec produced by `flatten` accepts *any* list of exactly `num_leaves`
replacement leaves (whatever objects they are) and rejects every other length with ValueError. -/
theorem C01_leaf_count (cfg : Cfg) (hreg : cfg.reg.OK) (t : PyObj) (hwf : t.wf = true)
    (ls : List PyObj) (sp : Spec) (h : flatten cfg t = .ok (ls, sp)) (ls' : List PyObj) :
    (ls'.length = sp.numLeaves → ∃ t', unflatten sp ls' = .ok t') ∧
    (ls'.length ≠ sp.numLeaves → unflatten sp ls' = .error .value) := by
  have hrt := C01_roundtrip cfg hreg t hwf ls sp h
  have hs := C01_flatten_sane cfg t ls sp h
  unfold unflatten at hrt ⊢
  simp only [hs.1, Bool.not_true, Bool.false_eq_true, if_false] at hrt ⊢
  have := unflattenGo_leaf_count sp.nodes ls [] t hrt ls' [] rfl
  rw [hs.2]
  exact this


/-! ### replacement leaves -/

/-- **Replacement leaves.**  Unflattening the treespec with *any* `n` leaf-typed objects (`LeafObj`: objects
that flatten to themselves — opaque objects, `None` under `none_is_leaf`, instances of unregistered
classes, anything the predicate accepts) builds a tree that flattens back to exactly those `n` objects, in
order, and to the identical treespec.  `PredOnLeaves` is the documented contract of `is_leaf`: the predicate
decides among leaf-typed objects and does not fire on the containers being rebuilt (trivially true without
a predicate); its necessity is shown by `C01_replace_needs_stable_predicate`.
Mutual structural induction (Lemmas/Replace.lean); dict-kind nodes: the rebuilt dict keeps the original
insertion order while its items are visited in the same sorted order as before. -/
theorem C01_replace_leaves (cfg : Cfg) (hreg : cfg.reg.OK) (hst : PredOnLeaves cfg) (t : PyObj)
    (hwf : t.wf = true) (ls : List PyObj) (sp : Spec) (h : flatten cfg t = .ok (ls, sp))
    (ls' : List PyObj) (hl : ls'.length = ls.length) (hleaf : ∀ x ∈ ls', LeafObj cfg x) :
    ∃ t', unflatten sp ls' = .ok t' ∧ flatten cfg t' = .ok (ls', sp) := by
  have hs := (C01_flatten_sane cfg t ls sp h).1
  unfold flatten at h
  simp only at h
  split at h
  · simp at h
  · rename_i out hout
    simp only [Except.ok.injEq, Prod.mk.injEq] at h
    obtain ⟨hls, hsp⟩ := h
    subst hls
    obtain ⟨t', rt, fl⟩ := robj cfg hreg hst _ t hwf 0 out hout ls' hl hleaf
    refine ⟨t', ?_, ?_⟩
    · unfold unflatten
      simp only [hs, Bool.not_true, Bool.false_eq_true, if_false]
      have hn : sp.nodes = out.nodes := by rw [← hsp]
      rw [hn]
      have := rt [] [] []
      simpa [withLeaves, unflattenGo] using this
    · unfold flatten
      simp only [fl, withLeaves]
      rw [← hsp]

/-- without a predicate the contract holds outright -/
theorem C01_replace_leaves_nopred (cfg : Cfg) (hreg : cfg.reg.OK) (hp : cfg.pred = Option.none) (t : PyObj)
    (hwf : t.wf = true) (ls : List PyObj) (sp : Spec) (h : flatten cfg t = .ok (ls, sp))
    (ls' : List PyObj) (hl : ls'.length = ls.length) (hleaf : ∀ x ∈ ls', LeafObj cfg x) :
    ∃ t', unflatten sp ls' = .ok t' ∧ flatten cfg t' = .ok (ls', sp) :=
  C01_replace_leaves cfg hreg (predOnLeaves_of_none cfg hp) t hwf ls sp h ls' hl hleaf

/-- opaque objects are leaf-typed when there is no predicate -/
theorem C01_leafObj_leaf (cfg : Cfg) (hp : cfg.pred = Option.none) (ty uid : Nat) :
    LeafObj cfg (.leaf ty uid) := by
  intro s d hd
  rw [flattenGo]
  simp [hd, Cfg.evalPred, hp]

/-- the hypothesis on the predicate cannot be dropped: with a predicate that accepts every 1-tuple as a leaf,
`(x,)` … no: a predicate that fires on the *rebuilt* container but not on the original one.  Here the
predicate fires on tuples whose first item is the opaque object 7: the tree `(1,)` flattens to one leaf, and
after replacing that leaf by object 7 the rebuilt tuple is itself a leaf, so the re-flatten returns the tuple,
not the replacement object. -/
theorem C01_replace_needs_stable_predicate :
    let pred : PyObj → Except Err Bool := fun x =>
      match x with
      | .tuple (.leaf 0 7 :: _) => .ok true
      | _ => .ok false
    let cfg : Cfg := { pred := some pred }
    let t := PyObj.tuple [.leaf 0 1]
    ∃ ls sp, flatten cfg t = .ok (ls, sp) ∧ ls.length = 1 ∧
      ∃ t', unflatten sp [.leaf 0 7] = .ok t' ∧
        (match flatten cfg t' with
         | .ok (ls'', _) => ls'' == [PyObj.leaf 0 7]
         | .error _ => false) = false := by
  refine ⟨[.leaf 0 1], _, rfl, rfl, .tuple [.leaf 0 7], rfl, ?_⟩
  decide

/-- non-vacuity: the demo tree of the round trip (all hypotheses hold: registry, well-formedness, no
predicate), eight fresh opaque replacement leaves: the rebuilt tree flattens to exactly those -/
example :
    (match flatten { reg := C01_demoReg } C01_demoTree with
     | .ok (ls, sp) =>
        let ls' := (List.range ls.length).map fun i => PyObj.leaf 3 (100 + i)
        (match unflatten sp ls' with
         | .ok t' =>
            (match flatten { reg := C01_demoReg } t' with
             | .ok (ls'', sp') => ls'' == ls' && sp' == sp && !(t' == C01_demoTree)
             | .error _ => false)
         | .error _ => false)
     | .error _ => false) = true := by decide

end Optree
