/-
  C15  A failing user callback fails the operation cleanly.
-/
import OptreeModel.Model.Fault
import OptreeModel.Lemmas.Dict
import OptreeModel.Generated.Swallow

namespace Optree

/-! ### generic facts about callback programs -/

@[simp] theorem Prog.run_ret {α : Type} (ω : Oracle) (f : Option (Nat × Err)) (n : Nat) (a : α) :
    (Prog.ret a).run ω f n = (.ok a, n) := by cases f <;> rfl

@[simp] theorem Prog.run_err {α : Type} (ω : Oracle) (f : Option (Nat × Err)) (n : Nat) (e : Err) :
    (Prog.err e : Prog α).run ω f n = (.error e, n) := by cases f <;> rfl

theorem Prog.run_call_none {α : Type} (ω : Oracle) (n : Nat) (c : Call) (k : Resp → Prog α) :
    (Prog.call c k).run ω Option.none n =
      match ω c with
      | .error e' => (.error e', n + 1)
      | .ok r => (k r).run ω Option.none (n + 1) := by
  conv => lhs; rw [Prog.run]
  rfl

theorem Prog.run_call_some {α : Type} (ω : Oracle) (n kf : Nat) (e : Err) (c : Call)
    (k : Resp → Prog α) :
    (Prog.call c k).run ω (some (kf, e)) n =
      if n = kf then (.error e, n + 1)
      else match ω c with
        | .error e' => (.error e', n + 1)
        | .ok r => (k r).run ω (some (kf, e)) (n + 1) := by
  conv => lhs; rw [Prog.run]
  rfl

theorem Prog.run_mono {α : Type} (ω : Oracle) (fault : Option (Nat × Err)) (p : Prog α) :
    ∀ n, n ≤ (p.run ω fault n).2 := by
  induction p with
  | ret a => intro n; simp
  | err e => intro n; simp
  | call c k ih =>
    intro n
    cases fault with
    | none =>
      rw [Prog.run_call_none]
      cases h : ω c with
      | error e' => simp
      | ok r => have := ih r (n + 1); simp only; omega
    | some f =>
      obtain ⟨kf, e⟩ := f
      rw [Prog.run_call_some]
      split
      · simp
      · cases h : ω c with
        | error e' => simp
        | ok r => have := ih r (n + 1); simp only; omega

/-- **the fault is not reached**: a fault index outside the window of invocations the fault-free run
makes changes nothing — same outcome, same number of callback invocations -/
theorem Prog.run_fault_miss {α : Type} (ω : Oracle) (kf : Nat) (e : Err) (p : Prog α) :
    ∀ n, (kf < n ∨ (p.run ω Option.none n).2 ≤ kf) →
      p.run ω (some (kf, e)) n = p.run ω Option.none n := by
  induction p with
  | ret a => intro n _; simp
  | err e' => intro n _; simp
  | call c k ih =>
    intro n h
    rw [Prog.run_call_some, Prog.run_call_none]
    rw [Prog.run_call_none] at h
    have hne : n ≠ kf := by
      rcases h with h | h
      · omega
      · cases hω : ω c with
        | error e' => simp only [hω] at h; omega
        | ok r =>
          simp only [hω] at h
          have := Prog.run_mono ω Option.none (k r) (n + 1)
          omega
    simp only [hne, if_false]
    cases hω : ω c with
    | error e' => rfl
    | ok r =>
      simp only
      apply ih r (n + 1)
      rcases h with h | h
      · left; omega
      · right; simpa [hω] using h

/-- **the fault is reached**: if the fault-free run gets to invocation `kf`, the run with the fault
ends there — with exactly that exception, and no callback is invoked afterwards -/
theorem Prog.run_fault_hit {α : Type} (ω : Oracle) (kf : Nat) (e : Err) (p : Prog α) :
    ∀ n, n ≤ kf → kf < (p.run ω Option.none n).2 →
      p.run ω (some (kf, e)) n = (.error e, kf + 1) := by
  induction p with
  | ret a => intro n h1 h2; simp at h2; omega
  | err e' => intro n h1 h2; simp at h2; omega
  | call c k ih =>
    intro n h1 h2
    rw [Prog.run_call_some]
    rw [Prog.run_call_none] at h2
    by_cases hn : n = kf
    · subst hn; simp
    · simp only [hn, if_false]
      cases hω : ω c with
      | error e' => simp only [hω] at h2; omega
      | ok r =>
        simp only [hω] at h2 ⊢
        exact ih r (n + 1) (by omega) h2

theorem Prog.run_bind {α β : Type} (ω : Oracle) (fault : Option (Nat × Err)) (p : Prog α)
    (f : α → Prog β) : ∀ n,
    (p.bind f).run ω fault n =
      match p.run ω fault n with
      | (.ok a, m) => (f a).run ω fault m
      | (.error e, m) => (.error e, m) := by
  induction p with
  | ret a => intro n; simp [Prog.bind]
  | err e => intro n; simp [Prog.bind]
  | call c k ih =>
    intro n
    simp only [Prog.bind]
    cases fault with
    | none =>
      rw [Prog.run_call_none, Prog.run_call_none]
      cases ω c with
      | error e' => rfl
      | ok r => exact ih r (n + 1)
    | some fl =>
      obtain ⟨kf, e⟩ := fl
      rw [Prog.run_call_some, Prog.run_call_some]
      split
      · rfl
      · cases ω c with
        | error e' => rfl
        | ok r => exact ih r (n + 1)

/-- outcome of a fault-free run (the starting value of the invocation counter is immaterial) -/
def Prog.den {α : Type} (ω : Oracle) (p : Prog α) : Except Err α := (p.run ω Option.none 0).1

theorem Prog.run_none_fst {α : Type} (ω : Oracle) (p : Prog α) :
    ∀ n, (p.run ω Option.none n).1 = p.den ω := by
  induction p with
  | ret a => intro n; simp [Prog.den]
  | err e => intro n; simp [Prog.den]
  | call c k ih =>
    intro n
    unfold Prog.den
    rw [Prog.run_call_none, Prog.run_call_none]
    cases ω c with
    | error e' => rfl
    | ok r => simp only; rw [ih r (n + 1), ih r (0 + 1)]

theorem Prog.den_call {α : Type} (ω : Oracle) (c : Call) (k : Resp → Prog α) :
    (Prog.call c k).den ω = match ω c with
      | .error e => .error e
      | .ok r => (k r).den ω := by
  unfold Prog.den
  rw [Prog.run_call_none]
  cases ω c with
  | error e => rfl
  | ok r => simp only; exact Prog.run_none_fst ω (k r) 1

@[simp] theorem Prog.den_ret {α : Type} (ω : Oracle) (a : α) : (Prog.ret a).den ω = .ok a := by
  simp [Prog.den]

@[simp] theorem Prog.den_err {α : Type} (ω : Oracle) (e : Err) :
    (Prog.err e : Prog α).den ω = .error e := by
  simp [Prog.den]

theorem Prog.den_bind {α β : Type} (ω : Oracle) (p : Prog α) (f : α → Prog β) :
    (p.bind f).den ω = match p.den ω with
      | .ok a => (f a).den ω
      | .error e => .error e := by
  unfold Prog.den
  rw [Prog.run_bind]
  generalize hp : p.run ω Option.none 0 = r
  obtain ⟨r1, m⟩ := r
  cases r1 with
  | error e => rfl
  | ok a => simp only; exact Prog.run_none_fst ω (f a) m

/-! ### `flattenGoC` computes `flattenGo` -/

theorem seqC_den (ω : Oracle) (ps : List (Prog FlatOut)) :
    (seqC ps).den ω = seqOuts (ps.map (·.den ω)) := by
  induction ps with
  | nil => rfl
  | cons p ps ih =>
    simp only [seqC, List.map_cons, seqOuts]
    rw [Prog.den_bind]
    cases p.den ω with
    | error e => rfl
    | ok a =>
      simp only
      rw [Prog.den_bind, ih]
      cases seqOuts (ps.map (·.den ω)) with
      | error e => rfl
      | ok b => rfl

theorem closeSeqC_den (ω : Oracle) (ps : List (Prog FlatOut)) (kind : Kind) (arity : Nat)
    (data : NodeData) (entries : Option (List Key)) (custom : Option Reg) (okeys : Option (List Key)) :
    (closeSeqC ps kind arity data entries custom okeys).den ω =
      closeSeq (ps.map (·.den ω)) kind arity data entries custom okeys := by
  unfold closeSeqC closeSeq
  rw [Prog.den_bind, seqC_den]
  cases seqOuts (ps.map (·.den ω)) with
  | error e => rfl
  | ok b => rfl

theorem customFlattenC_den (cfg : Cfg) (reg : Reg) (x : PyObj) (ps : List (Prog FlatOut)) :
    (customFlattenC reg x ps).den cfg.oracle =
      customFlatten reg (customOut reg x) (ps.map (·.den cfg.oracle)) := by
  unfold customFlattenC customFlatten
  rw [Prog.den_call]
  simp only [Cfg.oracle]
  split
  · simp
  · cases hch : (customOut reg x).children with
    | none => simp
    | some ch =>
      simp only
      rw [Prog.den_bind, seqC_den]
      cases seqOuts (ps.map (·.den cfg.oracle)) with
      | error e => rfl
      | ok body =>
        simp only [List.length_map]
        generalize (if ((customOut reg x).numOut == 3) = true then
            match (customOut reg x).entries with
            | EntriesRet.absent => Except.ok Option.none
            | EntriesRet.noneVal => Except.ok Option.none
            | EntriesRet.tuple ks =>
              if (ks.length != ps.length) = true then Except.error Err.runtime else Except.ok (some ks)
            | EntriesRet.nonIter => Except.error Err.type_
          else Except.ok Option.none : Except Err (Option (List Key))) = ent
        cases ent <;> simp

def Cobj (cfg : Cfg) (s : Bool) (t : PyObj) : Prop :=
  ∀ d, (flattenGoC cfg s d t).den cfg.oracle = flattenGo cfg s d t

theorem flattenListC_den (cfg : Cfg) (s : Bool) (d : Nat) (xs : List PyObj)
    (ih : ∀ x ∈ xs, Cobj cfg s x) :
    (flattenListC cfg s d xs).map (·.den cfg.oracle) = flattenList cfg s d xs := by
  induction xs with
  | nil => simp [flattenListC, flattenList]
  | cons x xs ihx =>
    simp only [flattenListC, flattenList, List.map_cons]
    rw [ih x (by simp), ihx (fun y hy => ih y (by simp [hy]))]

theorem flattenKVsC_den (cfg : Cfg) (s : Bool) (d : Nat) (kvs : List (Key × PyObj))
    (ih : ∀ p ∈ kvs, Cobj cfg s p.2) :
    (flattenKVsC cfg s d kvs).map (fun p => (p.1, p.2.den cfg.oracle)) = flattenKVs cfg s d kvs := by
  induction kvs with
  | nil => simp [flattenKVsC, flattenKVs]
  | cons p kvs ihx =>
    obtain ⟨k, x⟩ := p
    simp only [flattenKVsC, flattenKVs, List.map_cons]
    rw [ih (k, x) (by simp), ihx (fun q hq => ih q (by simp [hq]))]

theorem closeSeqC_list (cfg : Cfg) (s : Bool) (d : Nat) (xs : List PyObj)
    (ih : ∀ x ∈ xs, Cobj cfg s x) (kind : Kind) (n : Nat) (data : NodeData) :
    (closeSeqC (flattenListC cfg s d xs) kind n data Option.none Option.none Option.none).den cfg.oracle =
      closeSeq (flattenList cfg s d xs) kind n data Option.none Option.none Option.none := by
  rw [closeSeqC_den, flattenListC_den cfg s d xs ih]

theorem closeSeqC_kvs (cfg : Cfg) (s : Bool) (d : Nat) (kvs : List (Key × PyObj))
    (ih : ∀ p ∈ kvs, Cobj cfg s p.2) (od : Bool) (kind : Kind) (n : Nat) (mk : List Key → NodeData)
    (okeys : Option (List Key)) :
    (closeSeqC ((dictOrder od s (flattenKVsC cfg s d kvs)).map (·.2)) kind n
      (mk ((dictOrder od s (flattenKVsC cfg s d kvs)).map (·.1))) Option.none Option.none okeys).den cfg.oracle =
    closeSeq ((dictOrder od s (flattenKVs cfg s d kvs)).map (·.2)) kind n
      (mk ((dictOrder od s (flattenKVs cfg s d kvs)).map (·.1))) Option.none Option.none okeys := by
  rw [← flattenKVsC_den cfg s d kvs ih,
    dictOrder_map od s (fun (p : Key × Prog FlatOut) => (p.1, p.2.den cfg.oracle)) (by intro p; rfl)]
  rw [closeSeqC_den]
  simp [List.map_map, Function.comp_def]

/-- the prelude shared by every case: depth guard, then the predicate -/
theorem den_prelude (cfg : Cfg) (d : Nat) (x : PyObj) (bodyC : Prog FlatOut)
    (body : Except Err FlatOut) (h : bodyC.den cfg.oracle = body) :
    (if d > cfg.maxDepth then Prog.err Err.recursion
      else predC cfg.pred.isSome x fun isLeaf =>
        if isLeaf then .ret (leafOut x) else bodyC).den cfg.oracle =
    (if d > cfg.maxDepth then Except.error Err.recursion
      else match cfg.evalPred x with
        | .error e => .error e
        | .ok true => .ok (leafOut x)
        | .ok false => body) := by
  split
  · simp
  · unfold predC Cfg.evalPred
    cases hp : cfg.pred with
    | none => simpa using h
    | some p =>
      simp only [Option.isSome_some, if_true]
      rw [Prog.den_call]
      simp only [Cfg.oracle, Cfg.evalPred, hp]
      cases p x with
      | error e => rfl
      | ok b =>
        cases b with
        | true => simp [Except.map]
        | false => simpa [Except.map] using h

mutual
theorem cobj (cfg : Cfg) (s : Bool) : ∀ t : PyObj, Cobj cfg s t
  | .leaf ty uid => by
      intro d
      rw [flattenGoC, flattenGo]
      exact den_prelude cfg d _ _ _ rfl
  | .none => by
      intro d
      rw [flattenGoC, flattenGo]
      apply den_prelude
      split <;> rfl
  | .tuple xs => by
      intro d
      rw [flattenGoC, flattenGo]
      exact den_prelude cfg d _ _ _ (closeSeqC_list cfg s (d + 1) xs (clist cfg s xs) _ _ _)
  | .list xs => by
      intro d
      rw [flattenGoC, flattenGo]
      exact den_prelude cfg d _ _ _ (closeSeqC_list cfg s (d + 1) xs (clist cfg s xs) _ _ _)
  | .deque m xs => by
      intro d
      rw [flattenGoC, flattenGo]
      exact den_prelude cfg d _ _ _ (closeSeqC_list cfg s (d + 1) xs (clist cfg s xs) _ _ _)
  | .dict kvs => by
      intro d
      rw [flattenGoC, flattenGo]
      exact den_prelude cfg d _ _ _ (closeSeqC_kvs cfg s (d + 1) kvs (ckvs cfg s kvs) false _ _ .keys _)
  | .odict kvs => by
      intro d
      rw [flattenGoC, flattenGo]
      apply den_prelude
      have := closeSeqC_kvs cfg s (d + 1) kvs (ckvs cfg s kvs) true .ordereddict kvs.length .keys Option.none
      simpa [dictOrder] using this
  | .ddict f kvs => by
      intro d
      rw [flattenGoC, flattenGo]
      exact den_prelude cfg d _ _ _ (closeSeqC_kvs cfg s (d + 1) kvs (ckvs cfg s kvs) false _ _ (.ddict f) _)
  | .ntuple cls xs => by
      intro d
      rw [flattenGoC, flattenGo]
      apply den_prelude
      cases hl : cfg.reg.lookup cfg.ns 1 cls with
      | some reg =>
        dsimp only
        rw [customFlattenC_den, flattenListC_den cfg s (d + 1) xs (clist cfg s xs)]; simp [customOut, customParts]
      | none => exact closeSeqC_list cfg s (d + 1) xs (clist cfg s xs) _ _ _
  | .sseq cls xs => by
      intro d
      rw [flattenGoC, flattenGo]
      apply den_prelude
      cases hl : cfg.reg.lookup cfg.ns 2 cls with
      | some reg =>
        dsimp only
        rw [customFlattenC_den, flattenListC_den cfg s (d + 1) xs (clist cfg s xs)]; simp [customOut, customParts]
      | none => exact closeSeqC_list cfg s (d + 1) xs (clist cfg s xs) _ _ _
  | .user cls md q xs => by
      intro d
      rw [flattenGoC, flattenGo]
      apply den_prelude
      cases hl : cfg.reg.lookup cfg.ns 0 cls with
      | some reg =>
        dsimp only
        rw [customFlattenC_den, flattenListC_den cfg s (d + 1) xs (clist cfg s xs)]; simp [customOut, customParts]
      | none => simp
theorem clist (cfg : Cfg) (s : Bool) : ∀ xs : List PyObj, ∀ x ∈ xs, Cobj cfg s x
  | [] => by intro x hx; simp at hx
  | y :: ys => by
      intro x hx
      simp only [List.mem_cons] at hx
      rcases hx with hx | hx
      · subst hx; exact cobj cfg s x
      · exact clist cfg s ys x hx
theorem ckvs (cfg : Cfg) (s : Bool) : ∀ kvs : List (Key × PyObj), ∀ p ∈ kvs, Cobj cfg s p.2
  | [] => by intro p hp; simp at hp
  | (k, y) :: ys => by
      intro p hp
      simp only [List.mem_cons] at hp
      rcases hp with hp | hp
      · subst hp; exact cobj cfg s y
      · exact ckvs cfg s ys p hp
end

/-- **Refinement.**  Run against the fault-free callbacks of a configuration, the callback program
`flattenC` returns exactly what `flatten` (the definition C01–C03 are about) returns — every tree,
every configuration, malformed flatten returns included. -/
theorem C15_flattenC_refines (cfg : Cfg) (t : PyObj) :
    (flattenC cfg t).den cfg.oracle = flatten cfg t := by
  unfold flattenC flatten
  rw [Prog.den_bind, cobj cfg (!cfg.insertionOrdered) t 0]
  dsimp only
  cases h : flattenGo cfg (!cfg.insertionOrdered) 0 t with
  | error e => rfl
  | ok out => simp

/-- **A fault at the k-th callback invocation of flatten.**  Let the fault-free flatten make `m`
invocations of user code (predicate and registered flatten functions together).  For every tree,
configuration, index `k` and exception `e`: if `k < m` the faulty run returns *that* exception, no
partial result, after exactly `k + 1` invocations (none after the failing one); if `k ≥ m` the fault
is never reached and the run is the fault-free one, whose outcome is `flatten cfg t`. -/
theorem C15_flatten_fault (cfg : Cfg) (t : PyObj) (k : Nat) (e : Err) :
    let m := ((flattenC cfg t).run cfg.oracle Option.none 0).2
    (k < m → (flattenC cfg t).run cfg.oracle (some (k, e)) 0 = (.error e, k + 1)) ∧
    (m ≤ k → (flattenC cfg t).run cfg.oracle (some (k, e)) 0 = (flatten cfg t, m)) := by
  intro m
  constructor
  · intro h
    exact Prog.run_fault_hit cfg.oracle k e _ 0 (Nat.zero_le _) h
  · intro h
    rw [Prog.run_fault_miss cfg.oracle k e _ 0 (Or.inr h)]
    have := C15_flattenC_refines cfg t
    unfold Prog.den at this
    rw [← this]

/-- the same two facts for an arbitrary callback program: nothing in them is special to flatten -/
theorem C15_propagates {α : Type} (ω : Oracle) (p : Prog α) (k : Nat) (e : Err) :
    let m := (p.run ω Option.none 0).2
    (k < m → p.run ω (some (k, e)) 0 = (.error e, k + 1)) ∧
    (m ≤ k → p.run ω (some (k, e)) 0 = p.run ω Option.none 0) :=
  ⟨fun h => Prog.run_fault_hit ω k e p 0 (Nat.zero_le _) h,
   fun h => Prog.run_fault_miss ω k e p 0 (Or.inr h)⟩

theorem seqOuts_error_mem (rs : List (Except Err FlatOut)) (e : Err) (h : seqOuts rs = .error e) :
    Except.error e ∈ rs := by
  induction rs with
  | nil => simp [seqOuts] at h
  | cons r rs ih =>
    cases r with
    | error e0 => simp [seqOuts] at h; subst h; simp
    | ok a =>
      simp only [seqOuts] at h
      cases hs : seqOuts rs with
      | error e1 => rw [hs] at h; simp at h; subst h; simp [ih hs]
      | ok b => rw [hs] at h; simp at h

/-- malformed returns of a flatten function are the documented exceptions (RuntimeError for a wrong
tuple length, non-iterable children or an entries length mismatch, TypeError for non-iterable
entries) or the exception of a child — never an internal error -/
theorem C15_malformed_return_errors (reg : Reg) (co : CustomOut) (rs : List (Except Err FlatOut))
    (e : Err) (h : customFlatten reg co rs = .error e)
    (hrs : ∀ r ∈ rs, ∀ e', r = .error e' → e' ≠ .internal) : e ≠ .internal := by
  unfold customFlatten at h
  by_cases h1 : (co.numOut != 2 && co.numOut != 3) = true
  · simp only [h1, if_true] at h; cases h; simp
  · simp only [h1] at h
    cases hc : co.children with
    | none => simp only [hc] at h; cases h; simp
    | some ch =>
      simp only [hc] at h
      cases hs : seqOuts rs with
      | error e1 =>
        simp only [hs] at h; cases h
        exact hrs _ (seqOuts_error_mem rs e hs) e rfl
      | ok body =>
        simp only [hs] at h
        by_cases h3 : (co.numOut == 3) = true
        · simp only [h3, if_true] at h
          cases he : co.entries with
          | absent => simp [he] at h
          | noneVal => simp [he] at h
          | tuple ks =>
            simp only [he] at h
            by_cases hl : ks.length = rs.length
            · simp [hl] at h
            · simp [hl] at h; subst h; simp
          | nonIter => simp [he] at h; subst h; simp
        · simp [h3] at h

/-- the re-entrancy guard of `__hash__` / `__repr__` is as before after the call, success or failure,
exactly when the exception path cleans up too -/
theorem C15_guards_cleared {α : Type} (guard : List Nat) (self : Nat) (body : Except Err α) (dflt : α) :
    (guarded ⟨true⟩ guard self body dflt).2 = guard := by
  unfold guarded
  split
  · rfl
  · cases body <;> simp

/-- … and without the cleanup a failing callback leaves the treespec marked as in progress -/
theorem C15_guards_need_cleanup (self : Nat) (e : Err) :
    (guarded (α := Nat) ⟨false⟩ [] self (.error e) 0).2 ≠ [] := by
  simp [guarded]

/-! ### obligations regenerated from the source on every run

The theorems above hold for programs without a handler.  The engine has handlers; T-swallow lists every
place where an exception can disappear, and the lists must be the audited ones: catch-all blocks that
re-throw after cleaning up (registry rollback, the two re-entrancy guards), the `TypeError` filters of
`TotalOrderSort` (the property excludes exactly that exception) and of the struct-sequence test, the
`PyErr_Clear` calls that go with them — and no call to a CPython API that discards errors raised by
user code (`PyDict_GetItem`, `PyObject_HasAttr`, …). -/

theorem C15_cxx_swallow_sites :
    Generated.cxxSwallowSites =
      [("include/optree/pytypes.h", "PyErr_Clear", ""), ("include/optree/pytypes.h", "PyErr_Clear", ""),
       ("include/optree/pytypes.h", "PyErr_Clear", ""), ("include/optree/pytypes.h", "PyErr_Clear", ""),
       ("include/optree/pytypes.h", "PyErr_Clear", ""),
       ("include/optree/pytypes.h", "catch-filter", "AssertionError|TypeError"),
       ("include/optree/pytypes.h", "catch-filter", "TypeError"),
       ("include/optree/pytypes.h", "catch-filter", "TypeError"),
       ("src/registry.cpp", "catch-all-rethrow", ""),
       ("src/treespec/hashing.cpp", "catch-all-rethrow", ""),
       ("src/treespec/serialization.cpp", "catch-all-rethrow", "")] := by decide

/-- the re-entrancy guards of hashing.cpp and serialization.cpp clean up on the exception path
(`guarded ⟨true⟩` is the model of the code that exists) -/
theorem C15_guard_cleanup_present :
    ("src/treespec/hashing.cpp", "catch-all-rethrow", "") ∈ Generated.cxxSwallowSites ∧
    ("src/treespec/serialization.cpp", "catch-all-rethrow", "") ∈ Generated.cxxSwallowSites := by decide

theorem C15_py_swallow_sites :
    Generated.pySwallowSites =
      [("optree/accessor.py", "__call__", "TypeError", true),
       ("optree/dataclasses.py", "make_dataclass", "AttributeError", false),
       ("optree/typing.py", "<module>", "ImportError", false),
       ("optree/typing.py", "__class_getitem__", "AttributeError", false),
       ("optree/typing.py", "inner", "TypeError", false),
       ("optree/typing.py", "is_structseq_class", "AssertionError|TypeError", false),
       ("optree/utils.py", "total_order_sorted", "TypeError", false),
       ("optree/utils.py", "total_order_sorted", "TypeError", false),
       ("optree/version.py", "<module>", "OSError|subprocess.CalledProcessError", false)] := by decide

/-! ### non-vacuity: a tree with a predicate and two custom nodes makes 7 callback invocations -/

def C15_demoCfg : Cfg :=
  { reg := { global := [(0, 0, ⟨1, 0, 0, .auto, .two⟩)], named := [] },
    pred := some fun x => match x with | .tuple _ => .ok true | _ => .ok false }

def C15_demoTree : PyObj :=
  .list [.user 0 Option.none .ok [.leaf 0 1, .tuple [.leaf 0 2]], .user 0 Option.none .ok [], .leaf 0 3]

example : ((flattenC C15_demoCfg C15_demoTree).run C15_demoCfg.oracle Option.none 0).2 = 8 := by decide
example : (match (flattenC C15_demoCfg C15_demoTree).run C15_demoCfg.oracle (some (3, .user 9)) 0 with
    | (.error (.user 9), 4) => true | _ => false) = true := by decide
example : (match (flattenC C15_demoCfg C15_demoTree).run C15_demoCfg.oracle (some (8, .user 9)) 0 with
    | (.ok (ls, _), 8) => ls.length == 3 | _ => false) = true := by decide

end Optree
