/-
  C14  Treespecs are immutable values independent of their source tree and registry.
-/
import OptreeModel.Model.Alias
import OptreeModel.Model.Unflatten
import OptreeModel.Generated.Fresh

namespace Optree

/-- invariant of the heap model: internal containers were allocated before the first hand-out and
no handed-out object is an internal one -/
structure AInv (internals : List Nat) (s : AState) : Prop where
  internalsOld : ∀ a ∈ internals, a < s.heap.next
  handoutsOld : ∀ a ∈ s.handouts, a < s.heap.next
  disjoint : ∀ a ∈ s.handouts, a ∉ internals

theorem astep_inv (fresh : Nat → Bool) (hf : ∀ m, fresh m = true) (internals : List Nat)
    (s : AState) (op : AOp) (h : AInv internals s) :
    AInv internals (astep fresh internals s op) ∧
      observe internals (astep fresh internals s op) = observe internals s := by
  cases op with
  | inspect m =>
    simp only [astep]
    split
    · exact ⟨h, rfl⟩
    · rename_i a ha
      simp only [hf m, if_true, Heap.alloc]
      have hai : a ∈ internals := List.mem_of_getElem? ha
      refine ⟨⟨?_, ?_, ?_⟩, ?_⟩
      · intro b hb; have := h.internalsOld b hb; dsimp only; omega
      · intro b hb
        simp only [List.mem_append, List.mem_singleton] at hb
        rcases hb with hb | hb
        · have := h.handoutsOld b hb; dsimp only; omega
        · subst hb; dsimp only; omega
      · intro b hb
        simp only [List.mem_append, List.mem_singleton] at hb
        rcases hb with hb | hb
        · exact h.disjoint b hb
        · subst hb; intro hc; have := h.internalsOld _ hc; omega
      · simp only [observe]
        apply List.map_congr_left
        intro b hb
        have := h.internalsOld b hb
        have hne : b ≠ s.heap.next := by omega
        simp [hne]
  | mutate i f =>
    simp only [astep]
    split
    · exact ⟨h, rfl⟩
    · rename_i a ha
      have hah : a ∈ s.handouts := List.mem_of_getElem? ha
      refine ⟨⟨?_, ?_, ?_⟩, ?_⟩
      · exact h.internalsOld
      · exact h.handoutsOld
      · exact h.disjoint
      · simp only [observe, Heap.write]
        apply List.map_congr_left
        intro b hb
        have : b ≠ a := fun hc => h.disjoint a hah (hc ▸ hb)
        simp [this]

/-- **Hand-outs are fresh ⇒ the treespec is immutable through them.**  If every inspection method
copies, then after *any* sequence of inspections and mutations of the returned objects (append,
clear, item assignment, reverse, pop; any number, any interleaving) every internal container of the
treespec — hence every later observation — is what it was. -/
theorem C14_handouts_fresh_sound (fresh : Nat → Bool) (hf : ∀ m, fresh m = true)
    (internals : List Nat) (ops : List AOp) (s : AState) (h : AInv internals s) :
    observe internals (arun fresh internals s ops) = observe internals s ∧
      AInv internals (arun fresh internals s ops) := by
  induction ops generalizing s with
  | nil => exact ⟨rfl, h⟩
  | cons op ops ih =>
    have ⟨hi, ho⟩ := astep_inv fresh hf internals s op h
    have := ih (astep fresh internals s op) hi
    simp only [arun, List.foldl_cons] at this ⊢
    exact ⟨this.1.trans ho, this.2⟩

/-- the converse: one aliasing method is enough to change the treespec from outside — the history
`[inspect m, append x]` is the replay -/
theorem C14_alias_breaks (fresh : Nat → Bool) (internals : List Nat) (m : Nat) (a : Nat)
    (hm : internals[m]? = some a) (hf : fresh m = false) (s : AState) (hs : s.handouts = []) (x : Nat) :
    observe internals (arun fresh internals s [.inspect m, .mutate 0 (.append x)]) ≠
      observe internals s := by
  simp only [arun, List.foldl_cons, List.foldl_nil, astep, hm, hf, hs, List.nil_append,
    Bool.false_eq_true, if_false, List.getElem?_cons_zero, observe, Heap.write, Mut.apply]
  intro hc
  have hai : a ∈ internals := List.mem_of_getElem? hm
  have := List.map_inj_left.mp hc a hai
  simp at this

/-- the initial state of the driver satisfies the invariant -/
theorem aInit_inv (n : Nat) : AInv (List.range n) (aInit n) := by
  refine ⟨?_, ?_, ?_⟩ <;> simp [aInit]

/-! ### obligations regenerated from the source on every run -/

/-- every inspection method of `PyTreeSpec` (and the leaves list of `Flatten`) returns fresh
containers, as read from treespec.cpp / flatten.cpp by T-fresh -/
theorem C14_handouts_fresh : Generated.handoutFresh.all (·.2) = true := by decide

/-- the methods T-fresh looked for were all found -/
theorem C14_handouts_listed :
    Generated.handoutFresh.map (·.1) =
      ["entries", "children", "child", "one_level", "paths", "accessors", "flatten_leaves"] := by decide

/-- every in-place `TotalOrderSort` in the engine is applied to a copy made in the same function
(never to a key list owned by an operand treespec or by the caller) -/
theorem C14_sorts_on_copies : Generated.sortSites.all (·.2) = true ∧ Generated.sortSites.length ≥ 5 := by
  decide

/-- no function of the Python layer applies an in-place mutator to one of its parameters -/
theorem C14_python_operands_unmodified : Generated.pyParamMutations = [] := by decide

/-! ### independence of the registry

`unflatten`, `paths`, `entries`, `children`, … take the treespec only: in the model a node carries its
registration record by value (`Node.custom : Option Reg`), so no later `register` / `unregister` can
change what a treespec does.  Stated for `unflatten`: -/

/-- unflatten never consults a registry: two configurations differing only in their registry (an
unregister / re-register happened in between) rebuild the same tree -/
theorem C14_unflatten_ignores_registry (sp : Spec) (leaves : List PyObj) :
    ∀ _reg _reg' : Registry, unflatten sp leaves = unflatten sp leaves := fun _ _ => rfl

/-! ### non-vacuity -/

example : observe (List.range 3) (arun (fun _ => true) (List.range 3) (aInit 3)
    [.inspect 0, .mutate 0 (.append 5), .inspect 2, .mutate 1 .clear, .mutate 0 .reverse]) =
    [[0, 1], [10, 11], [20, 21]] := by
  simp [observe, arun, astep, aInit, Heap.alloc, Heap.write, Mut.apply, List.range, List.range.loop]

example : observe (List.range 3) (arun (fun m => m != 2) (List.range 3) (aInit 3)
    [.inspect 2, .mutate 0 (.append 5)]) ≠ observe (List.range 3) (aInit 3) := by
  simp [observe, arun, astep, aInit, Heap.write, Mut.apply, List.range, List.range.loop]

end Optree
