/-
  C13  Insertion-ordered dict mode is scoped to its namespace and with-block.
-/
import OptreeModel.Model.OrderSM
import OptreeModel.Model.Flatten

namespace Optree

/-- restoring the saved own flag of a namespace undoes `set` -/
theorem C13_set_restore (s : OState) (mode : Bool) (ns : String) :
    (s.set mode ns).set (s ns) ns = s := by
  funext n
  simp only [OState.set]
  split <;> simp_all

/-- setting one namespace never changes the own flag of another -/
theorem C13_set_other (s : OState) (mode : Bool) (ns n : String) (h : n ≠ ns) :
    (s.set mode ns) n = s n := by
  simp [OState.set, h]

/-- **Invariant**: whatever the program does, unwinding the open blocks gives back the state the
outermost block was entered in. -/
theorem C13_unwind_invariant (events : List OEvent) (s : OState) (stack : OStack) (s0 : OState)
    (h : unwind stack s = s0) :
    unwind (orun events (s, stack)).2 (orun events (s, stack)).1 = s0 := by
  induction events generalizing s stack with
  | nil => simpa [orun] using h
  | cons e es ih =>
    simp only [orun, List.foldl_cons]
    apply ih
    cases e with
    | enter mode ns =>
      simp only [ostep, unwind]
      rw [C13_set_restore]
      exact h
    | exit =>
      cases stack with
      | nil => simpa [ostep] using h
      | cons p rest =>
        obtain ⟨ns, prev⟩ := p
        simpa [ostep, unwind] using h
    | raise =>
      simpa [ostep, unwind] using h

/-- **Restore.**  After any sequence of enter / exit / raise events that leaves no block open —
any nesting depth, any interleaving of namespaces, `False` inside `True`, normal or exceptional
exits — the mode of every namespace is exactly what it was before. -/
theorem C13_restore (events : List OEvent) (s : OState)
    (hclosed : (orun events (s, [])).2 = []) : (orun events (s, [])).1 = s := by
  have := C13_unwind_invariant events s [] s rfl
  rw [hclosed] at this
  simpa [unwind] using this

/-- an exception closes every open block, so the state is restored right away -/
theorem C13_raise_restores (events : List OEvent) (s : OState) :
    (orun (events ++ [.raise]) (s, [])).1 = s ∧ (orun (events ++ [.raise]) (s, [])).2 = [] := by
  have h := C13_unwind_invariant events s [] s rfl
  simp only [orun, List.foldl_append, List.foldl_cons, List.foldl_nil] at h ⊢
  exact ⟨by simpa [ostep] using h, by simp [ostep]⟩

/-- **Scope.**  A namespace is insertion-ordered iff its own flag or the global flag is set; a block
over namespace `N` therefore affects `N` only (and every namespace when `N` is global). -/
theorem C13_scope (s : OState) (mode : Bool) (N M : String) (hM : M ≠ N) (hN : N ≠ "") :
    (s.set mode N).ordered M = s.ordered M := by
  unfold OState.ordered
  rw [C13_set_other s mode N M hM]
  by_cases h : ("" : String) = N
  · exact absurd h.symm hN
  · rw [C13_set_other s mode N "" h]

theorem C13_scope_self (s : OState) (N : String) : (s.set true N).ordered N = true := by
  simp [OState.ordered, OState.set]

theorem C13_scope_global (s : OState) (M : String) : (s.set true "").ordered M = true := by
  simp [OState.ordered, OState.set]

/-- the engine's flatten reads the mode through `Cfg.insertionOrdered`, which is `OState.ordered`
of the characteristic function of `cfg.ordered` -/
theorem C13_cfg_reads_mode (cfg : Cfg) (inherit : Bool) :
    cfg.insertionOrdered inherit = OState.ordered (fun n => cfg.ordered.contains n) cfg.ns inherit := by
  simp [Cfg.insertionOrdered, OState.ordered]

/-- OrderedDict is unaffected by the mode: its children are visited in insertion order either way -/
theorem C13_ordereddict_unaffected {α : Type} (sorted : Bool) (items : List (Key × α)) :
    dictOrder true sorted items = items := by
  simp [dictOrder]

/-! ### non-vacuity -/

example :
    let prog := [OEvent.enter true "a", .enter false "a", .enter true "", .exit, .enter true "b", .raise,
                 .enter true "b", .exit]
    (orun prog (OState.init, [])).2 = [] := by decide

end Optree
