/-
  C16  No input can make the extension touch invalid memory or overflow the stack.
-/
import OptreeModel.Model.Memory
import OptreeModel.Generated.Access
import OptreeModel.Lemmas.Agree

namespace Optree

/-! ### (c) loops over user containers with re-entrant callbacks -/

/-- **A safe loop never faults**, whatever the callbacks do to the container (any adversary, any
captured length, any current length): an immutable or privately copied container keeps its size, and
a checked accessor turns an out-of-range index into an exception. -/
theorem C16_loops_safe (d : LoopDesc) (h : d.safe = true) (adv : Nat → Adv) (n : Nat) :
    ∀ todo i len, (d.immutable = true ∨ d.privateCopy = true ∨ d.callback = false → i + todo ≤ len) →
      loopRun d adv n todo i len ≠ .fault := by
  intro todo
  induction todo with
  | zero => intro i len _; simp [loopRun]
  | succ t ih =>
    intro i len hlen
    unfold loopRun
    split
    · apply ih
      intro hfix
      have := hlen hfix
      have hsame : (if (d.callback && !d.immutable && !d.privateCopy) = true then (adv i).apply len else len) = len := by
        rcases hfix with h1 | h1 | h1 <;> simp [h1]
      rw [hsame]; omega
    · rename_i hi
      by_cases hc : d.checked = true
      · simp [hc]
      · exfalso
        simp only [LoopDesc.safe, Bool.or_eq_true, Bool.not_eq_true'] at h
        have hfix : d.immutable = true ∨ d.privateCopy = true ∨ d.callback = false := by
          rcases h with ((h | h) | h) | h
          · exact Or.inl h
          · exact Or.inr (Or.inl h)
          · exact absurd h hc
          · exact Or.inr (Or.inr h)
        have := hlen hfix
        omega

/-- the loop as the C++ writes it: the length is captured first, `n = len` -/
theorem C16_loops_safe' (d : LoopDesc) (h : d.safe = true) (adv : Nat → Adv) (n : Nat) :
    loopRun d adv n n 0 n ≠ .fault :=
  C16_loops_safe d h adv n n 0 n (fun _ => by omega)

/-- **the converse**: an unchecked access to a shared mutable container inside a loop that calls
back faults under the adversary that clears the container at the first callback (that adversary is the
replay) -/
theorem C16_unsafe_loop_faults (d : LoopDesc) (h : d.safe = false) (n : Nat) (hn : n ≥ 2) :
    loopRun d (fun _ => .clear) n n 0 n = .fault := by
  simp only [LoopDesc.safe, Bool.or_eq_false_iff, Bool.not_eq_false'] at h
  obtain ⟨⟨⟨h1, h2⟩, h3⟩, h4⟩ := h
  obtain ⟨m, rfl⟩ : ∃ m, n = m + 2 := ⟨n - 2, by omega⟩
  simp [loopRun, h1, h2, h3, h4, Adv.apply]

/-! ### (d) native recursion -/

/-- a guarded walker never exhausts a stack that has room for `limit + 2` frames -/
theorem C16_guarded_walk_safe (limit cap : Nat) (h : limit + 1 < cap) :
    ∀ remaining d, d ≤ limit + 1 → walk true limit cap remaining d ≠ .fault := by
  intro remaining
  induction remaining with
  | zero =>
    intro d hd
    unfold walk
    have : ¬ d ≥ cap := by omega
    simp only [this, if_false]
    split <;> simp
  | succ r ih =>
    intro d hd
    unfold walk
    have : ¬ d ≥ cap := by omega
    simp only [this, if_false]
    split
    · simp
    · rename_i hg
      simp only [Bool.true_and, decide_eq_true_eq] at hg
      exact ih (d + 1) (by omega)

/-- an unguarded walker overflows on a treespec as deep as the stack (reachable: `compose` builds
treespecs of any depth) -/
theorem C16_unguarded_walk_faults (limit cap : Nat) :
    ∀ d, d ≤ cap → walk false limit cap (cap - d) d = .fault := by
  intro d hd
  generalize hr : cap - d = r
  induction r generalizing d with
  | zero =>
    unfold walk
    have : d ≥ cap := by omega
    simp [this]
  | succ r ih =>
    unfold walk
    by_cases hc : d ≥ cap
    · simp [hc]
    · simp only [hc, if_false, Bool.false_and, Bool.false_eq_true]
      exact ih (d + 1) (by omega) (by omega)

/-! ### obligations regenerated from the source on every run -/

/-- every item access on a user container in flatten.cpp / traversal.cpp / constructor.cpp is safe on
the code path of the running Python version -/
theorem C16_access_sites_safe : Generated.accessSites.all (·.2.safe) = true := by decide

theorem C16_access_sites_found : Generated.accessSites.length ≥ 30 := by decide

/-- the counter-indexed read of the entries tuple: with the bound check no number of children can make
it read outside the tuple; without it every surplus child does -/
theorem C16_entries_loop_safe (arity : Nat) : ∀ (n idx : Nat), idx ≤ arity →
    entriesLoop true arity n idx ≠ .fault
  | 0, idx, _ => by unfold entriesLoop; split <;> simp
  | k + 1, idx, h => by
      unfold entriesLoop
      by_cases hi : idx ≥ arity
      · simp [hi]
      · simp only [hi, if_false]
        exact C16_entries_loop_safe arity k (idx + 1) (by omega)

theorem C16_entries_loop_unguarded_faults (arity : Nat) : ∀ (n idx : Nat), idx ≤ arity →
    arity - idx < n → entriesLoop false arity n idx = .fault
  | 0, idx, _, h => by omega
  | k + 1, idx, hle, h => by
      unfold entriesLoop
      by_cases hi : idx ≥ arity
      · simp [hi]
      · simp only [hi, if_false]
        exact C16_entries_loop_unguarded_faults arity k (idx + 1) (by omega) (by omega)

example : entriesLoop true 3 5 0 = .raised .runtime ∧ entriesLoop false 3 5 0 = .fault ∧
    entriesLoop true 3 3 0 = .done := by decide

/-- every unchecked item access has an index that is a literal, a `for` variable running over the
container's own size, or a counter checked against the bound before the read (generated) -/
theorem C16_index_sites_bounded :
    Generated.indexSites.all (fun s => s.2.2 || s.2.1 != "none") = true ∧
    (Generated.indexSites.filter (fun s => s.2.1 == "guard")).map (·.1) =
      ["src/treespec/flatten.cpp:TupleGetItem(node.node_entries)#1"] := by decide

/-- every self-recursive walker has the depth guard -/
theorem C16_recursive_walkers_guarded :
    Generated.recursiveWalkers.all (·.2) = true ∧
    Generated.recursiveWalkers.map (·.1) =
      ["flatten.cpp:FlattenIntoImpl", "flatten.cpp:FlattenIntoWithPathImpl", "treespec.cpp:AccessorsImpl",
       "treespec.cpp:BroadcastToCommonSuffixImpl", "treespec.cpp:PathsImpl"] := by decide

/-- flatten, flatten-with-path and the iterator compare the depth with the limit in the same way, and
the model's `maxDepth` default is the constant of the source -/
theorem C16_same_guard :
    Generated.depthGuards = ["depth>MAX_RECURSION_DEPTH", "depth>MAX_RECURSION_DEPTH", "depth>MAX_RECURSION_DEPTH"] ∧
    Generated.maxDepthConstants.head? = some ({} : Cfg).maxDepth := by decide

/-! ### (a) RecursionError at exactly the same depth -/

mutual
/-- number of levels `flatten` descends below a node: 0 for leaves, `None`, unregistered objects and
empty containers -/
def PyObj.height (cfg : Cfg) : PyObj → Nat
  | .leaf _ _ => 0
  | .none => 0
  | .tuple xs => PyObj.heightList cfg xs
  | .list xs => PyObj.heightList cfg xs
  | .dict kvs => PyObj.heightKVs cfg kvs
  | .odict kvs => PyObj.heightKVs cfg kvs
  | .ddict _ kvs => PyObj.heightKVs cfg kvs
  | .deque _ xs => PyObj.heightList cfg xs
  | .ntuple _ xs => PyObj.heightList cfg xs
  | .sseq _ xs => PyObj.heightList cfg xs
  | .user cls _ _ xs =>
      match cfg.reg.lookup cfg.ns 0 cls with
      | some _ => PyObj.heightList cfg xs
      | Option.none => 0
def PyObj.heightList (cfg : Cfg) : List PyObj → Nat
  | [] => 0
  | x :: xs => max (1 + PyObj.height cfg x) (PyObj.heightList cfg xs)
def PyObj.heightKVs (cfg : Cfg) : List (Key × PyObj) → Nat
  | [] => 0
  | (_, x) :: xs => max (1 + PyObj.height cfg x) (PyObj.heightKVs cfg xs)
end

/-- outcome of one sub-tree: fits under the limit ⇒ succeeds, otherwise RecursionError -/
def DepthOK (cfg : Cfg) (s : Bool) (t : PyObj) : Prop :=
  ∀ d, (d + t.height cfg ≤ cfg.maxDepth → ∃ o, flattenGo cfg s d t = .ok o) ∧
       (d + t.height cfg > cfg.maxDepth → flattenGo cfg s d t = .error .recursion)

theorem seqOuts_all_ok (rs : List (Except Err FlatOut)) (h : ∀ r ∈ rs, ∃ o, r = .ok o) :
    ∃ o, seqOuts rs = .ok o := by
  induction rs with
  | nil => exact ⟨_, rfl⟩
  | cons r rs ih =>
    obtain ⟨a, rfl⟩ := h r (by simp)
    obtain ⟨b, hb⟩ := ih (fun r hr => h r (by simp [hr]))
    exact ⟨a.append b, by simp [seqOuts, hb]⟩

theorem seqOuts_rec (rs : List (Except Err FlatOut))
    (hall : ∀ r ∈ rs, (∃ o, r = .ok o) ∨ r = .error .recursion)
    (hex : ∃ r ∈ rs, r = .error .recursion) : seqOuts rs = .error .recursion := by
  induction rs with
  | nil => obtain ⟨r, hr, _⟩ := hex; simp at hr
  | cons r rs ih =>
    rcases hall r (by simp) with ⟨a, rfl⟩ | rfl
    · obtain ⟨r', hr', he⟩ := hex
      simp only [List.mem_cons] at hr'
      rcases hr' with rfl | hr'
      · simp at he
      · simp [seqOuts, ih (fun r hr => hall r (by simp [hr])) ⟨r', hr', he⟩]
    · simp [seqOuts]

theorem heightList_le (cfg : Cfg) (xs : List PyObj) (n : Nat) :
    PyObj.heightList cfg xs ≤ n ↔ ∀ x ∈ xs, 1 + x.height cfg ≤ n := by
  induction xs with
  | nil => simp [PyObj.heightList]
  | cons x xs ih => simp [PyObj.heightList, ih, Nat.max_le]

theorem heightKVs_le (cfg : Cfg) (kvs : List (Key × PyObj)) (n : Nat) :
    PyObj.heightKVs cfg kvs ≤ n ↔ ∀ p ∈ kvs, 1 + p.2.height cfg ≤ n := by
  induction kvs with
  | nil => simp [PyObj.heightKVs]
  | cons p kvs ih => obtain ⟨k, x⟩ := p; simp [PyObj.heightKVs, ih, Nat.max_le]

theorem heightList_gt (cfg : Cfg) (xs : List PyObj) (n : Nat) (h : PyObj.heightList cfg xs > n) :
    ∃ x ∈ xs, 1 + x.height cfg > n := by
  induction xs with
  | nil => simp [PyObj.heightList] at h
  | cons x xs ih =>
    simp only [PyObj.heightList] at h
    by_cases hx : 1 + x.height cfg > n
    · exact ⟨x, by simp, hx⟩
    · obtain ⟨y, hy, hgt⟩ := ih (by omega)
      exact ⟨y, by simp [hy], hgt⟩

theorem heightKVs_gt (cfg : Cfg) (kvs : List (Key × PyObj)) (n : Nat) (h : PyObj.heightKVs cfg kvs > n) :
    ∃ p ∈ kvs, 1 + p.2.height cfg > n := by
  induction kvs with
  | nil => simp [PyObj.heightKVs] at h
  | cons p kvs ih =>
    obtain ⟨k, x⟩ := p
    simp only [PyObj.heightKVs] at h
    by_cases hx : 1 + x.height cfg > n
    · exact ⟨(k, x), by simp, hx⟩
    · obtain ⟨y, hy, hgt⟩ := ih (by omega)
      exact ⟨y, by simp [hy], hgt⟩

/-- the children of a node at depth `d`, each visited at depth `d + 1` -/
theorem children_outcome (cfg : Cfg) (s : Bool) (d : Nat) (xs : List PyObj)
    (ih : ∀ x ∈ xs, DepthOK cfg s x) (hd : d ≤ cfg.maxDepth) :
    (d + PyObj.heightList cfg xs ≤ cfg.maxDepth → ∃ o, seqOuts (flattenList cfg s (d + 1) xs) = .ok o) ∧
    (d + PyObj.heightList cfg xs > cfg.maxDepth → seqOuts (flattenList cfg s (d + 1) xs) = .error .recursion) := by
  rw [flattenList_eq]
  constructor
  · intro h
    apply seqOuts_all_ok
    intro r hr
    simp only [List.mem_map] at hr
    obtain ⟨x, hx, rfl⟩ := hr
    have hle := (heightList_le cfg xs (cfg.maxDepth - d)).mp (by omega) x hx
    exact (ih x hx (d + 1)).1 (by omega)
  · intro h
    apply seqOuts_rec
    · intro r hr
      simp only [List.mem_map] at hr
      obtain ⟨x, hx, rfl⟩ := hr
      by_cases hfit : d + 1 + x.height cfg ≤ cfg.maxDepth
      · exact Or.inl ((ih x hx (d + 1)).1 hfit)
      · exact Or.inr ((ih x hx (d + 1)).2 (by omega))
    · obtain ⟨x, hx, hgt⟩ := heightList_gt cfg xs (cfg.maxDepth - d) (by omega)
      exact ⟨_, List.mem_map.mpr ⟨x, hx, rfl⟩, (ih x hx (d + 1)).2 (by omega)⟩

theorem kvs_outcome (cfg : Cfg) (s : Bool) (d : Nat) (kvs : List (Key × PyObj)) (od : Bool)
    (ih : ∀ p ∈ kvs, DepthOK cfg s p.2) (hd : d ≤ cfg.maxDepth) :
    (d + PyObj.heightKVs cfg kvs ≤ cfg.maxDepth →
      ∃ o, seqOuts ((dictOrder od s (flattenKVs cfg s (d + 1) kvs)).map (·.2)) = .ok o) ∧
    (d + PyObj.heightKVs cfg kvs > cfg.maxDepth →
      seqOuts ((dictOrder od s (flattenKVs cfg s (d + 1) kvs)).map (·.2)) = .error .recursion) := by
  have hperm := dictOrder_perm od s (flattenKVs cfg s (d + 1) kvs)
  have hmem : ∀ r, r ∈ (dictOrder od s (flattenKVs cfg s (d + 1) kvs)).map (·.2) ↔
      ∃ p ∈ kvs, r = flattenGo cfg s (d + 1) p.2 := by
    intro r
    rw [(hperm.map (·.2)).mem_iff, flattenKVs_eq]
    simp only [List.map_map, List.mem_map, Function.comp_def]
    constructor
    · rintro ⟨p, hp, rfl⟩; exact ⟨p, hp, rfl⟩
    · rintro ⟨p, hp, rfl⟩; exact ⟨p, hp, rfl⟩
  constructor
  · intro h
    apply seqOuts_all_ok
    intro r hr
    obtain ⟨p, hp, rfl⟩ := (hmem r).mp hr
    have hle := (heightKVs_le cfg kvs (cfg.maxDepth - d)).mp (by omega) p hp
    exact (ih p hp (d + 1)).1 (by omega)
  · intro h
    apply seqOuts_rec
    · intro r hr
      obtain ⟨p, hp, rfl⟩ := (hmem r).mp hr
      by_cases hfit : d + 1 + p.2.height cfg ≤ cfg.maxDepth
      · exact Or.inl ((ih p hp (d + 1)).1 hfit)
      · exact Or.inr ((ih p hp (d + 1)).2 (by omega))
    · obtain ⟨p, hp, hgt⟩ := heightKVs_gt cfg kvs (cfg.maxDepth - d) (by omega)
      exact ⟨_, (hmem _).mpr ⟨p, hp, rfl⟩, (ih p hp (d + 1)).2 (by omega)⟩

/-- a node whose children are sequenced and closed: the outcome is decided by the children -/
theorem closeSeq_outcome (rs : List (Except Err FlatOut)) (kind : Kind) (arity : Nat) (data : NodeData)
    (entries : Option (List Key)) (custom : Option Reg) (okeys : Option (List Key)) :
    ((∃ o, seqOuts rs = .ok o) → ∃ o, closeSeq rs kind arity data entries custom okeys = .ok o) ∧
    (seqOuts rs = .error .recursion → closeSeq rs kind arity data entries custom okeys = .error .recursion) := by
  unfold closeSeq
  constructor
  · rintro ⟨o, ho⟩; rw [ho]; exact ⟨_, rfl⟩
  · intro h; rw [h]

theorem finishCustom_outcome (r : Except Err FlatOut) (n : Nat) (md : Option Key)
    (entries : Option (List Key)) (reg : Reg) :
    ((∃ o, r = .ok o) → ∃ o, finishCustom r n md entries reg = .ok o) ∧
    (r = .error .recursion → finishCustom r n md entries reg = .error .recursion) := by
  unfold finishCustom
  constructor
  · rintro ⟨o, rfl⟩; exact ⟨_, rfl⟩
  · rintro rfl; rfl

/-- the prelude without a predicate -/
theorem depth_prelude (cfg : Cfg) (hp : cfg.pred = Option.none) (d h : Nat) (x : PyObj)
    (body : Except Err FlatOut)
    (hbody : d ≤ cfg.maxDepth → (d + h ≤ cfg.maxDepth → ∃ o, body = .ok o) ∧
      (d + h > cfg.maxDepth → body = .error .recursion)) :
    (d + h ≤ cfg.maxDepth → ∃ o,
      (if d > cfg.maxDepth then Except.error Err.recursion
       else match cfg.evalPred x with
        | .error e => .error e
        | .ok true => .ok (leafOut x)
        | .ok false => body) = .ok o) ∧
    (d + h > cfg.maxDepth →
      (if d > cfg.maxDepth then Except.error Err.recursion
       else match cfg.evalPred x with
        | .error e => .error e
        | .ok true => .ok (leafOut x)
        | .ok false => body) = .error .recursion) := by
  have hev : cfg.evalPred x = .ok false := by simp [Cfg.evalPred, hp]
  by_cases hd : d > cfg.maxDepth
  · rw [if_pos hd]
    exact ⟨fun h => by omega, fun _ => rfl⟩
  · rw [if_neg hd, hev]
    exact hbody (by omega)

mutual
theorem dobj (cfg : Cfg) (hp : cfg.pred = Option.none) (s : Bool) :
    ∀ t : PyObj, t.wf = true → DepthOK cfg s t
  | .leaf ty uid, _ => by
      intro d
      rw [flattenGo]
      apply depth_prelude cfg hp d 0
      intro hd
      exact ⟨fun _ => ⟨_, rfl⟩, fun h => by omega⟩
  | .none, _ => by
      intro d
      rw [flattenGo]
      apply depth_prelude cfg hp d 0
      intro hd
      split <;> exact ⟨fun _ => ⟨_, rfl⟩, fun h => by omega⟩
  | .tuple xs, hwf => by
      intro d
      rw [flattenGo]
      simp only [PyObj.wf] at hwf
      apply depth_prelude cfg hp d (PyObj.heightList cfg xs)
      intro hd
      have := children_outcome cfg s d xs (dlist cfg hp s xs hwf) hd
      exact ⟨fun h => (closeSeq_outcome _ _ _ _ _ _ _).1 (this.1 h), fun h => (closeSeq_outcome _ _ _ _ _ _ _).2 (this.2 h)⟩
  | .list xs, hwf => by
      intro d
      rw [flattenGo]
      simp only [PyObj.wf] at hwf
      apply depth_prelude cfg hp d (PyObj.heightList cfg xs)
      intro hd
      have := children_outcome cfg s d xs (dlist cfg hp s xs hwf) hd
      exact ⟨fun h => (closeSeq_outcome _ _ _ _ _ _ _).1 (this.1 h), fun h => (closeSeq_outcome _ _ _ _ _ _ _).2 (this.2 h)⟩
  | .deque m xs, hwf => by
      intro d
      rw [flattenGo]
      simp only [PyObj.wf, Bool.and_eq_true] at hwf
      apply depth_prelude cfg hp d (PyObj.heightList cfg xs)
      intro hd
      have := children_outcome cfg s d xs (dlist cfg hp s xs hwf.2) hd
      exact ⟨fun h => (closeSeq_outcome _ _ _ _ _ _ _).1 (this.1 h), fun h => (closeSeq_outcome _ _ _ _ _ _ _).2 (this.2 h)⟩
  | .dict kvs, hwf => by
      intro d
      rw [flattenGo]
      simp only [PyObj.wf, Bool.and_eq_true] at hwf
      apply depth_prelude cfg hp d (PyObj.heightKVs cfg kvs)
      intro hd
      have := kvs_outcome cfg s d kvs false (dkvs cfg hp s kvs hwf.2) hd
      exact ⟨fun h => (closeSeq_outcome _ _ _ _ _ _ _).1 (this.1 h), fun h => (closeSeq_outcome _ _ _ _ _ _ _).2 (this.2 h)⟩
  | .odict kvs, hwf => by
      intro d
      rw [flattenGo]
      simp only [PyObj.wf, Bool.and_eq_true] at hwf
      apply depth_prelude cfg hp d (PyObj.heightKVs cfg kvs)
      intro hd
      have := kvs_outcome cfg s d kvs true (dkvs cfg hp s kvs hwf.2) hd
      simp only [dictOrder, Bool.not_true, Bool.false_and, Bool.false_eq_true, if_false] at this
      exact ⟨fun h => (closeSeq_outcome _ _ _ _ _ _ _).1 (this.1 h), fun h => (closeSeq_outcome _ _ _ _ _ _ _).2 (this.2 h)⟩
  | .ddict f kvs, hwf => by
      intro d
      rw [flattenGo]
      simp only [PyObj.wf, Bool.and_eq_true] at hwf
      apply depth_prelude cfg hp d (PyObj.heightKVs cfg kvs)
      intro hd
      have := kvs_outcome cfg s d kvs false (dkvs cfg hp s kvs hwf.2) hd
      exact ⟨fun h => (closeSeq_outcome _ _ _ _ _ _ _).1 (this.1 h), fun h => (closeSeq_outcome _ _ _ _ _ _ _).2 (this.2 h)⟩
  | .ntuple cls xs, hwf => by
      intro d
      rw [flattenGo]
      simp only [PyObj.wf] at hwf
      apply depth_prelude cfg hp d (PyObj.heightList cfg xs)
      intro hd
      have := children_outcome cfg s d xs (dlist cfg hp s xs hwf) hd
      cases hl : cfg.reg.lookup cfg.ns 1 cls with
      | some reg =>
        dsimp only
        rw [customFlatten_ok' reg Option.none xs _ (by simp [flattenList_eq])]
        exact ⟨fun h => (finishCustom_outcome _ _ _ _ _).1 (this.1 h), fun h => (finishCustom_outcome _ _ _ _ _).2 (this.2 h)⟩
      | none =>
        exact ⟨fun h => (closeSeq_outcome _ _ _ _ _ _ _).1 (this.1 h), fun h => (closeSeq_outcome _ _ _ _ _ _ _).2 (this.2 h)⟩
  | .sseq cls xs, hwf => by
      intro d
      rw [flattenGo]
      simp only [PyObj.wf] at hwf
      apply depth_prelude cfg hp d (PyObj.heightList cfg xs)
      intro hd
      have := children_outcome cfg s d xs (dlist cfg hp s xs hwf) hd
      cases hl : cfg.reg.lookup cfg.ns 2 cls with
      | some reg =>
        dsimp only
        rw [customFlatten_ok' reg Option.none xs _ (by simp [flattenList_eq])]
        exact ⟨fun h => (finishCustom_outcome _ _ _ _ _).1 (this.1 h), fun h => (finishCustom_outcome _ _ _ _ _).2 (this.2 h)⟩
      | none =>
        exact ⟨fun h => (closeSeq_outcome _ _ _ _ _ _ _).1 (this.1 h), fun h => (closeSeq_outcome _ _ _ _ _ _ _).2 (this.2 h)⟩
  | .user cls md q xs, hwf => by
      intro d
      rw [flattenGo]
      simp only [PyObj.wf, Bool.and_eq_true, beq_iff_eq] at hwf
      obtain ⟨hq, hwf⟩ := hwf
      subst hq
      simp only [PyObj.height]
      cases hl : cfg.reg.lookup cfg.ns 0 cls with
      | some reg =>
        dsimp only
        apply depth_prelude cfg hp d (PyObj.heightList cfg xs)
        intro hd
        have := children_outcome cfg s d xs (dlist cfg hp s xs hwf) hd
        rw [customFlatten_ok' reg md xs _ (by simp [flattenList_eq])]
        exact ⟨fun h => (finishCustom_outcome _ _ _ _ _).1 (this.1 h), fun h => (finishCustom_outcome _ _ _ _ _).2 (this.2 h)⟩
      | none =>
        dsimp only
        apply depth_prelude cfg hp d 0
        intro _
        exact ⟨fun _ => ⟨_, rfl⟩, fun h => by omega⟩
theorem dlist (cfg : Cfg) (hp : cfg.pred = Option.none) (s : Bool) :
    ∀ xs : List PyObj, PyObj.wfList xs = true → ∀ x ∈ xs, DepthOK cfg s x
  | [], _ => by intro x hx; simp at hx
  | y :: ys, hwf => by
      simp only [PyObj.wfList, Bool.and_eq_true] at hwf
      intro x hx
      simp only [List.mem_cons] at hx
      rcases hx with hx | hx
      · subst hx; exact dobj cfg hp s x hwf.1
      · exact dlist cfg hp s ys hwf.2 x hx
theorem dkvs (cfg : Cfg) (hp : cfg.pred = Option.none) (s : Bool) :
    ∀ kvs : List (Key × PyObj), PyObj.wfKVs kvs = true → ∀ p ∈ kvs, DepthOK cfg s p.2
  | [], _ => by intro p hp'; simp at hp'
  | (k, y) :: ys, hwf => by
      simp only [PyObj.wfKVs, Bool.and_eq_true] at hwf
      intro p hp'
      simp only [List.mem_cons] at hp'
      rcases hp' with hp' | hp'
      · subst hp'; exact dobj cfg hp s y hwf.1
      · exact dkvs cfg hp s ys hwf.2 p hp'
end

/-- **RecursionError exactly above the limit.**  For every tree with well-behaved custom nodes and
no `is_leaf` predicate: `flatten` succeeds iff the tree has at most `maxDepth` levels below its root,
and otherwise raises RecursionError (no other error is possible) — for every node kind and every
mixture of kinds along the deep path. -/
theorem C16_depth_exact (cfg : Cfg) (hp : cfg.pred = Option.none) (t : PyObj) (hwf : t.wf = true) :
    (t.height cfg ≤ cfg.maxDepth → ∃ r, flatten cfg t = .ok r) ∧
    (t.height cfg > cfg.maxDepth → flatten cfg t = .error .recursion) := by
  have h := dobj cfg hp (!cfg.insertionOrdered) t hwf 0
  simp only [Nat.zero_add] at h
  unfold flatten
  constructor
  · intro hle
    obtain ⟨o, ho⟩ := h.1 hle
    simp only [ho]
    exact ⟨_, rfl⟩
  · intro hgt
    simp only [h.2 hgt]

/-- **… at exactly the same depth in flatten-with-path**: the two traversals fail on the same trees
with the same error (from the simulation `aobj` of Lemmas/Agree.lean), so the threshold of
`C16_depth_exact` is the threshold of `tree_flatten_with_path` too. -/
theorem C16_depth_parity (cfg : Cfg) (s : Bool) (t : PyObj) (hwf : t.wf = true) (d : Nat) (path : List Key) :
    (flattenGoP cfg s d path t = .error .recursion ↔ flattenGo cfg s d t = .error .recursion) := by
  have h := aobj cfg s t hwf d path
  constructor
  · intro hP; rw [← h, hP]; rfl
  · intro hG
    rw [← h] at hG
    cases hr : flattenGoP cfg s d path t with
    | ok o => rw [hr] at hG; simp [eraseR] at hG
    | error e => rw [hr] at hG; simp only [eraseR, Except.error.injEq] at hG; rw [hG]

/-! ### non-vacuity -/

example : (⟨false, false, true, true⟩ : LoopDesc).safe = true := by decide
example : loopRun ⟨false, false, true, true⟩ (fun _ => .clear) 3 3 0 3 = .raised .index := by decide
example : loopRun ⟨false, false, false, true⟩ (fun _ => .clear) 3 3 0 3 = .fault := by decide
example : walk true 1000 20000 15840 0 = .raised .recursion := by decide +kernel
example : PyObj.height {} (.list [.tuple [.leaf 0 1], .leaf 0 2]) = 2 := by decide

end Optree
