/-
  C11  Pickling a treespec preserves it exactly.

  `toPickle` / `fromPickle` model ToPickleable / FromPickleable (serialization.cpp:291-419); the byte
  level (pickle protocols, copy / deepcopy plumbing, a second interpreter) is not modelled and is
  exercised by the implementation oracle only.  `Generated.*` is regenerated from the source on
  every run (translator T-node).
-/
import OptreeModel.Model.Serial
import OptreeModel.Generated.NodeFields

namespace Optree

/-- **Generated obligation.**  Every member of the node record is exported by `ToPickleable` … -/
theorem C11_covers_all_fields_export :
    ∀ f ∈ Generated.nodeFields, f ∈ Generated.pickledNodeFields := by decide

/-- … and re-imported by `FromPickleable`. -/
theorem C11_covers_all_fields_import :
    ∀ f ∈ Generated.nodeFields, f ∈ Generated.unpickledNodeFields := by decide

/-- **Generated obligation.**  The node record of the source has exactly the members of the model's
`Node`, and the treespec-level state is (nodes, none_is_leaf, namespace). -/
theorem C11_model_has_the_same_fields :
    Generated.nodeFields = ["kind", "arity", "node_data", "node_entries", "custom", "num_leaves",
                            "num_nodes", "original_keys"] ∧
    Generated.pickledSpecFields = ["nodes", "none_is_leaf", "namespace"] := by decide

/-- **Generated obligation.**  The kind numbers stored in pickles are the model's. -/
theorem C11_kind_numbering :
    Generated.kindNames = ["Custom", "Leaf", "None", "Tuple", "List", "Dict", "NamedTuple",
                           "OrderedDict", "DefaultDict", "Deque", "StructSequence"] := by decide

theorem C11_kind_roundtrip (k : Kind) : Kind.ofNat? k.toNat = some k := by cases k <;> rfl

/-- a node record whose fields fit its kind (what every engine operation produces) -/
def Node.shapeOk (n : Node) : Bool :=
  (match n.kind, n.data with
   | .leaf, .none | .none, .none | .tuple, .none | .list, .none => true
   | .dict, .keys _ | .ordereddict, .keys _ => true
   | .namedtuple, .cls _ | .structseq, .cls _ => true
   | .defaultdict, _ | .deque, _ | .custom, _ => true
   | _, _ => false) &&
  (match n.originalKeys with
   | Option.none => !(n.kind == .dict || n.kind == .defaultdict)
   | some _ => n.kind == .dict || n.kind == .defaultdict) &&
  (if n.kind == .custom then n.custom.isSome else n.entries.isNone && n.custom.isNone)

/-- the registrations recorded in the treespec are the ones the loading registry resolves the
recorded types to, in the recorded namespace -/
def Resolves (reg : Registry) (ns : String) (n : Node) : Prop :=
  ∀ r, n.custom = some r → reg.lookup ns r.clsKind r.cls = some r

theorem fromPickleNode_roundtrip (reg : Registry) (ns : String) (n : Node) (hs : n.shapeOk = true)
    (hr : Resolves reg ns n) :
    fromPickleNode reg ns
      { kind := n.kind.toNat, arity := n.arity, data := n.data, entries := n.entries,
        customType := n.custom.map fun r => (r.clsKind, r.cls), numLeaves := n.numLeaves,
        numNodes := n.numNodes, originalKeys := n.originalKeys } = .ok n := by
  obtain ⟨kind, arity, data, entries, custom, nl, nn, okeys⟩ := n
  simp only [Node.shapeOk, Bool.and_eq_true] at hs
  obtain ⟨⟨h1, h2⟩, h3⟩ := hs
  unfold fromPickleNode
  simp only [C11_kind_roundtrip]
  cases kind <;> cases data <;> cases okeys <;> simp_all <;>
    (first
      | (cases custom with
         | none => simp_all
         | some r => simp [hr r rfl])
      | (obtain ⟨he, hc⟩ := h3; subst he; subst hc; rfl)
      | skip)

/-- **Round trip.**  Unpickling a pickled treespec in a process whose registry resolves the recorded
custom types to the recorded registrations gives back exactly the same treespec — every field of
every node, `none_is_leaf` and the namespace — hence the same `==`, hash input, repr, paths,
accessors, entries, children and unflatten behaviour (all of which are functions of the `Spec`). -/
theorem C11_roundtrip (reg : Registry) (sp : Spec) (hsane : sp.sane = true)
    (hshape : ∀ n ∈ sp.nodes, n.shapeOk = true) (hres : ∀ n ∈ sp.nodes, Resolves reg sp.ns n)
    (p : Pickled) (hp : toPickle sp = .ok p) : fromPickle reg p = .ok sp := by
  unfold toPickle at hp
  simp only [hsane, Bool.not_true, Bool.false_eq_true, if_false, Except.ok.injEq] at hp
  subst hp
  unfold fromPickle
  simp only
  have hnodes : (sp.nodes.map fun n =>
      ({ kind := n.kind.toNat, arity := n.arity, data := n.data, entries := n.entries,
         customType := n.custom.map fun r => (r.clsKind, r.cls), numLeaves := n.numLeaves,
         numNodes := n.numNodes, originalKeys := n.originalKeys } : PNode)).mapM
      (fromPickleNode reg sp.ns) = .ok sp.nodes := by
    have : ∀ (ns : List Node), (∀ n ∈ ns, n.shapeOk = true) → (∀ n ∈ ns, Resolves reg sp.ns n) →
        (ns.map fun n =>
          ({ kind := n.kind.toNat, arity := n.arity, data := n.data, entries := n.entries,
             customType := n.custom.map fun r => (r.clsKind, r.cls), numLeaves := n.numLeaves,
             numNodes := n.numNodes, originalKeys := n.originalKeys } : PNode)).mapM
          (fromPickleNode reg sp.ns) = .ok ns := by
      intro ns h1 h2
      induction ns with
      | nil => rfl
      | cons n ns ih =>
        simp only [List.map_cons, List.mapM_cons]
        rw [fromPickleNode_roundtrip reg sp.ns n (h1 n (by simp)) (h2 n (by simp))]
        simp only [bind, Except.bind]
        rw [ih (fun m hm => h1 m (by simp [hm])) (fun m hm => h2 m (by simp [hm]))]
        rfl
    exact this sp.nodes hshape hres
  rw [hnodes]
  simp [hsane]

/-- **Missing registration.**  If a custom type recorded in the pickle is not registered in the
recorded namespace of the loading process, loading raises instead of returning a treespec. -/
theorem C11_missing_registration (reg : Registry) (p : Pickled) (pn : PNode) (hmem : pn ∈ p.nodes)
    (hk : pn.kind = Kind.custom.toNat) (ck : Nat) (cls : TypeId)
    (hty : pn.customType = some (ck, cls)) (hmiss : reg.lookup p.ns ck cls = Option.none) :
    ∃ e, fromPickle reg p = .error e := by
  have hnode : ∃ e, fromPickleNode reg p.ns pn = .error e := by
    unfold fromPickleNode
    simp only [hk, Kind.toNat, Kind.ofNat?, hty, hmiss]
    split
    · exact ⟨_, rfl⟩
    · split
      · exact ⟨_, rfl⟩
      · simp
  obtain ⟨e, he⟩ := hnode
  have : ∀ (ns : List PNode), pn ∈ ns → ∃ e', ns.mapM (fromPickleNode reg p.ns) = .error e' := by
    intro ns hm
    induction ns with
    | nil => simp at hm
    | cons q qs ih =>
      simp only [List.mapM_cons, bind, Except.bind]
      simp only [List.mem_cons] at hm
      cases hq : fromPickleNode reg p.ns q with
      | error e' => exact ⟨e', rfl⟩
      | ok v =>
        rcases hm with hm | hm
        · subst hm; rw [he] at hq; cases hq
        · obtain ⟨e', he'⟩ := ih hm
          exact ⟨e', by simp [he']⟩
  obtain ⟨e', he'⟩ := this p.nodes hmem
  exact ⟨e', by simp [fromPickle, he']⟩

/-! ### non-vacuity -/

def C11_demoReg : Registry :=
  { global := [(0, 0, { rid := 1, cls := 0, clsKind := 0, entryKind := .auto, mode := .named })], named := [] }

def C11_demoSpec : Spec :=
  { nodes := [Node.leaf,
              { kind := .dict, arity := 1, data := .keys [.str "a"], entries := Option.none,
                custom := Option.none, numLeaves := 1, numNodes := 2, originalKeys := some [.str "a"] },
              { kind := .custom, arity := 1, data := .md (some (.int 3)), entries := some [.str "c0"],
                custom := some { rid := 1, cls := 0, clsKind := 0, entryKind := .auto, mode := .named },
                numLeaves := 1, numNodes := 3, originalKeys := Option.none }],
    noneIsLeaf := false, ns := "" }

example : C11_demoSpec.sane = true ∧ C11_demoSpec.nodes.all Node.shapeOk = true := by decide

example : (match toPickle C11_demoSpec with
    | .ok p => (match fromPickle C11_demoReg p with | .ok s => decide (s = C11_demoSpec) | _ => false)
    | _ => false) = true := by decide

/-- in a process without the registration, loading fails -/
example : (match toPickle C11_demoSpec with
    | .ok p => (match fromPickle Registry.empty p with | .error .runtime => true | _ => false)
    | _ => false) = true := by decide

end Optree
