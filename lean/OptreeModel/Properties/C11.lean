import OptreeModel.Model.Eval
namespace Optree
end Optree
