/-
  C03  All traversal entry points agree with each other.
  Helper lemmas: Lemmas/Agree.lean.
-/
import OptreeModel.Lemmas.Agree
import OptreeModel.Lemmas.Iter
import OptreeModel.Lemmas.Leaves
import OptreeModel.Properties.C01
import OptreeModel.Lemmas.ShapePaths

namespace Optree

/-- forget the paths of a `flattenWithPath` result -/
def dropPaths : Except Err (List (List Key) × List PyObj × Spec) → Except Err (List PyObj × Spec)
  | .ok (_, ls, sp) => .ok (ls, sp)
  | .error e => .error e

/-- **flatten and flatten-with-path agree** on leaves, on the whole node array, on the recorded
namespace *and on the exception type* — for every tree whose custom flatten functions are
well-behaved (`wf`), every registry, namespace, predicate, dict-order mode and depth limit
(so over-deep trees fail identically). -/
theorem C03_flatten_with_path_agrees (cfg : Cfg) (t : PyObj) (hwf : t.wf = true) :
    dropPaths (flattenWithPath cfg t) = flatten cfg t := by
  unfold flattenWithPath flatten
  simp only
  have h := aobj cfg (!cfg.insertionOrdered) t hwf 0 []
  cases hP : flattenGoP cfg (!cfg.insertionOrdered) 0 [] t with
  | error e =>
    rw [hP] at h
    simp only [eraseR] at h
    rw [← h]
    rfl
  | ok o =>
    rw [hP] at h
    simp only [eraseR] at h
    rw [← h]
    simp [dropPaths, FlatOutP.erase]

/-- the number of paths returned by flatten-with-path equals the number of leaves and the
treespec's leaf count -/
theorem C03_counts (cfg : Cfg) (t : PyObj) (ps : List (List Key)) (ls : List PyObj) (sp : Spec)
    (hwf : t.wf = true) (h : flattenWithPath cfg t = .ok (ps, ls, sp)) :
    ps.length = ls.length ∧ sp.numLeaves = ls.length := by
  have hl : ps.length = ls.length := by
    unfold flattenWithPath at h
    simp only at h
    split at h
    · simp at h
    · simp only [Except.ok.injEq, Prod.mk.injEq] at h
      rw [← h.1, ← h.2.1]
      simp
  have h2 := C03_flatten_with_path_agrees cfg t hwf
  rw [h] at h2
  simp only [dropPaths] at h2
  exact ⟨hl, (C01_flatten_sane' cfg t ls sp h2.symm)⟩
where
  C01_flatten_sane' (cfg : Cfg) (t : PyObj) (ls : List PyObj) (sp : Spec)
      (h : flatten cfg t = .ok (ls, sp)) : sp.numLeaves = ls.length := by
    unfold flatten at h
    simp only at h
    split at h
    · simp at h
    · rename_i out hout
      simp only [Except.ok.injEq, Prod.mk.injEq] at h
      obtain ⟨hl, hs⟩ := h
      subst hl hs
      obtain ⟨n, h1, _, h3⟩ := flattenGo_sane cfg _ 0 t out hout
      simp [Spec.numLeaves, h1, h3]

theorem closeSeq_root_kind (rs : List (Except Err FlatOut)) (kind : Kind) (arity : Nat)
    (data : NodeData) (entries : Option (List Key)) (custom : Option Reg) (okeys : Option (List Key))
    (out : FlatOut) (h : closeSeq rs kind arity data entries custom okeys = .ok out) :
    ∃ n, out.nodes.getLast? = some n ∧ n.kind = kind := by
  unfold closeSeq at h
  split at h
  · simp at h
  · rename_i b _
    simp at h; subst h
    exact ⟨{ kind := kind, arity := arity, data := data, entries := entries, custom := custom,
             numLeaves := b.leaves.length, numNodes := b.nodes.length + 1, originalKeys := okeys },
           by simp [FlatOut.close], rfl⟩

theorem customFlatten_root_kind (reg : Reg) (co : CustomOut) (rs : List (Except Err FlatOut))
    (out : FlatOut) (h : customFlatten reg co rs = .ok out) :
    ∃ n, out.nodes.getLast? = some n ∧ n.kind = .custom := by
  unfold customFlatten at h
  split at h; · simp at h
  split at h; · simp at h
  split at h; · simp at h
  rename_i b _
  simp only at h
  split at h; · simp at h
  rename_i ents _
  simp at h; subst h
  exact ⟨{ kind := .custom, arity := rs.length, data := .md co.md, entries := ents, custom := some reg,
           numLeaves := b.leaves.length, numNodes := b.nodes.length + 1, originalKeys := Option.none },
         by simp [FlatOut.close], rfl⟩

theorem not_leaf_spec_of_root_kind (out : FlatOut) (k : Kind) (hk : k ≠ .leaf)
    (h : ∃ n, out.nodes.getLast? = some n ∧ n.kind = k) : out.nodes ≠ [Node.leaf] := by
  intro e
  obtain ⟨n, hn, hkind⟩ := h
  rw [e] at hn
  simp at hn
  subst hn
  exact hk (by simpa [Node.leaf] using hkind.symm)

/-- **tree_is_leaf ⇒**: if `isLeaf` says yes, flattening yields `[x]` with a leaf treespec -/
theorem C03_is_leaf_flatten (cfg : Cfg) (x : PyObj) (h : isLeaf cfg x = .ok true) :
    ∃ ns, flatten cfg x = .ok ([x], ⟨[Node.leaf], cfg.noneIsLeaf, ns⟩) := by
  unfold isLeaf at h
  unfold flatten
  simp only
  have hgo : flattenGo cfg (!cfg.insertionOrdered) 0 x = .ok (leafOut x) := by
    cases hp : cfg.evalPred x with
    | error e => simp [hp] at h
    | ok p =>
      cases p with
      | true => cases x <;> rw [flattenGo] <;> simp [hp]
      | false =>
        simp only [hp, Except.ok.injEq, beq_iff_eq] at h
        cases x <;> rw [flattenGo] <;> simp only [hp, Nat.not_lt_zero, gt_iff_lt, if_false] <;>
          simp only [getKind] at h
        all_goals first
          | rfl
          | (split at h <;> simp_all)
          | (exact absurd h (by decide))
  simp [hgo, leafOut]

/-- **tree_is_leaf ⇐**: if flattening yields a one-node leaf treespec, `isLeaf` says yes -/
theorem C03_flatten_is_leaf (cfg : Cfg) (x : PyObj) (ls : List PyObj) (ns : String)
    (h : flatten cfg x = .ok (ls, ⟨[Node.leaf], cfg.noneIsLeaf, ns⟩)) : isLeaf cfg x = .ok true := by
  unfold flatten at h
  simp only at h
  split at h
  · simp at h
  · rename_i out hout
    simp only [Except.ok.injEq, Prod.mk.injEq, Spec.mk.injEq] at h
    have hnodes : out.nodes = [Node.leaf] := h.2.1
    unfold isLeaf
    cases hp : cfg.evalPred x with
    | error e =>
      cases x <;> rw [flattenGo] at hout <;> simp [hp] at hout
    | ok p =>
      cases p with
      | true => rfl
      | false =>
        simp only [Except.ok.injEq, beq_iff_eq]
        cases x <;> rw [flattenGo] at hout <;>
          simp only [hp, Nat.not_lt_zero, gt_iff_lt, if_false] at hout <;> simp only [getKind]
        all_goals first
          | rfl
          | exact absurd hnodes (not_leaf_spec_of_root_kind out _ (by decide)
              (closeSeq_root_kind _ _ _ _ _ _ _ out hout))
          | skip
        · -- none
          split at hout
          · rename_i hn; simp [hn]
          · simp at hout; subst hout; simp [FlatOut.close, FlatOut.empty, Node.leaf] at hnodes
        · -- ntuple
          split at hout
          · exact absurd hnodes (not_leaf_spec_of_root_kind out _ (by decide)
              (customFlatten_root_kind _ _ _ out hout))
          · exact absurd hnodes (not_leaf_spec_of_root_kind out _ (by decide)
              (closeSeq_root_kind _ _ _ _ _ _ _ out hout))
        · -- sseq
          split at hout
          · exact absurd hnodes (not_leaf_spec_of_root_kind out _ (by decide)
              (customFlatten_root_kind _ _ _ out hout))
          · exact absurd hnodes (not_leaf_spec_of_root_kind out _ (by decide)
              (closeSeq_root_kind _ _ _ _ _ _ _ out hout))
        · -- user
          split at hout
          · exact absurd hnodes (not_leaf_spec_of_root_kind out _ (by decide)
              (customFlatten_root_kind _ _ _ out hout))
          · rename_i hl; simp [hl]

/-! ### error parity: what holds, and what does not -/

def C03_kReg : Registry :=
  { global := [(0, 0, { rid := 1, cls := 0, clsKind := 0, entryKind := .getattr, mode := .named })]
    named := [] }

/-- a custom node whose flatten function returns one entry too few and whose extra child is
over-deep (depth limit 1 for the example) -/
def C03_kTree : PyObj :=
  .user 0 Option.none .entriesMinus [.leaf 0 1, .list [.list [.leaf 0 2]]]

/-- **Error parity does not hold for malformed custom nodes** (known finding
`error-parity-malformed-custom-vs-depth`): flatten reports the over-deep child, flatten-with-path
the entries mismatch. -/
theorem C03_error_parity_full_false :
    (match flatten { reg := C03_kReg, maxDepth := 1 } C03_kTree,
           flattenWithPath { reg := C03_kReg, maxDepth := 1 } C03_kTree with
     | .error .recursion, .error .runtime => true
     | _, _ => false) = true := by decide

/-- … but it does hold (with identical results) whenever the flatten functions are well-behaved:
`C03_flatten_with_path_agrees` above. -/
theorem C03_error_parity_partial (cfg : Cfg) (t : PyObj) (hwf : t.wf = true) (e : Err) :
    flatten cfg t = .error e ↔ flattenWithPath cfg t = .error e := by
  have h := C03_flatten_with_path_agrees cfg t hwf
  constructor
  · intro he
    rw [he] at h
    cases hp : flattenWithPath cfg t with
    | error e' => rw [hp] at h; simp [dropPaths] at h; rw [h]
    | ok r => rw [hp] at h; obtain ⟨_, _, _⟩ := r; simp [dropPaths] at h
  · intro he
    rw [he] at h
    simpa [dropPaths] using h.symm

/-! ### non-vacuity -/

example : C01_demoTree.wf = true := by decide

end Optree

namespace Optree

/-- **The lazy iterator yields the leaves of flatten, in the same order.**  For every tree and
configuration on which `flatten` succeeds (any predicate, any registry, malformed flatten functions
excluded by the success itself), `list(tree_iter(t))` succeeds and is the leaves list of
`tree_flatten(t)` — the agenda machine of `PyTreeIter::NextImpl` against the recursion of
`FlattenIntoImpl`, by mutual structural induction with the agenda generalised. -/
theorem C03_iter_leaves (cfg : Cfg) (t : PyObj) (ls : List PyObj) (sp : Spec)
    (h : flatten cfg t = .ok (ls, sp)) : iterAll cfg t = .ok ls := by
  unfold flatten at h
  simp only at h
  cases hg : flattenGo cfg (!cfg.insertionOrdered) 0 t with
  | error e => rw [hg] at h; simp at h
  | ok out =>
    rw [hg] at h
    simp only [Except.ok.injEq, Prod.mk.injEq] at h
    obtain ⟨f, _, e⟩ := iobj cfg (!cfg.insertionOrdered) t 0 out hg (t.size + 1) [] [] (by omega)
    unfold iterAll
    rw [e]
    cases f <;> simp [iterRun, h.1]

/-! ### the three ways to obtain paths agree

`flatten_with_path` carries an entry stack down its recursion over the *tree*; `treespec.paths()` is an
index walk over the *node array*.  Both equal the structural recursion `STree.pathsT` over the shape. -/

/-- **the paths returned by `tree_flatten_with_path` are the paths `treespec.paths()` reports** for the
treespec returned by the same call (and by `tree_flatten`), one per leaf, in leaf order — for every
well-formed tree, registry, namespace and dict-order mode (no predicate) -/
theorem C03_paths_agree (cfg : Cfg) (hp : cfg.pred = Option.none) (t : PyObj) (hwf : t.wf = true)
    (ps : List (List Key)) (ls : List PyObj) (sp : Spec) (h : flattenWithPath cfg t = .ok (ps, ls, sp)) :
    paths sp = .ok ps ∧ ps = (shapeOf cfg (!cfg.insertionOrdered) t).pathsT [] ∧ ps.length = ls.length := by
  have hf : flatten cfg t = .ok (ls, sp) := by
    rw [← C03_flatten_with_path_agrees cfg t hwf, h]; rfl
  obtain ⟨e, hl⟩ := flatten_shapeOf cfg hp t hwf ls sp hf
  obtain ⟨w, _⟩ := wg cfg (!cfg.insertionOrdered) t hwf
  have hk := eo cfg (!cfg.insertionOrdered) t
  have hps : ps = (shapeOf cfg (!cfg.insertionOrdered) t).pathsT [] := by
    unfold flattenWithPath at h
    simp only at h
    split at h
    · simp at h
    · rename_i out ho
      simp only [Except.ok.injEq, Prod.mk.injEq] at h
      rw [← h.1]
      exact psh cfg hp _ t hwf 0 [] out ho
  refine ⟨?_, hps, ?_⟩
  · rw [e, hps]; exact paths_enc _ w hk _ _
  · rw [hps, STree.pathsT_length _ [] hk, hl]

/-! ### `all_leaves` -/

/-- **`all_leaves(xs)` holds exactly when every element is a leaf**: `True` iff `tree_is_leaf` is `True` for every
element (every list, predicate, registry) -/
theorem C03_all_leaves_true (cfg : Cfg) : ∀ xs : List PyObj,
    allLeaves cfg xs = .ok true ↔ ∀ x ∈ xs, isLeaf cfg x = .ok true
  | [] => by simp [allLeaves]
  | x :: xs => by
      have ih := C03_all_leaves_true cfg xs
      simp only [allLeaves, List.mem_cons, forall_eq_or_imp]
      cases h : isLeaf cfg x with
      | error e => simp
      | ok b => cases b <;> simp [ih]

/-- it is `False` exactly when the first element that is not accepted is a non-leaf (everything before it is a leaf and its
own test does not raise); an exception raised by the predicate on the way propagates -/
theorem C03_all_leaves_false (cfg : Cfg) : ∀ xs : List PyObj,
    allLeaves cfg xs = .ok false ↔
      ∃ pre x post, xs = pre ++ x :: post ∧ (∀ y ∈ pre, isLeaf cfg y = .ok true) ∧ isLeaf cfg x = .ok false
  | [] => by simp [allLeaves]
  | x :: xs => by
      have ih := C03_all_leaves_false cfg xs
      simp only [allLeaves]
      cases h : isLeaf cfg x with
      | error e =>
        simp only [reduceCtorEq, false_iff, not_exists, not_and]
        intro pre y post he hpre hy
        cases pre with
        | nil => simp at he; obtain ⟨rfl, _⟩ := he; rw [h] at hy; simp at hy
        | cons p pre =>
          simp at he; obtain ⟨rfl, _⟩ := he
          have := hpre x (by simp); rw [h] at this; simp at this
      | ok b =>
        cases b with
        | false =>
          simp only [true_iff]
          exact ⟨[], x, xs, rfl, by simp, h⟩
        | true =>
          simp only [ih]
          constructor
          · rintro ⟨pre, y, post, rfl, hpre, hy⟩
            refine ⟨x :: pre, y, post, rfl, ?_, hy⟩
            intro z hz
            simp only [List.mem_cons] at hz
            rcases hz with rfl | hz
            · exact h
            · exact hpre z hz
          · rintro ⟨pre, y, post, he, hpre, hy⟩
            cases pre with
            | nil => simp at he; obtain ⟨rfl, _⟩ := he; rw [h] at hy; simp at hy
            | cons p pre =>
              simp at he
              obtain ⟨rfl, rfl⟩ := he
              exact ⟨pre, y, post, rfl, fun z hz => hpre z (by simp [hz]), hy⟩


end Optree
