/-
  tree_ravel / unravel (optree/integration/{numpy,jax,torch}.py: _ravel_leaves, _unravel_empty,
  _unravel_leaves_single_dtype, _unravel_leaves).

  Arrays are (shape, dtype, C-order data).  The array library itself is *not* modelled: the promoted
  dtype `to` and the element cast `cast from to` are parameters (assumed behaviour of
  NumPy / JAX / PyTorch, recorded in the trusted base).
-/
import OptreeModel.Model.Basic

namespace Optree

structure Arr where
  shape : List Nat
  dtype : Nat
  data : List Int
  deriving DecidableEq, Repr, Inhabited

def Arr.size (a : Arr) : Nat := a.shape.foldl (· * ·) 1

/-- a well-formed array has as many elements as its shape says -/
def Arr.wf (a : Arr) : Bool := a.data.length == a.size

structure ArrLib where
  /-- element cast between dtypes -/
  cast : Nat → Nat → Int → Int
  /-- dtype of the empty result (`np.zeros(0)`) -/
  defaultDtype : Nat

/-- cumulative split of `xs` into pieces of the given sizes (`np.split(flat, indices[:-1])`) -/
def splitSizes : List Nat → List Int → List (List Int)
  | [], _ => []
  | n :: ns, xs => xs.take n :: splitSizes ns (xs.drop n)

inductive Unravel where
  | empty
  | single (sizes : List Nat) (shapes : List (List Nat))
  | mixed (sizes : List Nat) (shapes : List (List Nat)) (fromDtypes : List Nat) (to : Nat)
  deriving Repr, Inhabited

/-- `_ravel_leaves`; `to` is `result_type(*leaves)` as computed by the array library -/
def ravelLeaves (lib : ArrLib) (to : Nat) (leaves : List Arr) : Arr × Unravel :=
  if leaves.isEmpty then (⟨[0], lib.defaultDtype, []⟩, .empty)
  else
    let sizes := leaves.map Arr.size
    let shapes := leaves.map (·.shape)
    if leaves.all (·.dtype == to) then
      (⟨[sizes.sum], to, leaves.flatMap (·.data)⟩, .single sizes shapes)
    else
      (⟨[sizes.sum], to, leaves.flatMap fun a => a.data.map (lib.cast a.dtype to)⟩,
       .mixed sizes shapes (leaves.map (·.dtype)) to)

/-- the unravel function applied to a 1-D array `flat` -/
def unravel (lib : ArrLib) (u : Unravel) (flat : Arr) : Except Err (List Arr) :=
  match u with
  | .empty => if flat.shape != [0] then .error .value else .ok []
  | .single sizes shapes =>
      if flat.shape != [sizes.sum] then .error .value
      else .ok ((splitSizes sizes flat.data).zip shapes |>.map fun (d, s) => ⟨s, flat.dtype, d⟩)
  | .mixed sizes shapes froms to =>
      if flat.shape != [sizes.sum] then .error .value
      else if flat.dtype != to then .error .value
      else .ok (((splitSizes sizes flat.data).zip shapes).zip froms |>.map
              fun ((d, s), dt) => ⟨s, dt, d.map (lib.cast to dt)⟩)

end Optree
