/-
  The pure-Python twins of engine logic, modelled next to the engine's versions.

    cxxSort            include/optree/pytypes.h    TotalOrderSort (in-place list.sort with restore)
    pySort             optree/utils.py:27-61        total_order_sorted (sorted copies)
    cxxIsNamedTuple    include/optree/pytypes.h    IsNamedTupleClassImpl
    pyIsNamedTuple     optree/typing.py             is_namedtuple_class
    cxxIsStructSeq / pyIsStructSeq                  IsStructSequenceClassImpl / is_structseq_class
    pyOneLevel         optree/registry.py:666-800   the built-in flatten functions of the Python registry
    type cache         include/optree/pytypes.h    the memo tables keyed by type address + weakref eviction
-/
import OptreeModel.Model.Flatten

namespace Optree

/-! ### sorting -/

/-- `list.sort()` that raises leaves the list in an unspecified permuted state: `scr` -/
def failingSort (ok : Bool) (sorted scrambled : List Key) : Bool × List Key :=
  if ok then (true, sorted) else (false, scrambled)

/-- the engine's in-place algorithm; `restore` = whether the saved original order is written back
before the second attempt and after the final failure (translator T-sort) -/
def cxxSort (restore : Bool) (scr1 scr2 : List Key → List Key) (ks : List Key) : List Key :=
  let r1 := failingSort (stage1Ok ks) (sortBy Key.ltD ks) (scr1 ks)
  if r1.1 then r1.2
  else
    let cur := if restore then ks else r1.2
    let r2 := failingSort (stage2Ok cur) (sortBy Key.lt2 cur) (scr2 cur)
    if r2.1 then r2.2
    else if restore then ks else r2.2

/-- the Python twin works on copies -/
def pySort (ks : List Key) : List Key :=
  if stage1Ok ks then sortBy Key.ltD ks
  else if stage2Ok ks then sortBy Key.lt2 ks
  else ks

/-! ### class recognition -/

inductive FieldsAttr where
  | absent                       -- no `_fields` attribute
  | exactTuple (allStr : Bool)   -- a `tuple` (exactly) of … / not all `str`
  | tupleSubclass (allStr : Bool)
  | other
  deriving DecidableEq, Repr, Inhabited

inductive IntAttr where
  | absent | exactInt | intSubclass | other
  deriving DecidableEq, Repr, Inhabited

structure ClsDesc where
  isType : Bool
  tupleSubclass : Bool
  fields : FieldsAttr
  makeCallable : Bool
  asdictCallable : Bool
  basesIsTuple : Bool            -- `cls.__bases__ == (tuple,)`
  nFields : IntAttr
  nSequenceFields : IntAttr
  nUnnamedFields : IntAttr
  baseType : Bool                -- Py_TPFLAGS_BASETYPE
  deriving DecidableEq, Repr, Inhabited

def cxxIsNamedTuple (d : ClsDesc) : Bool :=
  d.isType && d.tupleSubclass && d.fields == .exactTuple true && d.makeCallable && d.asdictCallable

/-- `exactOnly` = the twin requires `_fields` to be exactly a tuple (translator T-twins) -/
def pyIsNamedTuple (exactOnly : Bool) (d : ClsDesc) : Bool :=
  d.isType && d.tupleSubclass &&
  (d.fields == .exactTuple true || (!exactOnly && d.fields == .tupleSubclass true)) &&
  d.makeCallable && d.asdictCallable

def cxxIsStructSeq (d : ClsDesc) : Bool :=
  d.isType && d.tupleSubclass && d.basesIsTuple && d.nFields == .exactInt &&
  d.nSequenceFields == .exactInt && d.nUnnamedFields == .exactInt && !d.baseType

/-- the Python twin accepts any `int` instance for the `n_*` attributes -/
def pyIsStructSeq (d : ClsDesc) : Bool :=
  d.isType && d.basesIsTuple &&
  (d.nFields == .exactInt || d.nFields == .intSubclass) &&
  (d.nSequenceFields == .exactInt || d.nSequenceFields == .intSubclass) &&
  (d.nUnnamedFields == .exactInt || d.nUnnamedFields == .intSubclass) && !d.baseType

/-- what Python can actually construct: a type whose only base is `tuple` is a tuple subclass, and
every class statement produces a type with `Py_TPFLAGS_BASETYPE` unless it is a C struct sequence,
whose `n_*` members are exact ints -/
def ClsDesc.realisable (d : ClsDesc) : Bool :=
  (!d.basesIsTuple || d.tupleSubclass) &&
  (d.baseType || (d.nFields == .exactInt && d.nSequenceFields == .exactInt && d.nUnnamedFields == .exactInt))

/-! ### one-level flattening through the Python registry -/

structure OneLevel where
  children : List PyObj
  data : NodeData
  entries : List Key
  kind : Kind
  deriving Inhabited

/-- `register_pytree_node.get(type(obj), namespace).flatten_func(obj)` for the built-in kinds
(`insertion` = the namespace is in insertion-ordered mode) -/
def pyOneLevel (insertion : Bool) : PyObj → Option OneLevel
  | .none => some ⟨[], .none, [], .none⟩
  | .tuple xs => some ⟨xs, .none, intEntries xs.length, .tuple⟩
  | .list xs => some ⟨xs, .none, intEntries xs.length, .list⟩
  | .dict kvs =>
      let items := if insertion then kvs else totalOrderSortOn (·.1) kvs
      some ⟨items.map (·.2), .keys (items.map (·.1)), items.map (·.1), .dict⟩
  | .odict kvs => some ⟨kvs.map (·.2), .keys (kvs.map (·.1)), kvs.map (·.1), .ordereddict⟩
  | .ddict f kvs =>
      let items := if insertion then kvs else totalOrderSortOn (·.1) kvs
      some ⟨items.map (·.2), .ddict f (items.map (·.1)), items.map (·.1), .defaultdict⟩
  | .deque m xs => some ⟨xs, .maxlen m, intEntries xs.length, .deque⟩
  | .ntuple c xs => some ⟨xs, .cls c, intEntries xs.length, .namedtuple⟩
  | .sseq c xs => some ⟨xs, .cls c, intEntries xs.length, .structseq⟩
  | _ => Option.none

/-- the engine's view of the same node: children in visiting order, node_data, default entries -/
def engineOneLevel (sorted : Bool) : PyObj → Option OneLevel
  | .none => some ⟨[], .none, [], .none⟩
  | .tuple xs => some ⟨xs, .none, intEntries xs.length, .tuple⟩
  | .list xs => some ⟨xs, .none, intEntries xs.length, .list⟩
  | .dict kvs =>
      let items := dictOrder false sorted kvs
      some ⟨items.map (·.2), .keys (items.map (·.1)), items.map (·.1), .dict⟩
  | .odict kvs =>
      let items := dictOrder true sorted kvs
      some ⟨items.map (·.2), .keys (items.map (·.1)), items.map (·.1), .ordereddict⟩
  | .ddict f kvs =>
      let items := dictOrder false sorted kvs
      some ⟨items.map (·.2), .ddict f (items.map (·.1)), items.map (·.1), .defaultdict⟩
  | .deque m xs => some ⟨xs, .maxlen m, intEntries xs.length, .deque⟩
  | .ntuple c xs => some ⟨xs, .cls c, intEntries xs.length, .namedtuple⟩
  | .sseq c xs => some ⟨xs, .cls c, intEntries xs.length, .structseq⟩
  | _ => Option.none

/-! ### the type caches -/

abbrev Addr := Nat

structure CacheState where
  live : List (Addr × Bool)       -- live type objects: address ↦ the uncached answer for that type
  cache : List (Addr × Bool)      -- memo table (entries carry a weakref callback that evicts them)
  cap : Nat
  deriving Repr, Inhabited

inductive CacheOp where
  | alloc (a : Addr) (answer : Bool)    -- a new class is created at address `a`
  | free (a : Addr)                     -- the class at `a` is garbage-collected
  | query (a : Addr)
  deriving Repr, Inhabited

def lookupA (a : Addr) (t : List (Addr × Bool)) : Option Bool :=
  (t.find? fun e => e.1 == a).map (·.2)

def cacheStep (s : CacheState) : CacheOp → CacheState × Option Bool
  | .alloc a ans =>
      if (lookupA a s.live).isSome then (s, Option.none)          -- address in use: cannot happen
      else ({ s with live := (a, ans) :: s.live }, Option.none)
  | .free a =>
      ({ s with live := s.live.filter (fun e => e.1 != a),
                cache := s.cache.filter (fun e => e.1 != a) }, Option.none)   -- weakref callback
  | .query a =>
      match lookupA a s.live with
      | Option.none => (s, Option.none)                              -- not a live type
      | some ans =>
          match lookupA a s.cache with
          | some v => (s, some v)
          | Option.none =>
              if s.cache.length < s.cap then ({ s with cache := (a, ans) :: s.cache }, some ans)
              else (s, some ans)

end Optree
