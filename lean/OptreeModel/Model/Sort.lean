/-
  Key ordering and `TotalOrderSort`.

  Source anchors:
    include/optree/pytypes.h:478-515   TotalOrderSort (engine)
    optree/utils.py:27-61              total_order_sorted (Python twin)

  CPython's `list.sort` is *specified* here, not modelled (DESIGN.md §3.2): on the key domain of the
  model comparability is an equivalence relation whose classes are strict weak orders, and a
  comparison sort must compare two elements that end up adjacent, so
    * stage 1 (`list.sort()`) raises `TypeError` iff two keys of the list are incomparable;
    * stage 2 (`list.sort(key = (qualname, obj))`) raises iff two keys with the same class tag are
      incomparable;
    * after both raise the documented result is the insertion order.
  This characterisation is validated on every run by the correspondence stream (`sort` op).
-/
import OptreeModel.Model.Basic

namespace Optree

/-- `f'{cls.__module__}.{cls.__qualname__}'` of the key's class. -/
def Key.tag : Key → String
  | .int _ => "builtins.int"
  | .str _ => "builtins.str"
  | .tup _ => "builtins.tuple"
  | .obj tag _ _ _ => tag

def lexLt : List Int → List Int → Bool
  | [], [] => false
  | [], _ :: _ => true
  | _ :: _, [] => false
  | a :: as, b :: bs => if a < b then true else if b < a then false else lexLt as bs

/-- Python `a < b`; `none` is `TypeError` ("'<' not supported between instances of …"). -/
def Key.lt? : Key → Key → Option Bool
  | .int a, .int b => some (decide (a < b))
  | .str a, .str b => some (decide (a < b))
  | .tup a, .tup b => some (lexLt a b)
  | .obj t true r _, .obj t' true r' _ => if t == t' then some (decide (r < r')) else Option.none
  | _, _ => Option.none

def Key.comparable (a b : Key) : Bool := (Key.lt? a b).isSome

def Key.ltD (a b : Key) : Bool := (Key.lt? a b).getD false

/-- comparison of the stage-2 sort keys `(tag, obj)`; only used when `stage2Ok`. -/
def Key.lt2 (a b : Key) : Bool :=
  if a.tag == b.tag then Key.ltD a b else decide (a.tag < b.tag)

/-- every element of `xs` satisfies `p x y` against every later element -/
def allPairs {α : Type} (p : α → α → Bool) : List α → Bool
  | [] => true
  | x :: xs => xs.all (p x) && allPairs p xs

def stage1Ok (ks : List Key) : Bool := allPairs Key.comparable ks

def stage2Ok (ks : List Key) : Bool :=
  allPairs (fun a b => a.tag != b.tag || Key.comparable a b) ks

/-- stable insertion: `x` goes before the first `y` that is not smaller than it -/
def insertBy {α : Type} (lt : α → α → Bool) (x : α) : List α → List α
  | [] => [x]
  | y :: ys => if lt y x then y :: insertBy lt x ys else x :: y :: ys

def sortBy {α : Type} (lt : α → α → Bool) : List α → List α
  | [] => []
  | x :: xs => insertBy lt x (sortBy lt xs)

/-- `TotalOrderSort` on items carrying their key. -/
def totalOrderSortOn {α : Type} (f : α → Key) (xs : List α) : List α :=
  let ks := xs.map f
  if stage1Ok ks then sortBy (fun a b => Key.ltD (f a) (f b)) xs
  else if stage2Ok ks then sortBy (fun a b => Key.lt2 (f a) (f b)) xs
  else xs

def totalOrderSort (ks : List Key) : List Key := totalOrderSortOn id ks

/-- Which stage produced the result: 1, 2, or 3 (insertion order). -/
def sortStage (ks : List Key) : Nat :=
  if stage1Ok ks then 1 else if stage2Ok ks then 2 else 3

end Optree
