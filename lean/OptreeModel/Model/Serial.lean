/-
  Rendering and pickling.

    toString              src/treespec/serialization.cpp:60-255   ToStringImpl
    toPickle / fromPickle src/treespec/serialization.cpp:291-419  ToPickleable / FromPickleable
-/
import OptreeModel.Model.Algebra

namespace Optree

/-- class names / field names of the universe (mirrors harness/universe.py) and `repr` of atoms -/
structure Names where
  ntName : TypeId → String
  ntFields : TypeId → List String
  ssName : TypeId → String            -- module-qualified, as `ToStringImpl` prints it
  ssFields : TypeId → List String
  userName : TypeId → String
  factoryRepr : Option Nat → String

def stdNames : Names where
  ntName := fun c => match c with
    | 0 => "Point" | 1 => "Triple" | 2 => "Empty" | 3 => "Single" | 4 => "PointSub" | _ => "?"
  ntFields := fun c => match c with
    | 0 => ["x", "y"] | 1 => ["a", "b", "c"] | 2 => [] | 3 => ["v"] | 4 => ["x", "y"] | _ => []
  ssName := fun c => match c with
    | 0 => "os.terminal_size" | 1 => "posix.times_result" | 2 => "time.struct_time"
    | 3 => "os.stat_result" | _ => "?"
  ssFields := fun c => match c with
    | 0 => ["columns", "lines"]
    | 1 => ["user", "system", "children_user", "children_system", "elapsed"]
    | 2 => ["tm_year", "tm_mon", "tm_mday", "tm_hour", "tm_min", "tm_sec", "tm_wday", "tm_yday",
            "tm_isdst"]
    | 3 => ["st_mode", "st_ino", "st_dev", "st_nlink", "st_uid", "st_gid", "st_size",
            "st_atime", "st_mtime", "st_ctime"]       -- what StructSequenceGetFields reports (C04 finding)
    | _ => []
  userName := fun c => s!"U{c}"
  factoryRepr := fun f => match f with
    | Option.none => "None" | some 0 => "<class 'int'>" | some 1 => "<class 'list'>"
    | some 2 => "<class 'dict'>" | some 3 => "fac3" | _ => "?"

/-- Python `repr` of a key / metadata atom of the universe (strings of the universe contain no
quotes or backslashes) -/
def Key.repr : Key → String
  | .int i => toString i
  | .str s => "'" ++ s ++ "'"
  | .tup [] => "()"
  | .tup [i] => "(" ++ toString i ++ ",)"
  | .tup is => "(" ++ ", ".intercalate (is.map toString) ++ ")"
  | .obj tag _ r u =>
      let name := (tag.splitOn ".").getLast!
      s!"{name}({r},{u})"

def optKeyRepr : Option Key → String
  | Option.none => "None"
  | some k => k.repr

def joinComma (xs : List String) : String := ", ".intercalate xs

/-- one step of `ToStringImpl`: render `node` given the strings of its children -/
def renderNode (names : Names) (node : Node) (cs : List String) : Except Err String :=
  let children := joinComma cs
  match node.kind with
  | .leaf => .ok "*"
  | .none => .ok "None"
  | .tuple => .ok ("(" ++ children ++ (if node.arity == 1 then "," else "") ++ ")")
  | .list => .ok ("[" ++ children ++ "]")
  | .dict | .ordereddict =>
      match node.data with
      | .keys ks =>
          if ks.length != node.arity then .error .internal
          else
            let body := joinComma ((ks.zip cs).map fun (k, c) => k.repr ++ ": " ++ c)
            let braces := node.kind == .dict || node.arity > 0
            let inner := (if braces then "{" else "") ++ body ++ (if braces then "}" else "")
            .ok (if node.kind == .ordereddict then "OrderedDict(" ++ inner ++ ")" else inner)
      | _ => .error .internal
  | .namedtuple =>
      match node.data with
      | .cls c =>
          let fields := names.ntFields c
          if fields.length != node.arity then .error .internal
          else .ok (names.ntName c ++ "(" ++
                    joinComma ((fields.zip cs).map fun (f, s) => f ++ "=" ++ s) ++ ")")
      | _ => .error .internal
  | .defaultdict =>
      match node.data with
      | .ddict f ks =>
          if ks.length != node.arity then .error .internal
          else .ok ("defaultdict(" ++ names.factoryRepr f ++ ", {" ++
                    joinComma ((ks.zip cs).map fun (k, c) => k.repr ++ ": " ++ c) ++ "})")
      | _ => .error .internal
  | .deque =>
      match node.data with
      | .maxlen m =>
          .ok ("deque([" ++ children ++ "]" ++
               (match m with | Option.none => "" | some n => ", maxlen=" ++ toString n) ++ ")")
      | _ => .error .internal
  | .structseq =>
      match node.data with
      | .cls c =>
          let fields := names.ssFields c
          if fields.length != node.arity then .error .internal
          else .ok (names.ssName c ++ "(" ++
                    joinComma ((fields.zip cs).map fun (f, s) => f ++ "=" ++ s) ++ ")")
      | _ => .error .internal
  | .custom =>
      match node.custom, node.data with
      | some r, .md m =>
          let name := match r.clsKind with
            | 1 => names.ntName r.cls
            | 2 => ((names.ssName r.cls).splitOn ".").getLast!
            | _ => names.userName r.cls
          .ok ("CustomTreeNode(" ++ name ++ "[" ++ optKeyRepr m ++ "], [" ++ children ++ "])")
      | _, _ => .error .internal

def toStringGo (names : Names) : List Node → List String → Except Err String
  | [], stack =>
      match stack with
      | [r] => .ok r
      | _ => .error .internal
  | node :: rest, stack =>
      if stack.length < node.arity then .error .internal
      else
        match renderNode names node (stack.take node.arity).reverse with
        | .error e => .error e
        | .ok s => toStringGo names rest (s :: stack.drop node.arity)

/-- `PyTreeSpec::ToString` -/
def toString (names : Names) (sp : Spec) : Except Err String :=
  if !sp.sane then .error .internal
  else
    match toStringGo names sp.nodes [] with
    | .error e => .error e
    | .ok body =>
        .ok ("PyTreeSpec(" ++ body ++ (if sp.noneIsLeaf then ", NoneIsLeaf" else "") ++
             (if sp.ns != "" then ", namespace='" ++ sp.ns ++ "'" else "") ++ ")")

/-! ### pickling -/

/-- one pickled node state: the 8-tuple of `ToPickleable`; `custom` is the *type* only -/
structure PNode where
  kind : Nat
  arity : Nat
  data : NodeData
  entries : Option (List Key)
  customType : Option (Nat × TypeId)
  numLeaves : Nat
  numNodes : Nat
  originalKeys : Option (List Key)
  deriving DecidableEq, Repr, Inhabited

structure Pickled where
  nodes : List PNode
  noneIsLeaf : Bool
  ns : String
  deriving DecidableEq, Repr, Inhabited

/-- `PyTreeSpec::ToPickleable` -/
def toPickle (sp : Spec) : Except Err Pickled :=
  if !sp.sane then .error .internal
  else .ok
    { nodes := sp.nodes.map fun n =>
        { kind := n.kind.toNat, arity := n.arity, data := n.data, entries := n.entries
          customType := n.custom.map fun r => (r.clsKind, r.cls)
          numLeaves := n.numLeaves, numNodes := n.numNodes, originalKeys := n.originalKeys }
      noneIsLeaf := sp.noneIsLeaf, ns := sp.ns }

/-- per-node part of `FromPickleable`, in the registry of the loading process -/
def fromPickleNode (reg : Registry) (ns : String) (p : PNode) : Except Err Node :=
  match Kind.ofNat? p.kind with
  | Option.none => .error .internal
  | some kind =>
    let okeysOk :=
      match p.originalKeys with
      | Option.none => !(kind == .dict || kind == .defaultdict)
      | some _ => kind == .dict || kind == .defaultdict
    if !okeysOk then .error .runtime
    else
      let dataOk :=
        match kind, p.data with
        | .leaf, .none | .none, .none | .tuple, .none | .list, .none => true
        | .dict, .keys _ | .ordereddict, .keys _ => true
        | .namedtuple, .cls _ | .structseq, .cls _ => true
        | .defaultdict, _ | .deque, _ | .custom, _ => true
        | _, _ => false
      if !dataOk then .error .runtime
      else if kind == .custom then
        match p.customType with
        | Option.none => .error .runtime
        | some (ck, cls) =>
            match reg.lookup ns ck cls with
            | Option.none => .error .runtime
            | some r =>
                .ok { kind, arity := p.arity, data := p.data, entries := p.entries, custom := some r,
                      numLeaves := p.numLeaves, numNodes := p.numNodes, originalKeys := p.originalKeys }
      else if p.entries.isSome || p.customType.isSome then .error .runtime
      else
        .ok { kind, arity := p.arity, data := p.data, entries := Option.none, custom := Option.none,
              numLeaves := p.numLeaves, numNodes := p.numNodes, originalKeys := p.originalKeys }

/-- `PyTreeSpec::FromPickleable` -/
def fromPickle (reg : Registry) (p : Pickled) : Except Err Spec :=
  match p.nodes.mapM (fromPickleNode reg p.ns) with
  | .error e => .error e
  | .ok nodes =>
      let sp : Spec := { nodes := nodes, noneIsLeaf := p.noneIsLeaf, ns := p.ns }
      if !sp.sane then .error .internal else .ok sp

end Optree
