/-
  `optree.prefix_errors` (optree/ops.py:3383-3568): the third implementation of the prefix relation,
  a Python recursion over the two *trees* (not over treespecs) built on `tree_is_leaf` and
  `tree_flatten_one_level`.  The model returns, in the order the generator yields them, the kind of every
  reported error with the entries of the accessor it is reported at; an exception raised on the way
  (by the predicate, by a malformed flatten function) propagates.
-/
import OptreeModel.Model.Compare

namespace Optree

/-- `type(x)`, as far as `is` on type objects can tell inside the model universe -/
inductive PyType where
  | leafT (ty : Nat) | noneT | tuple | list | dict | odict | ddict | deque
  | nt (cls : TypeId) | ss (cls : TypeId) | user (cls : TypeId)
  deriving DecidableEq, Repr, Inhabited

def PyObj.pyType : PyObj → PyType
  | .leaf ty _ => .leafT ty
  | .none => .noneT
  | .tuple _ => .tuple
  | .list _ => .list
  | .dict _ => .dict
  | .odict _ => .odict
  | .ddict _ _ => .ddict
  | .deque _ _ => .deque
  | .ntuple cls _ => .nt cls
  | .sseq cls _ => .ss cls
  | .user cls _ _ _ => .user cls

/-- `STANDARD_DICT_TYPES` -/
def PyType.isStdDict : PyType → Bool
  | .dict | .odict | .ddict => true
  | _ => false

inductive PErr where
  | types | keys | arity | metadata
  deriving DecidableEq, Repr, Inhabited

abbrev PErrs := List (PErr × List Key)

/-- `tree_flatten_one_level` on an instance of a registered class (ops.py:2546-2580): the checks Python
makes on what the flatten function returned, the metadata, and the entries the accessors are built from -/
def oneLevelCustom (reg : Reg) (x : PyObj) : Except Err (Nat × Option Key × List Key) :=
  let co := customOut reg x
  if co.numOut != 2 && co.numOut != 3 then .error .runtime
  else match co.children with
    | Option.none => .error .type_            -- `list(children)` on a non-iterable
    | some cs =>
      let n := cs.length
      if co.numOut == 3 then
        match co.entries with
        | .absent | .noneVal => .ok (n, co.md, intEntries n)
        | .nonIter => .error .type_
        | .tuple ks => if ks.length != n then .error .runtime else .ok (n, co.md, ks)
      else .ok (n, co.md, intEntries n)

/-- children of the sequence-like built-in kinds -/
def PyObj.seqKids : PyObj → Option (List PyObj)
  | .tuple xs | .list xs | .deque _ xs | .ntuple _ xs | .sseq _ xs | .user _ _ _ xs => some xs
  | _ => Option.none

def PyObj.isOdict : PyObj → Bool
  | .odict _ => true
  | _ => false

/-- run the results of the children one after the other: the first exception wins, otherwise the reported
errors are concatenated in order -/
def seqErrs : List (Except Err PErrs) → Except Err PErrs
  | [] => .ok []
  | .error e :: _ => .error e
  | .ok a :: rest =>
      match seqErrs rest with
      | .error e => .error e
      | .ok b => .ok (a ++ b)

mutual
/-- `helper(accessor, prefix_subtree, full_subtree)` -/
def prefixErrorsGo (cfg : Cfg) (sorted : Bool) (path : List Key) (p t : PyObj) : Except Err PErrs :=
  match cfg.evalPred p with
  | .error e => .error e
  | .ok true => .ok []
  | .ok false =>
    if (getKind cfg p).1 == .leaf then .ok []
    else if p.pyType != t.pyType && !(p.pyType.isStdDict && t.pyType.isStdDict) then .ok [(.types, path)]
    else
      let seqCase := fun (xs : List PyObj) (rs : List (Except Err PErrs)) =>
        match t.seqKids with
        | Option.none => Except.error Err.internal
        | some ys => if xs.length != ys.length then .ok [(PErr.arity, path)] else seqErrs rs
      let customCase := fun (reg : Reg) (rs : List Key → List (Except Err PErrs)) =>
        match oneLevelCustom reg p with
        | .error e => Except.error e
        | .ok (np, mdp, ep) =>
          match oneLevelCustom reg t with
          | .error e => .error e
          | .ok (nt, mdt, _) =>
            if np != nt then .ok [(PErr.arity, path)]
            else if mdp != mdt then .ok [(PErr.metadata, path)]
            else seqErrs (rs ep)
      let dictCase := fun (od : Bool) (kvs : List (Key × PyObj)) (rs : List (Key × Except Err PErrs)) =>
        match dictItems? t with
        | Option.none => Except.error Err.internal
        | some kvt =>
          let pkeys := (dictOrder od sorted kvs).map (·.1)
          if !keySetEq pkeys (kvt.map (·.1)) then .ok [(PErr.keys, path)]
          else seqErrs ((dictOrder od sorted rs).map (·.2))
      match p with
      | .leaf _ _ => .ok []
      | .none => .ok []
      | .tuple xs => seqCase xs (prefixErrorsList cfg sorted path (intEntries xs.length) xs (t.seqKids.getD []))
      | .list xs => seqCase xs (prefixErrorsList cfg sorted path (intEntries xs.length) xs (t.seqKids.getD []))
      | .deque _ xs => seqCase xs (prefixErrorsList cfg sorted path (intEntries xs.length) xs (t.seqKids.getD []))
      | .dict kvs => dictCase false kvs (prefixErrorsKVs cfg sorted path kvs ((dictItems? t).getD []))
      | .odict kvs => dictCase true kvs (prefixErrorsKVs cfg sorted path kvs ((dictItems? t).getD []))
      | .ddict _ kvs => dictCase false kvs (prefixErrorsKVs cfg sorted path kvs ((dictItems? t).getD []))
      | .ntuple cls xs =>
          match cfg.reg.lookup cfg.ns 1 cls with
          | some reg => customCase reg fun es => prefixErrorsList cfg sorted path es xs (t.seqKids.getD [])
          | Option.none =>
              seqCase xs (prefixErrorsList cfg sorted path (intEntries xs.length) xs (t.seqKids.getD []))
      | .sseq cls xs =>
          match cfg.reg.lookup cfg.ns 2 cls with
          | some reg => customCase reg fun es => prefixErrorsList cfg sorted path es xs (t.seqKids.getD [])
          | Option.none =>
              seqCase xs (prefixErrorsList cfg sorted path (intEntries xs.length) xs (t.seqKids.getD []))
      | .user cls _ _ xs =>
          match cfg.reg.lookup cfg.ns 0 cls with
          | some reg => customCase reg fun es => prefixErrorsList cfg sorted path es xs (t.seqKids.getD [])
          | Option.none => .ok []
/-- `zip(entries, prefix_children, full_children)` -/
def prefixErrorsList (cfg : Cfg) (sorted : Bool) (path : List Key) :
    List Key → List PyObj → List PyObj → List (Except Err PErrs)
  | e :: es, x :: xs, y :: ys =>
      prefixErrorsGo cfg sorted (path ++ [e]) x y :: prefixErrorsList cfg sorted path es xs ys
  | _, _, _ => []
/-- per item of the prefix dict: the result against `full_subtree[key]` -/
def prefixErrorsKVs (cfg : Cfg) (sorted : Bool) (path : List Key) :
    List (Key × PyObj) → List (Key × PyObj) → List (Key × Except Err PErrs)
  | [], _ => []
  | (k, x) :: rest, kvt =>
      (k, match lookupKey k kvt with
          | Option.none => .error .key
          | some y => prefixErrorsGo cfg sorted (path ++ [k]) x y) :: prefixErrorsKVs cfg sorted path rest kvt
end

/-- `optree.prefix_errors(prefix_tree, full_tree, is_leaf, none_is_leaf, namespace)` -/
def prefixErrors (cfg : Cfg) (p t : PyObj) : Except Err PErrs :=
  prefixErrorsGo cfg (!cfg.insertionOrdered) [] p t

end Optree
