/-
  The Python layer (`optree/ops.py`), line by line on top of the engine model.

    treeMap*            ops.py:712-1021    tree_map, tree_map_, …_with_path(_), …_with_accessor(_)
    treeReplaceNones    ops.py:1024-1050
    treeTranspose       ops.py:1053-1128
    treeTransposeMap*   ops.py:1131-1422
    treeBroadcastPrefix / broadcastPrefix / treeBroadcastCommon / treeBroadcastMap   ops.py:1425-2042

  User functions are pure model functions receiving the call index (so that "fresh result objects"
  can be modelled) and the argument list; the list of argument lists is the *call log*.
-/
import OptreeModel.Model.Serial

namespace Optree

/-- one positional argument of a mapped call -/
inductive Arg where
  | obj (x : PyObj)
  | path (p : List Key)
  | acc (a : List AccEntry)
  deriving Inhabited

abbrev UserFn := Nat → List Arg → Except Err PyObj

inductive MapVariant where
  | plain | withPath | withAccessor
  deriving DecidableEq, Repr, Inhabited

/-- `zip(*lists)` of Python: stops at the shortest -/
def zipArgs : List (List PyObj) → List (List PyObj)
  | [] => []
  | ls =>
      let n := (ls.map List.length).foldl min (ls.head!.length)
      (List.range n).map fun i => ls.map fun l => l[i]!

/-- call `f` on each argument tuple in order; the first error stops the loop.  Returns the results
and the log of the calls made (including the failing one). -/
def callAll (f : UserFn) : Nat → List (List Arg) → List PyObj → List (List Arg) →
    Except Err (List PyObj) × List (List Arg)
  | _, [], acc, log => (.ok acc.reverse, log.reverse)
  | i, a :: as, acc, log =>
      match f i a with
      | .error e => (.error e, (a :: log).reverse)
      | .ok r => callAll f (i + 1) as (r :: acc) (a :: log)

structure MapOut where
  result : Except Err PyObj
  log : List (List Arg)

/-- common body of the six `tree_map*` functions; `inplace` = the underscore variants -/
def treeMapGen (cfg : Cfg) (variant : MapVariant) (inplace : Bool) (f : UserFn) (t : PyObj)
    (rests : List PyObj) : MapOut :=
  -- 1. flatten the first tree (with paths for the with_path variant)
  let first : Except Err (List (List Arg) × List PyObj × Spec) :=
    match variant with
    | .plain =>
        match flatten cfg t with
        | .error e => .error e
        | .ok (ls, sp) => .ok (ls.map fun _ => [], ls, sp)
    | .withPath =>
        match flattenWithPath cfg t with
        | .error e => .error e
        | .ok (ps, ls, sp) => .ok (ps.map fun p => [Arg.path p], ls, sp)
    | .withAccessor =>
        match flatten cfg t with
        | .error e => .error e
        | .ok (ls, sp) => .ok (ls.map fun _ => [], ls, sp)
  match first with
  | .error e => ⟨.error e, []⟩
  | .ok (extra, leaves, sp) =>
    -- 2. flatten_up_to for every rest, in order (any failure before `f` is called at all)
    let restsFlat : Except Err (List (List PyObj)) := rests.mapM (flattenUpTo cfg.reg sp)
    match restsFlat with
    | .error e => ⟨.error e, []⟩
    | .ok restLeaves =>
      -- 3. accessors are computed after the rests are matched (ops.py:971-977)
      let extra' : Except Err (List (List Arg)) :=
        match variant with
        | .withAccessor =>
            match accessors sp with
            | .error e => .error e
            | .ok as => .ok (as.map fun a => [Arg.acc a])
        | _ => .ok extra
      match extra' with
      | .error e => ⟨.error e, []⟩
      | .ok ex =>
        let cols := zipArgs (leaves :: restLeaves)
        let n := min ex.length cols.length
        let args := (List.range n).map fun i => ex[i]! ++ (cols[i]!).map Arg.obj
        let (res, log) := callAll f 0 args [] []
        match res with
        | .error e => ⟨.error e, log⟩
        | .ok rs =>
            if inplace then ⟨.ok t, log⟩
            else ⟨unflatten sp rs, log⟩

/-- `tree_replace_nones` -/
def treeReplaceNones (cfg : Cfg) (sentinel : PyObj) (t : PyObj) : Except Err PyObj :=
  match t with
  | .none => .ok sentinel
  | _ =>
    let cfg' := { cfg with noneIsLeaf := true, pred := Option.none }
    (treeMapGen cfg' .plain false
      (fun _ a => match a with
        | [Arg.obj .none] => .ok sentinel
        | [Arg.obj x] => .ok x
        | _ => .error .internal) t []).result

/-- split `xs` into consecutive chunks of `n` -/
def chunks (n : Nat) : Nat → List PyObj → List (List PyObj)
  | 0, _ => []
  | k + 1, xs => xs.take n :: chunks n k (xs.drop n)

/-- `zip(*rows)` -/
def transposeRows (rows : List (List PyObj)) : List (List PyObj) := zipArgs rows

/-- `tree_transpose` -/
def treeTranspose (cfg0 : Cfg) (outer inner : Spec) (t : PyObj) : Except Err PyObj :=
  if outer.noneIsLeaf != inner.noneIsLeaf then .error .value
  else if !outer.sane || !inner.sane then .error .internal
  else
    let m := outer.numLeaves
    let n := inner.numLeaves
    if m == 0 || n == 0 then .error .value
    else if outer.ns != "" && inner.ns != "" && outer.ns != inner.ns then .error .value
    else
      let cfg := { cfg0 with noneIsLeaf := outer.noneIsLeaf, ns := if outer.ns != "" then outer.ns else inner.ns }
      match flatten cfg t with
      | .error e => .error e
      | .ok (leaves, sp) =>
          if sp.numLeaves != m * n then
            -- the message renders `outer.compose(inner)`: an error there propagates instead
            match compose outer inner with
            | .error e => .error e
            | .ok _ => .error .type_
          else
            let grouped := chunks n m leaves
            let transposed := transposeRows grouped
            match transposed.mapM (unflatten outer) with
            | .error e => .error e
            | .ok subtrees => unflatten inner subtrees

/-- `tree_transpose_map` / `tree_transpose_map_with_path` -/
def treeTransposeMap (cfg : Cfg) (variant : MapVariant) (f : UserFn) (t : PyObj) (rests : List PyObj)
    (innerGiven : Option Spec) : MapOut :=
  let first : Except Err (List (List Arg) × List PyObj × Spec) :=
    match variant with
    | .withPath =>
        match flattenWithPath cfg t with
        | .error e => .error e
        | .ok (ps, ls, sp) => .ok (ps.map fun p => [Arg.path p], ls, sp)
    | _ =>
        match flatten cfg t with
        | .error e => .error e
        | .ok (ls, sp) => .ok (ls.map fun _ => [], ls, sp)
  match first with
  | .error e => ⟨.error e, []⟩
  | .ok (extra, leaves, outer) =>
    if outer.numLeaves == 0 then ⟨.error .value, []⟩
    else
    match rests.mapM (flattenUpTo cfg.reg outer) with
    | .error e => ⟨.error e, []⟩
    | .ok restLeaves =>
      let extra' : Except Err (List (List Arg)) :=
        match variant with
        | .withAccessor =>
            match accessors outer with
            | .error e => .error e
            | .ok as => .ok (as.map fun a => [Arg.acc a])
        | _ => .ok extra
      match extra' with
      | .error e => ⟨.error e, []⟩
      | .ok ex =>
        let cols := zipArgs (leaves :: restLeaves)
        let n := min ex.length cols.length
        let args := (List.range n).map fun i => ex[i]! ++ (cols[i]!).map Arg.obj
        let (res, log) := callAll f 0 args [] []
        match res with
        | .error e => ⟨.error e, log⟩
        | .ok outputs =>
          let innerR : Except Err Spec :=
            match innerGiven with
            | some s => .ok s
            | Option.none =>
                match outputs with
                | [] => .error .index
                | o :: _ =>
                    match flatten cfg o with
                    | .error e => .error e
                    | .ok (_, s) => .ok s
          match innerR with
          | .error e => ⟨.error e, log⟩
          | .ok inner =>
            if !inner.sane then ⟨.error .internal, log⟩
            else if inner.numLeaves == 0 then ⟨.error .value, log⟩
            else
              match outputs.mapM (flattenUpTo cfg.reg inner) with
              | .error e => ⟨.error e, log⟩
              | .ok grouped =>
                  let transposed := transposeRows grouped
                  match transposed.mapM (unflatten outer) with
                  | .error e => ⟨.error e, log⟩
                  | .ok subtrees => ⟨unflatten inner subtrees, log⟩

/-- the `broadcast_leaves` closure: a tree shaped like `subtree` with every leaf `x` -/
def broadcastLeaves (cfg : Cfg) (x : PyObj) (subtree : PyObj) : Except Err PyObj :=
  match flatten cfg subtree with
  | .error e => .error e
  | .ok (_, sp) => unflatten sp (List.replicate sp.numLeaves x)

/-- `tree_broadcast_prefix` -/
def treeBroadcastPrefix (cfg : Cfg) (pre full : PyObj) : Except Err PyObj :=
  (treeMapGen cfg .plain false
    (fun _ a => match a with
      | [Arg.obj x, Arg.obj sub] => broadcastLeaves cfg x sub
      | _ => .error .internal) pre [full]).result

/-- `broadcast_prefix` -/
def broadcastPrefix (cfg : Cfg) (pre full : PyObj) : Except Err (List PyObj) :=
  match flatten cfg pre with
  | .error e => .error e
  | .ok (leaves, sp) =>
    match flattenUpTo cfg.reg sp full with
    | .error e => .error e
    | .ok subs =>
        let rec go : List PyObj → List PyObj → List PyObj → Except Err (List PyObj)
          | x :: xs, s :: ss, acc =>
              match flatten cfg s with
              | .error e => .error e
              | .ok (_, ssp) => go xs ss (acc ++ List.replicate ssp.numLeaves x)
          | _, _, acc => .ok acc
        go leaves subs []

/-- `tree_broadcast_common` -/
def treeBroadcastCommon (cfg : Cfg) (a b : PyObj) : Except Err (PyObj × PyObj) :=
  match flatten cfg a with
  | .error e => .error e
  | .ok (la, sa) =>
  match flatten cfg b with
  | .error e => .error e
  | .ok (lb, sb) =>
  match broadcast sa sb with
  | .error e => .error e
  | .ok common =>
    let sentinel := PyObj.leaf 0 999999999
    match unflatten common (List.replicate common.numLeaves sentinel) with
    | .error e => .error e
    | .ok ctree =>
      let side := fun (leaves : List PyObj) (sp : Spec) =>
        match flattenUpTo cfg.reg sp ctree with
        | .error e => Except.error e
        | .ok subs =>
            match (leaves.zip subs).mapM (fun (x, s) => broadcastLeaves cfg x s) with
            | .error e => Except.error e
            | .ok parts => unflatten sp parts
      match side la sa, side lb sb with
      | .error e, _ => .error e
      | _, .error e => .error e
      | .ok ta, .ok tb => .ok (ta, tb)

/-- `_tree_broadcast_common` (two passes over the rests) -/
def treeBroadcastCommonN (cfg : Cfg) (t : PyObj) (rests : List PyObj) : Except Err (List PyObj) :=
  match rests with
  | [] => .ok [t]
  | [r] =>
      match treeBroadcastCommon cfg t r with
      | .error e => .error e
      | .ok (a, b) => .ok [a, b]
  | _ =>
      let pass := fun (st : PyObj × List PyObj) =>
        -- `for i, rest in enumerate(rests)`: note that the *original* rests are re-read in both passes
        (List.range rests.length).foldlM (fun (acc : PyObj × List PyObj) i =>
          match treeBroadcastCommon cfg acc.1 (rests[i]!) with
          | .error e => Except.error e
          | .ok (a, b) => Except.ok (a, acc.2.set i b)) st
      match pass (t, rests) with
      | .error e => .error e
      | .ok st1 =>
          match pass st1 with
          | .error e => .error e
          | .ok (bt, brs) => .ok (bt :: brs)

/-- `tree_broadcast_map` -/
def treeBroadcastMap (cfg : Cfg) (variant : MapVariant) (f : UserFn) (t : PyObj) (rests : List PyObj) :
    MapOut :=
  match treeBroadcastCommonN cfg t rests with
  | .error e => ⟨.error e, []⟩
  | .ok [] => ⟨.error .internal, []⟩
  | .ok (bt :: brs) => treeMapGen cfg variant false f bt brs

end Optree
