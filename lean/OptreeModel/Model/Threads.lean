/-
  Threads under the GIL (C17).

  One thread runs at a time.  The running thread keeps the GIL until it enters user code (`cb`: a
  callback the engine invokes; the interpreter may switch threads there — Python-level locks are
  acquired by Python code, i.e. inside callbacks) or finishes.  Engine mutexes (`std::mutex`,
  `std::shared_mutex` in registry.cpp, pytypes.h, hashing.cpp, serialization.cpp, treespec.h) are
  different: a thread that blocks on one keeps the GIL while it waits, so nobody else can run.

  `ThreadProg` is what harness/extract/locks.py reads from the source for every operation: the
  sequence of engine-lock acquisitions / releases and re-entries into Python.
-/
import OptreeModel.Model.Basic

namespace Optree

inductive Act where
  | acqE (l : Nat)      -- lock an engine mutex (blocks holding the GIL)
  | relE (l : Nat)
  | cb                  -- user code runs; the GIL may be handed to another thread
  | step                -- anything else
  deriving Repr, DecidableEq

abbrev ThreadProg := List Act

structure TState where
  n : Nat                         -- threads 0 .. n-1
  progs : Nat → ThreadProg        -- remaining program of every thread
  held : Nat → List Nat           -- engine locks each thread holds
  running : Nat                   -- the thread that has the GIL

def upd {α : Type} (f : Nat → α) (t : Nat) (v : α) : Nat → α := fun i => if i = t then v else f i

inductive TOut where
  | next (s : TState)
  | stuck                          -- the running thread waits for an engine mutex while holding the GIL
  deriving Inhabited

/-- one step of the running thread; `choice` is the scheduler's pick at a switch point -/
def tstep (s : TState) (choice : Nat) : TOut :=
  let t := s.running
  match s.progs t with
  | [] => .next { s with running := choice }                 -- finished: somebody else runs
  | .acqE l :: rest =>
      if l ∈ s.held t then .stuck                            -- non-recursive mutex, locked twice
      else if (List.range s.n).any (fun t' => t' != t && (s.held t').contains l) then .stuck
      else .next { s with progs := upd s.progs t rest, held := upd s.held t (l :: s.held t) }
  | .relE l :: rest =>
      .next { s with progs := upd s.progs t rest, held := upd s.held t ((s.held t).erase l) }
  | .cb :: rest => .next { s with progs := upd s.progs t rest, running := choice }
  | .step :: rest => .next { s with progs := upd s.progs t rest }

/-- follow a schedule; `none` = a stuck state was reached -/
def trun (s : TState) : List Nat → Option TState
  | [] => some s
  | c :: cs =>
      match tstep s c with
      | .stuck => Option.none
      | .next s' => trun s' cs

/-- the discipline: no user code while an engine mutex is held, no mutex locked twice, all released -/
def okProg : List Nat → ThreadProg → Bool
  | held, [] => held.isEmpty
  | held, .acqE l :: r => !held.contains l && okProg (l :: held) r
  | held, .relE l :: r => held.contains l && okProg (held.erase l) r
  | held, .cb :: r => held.isEmpty && okProg [] r
  | held, .step :: r => okProg held r

/-! ### a shared leaf iterator (`PyTreeIter`, traversal.cpp)

`next()` pops the agenda until it finds a leaf; for every popped node it first calls `is_leaf` — a
switch point — and only then pushes the children.  Several consumers may be inside `next()` at once,
each holding the node it popped. -/

inductive ITree where
  | leaf (n : Nat)
  | node (children : List ITree)
  deriving Repr

mutual
def ITree.leaves : ITree → List Nat
  | .leaf n => [n]
  | .node cs => ITree.leavesList cs
def ITree.leavesList : List ITree → List Nat
  | [] => []
  | c :: cs => c.leaves ++ ITree.leavesList cs
end

structure IterState where
  agenda : List ITree                 -- top first
  inflight : Nat → Option ITree       -- consumer ↦ the node it popped and is calling `is_leaf` on
  delivered : List (Nat × Nat)        -- (consumer, leaf) in delivery order

/-- consumer `c` makes one atomic move: pop a node (if it holds none), or finish handling the node it
holds (deliver a leaf / push the children of an internal node) -/
def istep (s : IterState) (c : Nat) : IterState :=
  match s.inflight c with
  | Option.none =>
      match s.agenda with
      | [] => s
      | x :: rest => { s with agenda := rest, inflight := upd s.inflight c (some x) }
  | some (.leaf n) =>
      { s with inflight := upd s.inflight c Option.none, delivered := s.delivered ++ [(c, n)] }
  | some (.node cs) =>
      { s with inflight := upd s.inflight c Option.none, agenda := cs ++ s.agenda }

def irun (s : IterState) (schedule : List Nat) : IterState := schedule.foldl istep s

end Optree
