/-
  Rebuilding trees from a node array.

    makeNode    src/treespec/treespec.cpp:33-126    PyTreeSpec::MakeNode
    unflatten   src/treespec/unflatten.cpp          UnflattenImpl / Unflatten
    walk        src/treespec/traversal.cpp:177-251  WalkImpl<PassRawNode> (Traverse / Walk)
-/
import OptreeModel.Model.Flatten

namespace Optree

/-- `dict[key] = value` on an insertion-ordered association list -/
def dictSet {α : Type} (k : Key) (v : α) : List (Key × α) → List (Key × α)
  | [] => [(k, v)]
  | (k', v') :: rest => if k' == k then (k', v) :: rest else (k', v') :: dictSet k v rest

def dictSetMany {α : Type} : List (Key × α) → List (Key × α) → List (Key × α)
  | d, [] => d
  | d, (k, v) :: kvs => dictSetMany (dictSet k v d) kvs

/-- the dict built by `MakeNode`: pre-seeded with the original keys (value `None`, modelled by a
placeholder that is always overwritten), then filled key by key -/
def dictBuild (okeys : Option (List Key)) (keys : List Key) (children : List PyObj) :
    List (Key × PyObj) :=
  let seed : List (Key × PyObj) :=
    match okeys with
    | some oks => dictSetMany [] (oks.map fun k => (k, PyObj.none))
    | Option.none => []
  dictSetMany seed (keys.zip children)

/-- `collections.deque(xs, maxlen=m)` keeps the last `m` items -/
def mkDeque (m : Option Nat) (xs : List PyObj) : PyObj :=
  match m with
  | Option.none => .deque m xs
  | some n => .deque m (xs.drop (xs.length - n))

/-- the registered unflatten function -/
def customUnflatten (reg : Reg) (md : Option Key) (children : List PyObj) : PyObj :=
  match reg.clsKind with
  | 1 => .ntuple reg.cls children
  | 2 => .sseq reg.cls children
  | _ => .user reg.cls md .ok children

/-- `PyTreeSpec::MakeNode` -/
def makeNode (node : Node) (children : List PyObj) : Except Err PyObj :=
  if children.length != node.arity then .error .internal
  else match node.kind with
  | .leaf => .error .internal
  | .none => .ok .none
  | .tuple => .ok (.tuple children)
  | .namedtuple =>
      match node.data with
      | .cls c => .ok (.ntuple c children)
      | _ => .error .internal
  | .structseq =>
      match node.data with
      | .cls c => .ok (.sseq c children)
      | _ => .error .internal
  | .list => .ok (.list children)
  | .deque =>
      match node.data with
      | .maxlen m => .ok (mkDeque m children)
      | _ => .error .internal
  | .dict =>
      match node.data with
      | .keys ks => .ok (.dict (dictBuild node.originalKeys ks children))
      | _ => .error .internal
  | .ordereddict =>
      match node.data with
      | .keys ks => .ok (.odict (dictBuild node.originalKeys ks children))
      | _ => .error .internal
  | .defaultdict =>
      match node.data with
      | .ddict f ks => .ok (.ddict f (dictBuild node.originalKeys ks children))
      | _ => .error .internal
  | .custom =>
      match node.custom, node.data with
      | some reg, .md m => .ok (customUnflatten reg m children)
      | _, _ => .error .internal

/-- `UnflattenImpl`: left-to-right stack machine; the stack's head is the top -/
def unflattenGo : List Node → List PyObj → List PyObj → Except Err PyObj
  | [], leaves, stack =>
      if !leaves.isEmpty then .error .value            -- "Too many leaves"
      else match stack with
        | [r] => .ok r
        | _ => .error .internal
  | node :: rest, leaves, stack =>
      if stack.length < node.arity then .error .internal
      else match node.kind with
      | .leaf =>
          match leaves with
          | [] => .error .value                          -- "Too few leaves"
          | l :: ls => unflattenGo rest ls (l :: stack)
      | _ =>
          match makeNode node (stack.take node.arity).reverse with
          | .error e => .error e
          | .ok out => unflattenGo rest leaves (out :: stack.drop node.arity)

/-- `PYTREESPEC_SANITY_CHECK` -/
def Spec.sane (sp : Spec) : Bool :=
  match sp.nodes.getLast? with
  | Option.none => false
  | some root => root.numNodes == sp.nodes.length

def Spec.numLeaves (sp : Spec) : Nat := (sp.nodes.getLast?.map (·.numLeaves)).getD 0
def Spec.numNodes (sp : Spec) : Nat := sp.nodes.length
def Spec.numChildren (sp : Spec) : Nat := (sp.nodes.getLast?.map (·.arity)).getD 0

/-- `PyTreeSpec::Unflatten` -/
def unflatten (sp : Spec) (leaves : List PyObj) : Except Err PyObj :=
  if !sp.sane then .error .internal else unflattenGo sp.nodes leaves []

/-! ### walk / traverse -/

/-- what `GetType(node)` returns -/
inductive TypeRef where
  | noneT                                   -- `None` for leaves
  | builtin (k : Kind)
  | nt (cls : TypeId) | ss (cls : TypeId)
  | cust (clsKind : Nat) (cls : TypeId)
  deriving DecidableEq, Repr, Inhabited

def Node.typeRef (n : Node) : Except Err TypeRef :=
  match n.kind with
  | .custom =>
      match n.custom with
      | some r => .ok (.cust r.clsKind r.cls)
      | Option.none => .error .internal
  | .leaf => .ok .noneT
  | .namedtuple =>
      match n.data with
      | .cls c => .ok (.nt c)
      | _ => .error .internal
  | .structseq =>
      match n.data with
      | .cls c => .ok (.ss c)
      | _ => .error .internal
  | k => .ok (.builtin k)

/-- `WalkImpl<PassRawNode>`.  `fLeaf` / `fNode` are the user functions (identity when absent);
`fRaw` receives `(node_type, node_data, children)` when `passRaw` and a node function is given. -/
def walkGo (passRaw : Bool) (fLeaf : Option (PyObj → Except Err PyObj))
    (fNode : Option (PyObj → Except Err PyObj))
    (fRaw : Option (TypeRef → NodeData → List PyObj → Except Err PyObj)) :
    List Node → List PyObj → List PyObj → Except Err PyObj
  | [], leaves, stack =>
      if !leaves.isEmpty then .error .value
      else match stack with
        | [r] => .ok r
        | _ => .error .internal
  | node :: rest, leaves, stack =>
      match node.kind with
      | .leaf =>
          match leaves with
          | [] => .error .value
          | l :: ls =>
              match fLeaf with
              | Option.none => walkGo passRaw fLeaf fNode fRaw rest ls (l :: stack)
              | some f =>
                  match f l with
                  | .error e => .error e
                  | .ok v => walkGo passRaw fLeaf fNode fRaw rest ls (v :: stack)
      | _ =>
          if stack.length < node.arity then .error .internal
          else
            let children := (stack.take node.arity).reverse
            let stack' := stack.drop node.arity
            match passRaw, fRaw with
            | true, some g =>
                match node.typeRef with
                | .error e => .error e
                | .ok ty =>
                  match g ty node.data children with
                  | .error e => .error e
                  | .ok v => walkGo passRaw fLeaf fNode fRaw rest leaves (v :: stack')
            | _, _ =>
                match makeNode node children with
                | .error e => .error e
                | .ok out =>
                    match fNode with
                    | Option.none => walkGo passRaw fLeaf fNode fRaw rest leaves (out :: stack')
                    | some f =>
                        match f out with
                        | .error e => .error e
                        | .ok v => walkGo passRaw fLeaf fNode fRaw rest leaves (v :: stack')

end Optree
