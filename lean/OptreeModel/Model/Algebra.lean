/-
  Operations that build treespecs from treespecs.

    compose             src/treespec/treespec.cpp:573-624   PyTreeSpec::Compose
    transform           src/treespec/treespec.cpp:453-571   PyTreeSpec::Transform
    broadcast           src/treespec/treespec.cpp:184-450   BroadcastToCommonSuffix(Impl)
    makeLeaf / makeNone / makeFromCollection   src/treespec/constructor.cpp
-/
import OptreeModel.Model.Compare

namespace Optree

/-- how two namespaces combine (`other` wins when non-empty) -/
def mergeNs (mine other : String) : String := if other == "" then mine else other

/-! ### compose -/

/-- `PyTreeSpec::Compose` -/
def compose (outer inner : Spec) : Except Err Spec :=
  if !outer.sane || !inner.sane then .error .internal
  else if outer.noneIsLeaf != inner.noneIsLeaf then .error .value
  else if !nsCompatible outer.ns inner.ns then .error .value
  else
    let nil := inner.numLeaves
    let nin := inner.numNodes
    let nodes := outer.nodes.flatMap fun n =>
      if n.kind == .leaf then inner.nodes
      else [{ n with numLeaves := n.numLeaves * nil,
                     numNodes := (n.numNodes - n.numLeaves) + n.numLeaves * nin }]
    let out : Spec := { nodes := nodes, noneIsLeaf := outer.noneIsLeaf, ns := mergeNs outer.ns inner.ns }
    match nodes.getLast? with
    | Option.none => .error .internal
    | some root =>
        if root.numLeaves != outer.numLeaves * nil then .error .internal
        else if root.numNodes != (outer.numNodes - outer.numLeaves) + outer.numLeaves * nin then
          .error .internal
        else if !out.sane then .error .internal
        else .ok out

/-! ### transform -/

structure TransformState where
  nodes : List Node                       -- output so far
  ns : String                             -- common namespace
  pending : List (Nat × Nat)              -- stack (top first) of (num_leaves, num_nodes)
  extraLeaves : Int
  extraNodes : Int

/-- pop `n` entries, summing them -/
def popSum : Nat → List (Nat × Nat) → Option ((Nat × Nat) × List (Nat × Nat))
  | 0, st => some ((0, 0), st)
  | n + 1, [] => Option.none
  | n + 1, (l, m) :: st =>
      match popSum n st with
      | Option.none => Option.none
      | some ((l', m'), st') => some ((l + l', m + m'), st')

/-- one iteration of `Transform`'s loop -/
def transformStep (sp : Spec) (fNode fLeaf : Option (Spec → Except Err Spec))
    (st : TransformState) (node : Node) : Except Err TransformState :=
  let nodespec := oneLevelOf sp node
  let func := if node.kind == .leaf then fLeaf else fNode
  let transformed : Except Err Spec :=
    match func with
    | Option.none => .ok nodespec
    | some f => f nodespec
  match transformed with
  | .error e => .error e
  | .ok tr =>
    if tr.noneIsLeaf != sp.noneIsLeaf then .error .value
    else
      let nsr : Except Err String :=
        if tr.ns != "" then
          if st.ns == "" then .ok tr.ns
          else if tr.ns != st.ns then .error .value
          else .ok st.ns
        else .ok st.ns
      match nsr with
      | .error e => .error e
      | .ok ns' =>
        if node.kind != .leaf then
          if tr.numLeaves != node.arity then .error .value
          else if tr.numNodes != node.arity + 1 then .error .value
          else
            match tr.nodes.getLast? with
            | Option.none => .error .internal
            | some subroot =>
              match popSum node.arity st.pending with
              | Option.none => .error .internal
              | some ((l, m), pend) =>
                  .ok { st with nodes := st.nodes ++ [{ subroot with numLeaves := l, numNodes := m + 1 }]
                                ns := ns'
                                pending := (l, m + 1) :: pend }
        else
          if !tr.sane then .error .internal
          else
            .ok { nodes := st.nodes ++ tr.nodes, ns := ns'
                  pending := (tr.numLeaves, tr.numNodes) :: st.pending
                  extraLeaves := st.extraLeaves + (tr.numLeaves : Int) - 1
                  extraNodes := st.extraNodes + (tr.numNodes : Int) - 1 }

def transformLoop (sp : Spec) (fNode fLeaf : Option (Spec → Except Err Spec)) :
    TransformState → List Node → Except Err TransformState
  | st, [] => .ok st
  | st, n :: ns =>
      match transformStep sp fNode fLeaf st n with
      | .error e => .error e
      | .ok st' => transformLoop sp fNode fLeaf st' ns

/-- `PyTreeSpec::Transform` -/
def transform (sp : Spec) (fNode fLeaf : Option (Spec → Except Err Spec)) : Except Err Spec :=
  if !sp.sane then .error .internal
  else if fNode.isNone && fLeaf.isNone then .ok sp
  else
    match transformLoop sp fNode fLeaf ⟨[], sp.ns, [], 0, 0⟩ sp.nodes with
    | .error e => .error e
    | .ok st =>
      if st.pending.length != 1 then .error .internal
      else
        let out : Spec := { nodes := st.nodes, noneIsLeaf := sp.noneIsLeaf, ns := st.ns }
        match st.nodes.getLast? with
        | Option.none => .error .internal
        | some root =>
            if (root.numLeaves : Int) != (sp.numLeaves : Int) + st.extraLeaves then .error .internal
            else if (root.numNodes : Int) != (sp.numNodes : Int) + st.extraNodes then .error .internal
            else if !out.sane then .error .internal
            else .ok out

/-! ### broadcast to common suffix -/

/-- a node position in the post-order array, as the C++ uses them (may run below 0) -/
abbrev Pos := Int

def nodeAt (nodes : List Node) (p : Pos) : Except Err Node :=
  if p < 0 then .error .index
  else match nodes[p.toNat]? with
    | some n => .ok n
    | Option.none => .error .index

/-- the `num` nodes ending at position `p`, last first (the `std::copy(crend() - (p+1), …)` idiom) -/
def copyRev (nodes : List Node) (p : Pos) (num : Nat) : List Node :=
  ((nodes.take (p.toNat + 1)).drop (p.toNat + 1 - num)).reverse

structure BRes where
  walked : Int
  otherWalked : Int
  newNodes : Nat
  newLeaves : Nat

/-- positions of the `arity` children of the node whose last child ends at `cur` (child 0 first) -/
def childCursors (nodes : List Node) : Nat → Pos → List Pos → Except Err (List Pos × Pos)
  | 0, cur, acc => .ok (acc, cur)
  | n + 1, cur, acc =>
      match nodeAt nodes cur with
      | .error e => .error e
      | .ok c => childCursors nodes n (cur - c.numNodes) (cur :: acc)

mutual
/-- `BroadcastToCommonSuffixImpl`; `out` accumulates the new nodes in *reverse* post-order -/
def broadcastGo : Nat → List Node → Pos → List Node → Pos → List Node →
    Except Err (BRes × List Node)
  | 0, _, _, _, _, _ => .error .internal
  | fuel + 1, tr, pos, otr, opos, out =>
    match nodeAt tr pos, nodeAt otr opos with
    | .error e, _ => .error e
    | _, .error e => .error e
    | .ok root, .ok oroot =>
      if pos + 1 < root.numNodes || opos + 1 < oroot.numNodes then .error .internal
      else if root.kind == .leaf then
        .ok (⟨1, oroot.numNodes, oroot.numNodes, oroot.numLeaves⟩, out ++ copyRev otr opos oroot.numNodes)
      else if oroot.kind == .leaf then
        .ok (⟨root.numNodes, 1, root.numNodes, root.numLeaves⟩, out ++ copyRev tr pos root.numNodes)
      else if root.kind == .none then
        if oroot.kind != .none then .error .value
        else .ok (⟨1, 1, root.numNodes, root.numLeaves⟩, out ++ [root])
      else
        -- NOTE: `.node_entries` of the merged node is whatever the translator found in the
        -- designated initialiser (treespec.cpp:230-238); see `Generated.broadcastKeepsEntries`
        let node : Node := { root with numLeaves := 0, numNodes := 1 }
        let sameKindArity : Except Err Unit :=
          if root.kind != oroot.kind then .error .value
          else if root.arity != oroot.arity then .error .value
          else .ok ()
        match root.kind with
        | .tuple | .list | .deque =>
            match sameKindArity with
            | .error e => .error e
            | .ok _ => broadcastChildren fuel tr (pos - 1) otr (opos - 1) root.arity (out ++ [node]) out.length pos opos
        | .dict | .ordereddict | .defaultdict =>
            if !oroot.kind.isDict then .error .value
            else if !keySetEq root.keys oroot.keys then .error .value
            else
              match childCursors otr oroot.arity (opos - 1) [] with
              | .error e => .error e
              | .ok (ocurs, lastOther) =>
                broadcastDictChildren fuel tr (pos - 1) otr ocurs root.keys.reverse oroot.keys
                  (out ++ [node]) out.length pos (opos - lastOther)
        | .namedtuple | .structseq =>
            match sameKindArity with
            | .error e => .error e
            | .ok _ =>
              if root.data != oroot.data then .error .value
              else broadcastChildren fuel tr (pos - 1) otr (opos - 1) root.arity (out ++ [node]) out.length pos opos
        | .custom =>
            if root.kind != oroot.kind then .error .value
            else match root.custom, oroot.custom with
              | some r, some r' =>
                  if r.cls != r'.cls || r.clsKind != r'.clsKind then .error .value
                  else if root.arity != oroot.arity then .error .value
                  else if root.data != oroot.data then .error .value
                  else broadcastChildren fuel tr (pos - 1) otr (opos - 1) root.arity (out ++ [node]) out.length pos opos
              | _, _ => .error .internal
        | .leaf | .none => .error .internal

/-- the common child loop: children `arity-1 … 0`, both cursors move in step -/
def broadcastChildren : Nat → List Node → Pos → List Node → Pos → Nat → List Node → Nat → Pos → Pos →
    Except Err (BRes × List Node)
  | _, _, cur, _, ocur, 0, out, start, pos, opos =>
      match out[start]? with
      | Option.none => .error .internal
      | some n => .ok (⟨pos - cur, opos - ocur, n.numNodes, n.numLeaves⟩, out)
  | fuel, tr, cur, otr, ocur, k + 1, out, start, pos, opos =>
      match broadcastGo fuel tr cur otr ocur out with
      | .error e => .error e
      | .ok (r, out') =>
          let out'' := out'.modify start fun n =>
            { n with numNodes := n.numNodes + r.newNodes, numLeaves := n.numLeaves + r.newLeaves }
          broadcastChildren fuel tr (cur - r.walked) otr (ocur - r.otherWalked) k out'' start pos opos

/-- the dict child loop: `keysRev` are the expected keys `arity-1 … 0`; the other cursor jumps to
the child with the same key -/
def broadcastDictChildren : Nat → List Node → Pos → List Node → List Pos → List Key → List Key →
    List Node → Nat → Pos → Int → Except Err (BRes × List Node)
  | _, _, cur, _, _, [], _, out, start, pos, otherWalked =>
      match out[start]? with
      | Option.none => .error .internal
      | some n => .ok (⟨pos - cur, otherWalked, n.numNodes, n.numLeaves⟩, out)
  | fuel, tr, cur, otr, ocurs, k :: ks, okeys, out, start, pos, otherWalked =>
      match keyIndex k okeys with
      | Option.none => .error .key
      | some j =>
        match ocurs[j]? with
        | Option.none => .error .internal
        | some ocur =>
          match broadcastGo fuel tr cur otr ocur out with
          | .error e => .error e
          | .ok (r, out') =>
              let out'' := out'.modify start fun n =>
                { n with numNodes := n.numNodes + r.newNodes, numLeaves := n.numLeaves + r.newLeaves }
              broadcastDictChildren fuel tr (cur - r.walked) otr ocurs ks okeys out'' start pos otherWalked
end

/-- `PyTreeSpec::BroadcastToCommonSuffix` -/
def broadcast (a b : Spec) (keepEntries : Bool := true) : Except Err Spec :=
  if !a.sane || !b.sane then .error .internal
  else if a.noneIsLeaf != b.noneIsLeaf then .error .value
  else if !nsCompatible a.ns b.ns then .error .value
  else
    let tr := if keepEntries then a.nodes else a.nodes
    match broadcastGo (a.nodes.length + b.nodes.length + 2) tr ((a.nodes.length : Int) - 1) b.nodes
        ((b.nodes.length : Int) - 1) [] with
    | .error e => .error e
    | .ok (r, out) =>
        let nodes := out.reverse
        let sp : Spec := { nodes := nodes, noneIsLeaf := a.noneIsLeaf, ns := mergeNs a.ns b.ns }
        if r.walked != a.nodes.length || r.otherWalked != b.nodes.length then .error .internal
        else if r.newNodes != sp.numNodes || r.newLeaves != sp.numLeaves then .error .internal
        else if !sp.sane then .error .internal
        else .ok sp

/-! ### constructors -/

/-- `PyTreeSpec::MakeLeaf` -/
def makeLeaf (nil : Bool) : Spec := { nodes := [Node.leaf], noneIsLeaf := nil, ns := "" }

/-- `PyTreeSpec::MakeNone` -/
def makeNone (nil : Bool) : Spec :=
  if nil then makeLeaf nil
  else { nodes := [{ Node.leaf with kind := .none, numLeaves := 0 }], noneIsLeaf := nil, ns := "" }

/-- a collection whose children are treespecs (the argument of `MakeFromCollection`) -/
inductive Coll where
  | leafObj                                           -- something that is not a registered node
  | none
  | tuple (cs : List Spec) | list (cs : List Spec)
  | dict (kvs : List (Key × Spec)) | odict (kvs : List (Key × Spec))
  | ddict (factory : Option Nat) (kvs : List (Key × Spec))
  | deque (maxlen : Option Nat) (cs : List Spec)
  | ntuple (cls : TypeId) (cs : List Spec) | sseq (cls : TypeId) (cs : List Spec)
  | user (cls : TypeId) (md : Option Key) (quirk : Quirk) (cs : List Spec)
  /-- a child that is not a `PyTreeSpec` somewhere in an otherwise fine collection -/
  | badChild (kind : Kind)
  deriving Inhabited

/-- `verify_children` of `MakeFromCollectionImpl`: common namespace of the children and of the
requested one -/
def verifyChildren (nil : Bool) (ns : String) (isCustom : Bool) (cs : List Spec) : Except Err String :=
  if !cs.all Spec.sane then .error .internal
  else if cs.any (fun c => c.noneIsLeaf != nil) then .error .value
  else
    let rec common : List Spec → String → Except Err String
      | [], acc => .ok acc
      | c :: rest, acc =>
          if c.ns != "" then
            if acc == "" then common rest c.ns
            else if acc != c.ns then .error .value
            else common rest acc
          else common rest acc
    match common cs "" with
    | .error e => .error e
    | .ok cns =>
        if cns != "" then
          if ns == "" then .ok cns
          else if ns != cns then .error .value
          else .ok ns
        else if !isCustom then .ok ""
        else .ok ns

def assemble (nil : Bool) (ns : String) (cs : List Spec) (kind : Kind) (data : NodeData)
    (entries : Option (List Key)) (custom : Option Reg) (okeys : Option (List Key)) : Spec :=
  let body := cs.flatMap (·.nodes)
  let leaves := (cs.map Spec.numLeaves).sum + (if kind == .leaf then 1 else 0)
  { nodes := body ++ [{ kind, arity := cs.length, data, entries, custom, numLeaves := leaves,
                        numNodes := body.length + 1, originalKeys := okeys }]
    noneIsLeaf := nil, ns := ns }

/-- `PyTreeSpec::MakeFromCollection` -/
def makeFromCollection (cfg : Cfg) (c : Coll) : Except Err Spec :=
  let nil := cfg.noneIsLeaf
  let plain := fun (cs : List Spec) (kind : Kind) (data : NodeData) (okeys : Option (List Key)) =>
    match verifyChildren nil cfg.ns false cs with
    | .error e => Except.error e
    | .ok ns => Except.ok (assemble nil ns cs kind data Option.none Option.none okeys)
  let custom := fun (reg : Reg) (md : Option Key) (quirk : Quirk) (cs : List Spec) =>
    let co := customOutOf reg md quirk (cs.map fun _ => PyObj.none)
    if co.numOut != 2 && co.numOut != 3 then Except.error Err.runtime
    else match co.children with
      | Option.none => Except.error Err.type_
      | some _ =>
        match verifyChildren nil cfg.ns true cs with
        | .error e => Except.error e
        | .ok ns =>
          let ent : Except Err (Option (List Key)) :=
            if co.numOut == 3 then
              match co.entries with
              | .absent | .noneVal => .ok Option.none
              | .tuple ks => if ks.length != cs.length then .error .runtime else .ok (some ks)
              | .nonIter => .error .type_
            else .ok Option.none
          match ent with
          | .error e => Except.error e
          | .ok entries =>
              Except.ok (assemble nil ns cs .custom (.md co.md) entries (some reg) Option.none)
  let sorted := !cfg.insertionOrdered
  match c with
  | .leafObj => .ok (assemble nil cfg.ns [] .leaf .none Option.none Option.none Option.none)
  | .badChild _ => .error .value
  | .none =>
      if nil then .ok (assemble nil cfg.ns [] .leaf .none Option.none Option.none Option.none)
      else .ok (assemble nil cfg.ns [] .none .none Option.none Option.none Option.none)
  | .tuple cs => plain cs .tuple .none Option.none
  | .list cs => plain cs .list .none Option.none
  | .dict kvs =>
      let items := dictOrder false sorted kvs
      plain (items.map (·.2)) .dict (.keys (items.map (·.1))) (some (kvs.map (·.1)))
  | .odict kvs => plain (kvs.map (·.2)) .ordereddict (.keys (kvs.map (·.1))) Option.none
  | .ddict f kvs =>
      let items := dictOrder false sorted kvs
      plain (items.map (·.2)) .defaultdict (.ddict f (items.map (·.1))) (some (kvs.map (·.1)))
  | .deque m cs => plain cs .deque (.maxlen m) Option.none
  | .ntuple cls cs =>
      match cfg.reg.lookup cfg.ns 1 cls with
      | some reg => custom reg Option.none .ok cs
      | Option.none => plain cs .namedtuple (.cls cls) Option.none
  | .sseq cls cs =>
      match cfg.reg.lookup cfg.ns 2 cls with
      | some reg => custom reg Option.none .ok cs
      | Option.none => plain cs .structseq (.cls cls) Option.none
  | .user cls md quirk cs =>
      match cfg.reg.lookup cfg.ns 0 cls with
      | some reg => custom reg md quirk cs
      | Option.none => .ok (assemble nil cfg.ns [] .leaf .none Option.none Option.none Option.none)

end Optree
