/-
  Core types of the executable model of metaopt/optree.

  Source anchors (pinned tree):
    include/optree/registry.h   enum class PyTreeKind, struct Registration
    include/optree/treespec.h   struct Node, class PyTreeSpec (m_traversal, m_none_is_leaf, m_namespace)

  No Mathlib imports: this file is linked into the `driver` executable.
-/
namespace Optree

abbrev TypeId := Nat

/-- Dict keys, path entries and custom metadata atoms.
`obj` is a user object used as a key: equality is identity (`uid`), ordering is by `rank` among
objects of the same `tag` when `orderable`, a `TypeError` otherwise. -/
inductive Key where
  | int (i : Int)
  | str (s : String)
  | tup (is : List Int)
  | obj (tag : String) (orderable : Bool) (rank : Nat) (uid : Nat)
  deriving DecidableEq, Repr, Inhabited

/-- `PyTreeKind`, in the order of `registry.h` (numbering checked by translator T-kind). -/
inductive Kind where
  | custom | leaf | none | tuple | list | dict | namedtuple | ordereddict | defaultdict
  | deque | structseq
  deriving DecidableEq, Repr, Inhabited

def Kind.toNat : Kind → Nat
  | .custom => 0 | .leaf => 1 | .none => 2 | .tuple => 3 | .list => 4 | .dict => 5
  | .namedtuple => 6 | .ordereddict => 7 | .defaultdict => 8 | .deque => 9 | .structseq => 10

def Kind.ofNat? : Nat → Option Kind
  | 0 => some .custom | 1 => some .leaf | 2 => some .none | 3 => some .tuple | 4 => some .list
  | 5 => some .dict | 6 => some .namedtuple | 7 => some .ordereddict | 8 => some .defaultdict
  | 9 => some .deque | 10 => some .structseq | _ => Option.none

def Kind.isDict : Kind → Bool
  | .dict | .ordereddict | .defaultdict => true
  | _ => false

/-- Exception *types* (messages are not modelled). -/
inductive Err where
  | recursion            -- RecursionError
  | runtime              -- RuntimeError (std::runtime_error, pybind11 cast_error)
  | value                -- ValueError
  | type_                -- TypeError
  | index                -- IndexError
  | key                  -- KeyError
  | attr                 -- AttributeError
  | internal             -- optree InternalError (EXPECT_* / INTERNAL_ERROR)
  | user (id : Nat)      -- exception object raised by a user callback
  | memoryFault          -- not an exception: invalid memory access (C16 abstract machine)
  deriving DecidableEq, Repr, Inhabited

/-- Path-entry classes (`optree/accessor.py`). -/
inductive EntryKind where
  | auto | getitem | getattr | flattened | sequence | mapping | namedtuple | structseq | dataclass
  deriving DecidableEq, Repr, Inhabited

/-- What the registered flatten function returns as its third component. -/
inductive EntriesMode where
  | two          -- returns a 2-tuple (children, metadata)
  | none3        -- returns (children, metadata, None)
  | named        -- entries ("c0", "c1", …)
  | shifted      -- entries (10, 11, …)
  deriving DecidableEq, Repr, Inhabited

/-- One registration record.  Identity is `rid` (the C++ `shared_ptr` address). -/
structure Reg where
  rid : Nat
  cls : TypeId
  /-- 0 = user class, 1 = namedtuple class, 2 = struct-sequence class -/
  clsKind : Nat
  entryKind : EntryKind
  mode : EntriesMode
  deriving DecidableEq, Repr, Inhabited

/-- Malformed returns of a custom flatten function, per instance. -/
inductive Quirk where
  | ok
  | tupleLen1 | tupleLen4          -- wrong tuple size
  | entriesMinus | entriesPlus     -- entries shorter / longer than children by one
  | childrenNonIter | entriesNonIter
  deriving DecidableEq, Repr, Inhabited

/-- Python objects, as far as optree can tell them apart. -/
inductive PyObj where
  | leaf (ty : Nat) (uid : Nat)
  | none
  | tuple (xs : List PyObj)
  | list (xs : List PyObj)
  | dict (kvs : List (Key × PyObj))
  | odict (kvs : List (Key × PyObj))
  | ddict (factory : Option Nat) (kvs : List (Key × PyObj))
  | deque (maxlen : Option Nat) (xs : List PyObj)
  | ntuple (cls : TypeId) (xs : List PyObj)
  | sseq (cls : TypeId) (xs : List PyObj)
  | user (cls : TypeId) (md : Option Key) (quirk : Quirk) (children : List PyObj)
  deriving Repr, Inhabited

mutual
def PyObj.beq : PyObj → PyObj → Bool
  | .leaf a b, .leaf c d => a == c && b == d
  | .none, .none => true
  | .tuple xs, .tuple ys => PyObj.beqList xs ys
  | .list xs, .list ys => PyObj.beqList xs ys
  | .dict xs, .dict ys => PyObj.beqKVs xs ys
  | .odict xs, .odict ys => PyObj.beqKVs xs ys
  | .ddict f xs, .ddict g ys => f == g && PyObj.beqKVs xs ys
  | .deque m xs, .deque n ys => m == n && PyObj.beqList xs ys
  | .ntuple c xs, .ntuple d ys => c == d && PyObj.beqList xs ys
  | .sseq c xs, .sseq d ys => c == d && PyObj.beqList xs ys
  | .user c m q xs, .user d n r ys => c == d && m == n && q == r && PyObj.beqList xs ys
  | _, _ => false
def PyObj.beqList : List PyObj → List PyObj → Bool
  | [], [] => true
  | x :: xs, y :: ys => PyObj.beq x y && PyObj.beqList xs ys
  | _, _ => false
def PyObj.beqKVs : List (Key × PyObj) → List (Key × PyObj) → Bool
  | [], [] => true
  | (k, x) :: xs, (l, y) :: ys => k == l && PyObj.beq x y && PyObj.beqKVs xs ys
  | _, _ => false
end

instance : BEq PyObj := ⟨PyObj.beq⟩

/-- `Node::node_data`; `.none` is the null `py::object`. -/
inductive NodeData where
  | none
  | keys (ks : List Key)                             -- Dict / OrderedDict
  | ddict (factory : Option Nat) (ks : List Key)     -- DefaultDict: (default_factory, keys)
  | cls (t : TypeId)                                 -- NamedTuple / StructSequence: the type
  | maxlen (m : Option Nat)                          -- Deque
  | md (m : Option Key)                            -- Custom: metadata of the flatten function
  deriving DecidableEq, Repr, Inhabited

def NodeData.isSome : NodeData → Bool
  | .none => false
  | _ => true

/-- `PyTreeSpec::Node` (treespec.h:303-334); field list checked by translator T-node. -/
structure Node where
  kind : Kind
  arity : Nat
  data : NodeData
  entries : Option (List Key)
  custom : Option Reg
  numLeaves : Nat
  numNodes : Nat
  originalKeys : Option (List Key)
  deriving DecidableEq, Repr, Inhabited

def Node.leaf : Node :=
  { kind := .leaf, arity := 0, data := .none, entries := Option.none, custom := Option.none,
    numLeaves := 1, numNodes := 1, originalKeys := Option.none }

/-- Keys of a dict-kind node (`expected_keys` idiom of the C++). -/
def Node.keys (n : Node) : List Key :=
  match n.data with
  | .keys ks => ks
  | .ddict _ ks => ks
  | _ => []

structure Spec where
  nodes : List Node            -- post-order, root last
  noneIsLeaf : Bool
  ns : String
  deriving DecidableEq, Repr, Inhabited

/-- One none-is-leaf variant of the engine registry (custom registrations only; the built-in
container kinds are fixed and handled by `getKind`). -/
structure Registry where
  global : List (TypeId × Nat × Reg)              -- (cls, clsKind) ↦ reg
  named : List (String × TypeId × Nat × Reg)      -- (ns, cls, clsKind) ↦ reg
  deriving Repr, Inhabited

def Registry.empty : Registry := ⟨[], []⟩

/-- `PyTreeTypeRegistry::Lookup` (registry.cpp:233-250). -/
def Registry.lookup (r : Registry) (ns : String) (clsKind : Nat) (cls : TypeId) : Option Reg :=
  let named :=
    if ns != "" then
      (r.named.find? fun e => e.1 == ns && e.2.1 == cls && e.2.2.1 == clsKind).map (·.2.2.2)
    else Option.none
  match named with
  | some reg => some reg
  | Option.none => (r.global.find? fun e => e.1 == cls && e.2.1 == clsKind).map (·.2.2)

structure Cfg where
  noneIsLeaf : Bool := false
  ns : String := ""
  reg : Registry := Registry.empty
  /-- namespaces in insertion-ordered mode ("" = global) -/
  ordered : List String := []
  pred : Option (PyObj → Except Err Bool) := Option.none
  maxDepth : Nat := 1000

/-- `PyTreeSpec::IsDictInsertionOrdered(ns, inherit)` (treespec.h:273-282). -/
def Cfg.insertionOrdered (cfg : Cfg) (inherit : Bool := true) : Bool :=
  cfg.ordered.contains cfg.ns || (inherit && cfg.ordered.contains "")

end Optree
