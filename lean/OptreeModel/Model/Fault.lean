/-
  Callback programs (C15).

  An engine operation is a program that, between pure steps, *calls back* into user code: the
  `is_leaf` predicate, a registered flatten function, a mapped function.  `Prog` makes the calls
  explicit (a free monad over `Call`), so that "the callback raises at its k-th invocation" is a
  statement about running the program against an oracle with a fault injected at index k.

  `flattenGoC` is `FlattenIntoImpl` (src/treespec/flatten.cpp:33-252) written in this style; the
  theorem `flattenGoC_refines` (Properties/C15.lean) shows that run against fault-free callbacks it
  computes exactly `flattenGo` of Model/Flatten.lean, the definition every other theorem is about.
-/
import OptreeModel.Model.Flatten

namespace Optree

inductive Call where
  | pred (x : PyObj)                    -- is_leaf(x)
  | flattenFn (r : Reg) (x : PyObj)     -- the registered flatten function of x's class
  deriving Repr, Inhabited

inductive Resp where
  | bool (b : Bool)
  | custom (co : CustomOut)
  deriving Repr, Inhabited

inductive Prog (α : Type) where
  | ret (a : α)
  | err (e : Err)                                   -- the engine's own exception
  | call (c : Call) (k : Resp → Prog α)

def Prog.bind {α β : Type} : Prog α → (α → Prog β) → Prog β
  | .ret a, f => f a
  | .err e, _ => .err e
  | .call c k, f => .call c fun r => (k r).bind f

/-- user code: each call either returns or raises -/
abbrev Oracle := Call → Except Err Resp

/-- Run a program.  `fault = some (k, e)`: the callback invocation with (0-based) index `k`, counted
over the whole run, raises `e` instead of returning.  Returns the outcome and the number of callback
invocations made (the failing one included). -/
def Prog.run {α : Type} (ω : Oracle) (fault : Option (Nat × Err)) : Nat → Prog α → Except Err α × Nat
  | n, .ret a => (.ok a, n)
  | n, .err e => (.error e, n)
  | n, .call c k =>
      match fault with
      | some (kf, e) =>
          if n = kf then (.error e, n + 1)
          else match ω c with
            | .error e' => (.error e', n + 1)
            | .ok r => (k r).run ω fault (n + 1)
      | Option.none =>
          match ω c with
          | .error e' => (.error e', n + 1)
          | .ok r => (k r).run ω fault (n + 1)

/-- run child programs left to right, concatenating their outputs -/
def seqC : List (Prog FlatOut) → Prog FlatOut
  | [] => .ret FlatOut.empty
  | p :: ps => p.bind fun a => (seqC ps).bind fun b => .ret (a.append b)

def ofExcept {α : Type} : Except Err α → Prog α
  | .ok a => .ret a
  | .error e => .err e

def closeSeqC (ps : List (Prog FlatOut)) (kind : Kind) (arity : Nat) (data : NodeData)
    (entries : Option (List Key)) (custom : Option Reg) (okeys : Option (List Key)) : Prog FlatOut :=
  (seqC ps).bind fun b => .ret (b.close kind arity data entries custom okeys false)

/-- the Custom case: call the flatten function, validate what it returned, recurse into the
children it returned (here: the children the object has; `customOutOf` describes the return value) -/
def customFlattenC (reg : Reg) (x : PyObj) (ps : List (Prog FlatOut)) : Prog FlatOut :=
  .call (.flattenFn reg x) fun r =>
    match r with
    | .custom co =>
      if co.numOut != 2 && co.numOut != 3 then .err .runtime
      else match co.children with
        | Option.none => .err .type_
        | some _ =>
          (seqC ps).bind fun body =>
            let arity := ps.length
            let ent : Except Err (Option (List Key)) :=
              if co.numOut == 3 then
                match co.entries with
                | .absent | .noneVal => .ok Option.none
                | .tuple ks => if ks.length != arity then .error .runtime else .ok (some ks)
                | .nonIter => .error .type_
              else .ok Option.none
            match ent with
            | .error e => .err e
            | .ok entries => .ret (body.close .custom arity (.md co.md) entries (some reg) Option.none true)
    | _ => .err .internal

/-- the predicate is only called when one was given -/
def predC (hasPred : Bool) (x : PyObj) (k : Bool → Prog FlatOut) : Prog FlatOut :=
  if hasPred then .call (.pred x) fun r => match r with | .bool b => k b | _ => .err .internal
  else k false

mutual
def flattenGoC (cfg : Cfg) (sorted : Bool) (d : Nat) (x : PyObj) : Prog FlatOut :=
  if d > cfg.maxDepth then .err .recursion
  else predC cfg.pred.isSome x fun isLeaf =>
    if isLeaf then .ret (leafOut x)
    else match x with
    | .leaf _ _ => .ret (leafOut x)
    | .none =>
        if cfg.noneIsLeaf then .ret (leafOut x)
        else .ret (FlatOut.empty.close .none 0 .none Option.none Option.none Option.none false)
    | .tuple xs =>
        closeSeqC (flattenListC cfg sorted (d + 1) xs) .tuple xs.length .none Option.none Option.none Option.none
    | .list xs =>
        closeSeqC (flattenListC cfg sorted (d + 1) xs) .list xs.length .none Option.none Option.none Option.none
    | .dict kvs =>
        let items := dictOrder false sorted (flattenKVsC cfg sorted (d + 1) kvs)
        closeSeqC (items.map (·.2)) .dict kvs.length (.keys (items.map (·.1))) Option.none Option.none (some (kvs.map (·.1)))
    | .odict kvs =>
        let items := flattenKVsC cfg sorted (d + 1) kvs
        closeSeqC (items.map (·.2)) .ordereddict kvs.length (.keys (items.map (·.1))) Option.none Option.none Option.none
    | .ddict f kvs =>
        let items := dictOrder false sorted (flattenKVsC cfg sorted (d + 1) kvs)
        closeSeqC (items.map (·.2)) .defaultdict kvs.length (.ddict f (items.map (·.1))) Option.none Option.none (some (kvs.map (·.1)))
    | .deque m xs =>
        closeSeqC (flattenListC cfg sorted (d + 1) xs) .deque xs.length (.maxlen m) Option.none Option.none Option.none
    | .ntuple cls xs =>
        match cfg.reg.lookup cfg.ns 1 cls with
        | some reg => customFlattenC reg x (flattenListC cfg sorted (d + 1) xs)
        | Option.none =>
          closeSeqC (flattenListC cfg sorted (d + 1) xs) .namedtuple xs.length (.cls cls) Option.none Option.none Option.none
    | .sseq cls xs =>
        match cfg.reg.lookup cfg.ns 2 cls with
        | some reg => customFlattenC reg x (flattenListC cfg sorted (d + 1) xs)
        | Option.none =>
          closeSeqC (flattenListC cfg sorted (d + 1) xs) .structseq xs.length (.cls cls) Option.none Option.none Option.none
    | .user cls _ _ children =>
        match cfg.reg.lookup cfg.ns 0 cls with
        | some reg => customFlattenC reg x (flattenListC cfg sorted (d + 1) children)
        | Option.none => .ret (leafOut x)

def flattenListC (cfg : Cfg) (sorted : Bool) (d : Nat) : List PyObj → List (Prog FlatOut)
  | [] => []
  | x :: xs => flattenGoC cfg sorted d x :: flattenListC cfg sorted d xs

def flattenKVsC (cfg : Cfg) (sorted : Bool) (d : Nat) : List (Key × PyObj) → List (Key × Prog FlatOut)
  | [] => []
  | (k, x) :: xs => (k, flattenGoC cfg sorted d x) :: flattenKVsC cfg sorted d xs
end

/-- the user code of a configuration: its predicate, and flatten functions that return what
`customOut` says (quirks included) -/
def Cfg.oracle (cfg : Cfg) : Oracle
  | .pred x => (cfg.evalPred x).map .bool
  | .flattenFn r x => .ok (.custom (customOut r x))

/-- `PyTreeSpec::Flatten` as a callback program -/
def flattenC (cfg : Cfg) (t : PyObj) : Prog (List PyObj × Spec) :=
  (flattenGoC cfg (!cfg.insertionOrdered) 0 t).bind fun out =>
    .ret (out.leaves,
          { nodes := out.nodes, noneIsLeaf := cfg.noneIsLeaf,
            ns := if out.custom || cfg.insertionOrdered (inherit := false) then cfg.ns else "" })

/-! ### re-entrancy guards of `__hash__` / `__repr__` (hashing.cpp:92-124, serialization.cpp:257-289)

A per-thread set of treespecs whose hash / repr is being computed.  The computation calls back into
user code (key `__hash__`, metadata `__repr__`); the guard must be as it was afterwards, whether the
computation returned or raised. -/

structure GuardCfg where
  /-- the C++ erases the entry on the exception path too (`catch (...) { erase; throw; }`) -/
  cleanupOnError : Bool

def guarded {α : Type} (g : GuardCfg) (guard : List Nat) (self : Nat) (body : Except Err α)
    (onReentry : α) : Except Err α × List Nat :=
  if guard.contains self then (.ok onReentry, guard)
  else
    let inside := self :: guard
    match body with
    | .ok a => (.ok a, inside.erase self)
    | .error e => (.error e, if g.cleanupOnError then inside.erase self else inside)

end Optree
