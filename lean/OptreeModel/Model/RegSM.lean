/-
  The pytree node registry as a state machine over histories of register / unregister calls.

    optree/registry.py:272-429     register_pytree_node      (validation → lock → engine → mirror)
    optree/registry.py:458-563     register_pytree_node_class
    optree/registry.py:566-616     unregister_pytree_node
    optree/registry.py:146-268     pytree_node_registry_get  (`register_pytree_node.get`)
    src/registry.cpp:68-231        Register / RegisterImpl<NoneIsLeaf> / Unregister / UnregisterImpl
    src/registry.cpp:233-281       Lookup / GetKind

  The engine keeps two tables (none-is-node and none-is-leaf variants); Python keeps a mirror.
  A registration is identified by `rid` (the index of the call that made it).
-/
import OptreeModel.Model.Basic

namespace Optree

/-- what kind of thing is passed as `cls` -/
inductive ClsInfo where
  | plain (hasTreeMethods : Bool)      -- an ordinary class
  | namedtuple                          -- a namedtuple class  (registration warns)
  | structseq                           -- a struct-sequence class (registration warns)
  | builtin                             -- list, dict, NoneType, … (cannot be re-registered)
  | nonClass                            -- not a class at all
  deriving DecidableEq, Repr, Inhabited

def ClsInfo.isClass : ClsInfo → Bool
  | .nonClass => false
  | _ => true

def ClsInfo.warns : ClsInfo → Bool
  | .namedtuple | .structseq => true
  | _ => false

/-- the `namespace` argument -/
inductive RNs where
  | glob                 -- the global-namespace sentinel
  | named (s : String)   -- a non-empty string
  | empty                -- '' (rejected)
  deriving DecidableEq, Repr, Inhabited

def RNs.key : RNs → String
  | .glob => ""
  | .named s => s
  | .empty => ""

abbrev RTable := List ((String × Nat) × Nat)      -- (namespace key, class) ↦ rid

structure RState where
  node : RTable        -- engine, none-is-node variant
  leaf : RTable        -- engine, none-is-leaf variant
  mirror : RTable      -- Python `_NODETYPE_REGISTRY` (custom entries)
  deriving DecidableEq, Repr, Inhabited

def RState.init : RState := ⟨[], [], []⟩

inductive ROp where
  | reg (cls : Nat) (ns : RNs) (badEntryType : Bool)     -- register_pytree_node
  | regClass (cls : Nat) (ns : RNs)                       -- register_pytree_node_class
  | unreg (cls : Nat) (ns : RNs)                          -- unregister_pytree_node
  deriving DecidableEq, Repr, Inhabited

inductive RErr where
  | type_ | value | attr
  | warning            -- the UserWarning raised as an error (warnings filter "error")
  deriving DecidableEq, Repr, Inhabited

def RTable.find (t : RTable) (ns : String) (cls : Nat) : Option Nat :=
  (t.find? fun e => e.1.1 == ns && e.1.2 == cls).map (·.2)

def RTable.remove (t : RTable) (ns : String) (cls : Nat) : RTable :=
  t.filter fun e => !(e.1.1 == ns && e.1.2 == cls)

/-- `PyTreeTypeRegistry::Lookup` on one table -/
def RTable.lookup (t : RTable) (ns : String) (cls : Nat) : Option Nat :=
  match (if ns != "" then t.find ns cls else Option.none) with
  | some r => some r
  | Option.none => t.find "" cls

/-- `PyTreeTypeRegistry::Register` (both variants; the warning is the last thing that can fail and
a failure rolls the insertion back) followed by the mirror update -/
def engineRegister (info : Nat → ClsInfo) (warnErr : Bool) (s : RState) (cls : Nat) (key : String)
    (rid : Nat) : RState × Option RErr :=
  if info cls == .builtin then (s, some .value)
  else if (s.node.find key cls).isSome then (s, some .value)
  else if (info cls).warns && warnErr then (s, some .warning)
  else
    ({ node := s.node ++ [((key, cls), rid)], leaf := s.leaf ++ [((key, cls), rid)],
       mirror := s.mirror ++ [((key, cls), rid)] }, Option.none)

/-- one API call; `rid` is the identity the new registration would get -/
def rstep (info : Nat → ClsInfo) (warnErr : Bool) (s : RState) (rid : Nat) : ROp → RState × Option RErr
  | .reg cls ns bad =>
      if !(info cls).isClass then (s, some .type_)
      else if bad then (s, some .type_)
      else if ns == .empty then (s, some .value)
      else engineRegister info warnErr s cls ns.key rid
  | .regClass cls ns =>
      if ns == .empty then (s, some .value)
      else if !(info cls).isClass then (s, some .type_)
      else if info cls != .plain true then (s, some .attr)      -- no `tree_unflatten`
      else engineRegister info warnErr s cls ns.key rid
  | .unreg cls ns =>
      if !(info cls).isClass then (s, some .type_)
      else if ns == .empty then (s, some .value)
      else if info cls == .builtin then (s, some .value)
      else if (s.node.find ns.key cls).isNone then (s, some .value)
      else
        ({ node := s.node.remove ns.key cls, leaf := s.leaf.remove ns.key cls,
           mirror := s.mirror.remove ns.key cls }, Option.none)

/-- run a history; registration ids are the positions of the calls -/
def rrun (info : Nat → ClsInfo) (warnErr : Bool) : RState → Nat → List ROp → RState
  | s, _, [] => s
  | s, i, op :: ops => rrun info warnErr (rstep info warnErr s i op).1 (i + 1) ops

/-- run a history in which the warnings filter is part of each call's environment (it can change
between two calls: `warnings.simplefilter` is process state the registry does not own) -/
def rrunW (info : Nat → ClsInfo) : RState → Nat → List (Bool × ROp) → RState
  | s, _, [] => s
  | s, i, (w, op) :: ops => rrunW info (rstep info w s i op).1 (i + 1) ops

/-- what flattening does with an instance of `cls` in namespace `ns` (either variant) -/
inductive RObs where
  | custom (rid : Nat)
  | namedtuple | structseq | builtin | leaf
  deriving DecidableEq, Repr, Inhabited

def defaultObs (info : Nat → ClsInfo) (cls : Nat) : RObs :=
  match info cls with
  | .namedtuple => .namedtuple
  | .structseq => .structseq
  | .builtin => .builtin
  | _ => .leaf

/-- `GetKind` -/
def engineObs (info : Nat → ClsInfo) (t : RTable) (ns : String) (cls : Nat) : RObs :=
  match t.lookup ns cls with
  | some r => .custom r
  | Option.none => defaultObs info cls

/-- `register_pytree_node.get(cls, namespace=ns)` -/
def pyGet (info : Nat → ClsInfo) (s : RState) (ns : String) (cls : Nat) : RObs :=
  match (if ns != "" then s.mirror.find ns cls else Option.none) with
  | some r => .custom r
  | Option.none =>
      match s.mirror.find "" cls with
      | some r => .custom r
      | Option.none => defaultObs info cls

/-- `register_pytree_node.get(namespace=ns)[cls]` (absent ⇒ `leaf`): the namespace's own entry
takes precedence over the global one -/
def pyGetAll (s : RState) (ns : String) (cls : Nat) : Option Nat :=
  match (if ns != "" then s.mirror.find ns cls else Option.none) with
  | some r => some r
  | Option.none => s.mirror.find "" cls

end Optree
