/-
  Comparison of node arrays and prefix matching against trees.

    equalTo       src/treespec/richcomparison.cpp:160-199   PyTreeSpec::EqualTo
    isPrefix      src/treespec/richcomparison.cpp:26-158    PyTreeSpec::IsPrefix
    hashInput     src/treespec/hashing.cpp:26-90            HashValueImpl (what is fed to HashCombine)
    flattenUpTo   src/treespec/flatten.cpp:562-803          PyTreeSpec::FlattenUpTo
-/
import OptreeModel.Model.Inspect

namespace Optree

/-! ### equality -/

def nsCompatible (a b : String) : Bool := a == "" || b == "" || a == b

/-- the per-node loop of `EqualTo` -/
def nodesEq : List Node → List Node → Except Err Bool
  | [], [] => .ok true
  | x :: xs, y :: ys =>
      if x.kind != y.kind || x.arity != y.arity || x.data.isSome != y.data.isSome
          || x.custom != y.custom then .ok false
      else if x.data.isSome && x.data != y.data then .ok false
      else if x.numLeaves != y.numLeaves || x.numNodes != y.numNodes then .error .internal
      else nodesEq xs ys
  | _, _ => .ok false

/-- `PyTreeSpec::EqualTo` -/
def equalTo (a b : Spec) : Except Err Bool :=
  if !a.sane || !b.sane then .error .internal
  else if a.nodes.length != b.nodes.length || a.noneIsLeaf != b.noneIsLeaf then .ok false
  else if !nsCompatible a.ns b.ns then .ok false
  else if a.numNodes != b.numNodes || a.numLeaves != b.numLeaves then .ok false
  else nodesEq a.nodes b.nodes

/-! ### hash input -/

/-- one value fed to `HashCombine` -/
inductive HAtom where
  | nat (n : Nat)
  | bool (b : Bool)
  | str (s : String)
  | kind (k : Kind)
  | key (k : Key)
  | noneObj
  | cls (c : TypeId)
  | ty (clsKind : Nat) (c : TypeId)
  | optNat (m : Option Nat)
  deriving DecidableEq, Repr, Inhabited

/-- hash of `node_data` per kind (hashing.cpp:36-85); custom nodes hash their *type* only -/
def Node.hashData (n : Node) : List HAtom :=
  match n.kind with
  | .custom =>
      match n.custom with
      | some r => [.ty r.clsKind r.cls]
      | Option.none => []
  | .dict | .ordereddict => n.keys.map .key
  | .defaultdict =>
      match n.data with
      | .ddict f ks => .optNat f :: ks.map .key
      | _ => []
  | _ =>
      match n.data with
      | .none => [.noneObj]
      | .cls c => [.cls c]
      | .maxlen m => [.optNat m]
      | .md (some k) => [.key k]
      | .md Option.none => [.noneObj]
      | .keys ks => ks.map .key
      | .ddict f ks => .optNat f :: ks.map .key

/-- Which treespec-level / node-level fields are combined is *generated* from hashing.cpp
(translator T-hash): `specFields ⊆ {num_leaves, num_nodes, none_is_leaf, namespace}`,
`nodeFields ⊆ {kind, arity, num_leaves, num_nodes, data}`. -/
def hashInput (specFields nodeFields : List String) (sp : Spec) : List HAtom :=
  let specPart := specFields.flatMap fun f =>
    if f == "num_leaves" then [HAtom.nat sp.numLeaves]
    else if f == "num_nodes" then [HAtom.nat sp.numNodes]
    else if f == "none_is_leaf" then [HAtom.bool sp.noneIsLeaf]
    else if f == "namespace" then [HAtom.str sp.ns]
    else [HAtom.str ("?" ++ f)]
  let nodePart := sp.nodes.flatMap fun n => nodeFields.flatMap fun f =>
    if f == "kind" then [HAtom.kind n.kind]
    else if f == "arity" then [HAtom.nat n.arity]
    else if f == "num_leaves" then [HAtom.nat n.numLeaves]
    else if f == "num_nodes" then [HAtom.nat n.numNodes]
    else if f == "data" then n.hashData
    else [HAtom.str ("?" ++ f)]
  specPart ++ nodePart

/-! ### is_prefix -/

def keySetEq (expected other : List Key) : Bool :=
  expected.length == other.length && expected.all other.contains

/-- cut `arity` consecutive subtrees off the front of a *reversed* array: the root of each subtree
comes first and carries its size.  Returns the segments in array order (child `arity-1` first). -/
def cutSegments : Nat → List Node → Except Err (List (List Node) × List Node)
  | 0, rest => .ok ([], rest)
  | n + 1, rest =>
      match rest with
      | [] => .error .internal
      | root :: _ =>
          if root.numNodes == 0 || rest.length < root.numNodes then .error .internal
          else
            match cutSegments n (rest.drop root.numNodes) with
            | .error e => .error e
            | .ok (segs, tail) => .ok (rest.take root.numNodes :: segs, tail)

/-- position of `k` in `ks` -/
def keyIndex (k : Key) (ks : List Key) : Option Nat :=
  let i := ks.findIdx (· == k)
  if i < ks.length then some i else Option.none

/-- re-order the children segments of `b` (given child `arity-1` first) so that they follow the key
order of `a`: the reordered block lists, for `i = arity-1 … 0`, the segment of the child of `b`
whose key is `expected[i]` -/
def reorderSegments (expected other : List Key) (segs : List (List Node)) :
    Except Err (List (List Node)) :=
  let arity := other.length
  -- segs[p] is child (arity-1-p) of b
  let pick := fun (k : Key) =>
    match keyIndex k other with
    | Option.none => Except.error Err.internal
    | some j =>
        match segs[arity - 1 - j]? with
        | some s => Except.ok s
        | Option.none => Except.error Err.internal
  expected.reverse.mapM pick

/-- the main loop of `IsPrefix` over the reversed arrays; `bs` is the (mutable) copy of the other
array from the current position on -/
def isPrefixGo (strict : Bool) : List Node → List Node → Bool → Except Err Bool
  | [], bs, allMatch =>
      if !bs.isEmpty then .error .internal else .ok (!strict || !allMatch)
  | a :: as, bs, allMatch =>
      match bs with
      | [] => .ok false
      | b :: brest =>
        if a.kind == .leaf then
          if b.numNodes == 0 || bs.length < b.numNodes then .error .internal
          else isPrefixGo strict as (bs.drop b.numNodes) (allMatch && b.kind == .leaf)
        else if a.arity != b.arity || a.data.isSome != b.data.isSome || a.custom != b.custom then
          .ok false
        else
          let continue_ := fun (brest' : List Node) =>
            if a.numNodes > b.numNodes then Except.ok false
            else isPrefixGo strict as brest' allMatch
          match a.kind with
          | .none | .tuple | .list | .deque =>
              if a.kind != b.kind then .ok false else continue_ brest
          | .dict | .ordereddict | .defaultdict =>
              if !b.kind.isDict then .ok false
              else if !keySetEq a.keys b.keys then .ok false
              else if a.keys != b.keys then
                match cutSegments b.arity brest with
                | .error e => .error e
                | .ok (segs, tail) =>
                    if (segs.map List.length).sum + 1 != b.numNodes then .error .internal
                    else
                      match reorderSegments a.keys b.keys segs with
                      | .error e => .error e
                      | .ok segs' => continue_ (segs'.flatten ++ tail)
              else continue_ brest
          | .namedtuple | .structseq | .custom =>
              if a.kind != b.kind || (a.data.isSome && a.data != b.data) then .ok false
              else continue_ brest
          | .leaf => .error .internal

/-- `PyTreeSpec::IsPrefix` -/
def isPrefix (a b : Spec) (strict : Bool := false) : Except Err Bool :=
  if !a.sane || !b.sane then .error .internal
  else if a.noneIsLeaf != b.noneIsLeaf then .ok false
  else if !nsCompatible a.ns b.ns then .ok false
  else if a.numNodes > b.numNodes then .ok false
  else isPrefixGo strict a.nodes.reverse b.nodes.reverse true

/-! ### flatten_up_to -/

/-- the registration `FlattenUpTo` looks up for an arbitrary object (its exact type) -/
def lookupForObject (reg : Registry) (ns : String) : PyObj → Option Reg
  | .user cls _ _ _ => reg.lookup ns 0 cls
  | .ntuple cls _ => reg.lookup ns 1 cls
  | .sseq cls _ => reg.lookup ns 2 cls
  | _ => Option.none

def dictItems? : PyObj → Option (List (Key × PyObj))
  | .dict kvs | .odict kvs | .ddict _ kvs => some kvs
  | _ => Option.none

def lookupKey {α : Type} (k : Key) : List (Key × α) → Option α
  | [] => Option.none
  | (k', v) :: rest => if k' == k then some v else lookupKey k rest

/-- `FlattenUpTo`'s loop: `nodes` is the reversed array still to be matched, `agenda` the stack of
objects (top first), `acc` the leaves found so far (filled from the right, so consing yields the
final order) -/
def flattenUpToGo (reg : Registry) (nil : Bool) (ns : String) (numLeaves : Nat) :
    List Node → List PyObj → List PyObj → Except Err (List PyObj)
  | nodes, [], acc =>
      if !nodes.isEmpty || acc.length != numLeaves then .error .value else .ok acc
  | [], _ :: _, _ => .error .value
  | node :: nodes, obj :: agenda, acc =>
      let pushAll := fun (cs : List PyObj) => flattenUpToGo reg nil ns numLeaves nodes (cs.reverse ++ agenda) acc
      match node.kind with
      | .leaf =>
          if acc.length ≥ numLeaves then .error .internal
          else flattenUpToGo reg nil ns numLeaves nodes agenda (obj :: acc)
      | .none =>
          if nil then .error .internal
          else match obj with
            | .none => flattenUpToGo reg nil ns numLeaves nodes agenda acc
            | _ => .error .value
      | .tuple =>
          match obj with
          | .tuple xs => if xs.length != node.arity then .error .value else pushAll xs
          | _ => .error .value
      | .list =>
          match obj with
          | .list xs => if xs.length != node.arity then .error .value else pushAll xs
          | _ => .error .value
      | .dict | .ordereddict | .defaultdict =>
          match dictItems? obj with
          | Option.none => .error .value
          | some kvs =>
              let expected := node.keys
              if !keySetEq expected (kvs.map (·.1)) then .error .value
              else
                match expected.mapM (fun k => lookupKey k kvs) with
                | Option.none => .error .key
                | some cs => pushAll cs
      | .namedtuple =>
          match obj with
          | .ntuple cls xs =>
              if xs.length != node.arity then .error .value
              else if node.data != .cls cls then .error .value
              else pushAll xs
          | _ => .error .value
      | .deque =>
          match obj with
          | .deque _ xs => if xs.length != node.arity then .error .value else pushAll xs
          | _ => .error .value
      | .structseq =>
          match obj with
          | .sseq cls xs =>
              if xs.length != node.arity then .error .value
              else if node.data != .cls cls then .error .value
              else pushAll xs
          | _ => .error .value
      | .custom =>
          match node.custom with
          | Option.none => .error .internal
          | some nreg =>
            if lookupForObject reg ns obj != some nreg then .error .value
            else
              let co := customOut nreg obj
              if co.numOut != 2 && co.numOut != 3 then .error .runtime
              else if node.data != .md co.md then .error .value
              else match co.children with
                | Option.none => .error .type_
                | some cs => if cs.length != node.arity then .error .value else pushAll cs

/-- `PyTreeSpec::FlattenUpTo` -/
def flattenUpTo (reg : Registry) (sp : Spec) (t : PyObj) : Except Err (List PyObj) :=
  if !sp.sane then .error .internal
  else flattenUpToGo reg sp.noneIsLeaf sp.ns sp.numLeaves sp.nodes.reverse [t] []

end Optree
