/-
  A heap model for C14: which objects a treespec hands out, and what mutating them can do.

  The treespec owns a number of internal containers (per node: the key list `node_data`, the
  insertion-order copy `original_keys`, the entries tuple `node_entries`).  Every inspection method
  `m` reads one of them and returns either a fresh copy or the internal object itself; which one is
  a fact about the C++ source, extracted by harness/extract/fresh.py (Generated/Fresh.lean).
-/
namespace Optree


/-- mutable sequences of atoms, by address; `next` is the allocation pointer -/
structure Heap where
  cell : Nat → List Nat
  next : Nat

def Heap.write (h : Heap) (a : Nat) (v : List Nat) : Heap :=
  { h with cell := fun b => if b = a then v else h.cell b }

def Heap.alloc (h : Heap) (v : List Nat) : Heap × Nat :=
  ({ cell := fun b => if b = h.next then v else h.cell b, next := h.next + 1 }, h.next)

inductive Mut where
  | append (x : Nat) | clear | set0 (x : Nat) | reverse | pop
  deriving Repr, DecidableEq

def Mut.apply : Mut → List Nat → List Nat
  | .append x, l => l ++ [x]
  | .clear, _ => []
  | .set0 x, [] => []
  | .set0 x, _ :: l => x :: l
  | .reverse, l => l.reverse
  | .pop, l => l.dropLast

inductive AOp where
  | inspect (m : Nat)                 -- call inspection method `m`; the result is remembered
  | mutate (i : Nat) (f : Mut)        -- mutate the i-th object handed out so far
  deriving Repr

structure AState where
  heap : Heap
  handouts : List Nat

/-- `internals[m]` is the container method `m` reads; `fresh m` says whether it copies -/
def astep (fresh : Nat → Bool) (internals : List Nat) (s : AState) : AOp → AState
  | .inspect m =>
      match internals[m]? with
      | none => s
      | some a =>
          if fresh m then
            ⟨(s.heap.alloc (s.heap.cell a)).1, s.handouts ++ [(s.heap.alloc (s.heap.cell a)).2]⟩
          else ⟨s.heap, s.handouts ++ [a]⟩
  | .mutate i f =>
      match s.handouts[i]? with
      | none => s
      | some a => ⟨s.heap.write a (f.apply (s.heap.cell a)), s.handouts⟩

def arun (fresh : Nat → Bool) (internals : List Nat) (s : AState) (ops : List AOp) : AState :=
  ops.foldl (astep fresh internals) s

/-- what every later inspection of the treespec can depend on -/
def observe (internals : List Nat) (s : AState) : List (List Nat) :=
  internals.map s.heap.cell

/-- the initial state used by the driver: internal `i` lives at address `i` and holds `[10 i, 10 i + 1]` -/
def aInit (n : Nat) : AState :=
  ⟨⟨fun a => if a < n then [10 * a, 10 * a + 1] else [], n⟩, []⟩

end Optree
