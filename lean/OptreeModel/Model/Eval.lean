/-
  Evaluation of protocol requests against the model (DESIGN.md A.3).
-/
import OptreeModel.Model.STree
import OptreeModel.Model.Sexp
import OptreeModel.Model.Ops
import OptreeModel.Model.PrefixErrors
import OptreeModel.Model.OrderSM
import OptreeModel.Model.RegSM
import OptreeModel.Model.Twins
import OptreeModel.Model.Ravel
import OptreeModel.Model.Dataclass
import OptreeModel.Model.Alias
import OptreeModel.Model.Fault
import OptreeModel.Model.Memory
import OptreeModel.Generated.Access
import OptreeModel.Model.Threads
import OptreeModel.Generated.Locks
import OptreeModel.Generated.Fresh
import OptreeModel.Generated.Twins
import OptreeModel.Generated.Hash

namespace Optree
open Sexp

structure DriverState where
  reg : Registry
  nextRid : Nat
  saved : Option Pickled := Option.none
  deriving Inhabited

def DriverState.init : DriverState := ⟨Registry.empty, 1, Option.none⟩

/-! ### the predicate menu (mirrored in harness/universe.py `PREDICATES`) -/

def predMenu : Nat → Option (Option (PyObj → Except Err Bool))
  | 0 => some Option.none
  | 1 => some (some fun x => match x with | .tuple _ => .ok true | _ => .ok false)
  | 2 => some (some fun x => match x with
      | .dict kvs | .odict kvs | .ddict _ kvs => .ok (decide (kvs.length ≥ 2))
      | _ => .ok false)
  | 3 => some (some fun x => match x with | .none => .ok true | _ => .ok false)
  | 4 => some (some fun x => match x with | .user _ _ _ _ => .ok true | _ => .ok false)
  | 5 => some (some fun x => match x with | .leaf _ uid => .ok (uid % 2 == 0) | _ => .ok false)
  | 6 => some (some fun x => match x with
      | .list xs => .ok xs.isEmpty
      | .ntuple _ _ | .sseq _ _ => .ok true
      | _ => .ok false)
  | 7 => some (some fun x => match x with      -- raises on user objects with integer metadata 7
      | .user _ (some (.int 7)) _ _ => .error (.user 1)
      | .deque _ _ => .ok true
      | _ => .ok false)
  | _ => Option.none

def decCfg (st : DriverState) : Sexp → Dec Cfg
  | .list [.atom "cfg", nil, .str ns, pred, .list ordered] => do
      let nil ← decBool nil
      let p ← decNat pred
      let ordered ← decList decStr ordered
      match predMenu p with
      | Option.none => .error "unknown predicate"
      | some pr =>
          pure { noneIsLeaf := nil, ns := ns, reg := st.reg, ordered := ordered, pred := pr }
  | _ => .error "cfg expected"

/-! ### spec expressions -/

inductive Res (α : Type) where
  | bad (msg : String)          -- protocol error → `bad-op`
  | err (e : Err)               -- the operation raises
  | ok (a : α)

def Res.ofDec {α : Type} : Dec α → Res α
  | .error m => .bad m
  | .ok a => .ok a

def Res.ofExcept {α : Type} : Except Err α → Res α
  | .error e => .err e
  | .ok a => .ok a

instance : Monad Res where
  pure := .ok
  bind x f := match x with
    | .bad m => .bad m
    | .err e => .err e
    | .ok a => f a

/-- node / leaf function menus of `transform` (mirrored in harness/run_impl.py) -/
def leafSpecOf (sp : Spec) : Spec := { nodes := [Node.leaf], noneIsLeaf := sp.noneIsLeaf, ns := "" }

def fnodeMenu (cfgReg : Registry) : Nat → Option (Option (Spec → Except Err Spec))
  | 0 => some Option.none
  | 1 => some (some fun s => .ok s)
  | 2 => some (some fun s =>       -- tuple of leaves with the same arity
      makeFromCollection { noneIsLeaf := s.noneIsLeaf, reg := cfgReg }
        (.tuple (List.replicate s.numChildren (leafSpecOf s))))
  | 3 => some (some fun _ => .error .type_)                  -- returns a non-treespec
  | 4 => some (some fun s =>       -- one child too many
      makeFromCollection { noneIsLeaf := s.noneIsLeaf, reg := cfgReg }
        (.list (List.replicate (s.numChildren + 1) (leafSpecOf s))))
  | 5 => some (some fun s => .ok { s with noneIsLeaf := !s.noneIsLeaf })
  | _ => Option.none

def fleafMenu (arg : Option Spec) : Nat → Option (Option (Spec → Except Err Spec))
  | 0 => some Option.none
  | 1 => some (some fun s => .ok s)
  | 2 => match arg with
      | some a => some (some fun _ => .ok a)
      | Option.none => Option.none
  | 3 => some (some fun s => .ok (makeNone s.noneIsLeaf))
  | 4 => some (some fun _ => .error .type_)
  | _ => Option.none

mutual
partial def evalSpec (st : DriverState) : Sexp → Res Spec
  | .list [.atom "structure", cfg, tree] => do
      let cfg ← Res.ofDec (decCfg st cfg)
      let t ← Res.ofDec (decObj tree)
      let (_, sp) ← Res.ofExcept (flatten cfg t)
      pure sp
  | .list [.atom "child", s, i] => do
      let sp ← evalSpec st s
      let i ← Res.ofDec (decInt i)
      Res.ofExcept (child sp i)
  | .list [.atom "onelevel", s] => do
      let sp ← evalSpec st s
      -- the Python binding (optree.cpp:279-287) returns `None` for a leaf treespec
      if sp.isLeaf then .err (.user 999) else Res.ofExcept (oneLevel sp)
  | .list [.atom "compose", a, b] => do
      let a ← evalSpec st a
      let b ← evalSpec st b
      Res.ofExcept (compose a b)
  | .list [.atom "bcast", a, b] => do
      let a ← evalSpec st a
      let b ← evalSpec st b
      Res.ofExcept (broadcast a b)
  | .list [.atom "pickle", a] => do
      let a ← evalSpec st a
      let p ← Res.ofExcept (toPickle a)
      Res.ofExcept (fromPickle st.reg p)
  | .list [.atom "leafspec", nil] => do
      let nil ← Res.ofDec (decBool nil)
      pure (makeLeaf nil)
  | .list [.atom "nonespec", nil] => do
      let nil ← Res.ofDec (decBool nil)
      pure (makeNone nil)
  | .list [.atom "transform", s, fn, fl] => do
      let sp ← evalSpec st s
      let fn ← Res.ofDec (decNat fn)
      let fl ← Res.ofDec (decNat fl)
      match fnodeMenu st.reg fn, fleafMenu Option.none fl with
      | some f, some g => Res.ofExcept (transform sp f g)
      | _, _ => .bad "function menu"
  | .list [.atom "transform", s, fn, fl, arg] => do
      let sp ← evalSpec st s
      let fn ← Res.ofDec (decNat fn)
      let fl ← Res.ofDec (decNat fl)
      let arg ← evalSpec st arg
      match fnodeMenu st.reg fn, fleafMenu (some arg) fl with
      | some f, some g => Res.ofExcept (transform sp f g)
      | _, _ => .bad "function menu"
  | .list [.atom "fromcoll", cfg, coll] => do
      let cfg ← Res.ofDec (decCfg st cfg)
      let c ← evalColl st coll
      Res.ofExcept (makeFromCollection cfg c)
  | _ => .bad "spec expression expected"

partial def evalSpecs (st : DriverState) : List Sexp → Res (List Spec)
  | [] => pure []
  | x :: xs => do
      let a ← evalSpec st x
      let as ← evalSpecs st xs
      pure (a :: as)

partial def evalSpecKVs (st : DriverState) : List Sexp → Res (List (Key × Spec))
  | [] => pure []
  | .list [k, v] :: xs => do
      let k ← Res.ofDec (decKey k)
      let v ← evalSpec st v
      let rest ← evalSpecKVs st xs
      pure ((k, v) :: rest)
  | _ => .bad "key-spec pair expected"

partial def evalColl (st : DriverState) : Sexp → Res Coll
  | .atom "cN" => pure .none
  | .list [.atom "cX"] => pure .leafObj
  | .list [.atom "cBAD"] => pure (.badChild .tuple)
  | .list (.atom "cT" :: xs) => do let cs ← evalSpecs st xs; pure (.tuple cs)
  | .list (.atom "cl" :: xs) => do let cs ← evalSpecs st xs; pure (.list cs)
  | .list (.atom "cD" :: xs) => do let kvs ← evalSpecKVs st xs; pure (.dict kvs)
  | .list (.atom "cO" :: xs) => do let kvs ← evalSpecKVs st xs; pure (.odict kvs)
  | .list (.atom "cDD" :: f :: xs) => do
      let f ← Res.ofDec (decOptNat f); let kvs ← evalSpecKVs st xs; pure (.ddict f kvs)
  | .list (.atom "cQ" :: m :: xs) => do
      let m ← Res.ofDec (decOptNat m); let cs ← evalSpecs st xs
      -- `deque(iterable, maxlen)` truncates before the engine sees it
      let cs' := match m with
        | Option.none => cs
        | some n => cs.drop (cs.length - n)
      pure (.deque m cs')
  | .list (.atom "cNT" :: c :: xs) => do
      let c ← Res.ofDec (decNat c); let cs ← evalSpecs st xs; pure (.ntuple c cs)
  | .list (.atom "cSS" :: c :: xs) => do
      let c ← Res.ofDec (decNat c); let cs ← evalSpecs st xs; pure (.sseq c cs)
  | .list (.atom "cU" :: c :: m :: q :: xs) => do
      let c ← Res.ofDec (decNat c); let m ← Res.ofDec (decOptKey m); let q ← Res.ofDec (decQuirk q)
      let cs ← evalSpecs st xs; pure (.user c m q cs)
  | _ => .bad "collection expected"
end

/-! ### requests -/

/-- the mapped-function menu (mirrored in harness/run_impl.py `user_fn`) -/
def firstObj : List Arg → PyObj
  | [] => .none
  | .obj x :: _ => x
  | _ :: rest => firstObj rest

def fresh (i : Nat) : PyObj := .leaf 0 (500000 + i)

def fnMenu : Nat → Option UserFn
  | 0 => some fun _ a => .ok (firstObj a)
  | 1 => some fun i _ => .ok (fresh i)
  | 2 => some fun i a => .ok (.tuple [firstObj a, fresh i])
  | 3 => some fun i _ => if i == 2 then .error (.user 2) else .ok (fresh i)
  | 4 => some fun _ _ => .ok .none
  | 5 => some fun i _ => if i % 2 == 0 then .ok (.tuple [fresh i, fresh (1000 + i)]) else .ok (.list [fresh i])
  | 6 => some fun i _ => .ok (.dict [(.str "b", fresh i), (.str "a", .list [fresh (1000 + i), .none])])
  -- instances of user classes: 2 is registered in namespace "a" only, 4 in "b" only, 0 globally
  | 7 => some fun i _ => .ok (.user 2 Option.none .ok [fresh i, fresh (1000 + i)])
  | 8 => some fun i _ => .ok (.user 4 Option.none .ok [fresh i, fresh (1000 + i)])
  | 9 => some fun i a => .ok (.user 0 (some (.int 1)) .ok [.tuple [fresh i], firstObj a])
  | _ => Option.none

/-- class universe of the `regsm` stream (mirrored in harness/regsm_impl.py) -/
def regsmInfo : Nat → ClsInfo
  | 0 => .plain true | 1 => .plain true | 2 => .namedtuple | 3 => .structseq
  | 4 => .builtin | 5 => .builtin | 6 => .builtin | 7 => .nonClass | _ => .plain false

def encArg : Arg → Sexp
  | .obj x => encObj x
  | .path p => l (.atom "p" :: p.map encKey)
  | .acc a => l (.atom "a" :: a.map encAccEntry)

def encLog (log : List (List Arg)) : Sexp := l (.atom "calls" :: log.map fun a => l (a.map encArg))

def encMapOut (o : MapOut) : Sexp :=
  match o.result with
  | .ok r => encOk [encObj r, encLog o.log]
  | .error e => l [.atom "err", .atom (errName e), encLog o.log]

def decVariant : Sexp → Dec MapVariant
  | .atom "plain" => .ok .plain
  | .atom "path" => .ok .withPath
  | .atom "acc" => .ok .withAccessor
  | _ => .error "variant expected"

def encLeaves (ls : List PyObj) : Sexp := l (.atom "leaves" :: ls.map encObj)
def encPath (p : List Key) : Sexp := l (p.map encKey)
def encPaths (ps : List (List Key)) : Sexp := l (.atom "paths" :: ps.map encPath)

/-- C17: run two threads; whenever a switch is possible thread 1 (operation B) is preferred until it is
done, then thread 0 finishes.  `false` = a stuck state was reached. -/
def pairCompletes : Nat → TState → Bool
  | 0, _ => true
  | fuel + 1, s =>
      if (s.progs 0).isEmpty && (s.progs 1).isEmpty then true
      else
        match tstep s (if (s.progs 1).isEmpty then 0 else 1) with
        | .stuck => false
        | .next s' => pairCompletes fuel s'

def evalOp (st : DriverState) : Sexp → Res Sexp
  | .list [.atom "flatten", cfg, tree] => do
      let cfg ← Res.ofDec (decCfg st cfg)
      let t ← Res.ofDec (decObj tree)
      let (ls, sp) ← Res.ofExcept (flatten cfg t)
      pure (encOk [encLeaves ls, encSpec sp])
  | .list [.atom "faultflatten", k, cfg, tree] => do
      -- flatten with the k-th (0-based) callback invocation raising UserExc(99); `N`: no fault
      let cfg ← Res.ofDec (decCfg st cfg)
      let t ← Res.ofDec (decObj tree)
      let fault ← match k with
        | .atom "N" => pure Option.none
        | k => do pure (some ((← Res.ofDec (decNat k)), Err.user 99))
      let (r, n) := (flattenC cfg t).run cfg.oracle fault 0
      match r with
      | .error e => pure (encOk [l [.atom "calls", nat n], encErr e])
      | .ok (ls, sp) => pure (encOk [l [.atom "calls", nat n], encLeaves ls, encSpec sp])
  | .list [.atom "flatten_with_path", cfg, tree] => do
      let cfg ← Res.ofDec (decCfg st cfg)
      let t ← Res.ofDec (decObj tree)
      let (ps, ls, sp) ← Res.ofExcept (flattenWithPath cfg t)
      pure (encOk [encPaths ps, encLeaves ls, encSpec sp])
  | .list [.atom "iter", cfg, tree] => do
      let cfg ← Res.ofDec (decCfg st cfg)
      let t ← Res.ofDec (decObj tree)
      let ls ← Res.ofExcept (iterAll cfg t)
      pure (encOk [encLeaves ls])
  | .list [.atom "roundtrip", cfg, tree] => do
      let cfg ← Res.ofDec (decCfg st cfg)
      let t ← Res.ofDec (decObj tree)
      let (ls, sp) ← Res.ofExcept (flatten cfg t)
      let t' ← Res.ofExcept (unflatten sp ls)
      pure (encOk [encObj t'])
  | .list [.atom "unflatten", s, .list leaves] => do
      let sp ← evalSpec st s
      let ls ← Res.ofDec (decList decObj leaves)
      let t ← Res.ofExcept (unflatten sp ls)
      pure (encOk [encObj t])
  | .list [.atom "spec", s] => do
      let sp ← evalSpec st s
      pure (encOk [encSpec sp])
  | .list [.atom "is_enc", s] => do
      -- is the node array the post-order encoding of a well-formed shape? (Model/STree.lean)
      let sp ← evalSpec st s
      pure (encOk [Sexp.bool (isEncoding sp.nodes)])
  | .list [.atom "paths", s] => do
      let sp ← evalSpec st s
      let ps ← Res.ofExcept (paths sp)
      pure (encOk [encPaths ps])
  | .list [.atom "accessors", s] => do
      let sp ← evalSpec st s
      let as ← Res.ofExcept (accessors sp)
      pure (encOk [l (as.map fun a => l (a.map encAccEntry))])
  | .list [.atom "entries", s] => do
      let sp ← evalSpec st s
      let es ← Res.ofExcept (entries sp)
      pure (encOk [encKeys es])
  | .list [.atom "entry", s, i] => do
      let sp ← evalSpec st s
      let i ← Res.ofDec (decInt i)
      let e ← Res.ofExcept (entry sp i)
      pure (encOk [encKey e])
  | .list [.atom "children", s] => do
      let sp ← evalSpec st s
      let cs ← Res.ofExcept (children sp)
      pure (encOk (cs.map encSpec))
  | .list [.atom "counts", s] => do
      let sp ← evalSpec st s
      let ty ← Res.ofExcept sp.typeRef
      pure (encOk [nat sp.numLeaves, nat sp.numNodes, nat sp.numChildren, nat sp.kind.toNat,
                   encTypeRef ty, Sexp.bool (sp.isLeaf true), Sexp.bool (sp.isLeaf false),
                   Sexp.bool sp.isOneLevel])
  | .list [.atom "is_leaf", cfg, tree] => do
      let cfg ← Res.ofDec (decCfg st cfg)
      let t ← Res.ofDec (decObj tree)
      let b ← Res.ofExcept (isLeaf cfg t)
      pure (encOk [Sexp.bool b])
  | .list [.atom "all_leaves", cfg, .list trees] => do
      let cfg ← Res.ofDec (decCfg st cfg)
      let ts ← Res.ofDec (decList decObj trees)
      let b ← Res.ofExcept (allLeaves cfg ts)
      pure (encOk [Sexp.bool b])
  | .list (.atom "map" :: variant :: inplace :: cfg :: f :: tree :: rests) => do
      let variant ← Res.ofDec (decVariant variant)
      let inplace ← Res.ofDec (decBool inplace)
      let cfg ← Res.ofDec (decCfg st cfg)
      let f ← Res.ofDec (decNat f)
      let t ← Res.ofDec (decObj tree)
      let rests ← Res.ofDec (decList decObj rests)
      match fnMenu f with
      | Option.none => .bad "function menu"
      | some fn => pure (encMapOut (treeMapGen cfg variant inplace fn t rests))
  | .list (.atom "bmap" :: variant :: cfg :: f :: tree :: rests) => do
      let variant ← Res.ofDec (decVariant variant)
      let cfg ← Res.ofDec (decCfg st cfg)
      let f ← Res.ofDec (decNat f)
      let t ← Res.ofDec (decObj tree)
      let rests ← Res.ofDec (decList decObj rests)
      match fnMenu f with
      | Option.none => .bad "function menu"
      | some fn => pure (encMapOut (treeBroadcastMap cfg variant fn t rests))
  | .list [.atom "transpose", cfg, outer, inner, tree] => do
      let cfg ← Res.ofDec (decCfg st cfg)
      let outer ← evalSpec st outer
      let inner ← evalSpec st inner
      let t ← Res.ofDec (decObj tree)
      let r ← Res.ofExcept (treeTranspose cfg outer inner t)
      pure (encOk [encObj r])
  | .list (.atom "transpose_map" :: variant :: cfg :: f :: inner :: tree :: rests) => do
      let variant ← Res.ofDec (decVariant variant)
      let cfg ← Res.ofDec (decCfg st cfg)
      let f ← Res.ofDec (decNat f)
      let inner ← (match inner with
        | .atom "-" => (pure Option.none : Res (Option Spec))
        | s => do let sp ← evalSpec st s; pure (some sp))
      let t ← Res.ofDec (decObj tree)
      let rests ← Res.ofDec (decList decObj rests)
      match fnMenu f with
      | Option.none => .bad "function menu"
      | some fn => pure (encMapOut (treeTransposeMap cfg variant fn t rests inner))
  | .list [.atom "bprefix", cfg, a, b] => do
      let cfg ← Res.ofDec (decCfg st cfg)
      let a ← Res.ofDec (decObj a)
      let b ← Res.ofDec (decObj b)
      let r ← Res.ofExcept (treeBroadcastPrefix cfg a b)
      let ls ← Res.ofExcept (broadcastPrefix cfg a b)
      pure (encOk [encObj r, encLeaves ls])
  | .list [.atom "bcommon", cfg, a, b] => do
      let cfg ← Res.ofDec (decCfg st cfg)
      let a ← Res.ofDec (decObj a)
      let b ← Res.ofDec (decObj b)
      let (ta, tb) ← Res.ofExcept (treeBroadcastCommon cfg a b)
      pure (encOk [encObj ta, encObj tb])
  | .list [.atom "replace_nones", cfg, tree] => do
      let cfg ← Res.ofDec (decCfg st cfg)
      let t ← Res.ofDec (decObj tree)
      let r ← Res.ofExcept (treeReplaceNones cfg (.leaf 0 777777) t)
      pure (encOk [encObj r])
  | .list (.atom "ravel" :: to :: dflt :: arrs) => do
      let to ← Res.ofDec (decNat to)
      let dflt ← Res.ofDec (decNat dflt)
      let decArr : Sexp → Dec Arr := fun x => match x with
        | .list [.atom "arr", .list shape, dt, .list data] => do
            let shape ← decList decNat shape; let dt ← decNat dt; let data ← decList decInt data
            pure ⟨shape, dt, data⟩
        | _ => .error "array expected"
      let encArr : Arr → Sexp := fun a => l [.atom "arr", l (a.shape.map nat), nat a.dtype, l (a.data.map Sexp.int)]
      let leaves ← Res.ofDec (decList decArr arrs)
      let lib : ArrLib := { cast := fun _ _ v => v, defaultDtype := dflt }
      let (flat, u) := ravelLeaves lib to leaves
      let encR : Except Err (List Arr) → Sexp := fun r => match r with
        | .ok as => l (.atom "ok" :: as.map encArr)
        | .error e => encErr e
      let longer : Arr := { flat with shape := [flat.data.length + 1], data := flat.data ++ [0] }
      let otherDt : Arr := { flat with dtype := if flat.dtype == 8 then 6 else 8 }
      pure (encOk [encArr flat, encR (unravel lib u flat), encR (unravel lib u longer),
                   (match unravel lib u otherDt with | .ok _ => .atom "accepted" | .error e => encErr e)])
  | .list [.atom "c16loop", .atom kind, n, at_, adv] => do
      -- flatten of a `kind` container with n children; the callback invoked for child `at` mutates it
      let n ← Res.ofDec (decNat n)
      let at_ ← Res.ofDec (decNat at_)
      let site := match kind with
        | "list" => "src/treespec/flatten.cpp:ListGetItem(handle)#1"
        | "deque" => "src/treespec/flatten.cpp:ListGetItem(list)#1"
        | "tuple" => "src/treespec/flatten.cpp:TupleGetItem(handle)#1"
        | _ => ""
      let desc ← match Generated.accessSites.find? (·.1 == site) with
        | some (_, d) => pure d
        | Option.none => Res.bad "unknown loop kind"
      let a ← match adv with
        | .atom "keep" => pure Adv.keep
        | .atom "clear" => pure Adv.clear
        | .list [.atom "shrink", m] => do pure (Adv.shrinkTo (← Res.ofDec (decNat m)))
        | .list [.atom "grow", m] => do pure (Adv.growBy (← Res.ofDec (decNat m)))
        | _ => Res.bad "adversary expected"
      let out := loopRun desc (fun i => if i == at_ then a else .keep) n n 0 n
      pure (encOk [match out with
        | .done => .atom "done"
        | .raised e => l [.atom "raised", .atom (errName e)]
        | .fault => .atom "fault"])
  | .list [.atom "c16walk", .str name, depth] => do
      -- a self-recursive treespec walker on a chain treespec whose leaf is at depth `depth`
      let depth ← Res.ofDec (decNat depth)
      let guarded ← match Generated.recursiveWalkers.find? (·.1 == name) with
        | some (_, g) => pure g
        | Option.none => Res.bad "unknown walker"
      let limit := ({} : Cfg).maxDepth
      let out := walk guarded limit 15000 depth 0
      pure (encOk [match out with
        | .done => .atom "done"
        | .raised e => l [.atom "raised", .atom (errName e)]
        | .fault => .atom "fault"])
  | .list [.atom "c17pair", .str _opA, .str _opB, .list fnsA, .list fnsB] => do
      -- operation A (the engine functions it goes through, in order) is parked at its first switch
      -- point while operation B runs; afterwards A finishes.  Lock programs from T-locks: the scopes
      -- of each function in source order, user code in between.
      let names : List Sexp → Res (List String) := fun xs =>
        Res.ofDec (xs.mapM fun x => match x with | .str s => .ok s | _ => .error "function name expected")
      let a ← names fnsA
      let b ← names fnsB
      let progOf : List String → ThreadProg := fun fs =>
        fs.flatMap fun f =>
          (Generated.lockProgs.filter (·.1 == f)).flatMap (fun p => p.2 ++ [Act.cb])
      let s0 : TState := ⟨2, fun t => if t == 0 then progOf a else if t == 1 then progOf b else [],
                          fun _ => [], 0⟩
      -- schedule: every switch point of A hands over to B, every switch point of B keeps B running
      -- until it is done, then back to A
      pure (encOk [.atom (if pairCompletes 400 s0 then "completes" else "deadlock")])
  | .list (.atom "aliashist" :: _subject :: ops) => do
      let decOp : Sexp → Dec AOp := fun x => match x with
        | .list [.atom "insp", m] => do pure (.inspect (← decNat m))
        | .list [.atom "mut", i, .atom "append", x] => do pure (.mutate (← decNat i) (.append (← decNat x)))
        | .list [.atom "mut", i, .atom "set0", x] => do pure (.mutate (← decNat i) (.set0 (← decNat x)))
        | .list [.atom "mut", i, .atom "clear"] => do pure (.mutate (← decNat i) .clear)
        | .list [.atom "mut", i, .atom "reverse"] => do pure (.mutate (← decNat i) .reverse)
        | .list [.atom "mut", i, .atom "pop"] => do pure (.mutate (← decNat i) .pop)
        | _ => .error "alias op expected"
      let ops ← Res.ofDec (decList decOp ops)
      -- method m copies iff T-fresh says so; method m reads internal container m
      let flags := Generated.handoutFresh.map (·.2)
      let fresh : Nat → Bool := fun m => flags.getD m false
      let internals := List.range flags.length
      let s0 := aInit flags.length
      let s1 := arun fresh internals s0 ops
      pure (encOk [.atom (if observe internals s1 == observe internals s0 then "same" else "changed")])
  | .list (.atom "dcpart" :: isClass :: already :: nsEmpty ::
      .list [.atom "opts", via, slots, frozen, kwonly, order] :: fields) => do
      let decField : Sexp → Dec FieldSpec := fun x => match x with
        | .list [.str n, i, p, k, d, inh] => do
            let i ← decBool i; let p ← decBool p; let k ← decBool k; let d ← decNat d; let inh ← decBool inh
            pure ⟨n, i, p, k, d, inh⟩
        | _ => .error "field expected"
      let opts : DcOpts := {
        via := (← Res.ofDec (decNat via)), slots := (← Res.ofDec (decBool slots)),
        frozen := (← Res.ofDec (decBool frozen)), kwOnly := (← Res.ofDec (decBool kwonly)),
        order := (← Res.ofDec (decBool order)) }
      let c : DcCall := {
        fields := (← Res.ofDec (decList decField fields)), alreadyDecorated := (← Res.ofDec (decBool already)),
        nsEmpty := (← Res.ofDec (decBool nsEmpty)), isClass := (← Res.ofDec (decBool isClass)), opts := opts }
      let (ch, md) ← Res.ofExcept (dcPartition c)
      pure (encOk [l (ch.map Sexp.str), l (md.map Sexp.str)])
  | .list (.atom "sorttwin" :: keys) => do
      let ks ← Res.ofDec (decList decKey keys)
      pure (encOk [encKeys (cxxSort Generated.sortRestores (fun l => l.reverse) (fun l => l) ks),
                   encKeys (pySort ks)])
  | .list [.atom "classify", .list [.atom "cd", isType, tsub, fields, mk, asd, bases, n1, n2, n3, bt]] => do
      let decFields : Sexp → Dec FieldsAttr := fun x => match x with
        | .atom "absent" => .ok .absent
        | .atom "tuple-str" => .ok (.exactTuple true)
        | .atom "tuple-mixed" => .ok (.exactTuple false)
        | .atom "sub-str" => .ok (.tupleSubclass true)
        | .atom "sub-mixed" => .ok (.tupleSubclass false)
        | .atom "other" => .ok .other
        | _ => .error "fields attr"
      let decIntA : Sexp → Dec IntAttr := fun x => match x with
        | .atom "absent" => .ok .absent
        | .atom "int" => .ok .exactInt
        | .atom "bool" => .ok .intSubclass
        | .atom "other" => .ok .other
        | _ => .error "int attr"
      let d : ClsDesc := {
        isType := (← Res.ofDec (decBool isType)), tupleSubclass := (← Res.ofDec (decBool tsub)),
        fields := (← Res.ofDec (decFields fields)), makeCallable := (← Res.ofDec (decBool mk)),
        asdictCallable := (← Res.ofDec (decBool asd)), basesIsTuple := (← Res.ofDec (decBool bases)),
        nFields := (← Res.ofDec (decIntA n1)), nSequenceFields := (← Res.ofDec (decIntA n2)),
        nUnnamedFields := (← Res.ofDec (decIntA n3)), baseType := (← Res.ofDec (decBool bt)) }
      pure (encOk [Sexp.bool (cxxIsNamedTuple d), Sexp.bool (pyIsNamedTuple Generated.twinFieldsExact d),
                   Sexp.bool (cxxIsStructSeq d), Sexp.bool (pyIsStructSeq d)])
  | .list [.atom "pyonelevel", ins, tree] => do
      let ins ← Res.ofDec (decBool ins)
      let t ← Res.ofDec (decObj tree)
      match pyOneLevel ins t with
      | Option.none => pure (encOk [.atom "none"])
      | some o => pure (encOk [l (o.children.map encObj), encData o.data, encKeys o.entries, nat o.kind.toNat])
  | .list (.atom "regsm" :: warnErr :: ops) => do
      let warnErr ← Res.ofDec (decBool warnErr)
      let decNs : Sexp → Dec RNs := fun x => match x with
        | .atom "G" => .ok .glob
        | .atom "E" => .ok .empty
        | .str s => .ok (.named s)
        | _ => .error "namespace expected"
      let decOp : Sexp → Dec (Bool ⊕ ROp) := fun e => match e with
        | .list [.atom "reg", c, ns, bad] => do
            let c ← decNat c; let ns ← decNs ns; let bad ← decBool bad; pure (.inr (.reg c ns bad))
        | .list [.atom "regc", c, ns] => do let c ← decNat c; let ns ← decNs ns; pure (.inr (.regClass c ns))
        | .list [.atom "unreg", c, ns] => do let c ← decNat c; let ns ← decNs ns; pure (.inr (.unreg c ns))
        | .list [.atom "warn", b] => do let b ← decBool b; pure (.inl b)
        | _ => .error "registry op expected"
      let ops ← Res.ofDec (decList decOp ops)
      let encObs : RObs → Sexp := fun o => match o with
        | .custom r => l [.atom "c", nat r]
        | .namedtuple => .atom "nt" | .structseq => .atom "ss" | .builtin => .atom "b" | .leaf => .atom "leaf"
      let obs := fun (s : RState) =>
        l ([0, 1, 2, 3, 8].flatMap fun c => ["", "a", "b"].map fun ns =>
          l [encObs (engineObs regsmInfo s.node ns c), encObs (engineObs regsmInfo s.leaf ns c),
             encObs (pyGet regsmInfo s ns c),
             (match pyGetAll s ns c with | some r => l [.atom "c", nat r] | Option.none => .atom "-")])
      let errName : RErr → String := fun e => match e with
        | .type_ => "TypeError" | .value => "ValueError" | .attr => "AttributeError"
        | .warning => "UserWarning"
      -- the warnings filter is part of the history: `(warn b)` changes it between two calls
      let rec goR : List (Bool ⊕ ROp) → Bool → RState → Nat → List Sexp → List Sexp
        | [], _, _, _, acc => acc.reverse
        | .inl w :: ops, _, s, i, acc => goR ops w s (i + 1) (l [Sexp.atom "ok", obs s] :: acc)
        | .inr op :: ops, w, s, i, acc =>
            let (s', e) := rstep regsmInfo w s i op
            let r := match e with
              | Option.none => Sexp.atom "ok"
              | some e => Sexp.atom (errName e)
            goR ops w s' (i + 1) (l [r, obs s'] :: acc)
      pure (encOk (goR ops warnErr RState.init 0 []))
  | .list (.atom "ordersm" :: events) => do
      let decEvent : Sexp → Dec OEvent := fun e => match e with
        | .list [.atom "enter", m, .str ns] => do let m ← decBool m; pure (.enter m ns)
        | .list [.atom "exit"] => .ok .exit
        | .list [.atom "raise"] => .ok .raise
        | _ => .error "event expected"
      let evs ← Res.ofDec (decList decEvent events)
      let obs := fun (st : OState × OStack) =>
        l (["", "a", "b"].map fun n => l [Sexp.bool (st.1.ordered n false), Sexp.bool (st.1.ordered n true)])
      let rec go : List OEvent → OState × OStack → List Sexp → List Sexp
        | [], _, acc => acc.reverse
        | e :: es, st, acc => let st' := ostep st e; go es st' (obs st' :: acc)
      pure (encOk (go evs (OState.init, []) []))
  | .list [.atom "repr", s] => do
      let sp ← evalSpec st s
      let r ← Res.ofExcept (toString stdNames sp)
      pure (encOk [.str r])
  | .list [.atom "eq", a, b] => do
      let a ← evalSpec st a
      let b ← evalSpec st b
      let r ← Res.ofExcept (equalTo a b)
      let r' ← Res.ofExcept (equalTo b a)
      pure (encOk [Sexp.bool r, Sexp.bool r'])
  | .list [.atom "hash_eq", a, b] => do
      let a ← evalSpec st a
      let b ← evalSpec st b
      pure (encOk [Sexp.bool (hashInput Generated.hashSpecFields Generated.hashNodeFields a ==
                              hashInput Generated.hashSpecFields Generated.hashNodeFields b)])
  | .list [.atom "is_prefix", a, b, strict] => do
      let a ← evalSpec st a
      let b ← evalSpec st b
      let strict ← Res.ofDec (decBool strict)
      let r ← Res.ofExcept (isPrefix a b strict)
      pure (encOk [Sexp.bool r])
  | .list [.atom "prefix_errors", cfg, p, t] => do
      let cfg ← Res.ofDec (decCfg st cfg)
      let p ← Res.ofDec (decObj p)
      let t ← Res.ofDec (decObj t)
      let es ← Res.ofExcept (prefixErrors cfg p t)
      let kindName : PErr → String := fun k => match k with
        | .types => "types" | .keys => "keys" | .arity => "arity" | .metadata => "metadata"
      pure (encOk (es.map fun e => l [.atom (kindName e.1), encPath e.2]))
  | .list [.atom "flatten_up_to", s, tree] => do
      let sp ← evalSpec st s
      let t ← Res.ofDec (decObj tree)
      let ls ← Res.ofExcept (flattenUpTo st.reg sp t)
      pure (encOk (ls.map encObj))
  | .list (.atom "sort" :: keys) => do
      let ks ← Res.ofDec (decList decKey keys)
      pure (encOk [nat (sortStage ks), encKeys (totalOrderSort ks)])
  | _ => .bad "unknown request"

/-- registry / setup requests mutate the driver state -/
def step (st : DriverState) (line : String) : DriverState × String :=
  match Sexp.parse line with
  | .error _ => (st, "bad-op")
  | .ok req =>
    match req with
    | .list [.atom "reg", .str ns, ck, cls, ek, mode] =>
        match decNat ck, decNat cls, decEntryKind ek, decMode mode with
        | .ok ck, .ok cls, .ok ek, .ok mode =>
            let reg : Reg := { rid := st.nextRid, cls := cls, clsKind := ck, entryKind := ek, mode := mode }
            let r := st.reg
            let r' : Registry :=
              if ns == "" then { r with global := r.global ++ [(cls, ck, reg)] }
              else { r with named := r.named ++ [(ns, cls, ck, reg)] }
            ({ st with reg := r', nextRid := st.nextRid + 1 }, "(ok)")
        | _, _, _, _ => (st, "bad-op")
    | .list [.atom "unreg", .str ns, ck, cls] =>
        match decNat ck, decNat cls with
        | .ok ck, .ok cls =>
            let r := st.reg
            let r' : Registry :=
              if ns == "" then
                { r with global := r.global.filter fun e => !(e.1 == cls && e.2.1 == ck) }
              else
                { r with named := r.named.filter fun e => !(e.1 == ns && e.2.1 == cls && e.2.2.1 == ck) }
            ({ st with reg := r' }, "(ok)")
        | _, _ => (st, "bad-op")
    | .list [.atom "pickle_save", sx] =>
        match evalSpec st sx with
        | .bad _ => (st, "bad-op")
        | .err e => (st, render (encErr e))
        | .ok sp =>
            match toPickle sp with
            | .error e => (st, render (encErr e))
            | .ok p => ({ st with saved := some p }, "(ok)")
    | .list [.atom "pickle_load"] =>
        match st.saved with
        | Option.none => (st, "bad-op")
        | some p =>
            match fromPickle st.reg p with
            | .error e => (st, render (encErr e))
            | .ok sp => (st, render (encOk [encSpec sp]))
    | _ =>
        match evalOp st req with
        | .bad _ => (st, "bad-op")
        | .err e => (st, render (encErr e))
        | .ok s => (st, render s)

end Optree
