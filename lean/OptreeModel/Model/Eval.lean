/-
  Evaluation of protocol requests against the model (DESIGN.md A.3).
-/
import OptreeModel.Model.Sexp

namespace Optree
open Sexp

structure DriverState where
  reg : Registry
  nextRid : Nat
  deriving Inhabited

def DriverState.init : DriverState := ⟨Registry.empty, 1⟩

/-! ### the predicate menu (mirrored in harness/universe.py `PREDICATES`) -/

def predMenu : Nat → Option (Option (PyObj → Except Err Bool))
  | 0 => some Option.none
  | 1 => some (some fun x => match x with | .tuple _ => .ok true | _ => .ok false)
  | 2 => some (some fun x => match x with
      | .dict kvs | .odict kvs | .ddict _ kvs => .ok (decide (kvs.length ≥ 2))
      | _ => .ok false)
  | 3 => some (some fun x => match x with | .none => .ok true | _ => .ok false)
  | 4 => some (some fun x => match x with | .user _ _ _ _ => .ok true | _ => .ok false)
  | 5 => some (some fun x => match x with | .leaf _ uid => .ok (uid % 2 == 0) | _ => .ok false)
  | 6 => some (some fun x => match x with
      | .list xs => .ok xs.isEmpty
      | .ntuple _ _ | .sseq _ _ => .ok true
      | _ => .ok false)
  | 7 => some (some fun x => match x with      -- raises on user objects with integer metadata 7
      | .user _ (some (.int 7)) _ _ => .error (.user 1)
      | .deque _ _ => .ok true
      | _ => .ok false)
  | _ => Option.none

def decCfg (st : DriverState) : Sexp → Dec Cfg
  | .list [.atom "cfg", nil, .str ns, pred, .list ordered] => do
      let nil ← decBool nil
      let p ← decNat pred
      let ordered ← decList decStr ordered
      match predMenu p with
      | Option.none => .error "unknown predicate"
      | some pr =>
          pure { noneIsLeaf := nil, ns := ns, reg := st.reg, ordered := ordered, pred := pr }
  | _ => .error "cfg expected"

/-! ### spec expressions -/

inductive Res (α : Type) where
  | bad (msg : String)          -- protocol error → `bad-op`
  | err (e : Err)               -- the operation raises
  | ok (a : α)

def Res.ofDec {α : Type} : Dec α → Res α
  | .error m => .bad m
  | .ok a => .ok a

def Res.ofExcept {α : Type} : Except Err α → Res α
  | .error e => .err e
  | .ok a => .ok a

instance : Monad Res where
  pure := .ok
  bind x f := match x with
    | .bad m => .bad m
    | .err e => .err e
    | .ok a => f a

partial def evalSpec (st : DriverState) : Sexp → Res Spec
  | .list [.atom "structure", cfg, tree] => do
      let cfg ← Res.ofDec (decCfg st cfg)
      let t ← Res.ofDec (decObj tree)
      let (_, sp) ← Res.ofExcept (flatten cfg t)
      pure sp
  | .list [.atom "child", s, i] => do
      let sp ← evalSpec st s
      let i ← Res.ofDec (decInt i)
      Res.ofExcept (child sp i)
  | .list [.atom "onelevel", s] => do
      let sp ← evalSpec st s
      Res.ofExcept (oneLevel sp)
  | _ => .bad "spec expression expected"

/-! ### requests -/

def encLeaves (ls : List PyObj) : Sexp := l (.atom "leaves" :: ls.map encObj)
def encPath (p : List Key) : Sexp := l (p.map encKey)
def encPaths (ps : List (List Key)) : Sexp := l (.atom "paths" :: ps.map encPath)

def evalOp (st : DriverState) : Sexp → Res Sexp
  | .list [.atom "flatten", cfg, tree] => do
      let cfg ← Res.ofDec (decCfg st cfg)
      let t ← Res.ofDec (decObj tree)
      let (ls, sp) ← Res.ofExcept (flatten cfg t)
      pure (encOk [encLeaves ls, encSpec sp])
  | .list [.atom "flatten_with_path", cfg, tree] => do
      let cfg ← Res.ofDec (decCfg st cfg)
      let t ← Res.ofDec (decObj tree)
      let (ps, ls, sp) ← Res.ofExcept (flattenWithPath cfg t)
      pure (encOk [encPaths ps, encLeaves ls, encSpec sp])
  | .list [.atom "iter", cfg, tree] => do
      let cfg ← Res.ofDec (decCfg st cfg)
      let t ← Res.ofDec (decObj tree)
      let ls ← Res.ofExcept (iterAll cfg t)
      pure (encOk [encLeaves ls])
  | .list [.atom "roundtrip", cfg, tree] => do
      let cfg ← Res.ofDec (decCfg st cfg)
      let t ← Res.ofDec (decObj tree)
      let (ls, sp) ← Res.ofExcept (flatten cfg t)
      let t' ← Res.ofExcept (unflatten sp ls)
      pure (encOk [encObj t'])
  | .list [.atom "unflatten", s, .list leaves] => do
      let sp ← evalSpec st s
      let ls ← Res.ofDec (decList decObj leaves)
      let t ← Res.ofExcept (unflatten sp ls)
      pure (encOk [encObj t])
  | .list [.atom "spec", s] => do
      let sp ← evalSpec st s
      pure (encOk [encSpec sp])
  | .list [.atom "paths", s] => do
      let sp ← evalSpec st s
      let ps ← Res.ofExcept (paths sp)
      pure (encOk [encPaths ps])
  | .list [.atom "accessors", s] => do
      let sp ← evalSpec st s
      let as ← Res.ofExcept (accessors sp)
      pure (encOk [l (as.map fun a => l (a.map encAccEntry))])
  | .list [.atom "entries", s] => do
      let sp ← evalSpec st s
      let es ← Res.ofExcept (entries sp)
      pure (encOk [encKeys es])
  | .list [.atom "entry", s, i] => do
      let sp ← evalSpec st s
      let i ← Res.ofDec (decInt i)
      let e ← Res.ofExcept (entry sp i)
      pure (encOk [encKey e])
  | .list [.atom "children", s] => do
      let sp ← evalSpec st s
      let cs ← Res.ofExcept (children sp)
      pure (encOk (cs.map encSpec))
  | .list [.atom "counts", s] => do
      let sp ← evalSpec st s
      let ty ← Res.ofExcept sp.typeRef
      pure (encOk [nat sp.numLeaves, nat sp.numNodes, nat sp.numChildren, nat sp.kind.toNat,
                   encTypeRef ty, Sexp.bool (sp.isLeaf true), Sexp.bool (sp.isLeaf false),
                   Sexp.bool sp.isOneLevel])
  | .list [.atom "is_leaf", cfg, tree] => do
      let cfg ← Res.ofDec (decCfg st cfg)
      let t ← Res.ofDec (decObj tree)
      let b ← Res.ofExcept (isLeaf cfg t)
      pure (encOk [Sexp.bool b])
  | .list [.atom "all_leaves", cfg, .list trees] => do
      let cfg ← Res.ofDec (decCfg st cfg)
      let ts ← Res.ofDec (decList decObj trees)
      let b ← Res.ofExcept (allLeaves cfg ts)
      pure (encOk [Sexp.bool b])
  | .list (.atom "sort" :: keys) => do
      let ks ← Res.ofDec (decList decKey keys)
      pure (encOk [nat (sortStage ks), encKeys (totalOrderSort ks)])
  | _ => .bad "unknown request"

/-- registry / setup requests mutate the driver state -/
def step (st : DriverState) (line : String) : DriverState × String :=
  match Sexp.parse line with
  | .error _ => (st, "bad-op")
  | .ok req =>
    match req with
    | .list [.atom "reg", .str ns, ck, cls, ek, mode] =>
        match decNat ck, decNat cls, decEntryKind ek, decMode mode with
        | .ok ck, .ok cls, .ok ek, .ok mode =>
            let reg : Reg := { rid := st.nextRid, cls := cls, clsKind := ck, entryKind := ek, mode := mode }
            let r := st.reg
            let r' : Registry :=
              if ns == "" then { r with global := r.global ++ [(cls, ck, reg)] }
              else { r with named := r.named ++ [(ns, cls, ck, reg)] }
            ({ reg := r', nextRid := st.nextRid + 1 }, "(ok)")
        | _, _, _, _ => (st, "bad-op")
    | .list [.atom "unreg", .str ns, ck, cls] =>
        match decNat ck, decNat cls with
        | .ok ck, .ok cls =>
            let r := st.reg
            let r' : Registry :=
              if ns == "" then
                { r with global := r.global.filter fun e => !(e.1 == cls && e.2.1 == ck) }
              else
                { r with named := r.named.filter fun e => !(e.1 == ns && e.2.1 == cls && e.2.2.1 == ck) }
            ({ st with reg := r' }, "(ok)")
        | _, _ => (st, "bad-op")
    | _ =>
        match evalOp st req with
        | .bad _ => (st, "bad-op")
        | .err e => (st, render (encErr e))
        | .ok s => (st, render s)

end Optree
