/-
  L0: abstract treespec shapes, and the post-order encoding the engine stores.

  `PyTreeSpec::m_traversal` (include/optree/treespec.h:303-338) is the post-order listing of a tree of
  node records, every record carrying the number of leaves / nodes of its subtree.  `STree` is that
  tree; `enc` is the listing.  Every array-level walker of the model (`Model/Inspect`, `Compare`,
  `Algebra`, `Unflatten`) is related to a few-line structural recursion over `STree` by a refinement
  theorem `walker ⟨enc s, …⟩ = spec s` (`Lemmas/Enc*.lean`), and `flatten` is shown to produce
  encodings only (`Lemmas/EncFlatten.lean`).  `decodeArr` is the inverse used by the correspondence
  stream to check that every node array the *real* engine produces is an encoding (`(is_enc …)`).

  No Mathlib imports: linked into the driver.
-/
import OptreeModel.Model.Algebra

namespace Optree

/-- what a node record says besides its arity and its counts -/
structure NInfo where
  kind : Kind
  data : NodeData
  entries : Option (List Key)
  custom : Option Reg
  originalKeys : Option (List Key)
  deriving DecidableEq, Repr, Inhabited

def Node.info (n : Node) : NInfo := ⟨n.kind, n.data, n.entries, n.custom, n.originalKeys⟩

inductive STree where
  | leaf
  | node (i : NInfo) (cs : List STree)
  deriving Repr, Inhabited

mutual
def STree.size : STree → Nat
  | .leaf => 1
  | .node _ cs => STree.sizeL cs + 1
def STree.sizeL : List STree → Nat
  | [] => 0
  | c :: cs => c.size + STree.sizeL cs
end

mutual
def STree.leaves : STree → Nat
  | .leaf => 1
  | .node _ cs => STree.leavesL cs
def STree.leavesL : List STree → Nat
  | [] => 0
  | c :: cs => c.leaves + STree.leavesL cs
end

def NInfo.toNode (i : NInfo) (arity nl nn : Nat) : Node :=
  { kind := i.kind, arity := arity, data := i.data, entries := i.entries, custom := i.custom,
    numLeaves := nl, numNodes := nn, originalKeys := i.originalKeys }

/-- the root record of a tree -/
def STree.root : STree → Node
  | .leaf => Node.leaf
  | .node i cs => i.toNode cs.length (STree.leavesL cs) (STree.sizeL cs + 1)

mutual
/-- post-order listing with counts: `m_traversal` -/
def STree.enc : STree → List Node
  | .leaf => [Node.leaf]
  | .node i cs => STree.encL cs ++ [i.toNode cs.length (STree.leavesL cs) (STree.sizeL cs + 1)]
def STree.encL : List STree → List Node
  | [] => []
  | c :: cs => c.enc ++ STree.encL cs
end

mutual
/-- structural equality (derived `DecidableEq` is not available for the nested inductive) -/
def STree.beq : STree → STree → Bool
  | .leaf, .leaf => true
  | .node i cs, .node j ds => i == j && STree.beqL cs ds
  | _, _ => false
def STree.beqL : List STree → List STree → Bool
  | [], [] => true
  | c :: cs, d :: ds => STree.beq c d && STree.beqL cs ds
  | _, _ => false
end

instance : BEq STree := ⟨STree.beq⟩

/-- keys of a dict-kind node -/
def NInfo.keys (i : NInfo) : List Key :=
  match i.data with
  | .keys ks => ks
  | .ddict _ ks => ks
  | _ => []

mutual
/-- the shapes the engine builds: internal nodes are not of kind `leaf`; `none` nodes have no
children; dict-kind nodes carry one distinct key per child -/
def STree.wf : STree → Bool
  | .leaf => true
  | .node i cs =>
      i.kind != .leaf && (i.kind != .none || cs.isEmpty)
        && (!i.kind.isDict || (i.keys.length == cs.length && decide i.keys.Nodup))
        && STree.wfL cs
def STree.wfL : List STree → Bool
  | [] => true
  | c :: cs => c.wf && STree.wfL cs
end

/-- `decodeArr`: the stack machine that reads a post-order array back into a tree (the shape part of
`unflattenGo`), checking every count on the way -/
def decodeGo : List Node → List STree → Option STree
  | [], [r] => some r
  | [], _ => Option.none
  | n :: rest, stack =>
      if n.kind == .leaf then
        if n == Node.leaf then decodeGo rest (.leaf :: stack) else Option.none
      else if stack.length < n.arity then Option.none
      else
        let cs := (stack.take n.arity).reverse
        if n.numLeaves != STree.leavesL cs || n.numNodes != STree.sizeL cs + 1 then Option.none
        else decodeGo rest (.node n.info cs :: stack.drop n.arity)

def decodeArr (nodes : List Node) : Option STree := decodeGo nodes []

/-- "this array is the encoding of a well-formed shape" -/
def isEncoding (nodes : List Node) : Bool :=
  match decodeArr nodes with
  | some s => s.wf && s.enc == nodes
  | Option.none => false

/-! ### tree-level specifications -/

/-- Python-level dict lookup on parallel lists -/
def lookupChild (k : Key) : List Key → List STree → Option STree
  | k' :: ks, c :: cs => if k' == k then some c else lookupChild k ks cs
  | _, _ => Option.none

mutual
/-- the prefix relation of `PyTreeSpec::IsPrefix` at tree level: a leaf is a prefix of anything; the
three dict kinds match each other when their key *sets* agree, children paired by key; deques
match regardless of `maxlen` … no: `node_data` (maxlen) is not compared for deques, lists, tuples;
namedtuple / structseq / custom compare `node_data`; registrations must be identical -/
def STree.prefixB : STree → STree → Bool
  | .leaf, _ => true
  | .node _ _, .leaf => false
  | .node i cs, .node j ds =>
      cs.length == ds.length && i.data.isSome == j.data.isSome && i.custom == j.custom &&
      (match i.kind with
       | .none | .tuple | .list | .deque => i.kind == j.kind && STree.prefixL cs ds
       | .dict | .ordereddict | .defaultdict =>
           j.kind.isDict && keySetEq i.keys j.keys && STree.prefixD i.keys cs j.keys ds
       | .namedtuple | .structseq | .custom =>
           i.kind == j.kind && (!i.data.isSome || i.data == j.data) && STree.prefixL cs ds
       | .leaf => false)
/-- children paired by position -/
def STree.prefixL : List STree → List STree → Bool
  | [], [] => true
  | c :: cs, d :: ds => STree.prefixB c d && STree.prefixL cs ds
  | _, _ => false
/-- children of the first paired by key with children of the second -/
def STree.prefixD : List Key → List STree → List Key → List STree → Bool
  | k :: ks, c :: cs, oks, ds =>
      (match lookupChild k oks ds with
       | some d => STree.prefixB c d
       | Option.none => false) && STree.prefixD ks cs oks ds
  | _, _, _, _ => true
end

mutual
/-- "every leaf of the first sits over a leaf of the second" (`all_leaves_match`): then the two
have the same shape up to dict kind / key order -/
def STree.sameB : STree → STree → Bool
  | .leaf, .leaf => true
  | .leaf, .node _ _ => false
  | .node _ _, .leaf => true        -- not reached under `prefixB`
  | .node i cs, .node j ds =>
      if i.kind.isDict then STree.sameD i.keys cs j.keys ds else STree.sameL cs ds
def STree.sameL : List STree → List STree → Bool
  | c :: cs, d :: ds => STree.sameB c d && STree.sameL cs ds
  | _, _ => true
def STree.sameD : List Key → List STree → List Key → List STree → Bool
  | k :: ks, c :: cs, oks, ds =>
      (match lookupChild k oks ds with
       | some d => STree.sameB c d
       | Option.none => true) && STree.sameD ks cs oks ds
  | _, _, _, _ => true
end

mutual
/-- `compose` at tree level: every leaf of the outer shape replaced by `inner` -/
def STree.subst : STree → STree → STree
  | .leaf, inner => inner
  | .node i cs, inner => .node i (STree.substL cs inner)
def STree.substL : List STree → STree → List STree
  | [], _ => []
  | c :: cs, inner => STree.subst c inner :: STree.substL cs inner
end

mutual
/-- the least common suffix of two shapes (`BroadcastToCommonSuffix` at tree level), `none` when they
conflict at some node: a leaf gives way to whatever is on the other side; otherwise the nodes must be
compatible (same kind and arity; the three dict kinds among each other when their key sets agree;
namedtuple / struct-sequence / custom nodes of the same class with equal payload) and the result keeps
the *first* operand's node (type, key order, custom entries), children paired by position or by key -/
def STree.lub : STree → STree → Option STree
  | .leaf, b => some b
  | .node i cs, .leaf => some (.node i cs)
  | .node i cs, .node j ds =>
      match i.kind with
      | .leaf => Option.none
      | .none => if j.kind != .none then Option.none else some (.node i cs)
      | .tuple | .list | .deque =>
          if i.kind != j.kind || cs.length != ds.length then Option.none
          else (STree.lubL cs ds).map (.node i)
      | .dict | .ordereddict | .defaultdict =>
          if !j.kind.isDict || !keySetEq i.keys j.keys then Option.none
          else (STree.lubD i.keys cs j.keys ds).map (.node i)
      | .namedtuple | .structseq =>
          if i.kind != j.kind || cs.length != ds.length || i.data != j.data then Option.none
          else (STree.lubL cs ds).map (.node i)
      | .custom =>
          match i.custom, j.custom with
          | some r, some r' =>
              if j.kind != .custom || r.cls != r'.cls || r.clsKind != r'.clsKind || cs.length != ds.length
                  || i.data != j.data then Option.none
              else (STree.lubL cs ds).map (.node i)
          | _, _ => Option.none
def STree.lubL : List STree → List STree → Option (List STree)
  | [], [] => some []
  | c :: cs, d :: ds =>
      match STree.lub c d, STree.lubL cs ds with
      | some x, some xs => some (x :: xs)
      | _, _ => Option.none
  | _, _ => Option.none
def STree.lubD : List Key → List STree → List Key → List STree → Option (List STree)
  | [], [], _, _ => some []
  | k :: ks, c :: cs, oks, ds =>
      match lookupChild k oks ds with
      | Option.none => Option.none
      | some d =>
          match STree.lub c d, STree.lubD ks cs oks ds with
          | some x, some xs => some (x :: xs)
          | _, _ => Option.none
  | _, _, _, _ => Option.none
end

/-- entries of the children of a node, as the walkers use them -/
def NInfo.childEntries (i : NInfo) (arity : Nat) : List Key :=
  (i.toNode arity 0 0).childEntries

mutual
/-- paths to the leaves at tree level (`None` nodes and childless nodes have none) -/
def STree.pathsT : STree → List Key → List (List Key)
  | .leaf, pre => [pre]
  | .node i cs, pre => STree.pathsL cs (i.childEntries cs.length) pre
def STree.pathsL : List STree → List Key → List Key → List (List Key)
  | c :: cs, e :: es, pre => STree.pathsT c (pre ++ [e]) ++ STree.pathsL cs es pre
  | _, _, _ => []
end

end Optree
