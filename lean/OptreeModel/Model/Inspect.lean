/-
  Inspection of a node array.

    paths / accessors      src/treespec/treespec.cpp:626-822   PathsImpl / Paths / AccessorsImpl / Accessors
    pathEntryType          src/treespec/treespec.cpp:128-181   GetPathEntryType
    entries / entry        src/treespec/treespec.cpp:824-904
    children / child       src/treespec/treespec.cpp:906-959
    typeRef / oneLevel     src/treespec/treespec.cpp:961-1018  GetType / GetOneLevel
    counts, is_leaf, …     include/optree/treespec.h:176-213

  The index walkers go right to left over the array.  `pos - cur` (the number of nodes a recursive
  call consumed) is modelled by returning the unconsumed rest of the *reversed* array; `fuel`
  stands for the C++ call depth and is always instantiated with the array length.
-/
import OptreeModel.Model.Unflatten

namespace Optree

/-- default entries of a node without `node_entries` -/
def Node.defaultEntries (n : Node) : List Key :=
  match n.kind with
  | .leaf | .none => []
  | .dict | .ordereddict | .defaultdict => n.keys
  | _ => intEntries n.arity

/-- the entries the walkers use for the children `0 … arity-1` -/
def Node.childEntries (n : Node) : List Key :=
  match n.entries with
  | some es => es.take n.arity
  | Option.none => n.defaultEntries

mutual
/-- `PathsImpl`: consumes one subtree from the reversed array; emits paths right-to-left -/
def pathsGo : Nat → List Node → List Key → List (List Key) →
    Except Err (List (List Key) × List Node)
  | 0, _, _, _ => .error .internal
  | _ + 1, [], _, _ => .error .index                      -- `m_traversal.at(pos)` out of range
  | fuel + 1, root :: rest, stack, acc =>
      match root.entries, root.kind with
      | Option.none, .leaf => .ok (stack :: acc, rest)
      | Option.none, .none => .ok (acc, rest)
      | _, _ =>
          if root.childEntries.length < root.arity then .error .internal
          else pathsChildren fuel root.childEntries.reverse rest stack acc
def pathsChildren : Nat → List Key → List Node → List Key → List (List Key) →
    Except Err (List (List Key) × List Node)
  | _, [], rest, _, acc => .ok (acc, rest)
  | fuel, e :: es, rest, stack, acc =>
      match pathsGo fuel rest (stack ++ [e]) acc with
      | .error err => .error err
      | .ok (acc', rest') => pathsChildren fuel es rest' stack acc'
end

/-- `PyTreeSpec::Paths` -/
def paths (sp : Spec) : Except Err (List (List Key)) :=
  if !sp.sane then .error .internal
  else if sp.numLeaves == 0 then .ok []
  else if sp.numNodes == 1 && sp.numLeaves == 1 then .ok [[]]
  else
    match pathsGo (sp.nodes.length + 1) sp.nodes.reverse [] [] with
    | .error e => .error e
    | .ok (ps, rest) =>
        -- `paths` were pushed right-to-left and reversed at the end; `acc` is already consed
        if !rest.isEmpty then .error .internal
        else if ps.length != sp.numLeaves then .error .internal
        else .ok ps

/-- `GetPathEntryType` -/
def Node.pathEntryKind (n : Node) : Except Err (Option EntryKind) :=
  match n.kind with
  | .leaf | .none => .ok Option.none
  | .tuple | .list | .deque => .ok (some .sequence)
  | .dict | .ordereddict | .defaultdict => .ok (some .mapping)
  | .namedtuple => .ok (some .namedtuple)
  | .structseq => .ok (some .structseq)
  | .custom =>
      match n.custom with
      | some r => .ok (some r.entryKind)
      | Option.none => .error .internal

/-- one typed path entry: `path_entry_type(entry, node_type, node_kind)` -/
structure AccEntry where
  entry : Key
  ty : TypeRef
  kind : Kind
  ek : EntryKind
  deriving DecidableEq, Repr, Inhabited

/-- `AutoEntry.__new__` (accessor.py:150-192) dispatches on the node type at creation; the user
classes of the universe are neither dataclasses nor Mapping / Sequence sub-classes. -/
def resolveEntryKind (ek : EntryKind) (ty : TypeRef) : EntryKind :=
  match ek, ty with
  | .auto, .cust 2 _ => .structseq
  | .auto, .cust 1 _ => .namedtuple
  | .auto, _ => .flattened
  | ek, _ => ek

mutual
/-- `AccessorsImpl` -/
def accessorsGo : Nat → List Node → List AccEntry → List (List AccEntry) →
    Except Err (List (List AccEntry) × List Node)
  | 0, _, _, _ => .error .internal
  | _ + 1, [], _, _ => .error .index
  | fuel + 1, root :: rest, stack, acc =>
      match root.typeRef, root.pathEntryKind with
      | .error e, _ => .error e
      | _, .error e => .error e
      | .ok ty, .ok ek? =>
        if root.entries.isSome && (root.kind != .custom || root.custom.isNone) then .error .internal
        else
        match root.entries, root.kind with
        | Option.none, .leaf => .ok (stack :: acc, rest)
        | Option.none, .none => .ok (acc, rest)
        | _, _ =>
            match ek? with
            | Option.none => .error .internal
            | some ek =>
              if root.childEntries.length < root.arity then .error .internal
              else
                accessorsChildren fuel
                  (root.childEntries.reverse.map fun e => ⟨e, ty, root.kind, resolveEntryKind ek ty⟩) rest stack acc
def accessorsChildren : Nat → List AccEntry → List Node → List AccEntry → List (List AccEntry) →
    Except Err (List (List AccEntry) × List Node)
  | _, [], rest, _, acc => .ok (acc, rest)
  | fuel, e :: es, rest, stack, acc =>
      match accessorsGo fuel rest (stack ++ [e]) acc with
      | .error err => .error err
      | .ok (acc', rest') => accessorsChildren fuel es rest' stack acc'
end

/-- `PyTreeSpec::Accessors` -/
def accessors (sp : Spec) : Except Err (List (List AccEntry)) :=
  if !sp.sane then .error .internal
  else if sp.numLeaves == 0 then .ok []
  else
    match accessorsGo (sp.nodes.length + 1) sp.nodes.reverse [] [] with
    | .error e => .error e
    | .ok (as, rest) =>
        if !rest.isEmpty then .error .internal
        else if as.length != sp.numLeaves then .error .internal
        else .ok as

/-- `PyTreeSpec::Entries` -/
def entries (sp : Spec) : Except Err (List Key) :=
  if !sp.sane then .error .internal
  else match sp.nodes.getLast? with
  | Option.none => .error .internal
  | some root =>
      match root.entries with
      | some es => .ok es
      | Option.none => .ok root.defaultEntries

/-- Python index normalisation used by `Entry` / `Child` -/
def normIndex (index : Int) (arity : Nat) : Option Nat :=
  if index < -(arity : Int) || index >= (arity : Int) then Option.none
  else if index < 0 then some (index + arity).toNat else some index.toNat

/-- `PyTreeSpec::Entry` -/
def entry (sp : Spec) (index : Int) : Except Err Key :=
  if !sp.sane then .error .internal
  else match sp.nodes.getLast? with
  | Option.none => .error .internal
  | some root =>
      match normIndex index root.arity with
      | Option.none => .error .index
      | some i =>
          match root.entries with
          | some es =>
              match es[i]? with
              | some e => .ok e
              | Option.none => .error .internal
          | Option.none =>
              match root.kind with
              | .leaf | .none => .error .internal
              | .dict | .ordereddict | .defaultdict =>
                  match root.keys[i]? with
                  | some e => .ok e
                  | Option.none => .error .internal
              | _ => .ok (Key.int i)

/-- the right-to-left slicing loop of `Children`: `arity` children out of the nodes before the root -/
def splitChildren : Nat → List Node → Except Err (List (List Node))
  | 0, rest => if rest.isEmpty then .ok [] else .error .internal       -- `pos != 0`
  | n + 1, rest =>
      match rest.getLast? with
      | Option.none => .error .index                                   -- `.at(pos - 1)`
      | some node =>
          if rest.length < node.numNodes then .error .internal
          else
            let cut := rest.length - node.numNodes
            match splitChildren n (rest.take cut) with
            | .error e => .error e
            | .ok cs => .ok (cs ++ [rest.drop cut])

/-- `PyTreeSpec::Children` (each child passes `PYTREESPEC_SANITY_CHECK`) -/
def children (sp : Spec) : Except Err (List Spec) :=
  if !sp.sane then .error .internal
  else match sp.nodes.getLast? with
  | Option.none => .error .internal
  | some root =>
      match splitChildren root.arity sp.nodes.dropLast with
      | .error e => .error e
      | .ok cs =>
          let specs := cs.map fun ns => ({ nodes := ns, noneIsLeaf := sp.noneIsLeaf, ns := sp.ns } : Spec)
          if specs.all Spec.sane then .ok specs else .error .internal

/-- skip `k` subtrees from the right end of `rest`, return what is left -/
def skipRight : Nat → List Node → Except Err (List Node)
  | 0, rest => .ok rest
  | k + 1, rest =>
      match rest.getLast? with
      | Option.none => .error .index
      | some node =>
          if rest.length < node.numNodes then .error .internal
          else skipRight k (rest.take (rest.length - node.numNodes))

/-- `PyTreeSpec::Child` -/
def child (sp : Spec) (index : Int) : Except Err Spec :=
  if !sp.sane then .error .internal
  else match sp.nodes.getLast? with
  | Option.none => .error .internal
  | some root =>
      match normIndex index root.arity with
      | Option.none => .error .index
      | some i =>
          match skipRight (root.arity - 1 - i) sp.nodes.dropLast with
          | .error e => .error e
          | .ok rest =>
              match rest.getLast? with
              | Option.none => .error .index
              | some node =>
                  if rest.length < node.numNodes then .error .internal
                  else
                    let c : Spec := { nodes := rest.drop (rest.length - node.numNodes),
                                      noneIsLeaf := sp.noneIsLeaf, ns := sp.ns }
                    if c.sane then .ok c else .error .internal

/-- `GetOneLevel(node)` -/
def oneLevelOf (sp : Spec) (n : Node) : Spec :=
  { nodes := List.replicate n.arity Node.leaf ++
      [{ n with numLeaves := if n.kind == .leaf then 1 else n.arity, numNodes := n.arity + 1 }]
    noneIsLeaf := sp.noneIsLeaf, ns := sp.ns }

/-- `PyTreeSpec::GetOneLevel()` on the root -/
def oneLevel (sp : Spec) : Except Err Spec :=
  if !sp.sane then .error .internal
  else match sp.nodes.getLast? with
  | Option.none => .error .internal
  | some root => .ok (oneLevelOf sp root)

def Spec.kind (sp : Spec) : Kind := (sp.nodes.getLast?.map (·.kind)).getD .leaf

def Spec.typeRef (sp : Spec) : Except Err TypeRef :=
  match sp.nodes.getLast? with
  | Option.none => .error .internal
  | some root => root.typeRef

/-- `IsLeaf(strict)` -/
def Spec.isLeaf (sp : Spec) (strict : Bool := true) : Bool :=
  if strict then sp.numNodes == 1 && sp.numLeaves == 1 else sp.numNodes == 1

/-- `IsOneLevel` -/
def Spec.isOneLevel (sp : Spec) : Bool :=
  sp.numNodes == sp.numChildren + 1 && sp.numLeaves == sp.numChildren

end Optree
