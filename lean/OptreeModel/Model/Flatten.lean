/-
  The three separately written traversals of the engine, modelled separately:

    flatten          src/treespec/flatten.cpp:33-269     FlattenIntoImpl / FlattenInto / Flatten
    flattenWithPath  src/treespec/flatten.cpp:277-559    FlattenIntoWithPathImpl / … / FlattenWithPath
    iter             src/treespec/traversal.cpp:29-161   PyTreeIter::NextImpl

  plus `getKind` (src/registry.cpp:252-281), `IsLeaf` / `AllLeaves` (flatten.cpp:805-861).

  Recursion over children is structural: the results of all children are computed as a list of
  `Except` values (pure model, so evaluation order is immaterial) and then *sequenced* in the order
  in which the C++ visits them (sorted key order for dicts), which reproduces "first failing child
  wins".
-/
import OptreeModel.Model.Sort

namespace Optree

/-! ### Classification -/

/-- `PyTreeTypeRegistry::GetKind<NoneIsLeaf>`: exact-type registry lookup (namespace first, then
global), then struct sequence, then namedtuple, else leaf.  Sub-class instances of built-in
containers are `leaf` objects in the universe. -/
def getKind (cfg : Cfg) : PyObj → Kind × Option Reg
  | .leaf _ _ => (.leaf, Option.none)
  | .none => if cfg.noneIsLeaf then (.leaf, Option.none) else (.none, Option.none)
  | .tuple _ => (.tuple, Option.none)
  | .list _ => (.list, Option.none)
  | .dict _ => (.dict, Option.none)
  | .odict _ => (.ordereddict, Option.none)
  | .ddict _ _ => (.defaultdict, Option.none)
  | .deque _ _ => (.deque, Option.none)
  | .ntuple cls _ =>
      match cfg.reg.lookup cfg.ns 1 cls with
      | some r => (.custom, some r)
      | Option.none => (.namedtuple, Option.none)
  | .sseq cls _ =>
      match cfg.reg.lookup cfg.ns 2 cls with
      | some r => (.custom, some r)
      | Option.none => (.structseq, Option.none)
  | .user cls _ _ _ =>
      match cfg.reg.lookup cfg.ns 0 cls with
      | some r => (.custom, some r)
      | Option.none => (.leaf, Option.none)

/-- evaluate the `is_leaf` predicate (absent ⇒ false) -/
def Cfg.evalPred (cfg : Cfg) (x : PyObj) : Except Err Bool :=
  match cfg.pred with
  | some p => p x
  | Option.none => .ok false

/-! ### What a registered flatten function returns -/

inductive EntriesRet where
  | absent                     -- 2-tuple
  | noneVal                    -- (…, …, None)
  | tuple (ks : List Key)
  | nonIter                    -- third component is not iterable
  deriving DecidableEq, Repr, Inhabited

structure CustomOut where
  numOut : Nat
  children : Option (List PyObj)      -- none: first component is not iterable
  md : Option Key
  entries : EntriesRet
  deriving Repr, Inhabited

def namedEntries (n : Nat) : List Key := (List.range n).map fun i => Key.str s!"c{i}"
def shiftedEntries (n : Nat) : List Key := (List.range n).map fun (i : Nat) => Key.int (10 + (i : Int))

def entriesFor (mode : EntriesMode) (n : Nat) : EntriesRet :=
  match mode with
  | .two => .absent
  | .none3 => .noneVal
  | .named => .tuple (namedEntries n)
  | .shifted => .tuple (shiftedEntries n)

/-- entries of a given length in the style of the registration (quirks force explicit entries) -/
def forcedEntries (mode : EntriesMode) (n : Nat) : EntriesRet :=
  match mode with
  | .named => .tuple (namedEntries n)
  | _ => .tuple (shiftedEntries n)

def customOutOf (reg : Reg) (md : Option Key) (quirk : Quirk) (children : List PyObj) :
    CustomOut :=
  let n := children.length
  let base : CustomOut :=
    { numOut := if reg.mode == .two then 2 else 3, children := some children, md := md,
      entries := entriesFor reg.mode n }
  match quirk with
  | .ok => base
  | .tupleLen1 => { base with numOut := 1 }
  | .tupleLen4 => { base with numOut := 4 }
  | .entriesMinus => { base with numOut := 3, entries := forcedEntries reg.mode (n - 1) }
  | .entriesPlus => { base with numOut := 3, entries := forcedEntries reg.mode (n + 1) }
  | .childrenNonIter => { base with children := Option.none }
  | .entriesNonIter => { base with numOut := 3, entries := .nonIter }

/-- children / metadata / quirk of an object that `getKind` classified as custom -/
def customParts : PyObj → Option Key × Quirk × List PyObj
  | .user _ md quirk children => (md, quirk, children)
  | .ntuple _ xs => (Option.none, .ok, xs)
  | .sseq _ xs => (Option.none, .ok, xs)
  | _ => (Option.none, .ok, [])

def customOut (reg : Reg) (obj : PyObj) : CustomOut :=
  let (md, quirk, children) := customParts obj
  customOutOf reg md quirk children

/-! ### flatten -/

structure FlatOut where
  leaves : List PyObj
  nodes : List Node
  custom : Bool
  deriving Repr, Inhabited

def FlatOut.empty : FlatOut := ⟨[], [], false⟩

def FlatOut.append (a b : FlatOut) : FlatOut :=
  ⟨a.leaves ++ b.leaves, a.nodes ++ b.nodes, a.custom || b.custom⟩

/-- sequence child results left to right; the first error wins -/
def seqOuts : List (Except Err FlatOut) → Except Err FlatOut
  | [] => .ok FlatOut.empty
  | r :: rs =>
      match r with
      | .error e => .error e
      | .ok a =>
          match seqOuts rs with
          | .error e => .error e
          | .ok b => .ok (a.append b)

/-- append the parent's node record after its children's -/
def FlatOut.close (body : FlatOut) (kind : Kind) (arity : Nat) (data : NodeData)
    (entries : Option (List Key)) (custom : Option Reg) (okeys : Option (List Key))
    (foundCustom : Bool) : FlatOut :=
  { leaves := body.leaves
    nodes := body.nodes ++ [{ kind, arity, data, entries, custom,
                              numLeaves := body.leaves.length, numNodes := body.nodes.length + 1,
                              originalKeys := okeys }]
    custom := body.custom || foundCustom }

def leafOut (x : PyObj) : FlatOut := ⟨[x], [Node.leaf], false⟩

/-- sequence the children's results, then append the parent's node record -/
def closeSeq (rs : List (Except Err FlatOut)) (kind : Kind) (arity : Nat) (data : NodeData)
    (entries : Option (List Key)) (custom : Option Reg) (okeys : Option (List Key)) :
    Except Err FlatOut :=
  match seqOuts rs with
  | .error e => .error e
  | .ok b => .ok (b.close kind arity data entries custom okeys false)

/-- order in which a dict-kind node's items are visited -/
def dictOrder {α : Type} (isOrderedDict sorted : Bool) (items : List (Key × α)) : List (Key × α) :=
  if !isOrderedDict && sorted then totalOrderSortOn (·.1) items else items

/-- `FlattenIntoImpl`'s Custom case, given the already computed child results -/
def customFlatten (reg : Reg) (co : CustomOut) (rs : List (Except Err FlatOut)) :
    Except Err FlatOut :=
  if co.numOut != 2 && co.numOut != 3 then .error .runtime
  else match co.children with
    | Option.none => .error .type_       -- TypeError: object is not iterable
    | some _ =>
      match seqOuts rs with
      | .error e => .error e
      | .ok body =>
        let arity := rs.length
        let ent : Except Err (Option (List Key)) :=
          if co.numOut == 3 then
            match co.entries with
            | .absent | .noneVal => .ok Option.none
            | .tuple ks => if ks.length != arity then .error .runtime else .ok (some ks)
            | .nonIter => .error .type_
          else .ok Option.none
        match ent with
        | .error e => .error e
        | .ok entries =>
          .ok (body.close .custom arity (.md co.md) entries (some reg) Option.none true)

mutual
/-- `FlattenIntoImpl<NoneIsLeaf, DictShouldBeSorted>` -/
def flattenGo (cfg : Cfg) (sorted : Bool) (d : Nat) (x : PyObj) : Except Err FlatOut :=
  if d > cfg.maxDepth then .error .recursion
  else match cfg.evalPred x with
  | .error e => .error e
  | .ok true => .ok (leafOut x)
  | .ok false =>
    match x with
    | .leaf _ _ => .ok (leafOut x)
    | .none =>
        if cfg.noneIsLeaf then .ok (leafOut x)
        else .ok (FlatOut.empty.close .none 0 .none Option.none Option.none Option.none false)
    | .tuple xs =>
        closeSeq (flattenList cfg sorted (d + 1) xs) .tuple xs.length .none Option.none Option.none Option.none
    | .list xs =>
        closeSeq (flattenList cfg sorted (d + 1) xs) .list xs.length .none Option.none Option.none Option.none
    | .dict kvs =>
        let items := dictOrder false sorted (flattenKVs cfg sorted (d + 1) kvs)
        closeSeq (items.map (·.2)) .dict kvs.length (.keys (items.map (·.1))) Option.none Option.none (some (kvs.map (·.1)))
    | .odict kvs =>
        let items := flattenKVs cfg sorted (d + 1) kvs
        closeSeq (items.map (·.2)) .ordereddict kvs.length (.keys (items.map (·.1))) Option.none Option.none Option.none
    | .ddict f kvs =>
        let items := dictOrder false sorted (flattenKVs cfg sorted (d + 1) kvs)
        closeSeq (items.map (·.2)) .defaultdict kvs.length (.ddict f (items.map (·.1))) Option.none Option.none (some (kvs.map (·.1)))
    | .deque m xs =>
        closeSeq (flattenList cfg sorted (d + 1) xs) .deque xs.length (.maxlen m) Option.none Option.none Option.none
    | .ntuple cls xs =>
        match cfg.reg.lookup cfg.ns 1 cls with
        | some reg =>
            customFlatten reg (customOutOf reg Option.none .ok xs) (flattenList cfg sorted (d + 1) xs)
        | Option.none =>
          closeSeq (flattenList cfg sorted (d + 1) xs) .namedtuple xs.length (.cls cls) Option.none Option.none Option.none
    | .sseq cls xs =>
        match cfg.reg.lookup cfg.ns 2 cls with
        | some reg =>
            customFlatten reg (customOutOf reg Option.none .ok xs) (flattenList cfg sorted (d + 1) xs)
        | Option.none =>
          closeSeq (flattenList cfg sorted (d + 1) xs) .structseq xs.length (.cls cls) Option.none Option.none Option.none
    | .user cls md quirk children =>
        match cfg.reg.lookup cfg.ns 0 cls with
        | some reg =>
            customFlatten reg (customOutOf reg md quirk children)
              (flattenList cfg sorted (d + 1) children)
        | Option.none => .ok (leafOut x)

def flattenList (cfg : Cfg) (sorted : Bool) (d : Nat) : List PyObj → List (Except Err FlatOut)
  | [] => []
  | x :: xs => flattenGo cfg sorted d x :: flattenList cfg sorted d xs

def flattenKVs (cfg : Cfg) (sorted : Bool) (d : Nat) :
    List (Key × PyObj) → List (Key × Except Err FlatOut)
  | [] => []
  | (k, x) :: xs => (k, flattenGo cfg sorted d x) :: flattenKVs cfg sorted d xs
end

/-- `PyTreeSpec::Flatten` (+ `FlattenInto`): choose the sorted / insertion-ordered instantiation,
record the namespace iff a custom node was found or the namespace itself is insertion-ordered. -/
def flatten (cfg : Cfg) (t : PyObj) : Except Err (List PyObj × Spec) :=
  let ordered := cfg.insertionOrdered
  let orderedHere := cfg.insertionOrdered (inherit := false)
  match flattenGo cfg (!ordered) 0 t with
  | .error e => .error e
  | .ok out =>
      .ok (out.leaves,
           { nodes := out.nodes, noneIsLeaf := cfg.noneIsLeaf,
             ns := if out.custom || orderedHere then cfg.ns else "" })

/-! ### flatten with path -/

structure FlatOutP where
  leaves : List (List Key × PyObj)     -- (path, leaf)
  nodes : List Node
  custom : Bool
  deriving Repr, Inhabited

def FlatOutP.empty : FlatOutP := ⟨[], [], false⟩

def FlatOutP.append (a b : FlatOutP) : FlatOutP :=
  ⟨a.leaves ++ b.leaves, a.nodes ++ b.nodes, a.custom || b.custom⟩

def seqOutsP : List (Except Err FlatOutP) → Except Err FlatOutP
  | [] => .ok FlatOutP.empty
  | r :: rs =>
      match r with
      | .error e => .error e
      | .ok a =>
          match seqOutsP rs with
          | .error e => .error e
          | .ok b => .ok (a.append b)

def FlatOutP.close (body : FlatOutP) (kind : Kind) (arity : Nat) (data : NodeData)
    (entries : Option (List Key)) (custom : Option Reg) (okeys : Option (List Key))
    (foundCustom : Bool) : FlatOutP :=
  { leaves := body.leaves
    nodes := body.nodes ++ [{ kind, arity, data, entries, custom,
                              numLeaves := body.leaves.length, numNodes := body.nodes.length + 1,
                              originalKeys := okeys }]
    custom := body.custom || foundCustom }

def leafOutP (path : List Key) (x : PyObj) : FlatOutP := ⟨[(path, x)], [Node.leaf], false⟩

def closeSeqP (rs : List (Except Err FlatOutP)) (kind : Kind) (arity : Nat) (data : NodeData)
    (entries : Option (List Key)) (custom : Option Reg) (okeys : Option (List Key)) :
    Except Err FlatOutP :=
  match seqOutsP rs with
  | .error e => .error e
  | .ok b => .ok (b.close kind arity data entries custom okeys false)

def intEntries (n : Nat) : List Key := (List.range n).map fun (i : Nat) => Key.int (i : Int)

/-- `FlattenIntoWithPathImpl`'s Custom case.  `rsInt` are the child results under integer entries,
`rsEnt ks` under the explicit entries `ks` (children beyond `ks.length` are never visited). -/
def customFlattenP (reg : Reg) (co : CustomOut) (rsInt : List (Except Err FlatOutP))
    (rsEnt : List Key → List (Except Err FlatOutP)) (numChildren : Nat) : Except Err FlatOutP :=
  if co.numOut != 2 && co.numOut != 3 then .error .runtime
  else
    let entries := if co.numOut == 3 then co.entries else .absent
    match entries with
    | .absent | .noneVal =>
        match co.children with
        | Option.none => .error .type_
        | some _ =>
          match seqOutsP rsInt with
          | .error e => .error e
          | .ok body => .ok (body.close .custom numChildren (.md co.md) Option.none (some reg)
                               Option.none true)
    | .nonIter => .error .type_
    | .tuple ks =>
        match co.children with
        | Option.none => .error .type_
        | some _ =>
          let arity := ks.length
          match seqOutsP ((rsEnt ks).take arity) with
          | .error e => .error e
          | .ok body =>
            if numChildren != arity then .error .runtime
            else .ok (body.close .custom arity (.md co.md) (some ks) (some reg) Option.none true)

mutual
/-- `FlattenIntoWithPathImpl`; `path` is the entry stack (root first) -/
def flattenGoP (cfg : Cfg) (sorted : Bool) (d : Nat) (path : List Key) (x : PyObj) :
    Except Err FlatOutP :=
  if d > cfg.maxDepth then .error .recursion
  else match cfg.evalPred x with
  | .error e => .error e
  | .ok true => .ok (leafOutP path x)
  | .ok false =>
    match x with
    | .leaf _ _ => .ok (leafOutP path x)
    | .none =>
        if cfg.noneIsLeaf then .ok (leafOutP path x)
        else .ok (FlatOutP.empty.close .none 0 .none Option.none Option.none Option.none false)
    | .tuple xs =>
        closeSeqP (flattenListP cfg sorted (d + 1) path 0 xs) .tuple xs.length .none Option.none Option.none Option.none
    | .list xs =>
        closeSeqP (flattenListP cfg sorted (d + 1) path 0 xs) .list xs.length .none Option.none Option.none Option.none
    | .dict kvs =>
        let items := dictOrder false sorted (flattenKVsP cfg sorted (d + 1) path kvs)
        closeSeqP (items.map (·.2)) .dict kvs.length (.keys (items.map (·.1))) Option.none Option.none (some (kvs.map (·.1)))
    | .odict kvs =>
        let items := flattenKVsP cfg sorted (d + 1) path kvs
        closeSeqP (items.map (·.2)) .ordereddict kvs.length (.keys (items.map (·.1))) Option.none Option.none Option.none
    | .ddict f kvs =>
        let items := dictOrder false sorted (flattenKVsP cfg sorted (d + 1) path kvs)
        closeSeqP (items.map (·.2)) .defaultdict kvs.length (.ddict f (items.map (·.1))) Option.none Option.none (some (kvs.map (·.1)))
    | .deque m xs =>
        closeSeqP (flattenListP cfg sorted (d + 1) path 0 xs) .deque xs.length (.maxlen m) Option.none Option.none Option.none
    | .ntuple cls xs =>
        match cfg.reg.lookup cfg.ns 1 cls with
        | some reg =>
            customFlattenP reg (customOutOf reg Option.none .ok xs)
              (flattenListP cfg sorted (d + 1) path 0 xs)
              (fun ks => flattenListE cfg sorted (d + 1) path ks xs) xs.length
        | Option.none =>
          closeSeqP (flattenListP cfg sorted (d + 1) path 0 xs) .namedtuple xs.length (.cls cls) Option.none Option.none Option.none
    | .sseq cls xs =>
        match cfg.reg.lookup cfg.ns 2 cls with
        | some reg =>
            customFlattenP reg (customOutOf reg Option.none .ok xs)
              (flattenListP cfg sorted (d + 1) path 0 xs)
              (fun ks => flattenListE cfg sorted (d + 1) path ks xs) xs.length
        | Option.none =>
          closeSeqP (flattenListP cfg sorted (d + 1) path 0 xs) .structseq xs.length (.cls cls) Option.none Option.none Option.none
    | .user cls md quirk children =>
        match cfg.reg.lookup cfg.ns 0 cls with
        | some reg =>
            customFlattenP reg (customOutOf reg md quirk children)
              (flattenListP cfg sorted (d + 1) path 0 children)
              (fun ks => flattenListE cfg sorted (d + 1) path ks children) children.length
        | Option.none => .ok (leafOutP path x)

/-- children under integer entries `i, i+1, …` -/
def flattenListP (cfg : Cfg) (sorted : Bool) (d : Nat) (path : List Key) (i : Nat) :
    List PyObj → List (Except Err FlatOutP)
  | [] => []
  | x :: xs =>
      flattenGoP cfg sorted d (path ++ [Key.int (i : Int)]) x :: flattenListP cfg sorted d path (i + 1) xs

/-- children under explicit entries (stops at the shorter list) -/
def flattenListE (cfg : Cfg) (sorted : Bool) (d : Nat) (path : List Key) :
    List Key → List PyObj → List (Except Err FlatOutP)
  | _, [] => []
  | [], _ :: _ => []
  | k :: ks, x :: xs =>
      flattenGoP cfg sorted d (path ++ [k]) x :: flattenListE cfg sorted d path ks xs

def flattenKVsP (cfg : Cfg) (sorted : Bool) (d : Nat) (path : List Key) :
    List (Key × PyObj) → List (Key × Except Err FlatOutP)
  | [] => []
  | (k, x) :: xs => (k, flattenGoP cfg sorted d (path ++ [k]) x) :: flattenKVsP cfg sorted d path xs
end

/-- `PyTreeSpec::FlattenWithPath` -/
def flattenWithPath (cfg : Cfg) (t : PyObj) : Except Err (List (List Key) × List PyObj × Spec) :=
  let ordered := cfg.insertionOrdered
  let orderedHere := cfg.insertionOrdered (inherit := false)
  match flattenGoP cfg (!ordered) 0 [] t with
  | .error e => .error e
  | .ok out =>
      .ok (out.leaves.map (·.1), out.leaves.map (·.2),
           { nodes := out.nodes, noneIsLeaf := cfg.noneIsLeaf,
             ns := if out.custom || orderedHere then cfg.ns else "" })

/-! ### the lazy iterator -/

/-- the Custom case of `NextImpl`: validate what the flatten function returned -/
def iterCustomChildren (co : CustomOut) : Except Err (Option (List PyObj)) :=
  if co.numOut != 2 && co.numOut != 3 then .error .runtime
  else match co.children with
    | Option.none => .error .type_              -- `py::tuple(obj)` on a non-iterable
    | some cs =>
      let bad :=
        if co.numOut == 3 then
          match co.entries with
          | .absent | .noneVal => Option.none
          | .tuple ks => if ks.length != cs.length then some Err.runtime else Option.none
          | .nonIter => some Err.type_
        else Option.none
      match bad with
      | some e => .error e
      | Option.none => .ok (some cs)

/-- children of a node in visiting order, as the iterator computes them (`NextImpl`'s switch) -/
def iterChildren (cfg : Cfg) (sorted : Bool) (x : PyObj) : Except Err (Option (List PyObj)) :=
  match x with
  | .leaf _ _ => .ok Option.none
  | .none => if cfg.noneIsLeaf then .ok Option.none else .ok (some [])
  | .tuple xs => .ok (some xs)
  | .list xs => .ok (some xs)
  | .dict kvs => .ok (some ((dictOrder false sorted kvs).map (·.2)))
  | .odict kvs => .ok (some (kvs.map (·.2)))
  | .ddict _ kvs => .ok (some ((dictOrder false sorted kvs).map (·.2)))
  | .deque _ xs => .ok (some xs)
  | .ntuple _ xs | .sseq _ xs | .user _ _ _ xs =>
      match (getKind cfg x).2 with
      | Option.none =>
          match x with
          | .user _ _ _ _ => .ok Option.none           -- unregistered user object: a leaf
          | _ => .ok (some xs)                          -- namedtuple / struct sequence
      | some reg => iterCustomChildren (customOut reg x)

/-- run the agenda to exhaustion: `fuel` bounds the number of pops -/
def iterRun (cfg : Cfg) (sorted : Bool) : Nat → List (PyObj × Nat) → List PyObj →
    Except Err (List PyObj)
  | _, [], acc => .ok acc.reverse
  | 0, _ :: _, _ => .error .internal          -- out of fuel (never with fuel ≥ size of the tree)
  | fuel + 1, (x, d) :: agenda, acc =>
      if d > cfg.maxDepth then .error .recursion
      else match cfg.evalPred x with
      | .error e => .error e
      | .ok true => iterRun cfg sorted fuel agenda (x :: acc)
      | .ok false =>
        match iterChildren cfg sorted x with
        | .error e => .error e
        | .ok Option.none => iterRun cfg sorted fuel agenda (x :: acc)
        | .ok (some cs) => iterRun cfg sorted fuel (cs.map (·, d + 1) ++ agenda) acc

mutual
def PyObj.size : PyObj → Nat
  | .leaf _ _ => 1
  | .none => 1
  | .tuple xs | .list xs | .deque _ xs | .ntuple _ xs | .sseq _ xs | .user _ _ _ xs =>
      1 + PyObj.sizeList xs
  | .dict kvs | .odict kvs | .ddict _ kvs => 1 + PyObj.sizeKVs kvs
def PyObj.sizeList : List PyObj → Nat
  | [] => 0
  | x :: xs => PyObj.size x + PyObj.sizeList xs
def PyObj.sizeKVs : List (Key × PyObj) → Nat
  | [] => 0
  | (_, x) :: xs => PyObj.size x + PyObj.sizeKVs xs
end

/-- `list(tree_iter(t))` -/
def iterAll (cfg : Cfg) (t : PyObj) : Except Err (List PyObj) :=
  iterRun cfg (!cfg.insertionOrdered) (t.size + 1) [(t, 0)] []

/-! ### IsLeaf / AllLeaves -/

def isLeaf (cfg : Cfg) (x : PyObj) : Except Err Bool :=
  match cfg.evalPred x with
  | .error e => .error e
  | .ok true => .ok true
  | .ok false => .ok ((getKind cfg x).1 == .leaf)

def allLeaves (cfg : Cfg) : List PyObj → Except Err Bool
  | [] => .ok true
  | x :: xs =>
      match isLeaf cfg x with
      | .error e => .error e
      | .ok false => .ok false
      | .ok true => allLeaves cfg xs

end Optree
