/-
  optree.dataclasses.dataclass (optree/dataclasses.py:170-330) and optree.functools.partial
  (optree/functools.py), as far as their pytree behaviour goes.  `dataclasses.dataclass` itself is not
  modelled (differential against the stdlib in the implementation oracle).
-/
import OptreeModel.Model.Basic

namespace Optree

structure FieldSpec where
  name : String
  init : Bool
  pytreeNode : Bool
  /-- `field(kw_only=True)` -/
  kwOnly : Bool := true
  /-- 0 = no default, 1 = `default=`, 2 = `default_factory=` -/
  dflt : Nat := 0
  /-- declared in a base dataclass (such fields come first in `dataclasses.fields`) -/
  inherited : Bool := false
  deriving DecidableEq, Repr, Inhabited

/-- keyword arguments of the decorator / of `make_dataclass` that `dataclasses.dataclass` interprets -/
structure DcOpts where
  /-- 0 = `@dataclass(namespace=…)` on a class statement, 1 = `make_dataclass(name, fields, namespace=…)` -/
  via : Nat := 0
  slots : Bool := false
  frozen : Bool := false
  kwOnly : Bool := false
  order : Bool := false
  deriving DecidableEq, Repr, Inhabited

/-- how the decorator is applied -/
structure DcCall where
  fields : List FieldSpec
  alreadyDecorated : Bool
  nsEmpty : Bool
  isClass : Bool
  opts : DcOpts := {}
  deriving Repr, Inhabited

/-- the children / metadata field partition computed by the decorator, or the rejection.  It is a
function of the (name, init, pytree_node) triples in `dataclasses.fields` order only: defaults,
`kw_only`, `slots`, `frozen`, `order`, inheritance and the route (decorator or `make_dataclass`) do not
enter (C19_partition_options_irrelevant). -/
def dcPartition (c : DcCall) : Except Err (List String × List String) :=
  -- `field(init=False, pytree_node=True)` is rejected when the field is declared (dataclasses.py:185),
  -- before the decorator runs; the decorator repeats the check for fields declared some other way
  if c.fields.any (fun f => f.pytreeNode && !f.init) then .error .type_
  else if !c.isClass then .error .type_
  else if c.alreadyDecorated then .error .type_
  else if c.nsEmpty then .error .value
  else .ok ((c.fields.filter (·.pytreeNode)).map (·.name),
            (c.fields.filter (fun f => !f.pytreeNode && f.init)).map (·.name))

/-- an instance: field name ↦ value -/
abbrev DcObj (α : Type) := List (String × α)

def dcGet {α : Type} [Inhabited α] (o : DcObj α) (n : String) : α :=
  ((o.find? fun p => p.1 == n).map (·.2)).getD default

/-- `flatten_func`: (children, metadata, entries) -/
def dcFlatten {α : Type} [Inhabited α] (children metadata : List String) (o : DcObj α) :
    List α × List (String × α) × List String :=
  (children.map (dcGet o), metadata.map fun n => (n, dcGet o n), children)

/-- `unflatten_func`: `cls(**dict(zip(children_names, children)), **dict(metadata))`; the keyword
arguments the constructor receives -/
def dcUnflattenKwargs {α : Type} (children : List String) (md : List (String × α)) (cs : List α) :
    List (String × α) :=
  children.zip cs ++ md

/-! ### partial -/

/-- `optree.functools.partial(func, *args, **keywords)`; `func` is opaque (possibly itself a partial,
which is *not* merged) -/
structure Partial (α : Type) where
  func : Nat
  args : List α
  keywords : List (String × α)
  deriving Repr, Inhabited

/-- `tree_flatten`: children `(args, keywords)`, metadata `func`, entries `('args', 'keywords')` -/
def partialFlatten {α : Type} (p : Partial α) : (List α × List (String × α)) × Nat × List String :=
  ((p.args, p.keywords), p.func, ["args", "keywords"])

/-- `tree_unflatten(metadata, children)` -/
def partialUnflatten {α : Type} (func : Nat) (children : List α × List (String × α)) : Partial α :=
  ⟨func, children.1, children.2⟩

end Optree
