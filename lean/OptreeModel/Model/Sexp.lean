/-
  S-expressions of the line protocol (DESIGN.md A.3): parser, printer, encoders / decoders for the
  model's values.  Anything the decoders do not recognise is an error: the driver answers `bad-op`,
  it never defaults.
-/
import OptreeModel.Model.Inspect

namespace Optree

inductive Sexp where
  | atom (s : String)
  | str (s : String)
  | list (xs : List Sexp)
  deriving Repr, Inhabited, BEq

namespace Sexp

/-! ### tokenizer / parser (over `List Char`, fuel = input length) -/

inductive Tok where
  | lp | rp | atom (s : String) | str (s : String)
  deriving Repr, Inhabited

partial def tokenize (cs : List Char) (acc : Array Tok) : Except String (Array Tok) :=
  match cs with
  | [] => .ok acc
  | c :: rest =>
      if c == ' ' || c == '\n' || c == '\t' || c == '\r' then tokenize rest acc
      else if c == '(' then tokenize rest (acc.push .lp)
      else if c == ')' then tokenize rest (acc.push .rp)
      else if c == '"' then
        let rec strGo (cs : List Char) (buf : String) : Except String (String × List Char) :=
          match cs with
          | [] => .error "unterminated string"
          | '"' :: rest => .ok (buf, rest)
          | '\\' :: c :: rest =>
              let c' := if c == 'n' then '\n' else if c == 't' then '\t' else c
              strGo rest (buf.push c')
          | c :: rest => strGo rest (buf.push c)
        match strGo rest "" with
        | .error e => .error e
        | .ok (s, rest') => tokenize rest' (acc.push (.str s))
      else
        let rec atomGo (cs : List Char) (buf : String) : String × List Char :=
          match cs with
          | [] => (buf, [])
          | c :: rest =>
              if c == ' ' || c == '(' || c == ')' || c == '\n' || c == '\t' || c == '"' then (buf, cs)
              else atomGo rest (buf.push c)
        let (s, rest') := atomGo cs ""
        tokenize rest' (acc.push (.atom s))

partial def parseToks (toks : Array Tok) (i : Nat) : Except String (Sexp × Nat) :=
  match toks[i]? with
  | Option.none => .error "unexpected end"
  | some .rp => .error "unexpected )"
  | some (.atom s) => .ok (.atom s, i + 1)
  | some (.str s) => .ok (.str s, i + 1)
  | some .lp =>
      let rec items (j : Nat) (acc : Array Sexp) : Except String (Sexp × Nat) :=
        match toks[j]? with
        | Option.none => .error "missing )"
        | some .rp => .ok (.list acc.toList, j + 1)
        | some _ =>
            match parseToks toks j with
            | .error e => .error e
            | .ok (x, j') => items j' (acc.push x)
      items (i + 1) #[]

def parse (line : String) : Except String Sexp :=
  match tokenize line.toList #[] with
  | .error e => .error e
  | .ok toks =>
      match parseToks toks 0 with
      | .error e => .error e
      | .ok (x, j) => if j == toks.size then .ok x else .error "trailing tokens"

def escape (s : String) : String :=
  s.foldl (fun acc c =>
    if c == '"' then acc ++ "\\\"" else if c == '\\' then acc ++ "\\\\"
    else if c == '\n' then acc ++ "\\n" else acc.push c) ""

partial def render : Sexp → String
  | .atom s => s
  | .str s => "\"" ++ escape s ++ "\""
  | .list xs => "(" ++ " ".intercalate (xs.map render) ++ ")"

def nat (n : Nat) : Sexp := .atom (toString n)
def int (i : Int) : Sexp := .atom (toString i)
def bool (b : Bool) : Sexp := .atom (if b then "1" else "0")
def l (xs : List Sexp) : Sexp := .list xs
def tagged (t : String) (xs : List Sexp) : Sexp := .list (.atom t :: xs)

end Sexp

open Sexp

/-! ### decoders -/

abbrev Dec := Except String

def decNat : Sexp → Dec Nat
  | .atom s => match s.toNat? with
    | some n => .ok n
    | Option.none => .error s!"nat expected: {s}"
  | _ => .error "nat expected"

def decInt : Sexp → Dec Int
  | .atom s => match s.toInt? with
    | some n => .ok n
    | Option.none => .error s!"int expected: {s}"
  | _ => .error "int expected"

def decBool : Sexp → Dec Bool
  | .atom "1" => .ok true
  | .atom "0" => .ok false
  | _ => .error "bool expected"

def decStr : Sexp → Dec String
  | .str s => .ok s
  | _ => .error "string expected"

def decOptNat : Sexp → Dec (Option Nat)
  | .atom "N" => .ok Option.none
  | x => do let n ← decNat x; pure (some n)

def decList {α : Type} (f : Sexp → Dec α) : List Sexp → Dec (List α)
  | [] => .ok []
  | x :: xs => do let a ← f x; let as ← decList f xs; pure (a :: as)

def decKey : Sexp → Dec Key
  | .list [.atom "i", x] => do let i ← decInt x; pure (.int i)
  | .list [.atom "s", .str s] => .ok (.str s)
  | .list (.atom "t" :: xs) => do let is ← decList decInt xs; pure (.tup is)
  | .list [.atom "o", .str tag, o, r, u] => do
      let o ← decBool o; let r ← decNat r; let u ← decNat u; pure (.obj tag o r u)
  | _ => .error "key expected"

def decOptKey : Sexp → Dec (Option Key)
  | .atom "N" => .ok Option.none
  | x => do let k ← decKey x; pure (some k)

def decQuirk : Sexp → Dec Quirk
  | .atom "ok" => .ok .ok
  | .atom "len1" => .ok .tupleLen1
  | .atom "len4" => .ok .tupleLen4
  | .atom "ent-" => .ok .entriesMinus
  | .atom "ent+" => .ok .entriesPlus
  | .atom "chNI" => .ok .childrenNonIter
  | .atom "enNI" => .ok .entriesNonIter
  | _ => .error "quirk expected"

mutual
partial def decObj : Sexp → Dec PyObj
  | .list [.atom "L", ty, uid] => do let ty ← decNat ty; let uid ← decNat uid; pure (.leaf ty uid)
  | .atom "N" => .ok .none
  | .list (.atom "T" :: xs) => do let xs ← decList decObj xs; pure (.tuple xs)
  | .list (.atom "l" :: xs) => do let xs ← decList decObj xs; pure (.list xs)
  | .list (.atom "D" :: kvs) => do let kvs ← decList decKV kvs; pure (.dict kvs)
  | .list (.atom "O" :: kvs) => do let kvs ← decList decKV kvs; pure (.odict kvs)
  | .list (.atom "DD" :: f :: kvs) => do
      let f ← decOptNat f; let kvs ← decList decKV kvs; pure (.ddict f kvs)
  | .list (.atom "Q" :: m :: xs) => do
      let m ← decOptNat m; let xs ← decList decObj xs; pure (.deque m xs)
  | .list (.atom "NT" :: c :: xs) => do
      let c ← decNat c; let xs ← decList decObj xs; pure (.ntuple c xs)
  | .list (.atom "SS" :: c :: xs) => do
      let c ← decNat c; let xs ← decList decObj xs; pure (.sseq c xs)
  | .list (.atom "U" :: c :: m :: q :: xs) => do
      let c ← decNat c; let m ← decOptKey m; let q ← decQuirk q
      let xs ← decList decObj xs; pure (.user c m q xs)
  | _ => .error "tree expected"
partial def decKV : Sexp → Dec (Key × PyObj)
  | .list [k, v] => do let k ← decKey k; let v ← decObj v; pure (k, v)
  | _ => .error "key-value expected"
end

def decEntryKind : Sexp → Dec EntryKind
  | .atom "auto" => .ok .auto
  | .atom "getitem" => .ok .getitem
  | .atom "getattr" => .ok .getattr
  | .atom "flattened" => .ok .flattened
  | .atom "sequence" => .ok .sequence
  | .atom "mapping" => .ok .mapping
  | .atom "namedtuple" => .ok .namedtuple
  | .atom "structseq" => .ok .structseq
  | .atom "dataclass" => .ok .dataclass
  | _ => .error "entry kind expected"

def decMode : Sexp → Dec EntriesMode
  | .atom "two" => .ok .two
  | .atom "none3" => .ok .none3
  | .atom "named" => .ok .named
  | .atom "shifted" => .ok .shifted
  | _ => .error "entries mode expected"

/-! ### encoders (canonical values) -/

def encKey : Key → Sexp
  | .int i => l [.atom "i", Sexp.int i]
  | .str s => l [.atom "s", .str s]
  | .tup is => l (.atom "t" :: is.map Sexp.int)
  | .obj tag o r u => l [.atom "o", .str tag, Sexp.bool o, nat r, nat u]

def encOptKey : Option Key → Sexp
  | Option.none => .atom "N"
  | some k => encKey k

def encOptNat : Option Nat → Sexp
  | Option.none => .atom "N"
  | some n => nat n

def encKeys (ks : List Key) : Sexp := l (ks.map encKey)

def encOptKeys : Option (List Key) → Sexp
  | Option.none => .atom "N"
  | some ks => encKeys ks

def encQuirk : Quirk → Sexp
  | .ok => .atom "ok"
  | .tupleLen1 => .atom "len1"
  | .tupleLen4 => .atom "len4"
  | .entriesMinus => .atom "ent-"
  | .entriesPlus => .atom "ent+"
  | .childrenNonIter => .atom "chNI"
  | .entriesNonIter => .atom "enNI"

mutual
partial def encObj : PyObj → Sexp
  | .leaf ty uid => l [.atom "L", nat ty, nat uid]
  | .none => .atom "N"
  | .tuple xs => l (.atom "T" :: xs.map encObj)
  | .list xs => l (.atom "l" :: xs.map encObj)
  | .dict kvs => l (.atom "D" :: kvs.map encKV)
  | .odict kvs => l (.atom "O" :: kvs.map encKV)
  | .ddict f kvs => l (.atom "DD" :: encOptNat f :: kvs.map encKV)
  | .deque m xs => l (.atom "Q" :: encOptNat m :: xs.map encObj)
  | .ntuple c xs => l (.atom "NT" :: nat c :: xs.map encObj)
  | .sseq c xs => l (.atom "SS" :: nat c :: xs.map encObj)
  | .user c m q xs => l (.atom "U" :: nat c :: encOptKey m :: encQuirk q :: xs.map encObj)
partial def encKV : Key × PyObj → Sexp
  | (k, v) => l [encKey k, encObj v]
end

def encData : NodeData → Sexp
  | .none => .atom "-"
  | .keys ks => l [.atom "keys", encKeys ks]
  | .ddict f ks => l [.atom "ddict", encOptNat f, encKeys ks]
  | .cls c => l [.atom "cls", nat c]
  | .maxlen m => l [.atom "maxlen", encOptNat m]
  | .md m => l [.atom "md", encOptKey m]

/-- the custom *type* only: the registration's identity is not observable from Python -/
def encCustom : Option Reg → Sexp
  | Option.none => .atom "-"
  | some r => l [nat r.clsKind, nat r.cls]

def encNode (n : Node) : Sexp :=
  l [nat n.kind.toNat, nat n.arity, encData n.data, encOptKeys n.entries, encCustom n.custom,
     nat n.numLeaves, nat n.numNodes, encOptKeys n.originalKeys]

def encSpec (sp : Spec) : Sexp :=
  l [.atom "spec", Sexp.bool sp.noneIsLeaf, .str sp.ns, l (sp.nodes.map encNode)]

def errName : Err → String
  | .recursion => "RecursionError"
  | .runtime => "RuntimeError"
  | .value => "ValueError"
  | .type_ => "TypeError"
  | .index => "IndexError"
  | .key => "KeyError"
  | .attr => "AttributeError"
  | .internal => "InternalError"
  | .user n => s!"User{n}"
  | .memoryFault => "MemoryFault"

def encErr (e : Err) : Sexp := l [.atom "err", .atom (errName e)]
def encOk (xs : List Sexp) : Sexp := l (.atom "ok" :: xs)

def encTypeRef : TypeRef → Sexp
  | .noneT => .atom "N"
  | .builtin k => l [.atom "b", nat k.toNat]
  | .nt c => l [.atom "nt", nat c]
  | .ss c => l [.atom "ss", nat c]
  | .cust k c => l [.atom "c", nat k, nat c]

def entryKindName : EntryKind → String
  | .auto => "auto" | .getitem => "getitem" | .getattr => "getattr" | .flattened => "flattened"
  | .sequence => "sequence" | .mapping => "mapping" | .namedtuple => "namedtuple"
  | .structseq => "structseq" | .dataclass => "dataclass"

def encAccEntry (a : AccEntry) : Sexp :=
  l [encKey a.entry, encTypeRef a.ty, nat a.kind.toNat, .atom (entryKindName a.ek)]

end Optree
