/-
  The insertion-ordered-dict mode as a state machine.

    optree/registry.py:619-663     dict_insertion_ordered (context manager: save the namespace's *own*
                                   flag, set, restore in `finally`)
    include/optree/treespec.h:273-295   IsDictInsertionOrdered / SetDictInsertionOrdered

  The state is the characteristic function of `sm_is_dict_insertion_ordered` ("" = global namespace).
-/
import OptreeModel.Model.Basic

namespace Optree

abbrev OState := String → Bool

def OState.init : OState := fun _ => false

/-- `SetDictInsertionOrdered(mode, ns)` -/
def OState.set (s : OState) (mode : Bool) (ns : String) : OState :=
  fun n => if n = ns then mode else s n

/-- `IsDictInsertionOrdered(ns, inherit_global_namespace)` -/
def OState.ordered (s : OState) (ns : String) (inherit : Bool := true) : Bool :=
  s ns || (inherit && s "")

inductive OEvent where
  | enter (mode : Bool) (ns : String)
  | exit                               -- the innermost block ends normally
  | raise                              -- an exception propagates out of every open block
  deriving Repr, Inhabited

/-- the stack of open `with` blocks: (namespace, saved own flag), innermost first -/
abbrev OStack := List (String × Bool)

/-- run the `finally` clauses of all the blocks on the stack, innermost first -/
def unwind : OStack → OState → OState
  | [], s => s
  | (ns, prev) :: st, s => unwind st (s.set prev ns)

def ostep (st : OState × OStack) : OEvent → OState × OStack
  | .enter mode ns => ((st.1.set mode ns), (ns, st.1 ns) :: st.2)
  | .exit =>
      match st.2 with
      | [] => st
      | (ns, prev) :: rest => (st.1.set prev ns, rest)
  | .raise => (unwind st.2 st.1, [])

def orun (events : List OEvent) (st : OState × OStack) : OState × OStack :=
  events.foldl ostep st

end Optree
