/-
  Abstract machines for C16.

  (1) `loopRun`: a C++ loop `n = size(c); for (i = 0; i < n; ++i) body(get(c, i))` whose body may
      call back into Python, where an adversarial callback may shrink / grow / clear the container.
      Whether the loop can touch invalid memory depends on four facts about it, read from the source
      by harness/extract/access.py (Generated/Access.lean).
  (2) `walk`: a self-recursive C++ walker over a treespec of a given depth, with or without the
      `depth > MAX_RECURSION_DEPTH` guard, on a C stack that holds `cap` frames.
-/
import OptreeModel.Model.Basic

namespace Optree

structure LoopDesc where
  /-- the accessed container cannot change size (tuple, namedtuple, struct sequence) -/
  immutable : Bool
  /-- the accessed container is a private copy made before the loop (`DictKeys`, list(deque)) -/
  privateCopy : Bool
  /-- the accessor checks the index / key and raises (`PyList_GetItem`, `PyDict_GetItemWithError`) -/
  checked : Bool
  /-- the loop body can run Python code (recursion into children calls `is_leaf` / flatten functions) -/
  callback : Bool
  deriving Repr, DecidableEq

/-- what user code does to the container during one iteration -/
inductive Adv where
  | keep | clear | shrinkTo (n : Nat) | growBy (n : Nat)
  deriving Repr

def Adv.apply : Adv → Nat → Nat
  | .keep, len => len
  | .clear, _ => 0
  | .shrinkTo n, len => min n len
  | .growBy n, len => len + n

inductive Outcome where
  | done | raised (e : Err) | fault
  deriving Repr, DecidableEq

/-- iterations `i, i+1, …, n-1` of the loop; `len` is the current size of the accessed container -/
def loopRun (d : LoopDesc) (adv : Nat → Adv) (n : Nat) : (todo i len : Nat) → Outcome
  | 0, _, _ => .done
  | todo + 1, i, len =>
      if i < len then
        let len' := if d.callback && !d.immutable && !d.privateCopy then (adv i).apply len else len
        loopRun d adv n todo (i + 1) len'
      else if d.checked then .raised .index
      else .fault

def LoopDesc.safe (d : LoopDesc) : Bool := d.immutable || d.privateCopy || d.checked || !d.callback

/-- a self-recursive walker at recursion depth `d` with `remaining` levels of the treespec below it -/
def walk (guarded : Bool) (limit cap : Nat) : (remaining d : Nat) → Outcome
  | remaining, d =>
    if d ≥ cap then .fault                          -- the C stack is exhausted
    else if guarded && d > limit then .raised .recursion
    else match remaining with
      | 0 => .done
      | r + 1 => walk guarded limit cap r (d + 1)

/-- (3) the loop of `FlattenIntoWithPathImpl`'s custom case: one entry of the `arity`-long entries tuple
is read with the unchecked `PyTuple_GET_ITEM` for every child the flatten function yields; `guarded` =
"the counter is compared with `arity` before the read" -/
def entriesLoop (guarded : Bool) (arity : Nat) : (childrenLeft idx : Nat) → Outcome
  | 0, idx => if idx != arity then .raised .runtime else .done
  | k + 1, idx =>
      if idx ≥ arity then (if guarded then .raised .runtime else .fault)
      else entriesLoop guarded arity k (idx + 1)

end Optree
