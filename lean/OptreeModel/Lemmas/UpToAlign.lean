/-
  What `flatten_up_to` returns per leaf: the sub-tree of the matched tree found by following that
  leaf's path (C05: "aligned arguments").
-/
import OptreeModel.Lemmas.ShapePaths
import Std.Data.String.ToNat

namespace Optree

/-- pointwise relation between two lists of equal length -/
inductive Pairs {α β : Type} (R : α → β → Prop) : List α → List β → Prop
  | nil : Pairs R [] []
  | cons {a b as bs} : R a b → Pairs R as bs → Pairs R (a :: as) (b :: bs)

theorem Pairs.append {α β : Type} {R : α → β → Prop} {as bs : List α} {cs ds : List β}
    (h1 : Pairs R as cs) (h2 : Pairs R bs ds) : Pairs R (as ++ bs) (cs ++ ds) := by
  induction h1 with
  | nil => simpa using h2
  | cons h _ ih => exact Pairs.cons h ih

theorem Pairs.mono {α β : Type} {R S : α → β → Prop} {as : List α} {bs : List β}
    (h : Pairs R as bs) (hRS : ∀ a ∈ as, ∀ b, R a b → S a b) : Pairs S as bs := by
  induction h with
  | nil => exact Pairs.nil
  | cons h _ ih =>
    exact Pairs.cons (hRS _ (by simp) _ h) (ih (fun a ha b hr => hRS a (by simp [ha]) b hr))

theorem Pairs.length {α β : Type} {R : α → β → Prop} {as : List α} {bs : List β} (h : Pairs R as bs) :
    as.length = bs.length := by
  induction h with
  | nil => rfl
  | cons _ _ ih => simp [ih]

theorem Pairs.get {α β : Type} {R : α → β → Prop} {as : List α} {bs : List β} (h : Pairs R as bs) :
    ∀ (i : Nat) (a : α) (b : β), as[i]? = some a → bs[i]? = some b → R a b := by
  induction h with
  | nil => intro i a b h1; simp at h1
  | cons h _ ih =>
    intro i a b h1 h2
    cases i with
    | zero => simp at h1 h2; subst h1; subst h2; exact h
    | succ i => simp at h1 h2; exact ih i a b h1 h2

/-- the entries under which a tree exposes its children, and the children (what `flatten` does one
level deep): positions for sequences, keys for dicts, the registration's entries for custom nodes -/
def PyObj.level (cfg : Cfg) : PyObj → List Key × List PyObj
  | .tuple xs | .list xs | .deque _ xs => (intEntries xs.length, xs)
  | .dict kvs | .odict kvs | .ddict _ kvs => (kvs.map (·.1), kvs.map (·.2))
  | .ntuple cls xs =>
      match cfg.reg.lookup cfg.ns 1 cls with
      | some reg => ((customEntries reg xs.length).getD (intEntries xs.length), xs)
      | Option.none => (intEntries xs.length, xs)
  | .sseq cls xs =>
      match cfg.reg.lookup cfg.ns 2 cls with
      | some reg => ((customEntries reg xs.length).getD (intEntries xs.length), xs)
      | Option.none => (intEntries xs.length, xs)
  | .user cls _ _ xs =>
      match cfg.reg.lookup cfg.ns 0 cls with
      | some reg => ((customEntries reg xs.length).getD (intEntries xs.length), xs)
      | Option.none => ([], [])
  | _ => ([], [])

/-- first value stored under `e` in parallel entry / child lists -/
def lookupEntry (e : Key) : List Key → List PyObj → Option PyObj
  | k :: ks, x :: xs => if k == e then some x else lookupEntry e ks xs
  | _, _ => Option.none

/-- one step down: the child of `t` under entry `e` -/
def PyObj.step (cfg : Cfg) (t : PyObj) (e : Key) : Option PyObj :=
  lookupEntry e (t.level cfg).1 (t.level cfg).2

/-- follow a path from the root -/
def PyObj.follow (cfg : Cfg) : PyObj → List Key → Option PyObj
  | t, [] => some t
  | t, e :: p =>
      match t.step cfg e with
      | some c => PyObj.follow cfg c p
      | Option.none => Option.none

theorem follow_append_one (cfg : Cfg) (t x : PyObj) (e : Key) (rest : List Key) (h : t.step cfg e = some x) :
    PyObj.follow cfg t (e :: rest) = PyObj.follow cfg x rest := by
  simp [PyObj.follow, h]

/-- if the i-th entry is `e` (first occurrence) the lookup finds the i-th child -/
theorem lookupEntry_zip : ∀ (es : List Key) (xs : List PyObj), es.Nodup → es.length = xs.length →
    ∀ (i : Nat) (e : Key) (x : PyObj), es[i]? = some e → xs[i]? = some x → lookupEntry e es xs = some x
  | [], _, _, _, i, e, x, h, _ => by simp at h
  | _ :: _, [], _, hl, _, _, _, _, _ => by simp at hl
  | k :: ks, y :: ys, hnd, hl, i, e, x, h1, h2 => by
      simp only [List.nodup_cons] at hnd
      cases i with
      | zero =>
        simp only [List.getElem?_cons_zero, Option.some.injEq] at h1 h2
        subst h1; subst h2
        simp [lookupEntry]
      | succ i =>
        simp only [List.getElem?_cons_succ] at h1 h2
        have hne : (k == e) = false := by
          simp only [beq_eq_false_iff_ne, ne_eq]
          intro heq; subst heq
          exact hnd.1 (List.mem_of_getElem? h1)
        simp only [lookupEntry, hne, Bool.false_eq_true, if_false]
        exact lookupEntry_zip ks ys hnd.2 (by simpa using hl) i e x h1 h2

/-! ### entries are distinct -/

theorem intEntries_nodup (n : Nat) : (intEntries n).Nodup := by
  unfold intEntries
  rw [List.nodup_iff_pairwise_ne, List.pairwise_map]
  exact (List.nodup_iff_pairwise_ne.mp List.nodup_range).imp (fun h he => h (by have := Key.int.inj he; omega))

theorem intEntries_getElem? (n i : Nat) (h : i < n) : (intEntries n)[i]? = some (Key.int (i : Int)) := by
  simp [intEntries, h]

theorem lookupEntry_kvs (e : Key) (kvs : List (Key × PyObj)) :
    lookupEntry e (kvs.map (·.1)) (kvs.map (·.2)) = lookupKey e kvs := by
  induction kvs with
  | nil => rfl
  | cons p l ih => obtain ⟨k, v⟩ := p; simp only [List.map_cons, lookupEntry, lookupKey, ih]

theorem mapM_lookup_getElem {α : Type} : ∀ (ks : List Key) (kvs : List (Key × α)) (xs : List α),
    ks.mapM (fun k => lookupKey k kvs) = some xs →
    ∀ (i : Nat) (k : Key) (x : α), ks[i]? = some k → xs[i]? = some x → lookupKey k kvs = some x
  | [], _, xs, h, i, k, x, h1, _ => by simp at h1
  | k0 :: ks, kvs, xs, h, i, k, x, h1, h2 => by
      simp only [List.mapM_cons, Option.bind_eq_bind] at h
      cases hk : lookupKey k0 kvs with
      | none => simp [hk] at h
      | some v =>
        cases hm : ks.mapM (fun k => lookupKey k kvs) with
        | none => simp [hk, hm] at h
        | some vs =>
          simp [hk, hm] at h
          subst h
          cases i with
          | zero => simp at h1 h2; subst h1; subst h2; exact hk
          | succ i => simp at h1 h2; exact mapM_lookup_getElem ks kvs vs hm i k x h1 h2

/-- custom nodes carry the entries their registration reports (as in every shape `flatten` makes) -/
def NInfo.entriesFromReg (i : NInfo) (n : Nat) : Bool :=
  match i.kind, i.custom with
  | .custom, some r => i.entries == customEntries r n
  | .custom, Option.none => false
  | _, _ => i.entries.isNone

mutual
def STree.entriesReg : STree → Bool
  | .leaf => true
  | .node i cs => i.entriesFromReg cs.length && STree.entriesRegL cs
def STree.entriesRegL : List STree → Bool
  | [] => true
  | c :: cs => c.entriesReg && STree.entriesRegL cs
end

/-- the relation the theorem establishes: following the path (below `pre`) from `t` reaches `s` -/
def Reaches (cfg : Cfg) (t : PyObj) (n : Nat) (p : List Key) (s : PyObj) : Prop :=
  PyObj.follow cfg t (p.drop n) = some s

theorem reaches_child (cfg : Cfg) (t x : PyObj) (e : Key) (pre p : List Key) (s : PyObj)
    (hstep : t.step cfg e = some x) (hp : (pre ++ [e]) <+: p)
    (h : Reaches cfg x (pre.length + 1) p s) : Reaches cfg t pre.length p s := by
  obtain ⟨rest, rfl⟩ := hp
  unfold Reaches at *
  have h1 : (pre ++ [e] ++ rest).drop pre.length = e :: rest := by
    rw [List.append_assoc, List.drop_left]; rfl
  have h2 : (pre ++ [e] ++ rest).drop (pre.length + 1) = rest := by
    have : (pre ++ [e]).length = pre.length + 1 := by simp
    rw [← this, List.drop_left]
  rw [h1, follow_append_one cfg t x e rest hstep]
  rw [h2] at h
  exact h

theorem steps_of_level (cfg : Cfg) (t : PyObj) (es : List Key) (xs : List PyObj)
    (hlev : t.level cfg = (es, xs)) (hnd : es.Nodup) (hl : es.length = xs.length) :
    ∀ (idx : Nat) (e : Key) (x : PyObj), es[idx]? = some e → xs[idx]? = some x → t.step cfg e = some x := by
  intro idx e x h1 h2
  unfold PyObj.step
  rw [hlev]
  exact lookupEntry_zip es xs hnd hl idx e x h1 h2

theorem seq_childEntries (i : NInfo) (n : Nat) (he : i.entries = Option.none)
    (hk : i.kind = .tuple ∨ i.kind = .list ∨ i.kind = .deque ∨ i.kind = .namedtuple ∨ i.kind = .structseq) :
    i.childEntries n = intEntries n := by
  simp only [NInfo.childEntries, Node.childEntries, NInfo.toNode, he, Node.defaultEntries]
  rcases hk with h | h | h | h | h <;> simp [h]

theorem custom_childEntries (i : NInfo) (r : Reg) (n : Nat) (hk : i.kind = .custom)
    (he : i.entries = customEntries r n) :
    i.childEntries n = (customEntries r n).getD (intEntries n) := by
  simp only [NInfo.childEntries, Node.childEntries, NInfo.toNode, he, Node.defaultEntries, hk, customEntries]
  cases r.mode <;> simp [namedEntries, shiftedEntries, List.take_of_length_le]

mutual
/-- **each sub-tree `flatten_up_to` returns is the one reached from the matched tree by the
corresponding leaf path of the treespec** -/
theorem upTo_aligned (cfg : Cfg) : ∀ a : STree, a.wf = true → a.entriesOk = true → a.entriesNodup = true →
    a.entriesReg = true → a.good cfg.reg cfg.ns = true →
    ∀ (t : PyObj) (pre : List Key) (subs : List PyObj),
      a.upTo cfg.reg cfg.noneIsLeaf cfg.ns t = .ok subs → Pairs (Reaches cfg t pre.length) (a.pathsT pre) subs
  | .leaf, _, _, _, _, _, t, pre, subs, h => by
      simp only [STree.upTo, Except.ok.injEq] at h
      subst h
      exact Pairs.cons (by simp [Reaches, PyObj.follow]) Pairs.nil
  | .node i cs, hw, hok, hnd, hreg, hg, t, pre, subs, h => by
      obtain ⟨hnl, hnone, hdict, hwl⟩ := STree.wf_node hw
      obtain ⟨hfit, hrf, hgl⟩ := STree.good_node hg
      simp only [STree.entriesOk, Bool.and_eq_true, beq_iff_eq] at hok
      simp only [STree.entriesNodup, Bool.and_eq_true, decide_eq_true_eq] at hnd
      simp only [STree.entriesReg, Bool.and_eq_true] at hreg
      have hL := upToL_aligned cfg cs hwl hok.2 hnd.2 hreg.2 hgl t pre (i.childEntries cs.length) hok.1
      simp only [STree.pathsT]
      have fin : ∀ (xs : List PyObj), xs.length = cs.length →
          STree.upToL cfg.reg cfg.noneIsLeaf cfg.ns cs xs = .ok subs →
          t.level cfg = (i.childEntries cs.length, xs) →
          Pairs (Reaches cfg t pre.length) (STree.pathsL cs (i.childEntries cs.length) pre) subs := by
        intro xs hx hu hlev
        exact hL xs subs hx hu (steps_of_level cfg t _ xs hlev hnd.1 (by rw [hok.1, hx]))
      unfold STree.upTo at h
      rcases Kind.cases_eq i.kind with hk | hk | hk | hk | hk | hk | hk | hk | hk | hk | hk
      · -- custom
        obtain ⟨nreg, hcus⟩ : ∃ r, i.custom = some r := by
          simp only [NInfo.fits, hk, Bool.and_eq_true] at hfit
          exact Option.isSome_iff_exists.mp hfit.2
        have hent : i.entries = customEntries nreg cs.length := by
          simp only [NInfo.entriesFromReg, hk, hcus, beq_iff_eq] at hreg; exact hreg.1
        have hce := custom_childEntries i nreg cs.length hk hent
        simp only [hk, hcus] at h
        by_cases hlook : ¬ (lookupForObject cfg.reg cfg.ns t = some nreg)
        · have : (lookupForObject cfg.reg cfg.ns t != some nreg) = true := by simp [hlook]
          simp [this] at h
        · replace hlook : lookupForObject cfg.reg cfg.ns t = some nreg := Classical.not_not.mp hlook
          have hlf : (lookupForObject cfg.reg cfg.ns t != some nreg) = false := by simp [hlook]
          simp only [hlf, Bool.false_eq_true, if_false] at h
          by_cases hno : ((customOut nreg t).numOut != 2 && (customOut nreg t).numOut != 3) = true
          · simp [hno] at h
          · simp only [hno, Bool.false_eq_true, if_false] at h
            by_cases hdat : (i.data != NodeData.md (customOut nreg t).md) = true
            · simp [hdat] at h
            · simp only [hdat, Bool.false_eq_true, if_false] at h
              cases hch : (customOut nreg t).children with
              | none => simp [hch] at h
              | some xs =>
                simp only [hch] at h
                by_cases hx : ¬ (xs.length = cs.length)
                · have : (xs.length != cs.length) = true := by simp [hx]
                  simp [this] at h
                · replace hx : xs.length = cs.length := Classical.not_not.mp hx
                  have hxf : (xs.length != cs.length) = false := by simp [hx]
                  simp only [hxf, Bool.false_eq_true, if_false] at h
                  refine fin xs hx h ?_
                  cases t <;> simp [lookupForObject] at hlook
                  case ntuple cls ys =>
                    have : ys = xs := by simpa [customOut, customParts, customOutOf] using hch
                    subst this
                    simp [PyObj.level, hlook, hce, hx]
                  case sseq cls ys =>
                    have : ys = xs := by simpa [customOut, customParts, customOutOf] using hch
                    subst this
                    simp [PyObj.level, hlook, hce, hx]
                  case user cls md q ys =>
                    have : ys = xs := by
                      simp only [customOut, customParts, customOutOf] at hch
                      cases q <;> simp at hch <;> exact hch
                    subst this
                    simp [PyObj.level, hlook, hce, hx]
      · exact absurd hk hnl
      · -- none
        have hcs := hnone hk
        subst hcs
        simp only [hk] at h
        split at h
        · simp at h
        · split at h
          · simp only [STree.upToL, Except.ok.injEq] at h
            subst h
            simp [STree.pathsL, Pairs.nil]
          · simp at h
      · -- tuple
        have hent : i.entries = Option.none := by
          simp only [NInfo.entriesFromReg, hk, Option.isNone_iff_eq_none] at hreg; exact hreg.1
        simp only [hk] at h
        cases t <;> try (simp at h; done)
        rename_i xs
        simp only at h
        split at h
        · simp at h
        · rename_i hx
          simp only [bne_iff_ne, ne_eq, Decidable.not_not] at hx
          exact fin xs hx h (by simp [PyObj.level, seq_childEntries i cs.length hent (by simp [hk]), hx])
      · -- list
        have hent : i.entries = Option.none := by
          simp only [NInfo.entriesFromReg, hk, Option.isNone_iff_eq_none] at hreg; exact hreg.1
        simp only [hk] at h
        cases t <;> try (simp at h; done)
        rename_i xs
        simp only at h
        split at h
        · simp at h
        · rename_i hx
          simp only [bne_iff_ne, ne_eq, Decidable.not_not] at hx
          exact fin xs hx h (by simp [PyObj.level, seq_childEntries i cs.length hent (by simp [hk]), hx])
      · -- dict
        have hent : i.entries = Option.none := by
          simp only [NInfo.entriesFromReg, hk, Option.isNone_iff_eq_none] at hreg; exact hreg.1
        have hce : i.childEntries cs.length = i.keys := dict_childEntries i _ hent (by simp [hk, Kind.isDict])
        simp only [hk] at h
        cases hdi : dictItems? t with
        | none => simp [hdi] at h
        | some kvs =>
          simp only [hdi] at h
          split at h
          · simp at h
          · cases hm : i.keys.mapM (fun k => lookupKey k kvs) with
            | none => simp [hm] at h
            | some xs =>
              simp only [hm] at h
              have hxl : xs.length = cs.length := by
                rw [mapM_option_length _ _ _ hm, ← hce, hok.1]
              have hlevel : (t.level cfg).1 = kvs.map (·.1) ∧ (t.level cfg).2 = kvs.map (·.2) := by
                cases t <;> simp [dictItems?] at hdi <;> subst hdi <;> simp [PyObj.level]
              refine hL xs subs hxl h ?_
              intro idx e x h1 h2
              rw [hce] at h1
              unfold PyObj.step
              rw [hlevel.1, hlevel.2, lookupEntry_kvs]
              exact mapM_lookup_getElem i.keys kvs xs hm idx e x h1 h2
      · -- namedtuple
        have hent : i.entries = Option.none := by
          simp only [NInfo.entriesFromReg, hk, Option.isNone_iff_eq_none] at hreg; exact hreg.1
        simp only [hk] at h
        cases t <;> try (simp at h; done)
        rename_i cls xs
        simp only at h
        split at h
        · simp at h
        · rename_i hx
          simp only [bne_iff_ne, ne_eq, Decidable.not_not] at hx
          split at h
          · simp at h
          · rename_i hdat
            simp only [bne_iff_ne, ne_eq, Decidable.not_not] at hdat
            have hl : cfg.reg.lookup cfg.ns 1 cls = Option.none := by
              simp only [NInfo.regFree, hk, hdat, Option.isNone_iff_eq_none] at hrf; exact hrf
            exact fin xs hx h (by simp [PyObj.level, hl, seq_childEntries i cs.length hent (by simp [hk]), hx])
      · -- ordereddict
        have hent : i.entries = Option.none := by
          simp only [NInfo.entriesFromReg, hk, Option.isNone_iff_eq_none] at hreg; exact hreg.1
        have hce : i.childEntries cs.length = i.keys := dict_childEntries i _ hent (by simp [hk, Kind.isDict])
        simp only [hk] at h
        cases hdi : dictItems? t with
        | none => simp [hdi] at h
        | some kvs =>
          simp only [hdi] at h
          split at h
          · simp at h
          · cases hm : i.keys.mapM (fun k => lookupKey k kvs) with
            | none => simp [hm] at h
            | some xs =>
              simp only [hm] at h
              have hxl : xs.length = cs.length := by
                rw [mapM_option_length _ _ _ hm, ← hce, hok.1]
              have hlevel : (t.level cfg).1 = kvs.map (·.1) ∧ (t.level cfg).2 = kvs.map (·.2) := by
                cases t <;> simp [dictItems?] at hdi <;> subst hdi <;> simp [PyObj.level]
              refine hL xs subs hxl h ?_
              intro idx e x h1 h2
              rw [hce] at h1
              unfold PyObj.step
              rw [hlevel.1, hlevel.2, lookupEntry_kvs]
              exact mapM_lookup_getElem i.keys kvs xs hm idx e x h1 h2
      · -- defaultdict
        have hent : i.entries = Option.none := by
          simp only [NInfo.entriesFromReg, hk, Option.isNone_iff_eq_none] at hreg; exact hreg.1
        have hce : i.childEntries cs.length = i.keys := dict_childEntries i _ hent (by simp [hk, Kind.isDict])
        simp only [hk] at h
        cases hdi : dictItems? t with
        | none => simp [hdi] at h
        | some kvs =>
          simp only [hdi] at h
          split at h
          · simp at h
          · cases hm : i.keys.mapM (fun k => lookupKey k kvs) with
            | none => simp [hm] at h
            | some xs =>
              simp only [hm] at h
              have hxl : xs.length = cs.length := by
                rw [mapM_option_length _ _ _ hm, ← hce, hok.1]
              have hlevel : (t.level cfg).1 = kvs.map (·.1) ∧ (t.level cfg).2 = kvs.map (·.2) := by
                cases t <;> simp [dictItems?] at hdi <;> subst hdi <;> simp [PyObj.level]
              refine hL xs subs hxl h ?_
              intro idx e x h1 h2
              rw [hce] at h1
              unfold PyObj.step
              rw [hlevel.1, hlevel.2, lookupEntry_kvs]
              exact mapM_lookup_getElem i.keys kvs xs hm idx e x h1 h2
      · -- deque
        have hent : i.entries = Option.none := by
          simp only [NInfo.entriesFromReg, hk, Option.isNone_iff_eq_none] at hreg; exact hreg.1
        simp only [hk] at h
        cases t <;> try (simp at h; done)
        rename_i m xs
        simp only at h
        split at h
        · simp at h
        · rename_i hx
          simp only [bne_iff_ne, ne_eq, Decidable.not_not] at hx
          exact fin xs hx h (by simp [PyObj.level, seq_childEntries i cs.length hent (by simp [hk]), hx])
      · -- structseq
        have hent : i.entries = Option.none := by
          simp only [NInfo.entriesFromReg, hk, Option.isNone_iff_eq_none] at hreg; exact hreg.1
        simp only [hk] at h
        cases t <;> try (simp at h; done)
        rename_i cls xs
        simp only at h
        split at h
        · simp at h
        · rename_i hx
          simp only [bne_iff_ne, ne_eq, Decidable.not_not] at hx
          split at h
          · simp at h
          · rename_i hdat
            simp only [bne_iff_ne, ne_eq, Decidable.not_not] at hdat
            have hl : cfg.reg.lookup cfg.ns 2 cls = Option.none := by
              simp only [NInfo.regFree, hk, hdat, Option.isNone_iff_eq_none] at hrf; exact hrf
            exact fin xs hx h (by simp [PyObj.level, hl, seq_childEntries i cs.length hent (by simp [hk]), hx])
theorem upToL_aligned (cfg : Cfg) : ∀ cs : List STree, STree.wfL cs = true → STree.entriesOkL cs = true →
    STree.entriesNodupL cs = true → STree.entriesRegL cs = true → STree.goodL cfg.reg cfg.ns cs = true →
    ∀ (t : PyObj) (pre : List Key) (es : List Key), es.length = cs.length →
    ∀ (xs subs : List PyObj), xs.length = cs.length →
      STree.upToL cfg.reg cfg.noneIsLeaf cfg.ns cs xs = .ok subs →
      (∀ (idx : Nat) (e : Key) (x : PyObj), es[idx]? = some e → xs[idx]? = some x → t.step cfg e = some x) →
      Pairs (Reaches cfg t pre.length) (STree.pathsL cs es pre) subs
  | [], _, _, _, _, _, t, pre, es, _, xs, subs, _, h, _ => by
      simp only [STree.upToL, Except.ok.injEq] at h
      subst h
      simp [STree.pathsL, Pairs.nil]
  | c :: cs, hw, hok, hnd, hreg, hg, t, pre, es, hel, xs, subs, hxl, h, hstep => by
      cases es with
      | nil => simp at hel
      | cons e es =>
        cases xs with
        | nil => simp at hxl
        | cons x xs =>
          simp only [STree.wfL, STree.entriesOkL, STree.entriesNodupL, STree.entriesRegL, STree.goodL,
            Bool.and_eq_true] at hw hok hnd hreg hg
          simp only [STree.upToL] at h
          cases hb : STree.upToL cfg.reg cfg.noneIsLeaf cfg.ns cs xs with
          | error err => simp [hb] at h
          | ok b =>
            cases ha : STree.upTo cfg.reg cfg.noneIsLeaf cfg.ns c x with
            | error err => simp [hb, ha] at h
            | ok a' =>
              simp only [hb, ha, Except.ok.injEq] at h
              subst h
              simp only [STree.pathsL]
              have hx : t.step cfg e = some x := hstep 0 e x (by simp) (by simp)
              have h1 := upTo_aligned cfg c hw.1 hok.1 hnd.1 hreg.1 hg.1 x (pre ++ [e]) a' ha
              have h1' : Pairs (Reaches cfg t pre.length) (c.pathsT (pre ++ [e])) a' := by
                apply h1.mono
                intro p hp s hr
                have hpre := STree.pathsT_prefix c (pre ++ [e]) p hp
                have hr' : Reaches cfg x (pre.length + 1) p s := by simpa using hr
                exact reaches_child cfg t x e pre p s hx hpre hr'
              have h2 := upToL_aligned cfg cs hw.2 hok.2 hnd.2 hreg.2 hg.2 t pre es (by simpa using hel) xs b
                (by simpa using hxl) hb (fun idx e' x' he hx' => hstep (idx + 1) e' x' (by simpa using he) (by simpa using hx'))
              exact h1'.append h2
end

/-! ### shapes made by `flatten` satisfy the side conditions -/

theorem namedEntries_nodup (n : Nat) : (namedEntries n).Nodup := by
  unfold namedEntries
  rw [List.nodup_iff_pairwise_ne, List.pairwise_map]
  refine (List.nodup_iff_pairwise_ne.mp List.nodup_range).imp (fun {a b} h he => h ?_)
  have h1 : s!"c{a}" = s!"c{b}" := Key.str.inj he
  have h2 : toString "c" ++ toString a = toString "c" ++ toString b := by simpa using h1
  have h3 := (String.append_right_inj (toString "c")).mp h2
  exact Nat.repr_injective h3

theorem shiftedEntries_nodup (n : Nat) : (shiftedEntries n).Nodup := by
  unfold shiftedEntries
  rw [List.nodup_iff_pairwise_ne, List.pairwise_map]
  exact (List.nodup_iff_pairwise_ne.mp List.nodup_range).imp (fun h he => h (by have := Key.int.inj he; omega))

theorem customEntries_childEntries_nodup (reg : Reg) (md : Option Key) (n : Nat) :
    ((NInfo.mk .custom (.md md) (customEntries reg n) (some reg) Option.none).childEntries n).Nodup := by
  rw [custom_childEntries _ reg n rfl rfl]
  simp only [customEntries]
  cases reg.mode <;> simp [intEntries_nodup, namedEntries_nodup, shiftedEntries_nodup]

theorem STree.entriesNodupL_iff (cs : List STree) :
    STree.entriesNodupL cs = true ↔ ∀ c ∈ cs, c.entriesNodup = true := by
  induction cs with
  | nil => simp [STree.entriesNodupL]
  | cons c cs ih => simp [STree.entriesNodupL, ih]

theorem STree.entriesRegL_iff (cs : List STree) :
    STree.entriesRegL cs = true ↔ ∀ c ∈ cs, c.entriesReg = true := by
  induction cs with
  | nil => simp [STree.entriesRegL]
  | cons c cs ih => simp [STree.entriesRegL, ih]

def NR (cfg : Cfg) (s : Bool) (t : PyObj) : Prop :=
  (shapeOf cfg s t).entriesNodup = true ∧ (shapeOf cfg s t).entriesReg = true

theorem nr_list (cfg : Cfg) (s : Bool) (xs : List PyObj) (ih : ∀ x ∈ xs, NR cfg s x) :
    STree.entriesNodupL (shapeOfList cfg s xs) = true ∧ STree.entriesRegL (shapeOfList cfg s xs) = true := by
  rw [shapeOfList_eq, STree.entriesNodupL_iff, STree.entriesRegL_iff]
  constructor <;> intro c hc <;> simp only [List.mem_map] at hc <;> obtain ⟨x, hx, rfl⟩ := hc
  · exact (ih x hx).1
  · exact (ih x hx).2

theorem nr_items (cfg : Cfg) (s od : Bool) (kvs : List (Key × PyObj)) (ih : ∀ p ∈ kvs, NR cfg s p.2) :
    STree.entriesNodupL ((dictOrder od s (shapeOfKVs cfg s kvs)).map (·.2)) = true ∧
      STree.entriesRegL ((dictOrder od s (shapeOfKVs cfg s kvs)).map (·.2)) = true := by
  rw [STree.entriesNodupL_iff, STree.entriesRegL_iff]
  have hmem : ∀ c ∈ (dictOrder od s (shapeOfKVs cfg s kvs)).map (·.2), ∃ p ∈ kvs, c = shapeOf cfg s p.2 := by
    intro c hc
    simp only [List.mem_map] at hc
    obtain ⟨q, hq, rfl⟩ := hc
    have := (shape_items_perm cfg s od kvs).subset hq
    simp only [List.mem_map] at this
    obtain ⟨p, hp, rfl⟩ := this
    exact ⟨p, hp, rfl⟩
  constructor <;> intro c hc <;> obtain ⟨p, hp, rfl⟩ := hmem c hc
  · exact (ih p hp).1
  · exact (ih p hp).2

theorem nr_plain_seq (kind : Kind) (data : NodeData) (cs : List STree)
    (hk : kind = .tuple ∨ kind = .list ∨ kind = .deque ∨ kind = .namedtuple ∨ kind = .structseq)
    (h : STree.entriesNodupL cs = true ∧ STree.entriesRegL cs = true) :
    (STree.node (plainInfo kind data Option.none) cs).entriesNodup = true ∧
      (STree.node (plainInfo kind data Option.none) cs).entriesReg = true := by
  have hce := seq_childEntries (plainInfo kind data Option.none) cs.length rfl (by simpa using hk)
  refine ⟨by simp [STree.entriesNodup, hce, intEntries_nodup, h.1], ?_⟩
  simp only [STree.entriesReg, Bool.and_eq_true, h.2, and_true]
  rcases hk with hk | hk | hk | hk | hk <;> simp [NInfo.entriesFromReg, plainInfo, hk]

mutual
theorem nr (cfg : Cfg) (s : Bool) : ∀ t : PyObj, t.wf = true → NR cfg s t
  | .leaf _ _, _ => ⟨rfl, rfl⟩
  | .none, _ => by
      unfold NR
      simp only [shapeOf]
      by_cases hn : cfg.noneIsLeaf = true
      · rw [if_pos hn]; exact ⟨rfl, rfl⟩
      · rw [if_neg hn]; exact ⟨by decide, by decide⟩
  | .tuple xs, h => by
      simp only [PyObj.wf] at h
      exact nr_plain_seq _ _ _ (by simp) (nr_list cfg s xs (nrList cfg s xs h))
  | .list xs, h => by
      simp only [PyObj.wf] at h
      exact nr_plain_seq _ _ _ (by simp) (nr_list cfg s xs (nrList cfg s xs h))
  | .deque m xs, h => by
      simp only [PyObj.wf, Bool.and_eq_true] at h
      exact nr_plain_seq _ _ _ (by simp) (nr_list cfg s xs (nrList cfg s xs h.2))
  | .dict kvs, h => by
      simp only [PyObj.wf, Bool.and_eq_true, decide_eq_true_eq] at h
      obtain ⟨h1, h2⟩ := nr_items cfg s false kvs (nrKVs cfg s kvs h.2)
      have hp := shape_keys_perm cfg s false kvs
      unfold NR
      simp only [shapeOf, STree.entriesNodup, STree.entriesReg, Bool.and_eq_true, decide_eq_true_eq, h1, h2, and_true]
      refine ⟨?_, by simp [NInfo.entriesFromReg, plainInfo]⟩
      rw [dict_childEntries _ _ rfl rfl]
      simpa using hp.nodup_iff.mpr h.1
  | .odict kvs, h => by
      simp only [PyObj.wf, Bool.and_eq_true, decide_eq_true_eq] at h
      obtain ⟨h1, h2⟩ := nr_items cfg s true kvs (nrKVs cfg s kvs h.2)
      have hp := shape_keys_perm cfg s true kvs
      simp only [dictOrder, Bool.not_true, Bool.false_and, Bool.false_eq_true, if_false] at h1 h2 hp
      unfold NR
      simp only [shapeOf, STree.entriesNodup, STree.entriesReg, Bool.and_eq_true, decide_eq_true_eq, h1, h2, and_true]
      refine ⟨?_, by simp [NInfo.entriesFromReg, plainInfo]⟩
      rw [dict_childEntries _ _ rfl rfl]
      simpa using hp.nodup_iff.mpr h.1
  | .ddict f kvs, h => by
      simp only [PyObj.wf, Bool.and_eq_true, decide_eq_true_eq] at h
      obtain ⟨h1, h2⟩ := nr_items cfg s false kvs (nrKVs cfg s kvs h.2)
      have hp := shape_keys_perm cfg s false kvs
      unfold NR
      simp only [shapeOf, STree.entriesNodup, STree.entriesReg, Bool.and_eq_true, decide_eq_true_eq, h1, h2, and_true]
      refine ⟨?_, by simp [NInfo.entriesFromReg, plainInfo]⟩
      rw [dict_childEntries _ _ rfl rfl]
      simpa using hp.nodup_iff.mpr h.1
  | .ntuple cls xs, h => by
      simp only [PyObj.wf] at h
      have hl := nr_list cfg s xs (nrList cfg s xs h)
      unfold NR
      simp only [shapeOf]
      rcases Option.eq_none_or_eq_some (cfg.reg.lookup cfg.ns 1 cls) with hh | ⟨reg, hh⟩
      · simp only [hh]; exact nr_plain_seq _ _ _ (by simp) hl
      · simp only [hh, STree.entriesNodup, STree.entriesReg, Bool.and_eq_true, decide_eq_true_eq, hl.1, hl.2,
          and_true, shapeOfList_length]
        exact ⟨customEntries_childEntries_nodup reg Option.none xs.length, by simp [NInfo.entriesFromReg]⟩
  | .sseq cls xs, h => by
      simp only [PyObj.wf] at h
      have hl := nr_list cfg s xs (nrList cfg s xs h)
      unfold NR
      simp only [shapeOf]
      rcases Option.eq_none_or_eq_some (cfg.reg.lookup cfg.ns 2 cls) with hh | ⟨reg, hh⟩
      · simp only [hh]; exact nr_plain_seq _ _ _ (by simp) hl
      · simp only [hh, STree.entriesNodup, STree.entriesReg, Bool.and_eq_true, decide_eq_true_eq, hl.1, hl.2,
          and_true, shapeOfList_length]
        exact ⟨customEntries_childEntries_nodup reg Option.none xs.length, by simp [NInfo.entriesFromReg]⟩
  | .user cls md q xs, h => by
      simp only [PyObj.wf, Bool.and_eq_true] at h
      have hl := nr_list cfg s xs (nrList cfg s xs h.2)
      unfold NR
      simp only [shapeOf]
      rcases Option.eq_none_or_eq_some (cfg.reg.lookup cfg.ns 0 cls) with hh | ⟨reg, hh⟩
      · simp only [hh]; exact ⟨rfl, rfl⟩
      · simp only [hh, STree.entriesNodup, STree.entriesReg, Bool.and_eq_true, decide_eq_true_eq, hl.1, hl.2,
          and_true, shapeOfList_length]
        exact ⟨customEntries_childEntries_nodup reg md xs.length, by simp [NInfo.entriesFromReg]⟩
theorem nrList (cfg : Cfg) (s : Bool) : ∀ xs : List PyObj, PyObj.wfList xs = true → ∀ x ∈ xs, NR cfg s x
  | [], _ => by intro x hx; simp at hx
  | y :: ys, hwf => by
      simp only [PyObj.wfList, Bool.and_eq_true] at hwf
      intro x hx
      simp only [List.mem_cons] at hx
      rcases hx with hx | hx
      · subst hx; exact nr cfg s x hwf.1
      · exact nrList cfg s ys hwf.2 x hx
theorem nrKVs (cfg : Cfg) (s : Bool) : ∀ kvs : List (Key × PyObj), PyObj.wfKVs kvs = true →
    ∀ p ∈ kvs, NR cfg s p.2
  | [], _ => by intro p hp; simp at hp
  | (k, y) :: ys, hwf => by
      simp only [PyObj.wfKVs, Bool.and_eq_true] at hwf
      intro p hp
      simp only [List.mem_cons] at hp
      rcases hp with hp | hp
      · subst hp; exact nr cfg s y hwf.1
      · exact nrKVs cfg s ys hwf.2 p hp
end

end Optree
