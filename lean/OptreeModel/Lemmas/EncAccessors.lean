/-
  `PyTreeSpec::Accessors` on encodings is the tree-level listing of typed entries `STree.accsT`
  (refinement, for C04): one accessor per leaf, in leaf order; each entry is the child entry of
  `paths()` stamped with the type, kind and path-entry class of the node it leaves.
-/
import OptreeModel.Lemmas.EncPaths

namespace Optree

/-- the node type and the (resolved) path-entry class `accessors()` stamps on the entries of the
children of a node; `none` for a `None` node, which has no children -/
def NInfo.accTy (i : NInfo) : Option (TypeRef × EntryKind) :=
  match (i.toNode 0 0 0).typeRef, (i.toNode 0 0 0).pathEntryKind with
  | .ok ty, .ok (some ek) => some (ty, resolveEntryKind ek ty)
  | _, _ => Option.none

/-- the typed entries of the children of a node with `n` children -/
def NInfo.accEntries (i : NInfo) (n : Nat) : List AccEntry :=
  match i.accTy with
  | some (ty, ek) => (i.childEntries n).map fun e => ⟨e, ty, i.kind, ek⟩
  | Option.none => []

mutual
/-- every internal node has a type and a path-entry class, and only registered custom nodes carry
explicit entries (what `flatten` guarantees, `ty` below) -/
def STree.typedOk : STree → Bool
  | .leaf => true
  | .node i cs =>
      (i.kind == .none || i.accTy.isSome) && (!i.entries.isSome || (i.kind == .custom && i.custom.isSome))
        && STree.typedOkL cs
def STree.typedOkL : List STree → Bool
  | [] => true
  | c :: cs => c.typedOk && STree.typedOkL cs
end

mutual
/-- the documented meaning of `accessors()`: for a leaf, the typed entries collected so far; for a
node, the accessors of its children, each extended by the child's typed entry -/
def STree.accsT : STree → List AccEntry → List (List AccEntry)
  | .leaf, pre => [pre]
  | .node i cs, pre => STree.accsL cs (i.accEntries cs.length) pre
def STree.accsL : List STree → List AccEntry → List AccEntry → List (List AccEntry)
  | c :: cs, e :: es, pre => STree.accsT c (pre ++ [e]) ++ STree.accsL cs es pre
  | _, _, _ => []
end

theorem accessorsChildren_append (fuel : Nat) (xs ys : List AccEntry) (rest : List Node) (stack : List AccEntry)
    (acc : List (List AccEntry)) :
    accessorsChildren fuel (xs ++ ys) rest stack acc =
      match accessorsChildren fuel xs rest stack acc with
      | .error e => .error e
      | .ok (acc', rest') => accessorsChildren fuel ys rest' stack acc' := by
  induction xs generalizing rest acc with
  | nil => simp [accessorsChildren]
  | cons x xs ih =>
    simp only [List.cons_append, accessorsChildren]
    cases accessorsGo fuel rest (stack ++ [x]) acc with
    | error e => rfl
    | ok p => obtain ⟨a, r⟩ := p; exact ih r a

theorem NInfo.accEntries_length (i : NInfo) (n : Nat) (h : i.accTy.isSome = true) :
    (i.accEntries n).length = (i.childEntries n).length := by
  unfold NInfo.accEntries
  cases hh : i.accTy with
  | none => simp [hh] at h
  | some p => simp

theorem NInfo.accEntries_path (i : NInfo) (n : Nat) (h : i.accTy.isSome = true) :
    (i.accEntries n).map (·.entry) = i.childEntries n := by
  unfold NInfo.accEntries
  cases hh : i.accTy with
  | none => simp [hh] at h
  | some p => simp [List.map_map, Function.comp_def]

/-- a `None` node has neither type-stamped entries nor an entry class -/
theorem NInfo.accTy_none (i : NInfo) (h : i.kind = .none) : i.accTy = Option.none := by
  simp [NInfo.accTy, Node.pathEntryKind, NInfo.toNode, h]

theorem NInfo.typeRef_toNode (i : NInfo) (n nl nn : Nat) :
    (i.toNode n nl nn).typeRef = (i.toNode 0 0 0).typeRef := rfl
theorem NInfo.pathEntryKind_toNode (i : NInfo) (n nl nn : Nat) :
    (i.toNode n nl nn).pathEntryKind = (i.toNode 0 0 0).pathEntryKind := rfl

mutual
theorem accessorsGo_enc : ∀ (s : STree), s.wf = true → s.entriesOk = true → s.typedOk = true →
    ∀ (fuel : Nat), s.size ≤ fuel →
    ∀ (rest : List Node) (stack : List AccEntry) (acc : List (List AccEntry)),
      accessorsGo fuel (s.renc ++ rest) stack acc = .ok (s.accsT stack ++ acc, rest)
  | .leaf, _, _, _, fuel, hf, rest, stack, acc => by
      cases fuel with
      | zero => simp [STree.size] at hf
      | succ f =>
        simp [STree.renc, STree.enc, accessorsGo, Node.leaf, STree.accsT, Node.typeRef, Node.pathEntryKind]
  | .node i cs, hw, hk, ht, fuel, hf, rest, stack, acc => by
      obtain ⟨hnl, hnone, _, hwl⟩ := STree.wf_node hw
      simp only [STree.entriesOk, Bool.and_eq_true, beq_iff_eq] at hk
      simp only [STree.typedOk, Bool.and_eq_true, Bool.or_eq_true, beq_iff_eq, Bool.not_eq_true',
        Option.isSome_eq_false_iff, Option.isNone_iff_eq_none] at ht
      obtain ⟨⟨hty, hent⟩, htl⟩ := ht
      cases fuel with
      | zero => simp [STree.size] at hf
      | succ f =>
        simp only [STree.size, Nat.add_le_add_iff_right] at hf
        rw [STree.renc_eq]
        simp only [List.cons_append, STree.children, STree.root]
        simp only [accessorsGo, NInfo.typeRef_toNode, NInfo.pathEntryKind_toNode, NInfo.childEntries_toNode,
          STree.accsT]
        have hkind : (i.toNode cs.length (STree.leavesL cs) (STree.sizeL cs + 1)).kind = i.kind := rfl
        have hentr : (i.toNode cs.length (STree.leavesL cs) (STree.sizeL cs + 1)).entries = i.entries := rfl
        have hcus : (i.toNode cs.length (STree.leavesL cs) (STree.sizeL cs + 1)).custom = i.custom := rfl
        have har : (i.toNode cs.length (STree.leavesL cs) (STree.sizeL cs + 1)).arity = cs.length := rfl
        rw [hkind, hentr, hcus, har]
        have hlt : ¬ ((i.childEntries cs.length).length < cs.length) := by omega
        have hguard : (i.entries.isSome && (i.kind != .custom || i.custom.isNone)) = false := by
          rcases hent with h | h
          · simp [h]
          · simp [h.1, h.2]
        by_cases hn : i.kind = .none
        · -- `None` node: no children, no accessors
          have hcs := hnone hn
          subst hcs
          have he : i.entries = Option.none := by
            rcases hent with h | h
            · exact h
            · rw [hn] at h; simp at h
          simp [hn, he, Node.typeRef, Node.pathEntryKind, NInfo.toNode, STree.accsL, STree.rencL_nil]
        · have hsome : i.accTy.isSome = true := by
            rcases hty with h | h
            · exact absurd h hn
            · exact h
          have hch := accessorsChildren_enc cs hwl hk.2 htl f hf (i.accEntries cs.length)
            (by rw [NInfo.accEntries_length i _ hsome]; exact hk.1) rest stack acc
          unfold NInfo.accTy at hsome
          unfold NInfo.accEntries NInfo.accTy at hch
          cases hT : (i.toNode 0 0 0).typeRef with
          | error e => simp [hT] at hsome
          | ok ty =>
            cases hP : (i.toNode 0 0 0).pathEntryKind with
            | error e => simp [hT, hP] at hsome
            | ok ek? =>
              cases ek? with
              | none => simp [hT, hP] at hsome
              | some ek =>
                simp only [hT, hP] at hch
                have hacc : i.accEntries cs.length =
                    (i.childEntries cs.length).map fun e => ⟨e, ty, i.kind, resolveEntryKind ek ty⟩ := by
                  simp [NInfo.accEntries, NInfo.accTy, hT, hP]
                rw [hacc]
                simp only [hguard, Bool.false_eq_true, if_false, hlt]
                cases he : i.entries with
                | some es => simpa [he] using hch
                | none =>
                  rcases Kind.cases_eq i.kind with h | h | h | h | h | h | h | h | h | h | h
                  · simp only [h]; simpa [h] using hch
                  · exact absurd h hnl
                  · exact absurd h hn
                  all_goals (simp only [h]; simpa [h] using hch)
theorem accessorsChildren_enc : ∀ (cs : List STree), STree.wfL cs = true → STree.entriesOkL cs = true →
    STree.typedOkL cs = true →
    ∀ (fuel : Nat), STree.sizeL cs ≤ fuel → ∀ (es : List AccEntry), es.length = cs.length →
    ∀ (rest : List Node) (stack : List AccEntry) (acc : List (List AccEntry)),
      accessorsChildren fuel es.reverse (STree.rencL cs ++ rest) stack acc =
        .ok (STree.accsL cs es stack ++ acc, rest)
  | [], _, _, _, fuel, _, es, hl, rest, stack, acc => by
      have : es = [] := List.length_eq_zero_iff.mp hl
      subst this
      simp [accessorsChildren, STree.rencL_nil, STree.accsL]
  | c :: cs, hw, hk, ht, fuel, hf, [], hl, _, _, _ => by simp at hl
  | c :: cs, hw, hk, ht, fuel, hf, e :: es, hl, rest, stack, acc => by
      simp only [STree.wfL, STree.entriesOkL, STree.typedOkL, Bool.and_eq_true] at hw hk ht
      simp only [STree.sizeL] at hf
      simp only [List.reverse_cons, STree.rencL_cons, List.append_assoc]
      rw [accessorsChildren_append,
        accessorsChildren_enc cs hw.2 hk.2 ht.2 fuel (by omega) es (by simpa using hl) (c.renc ++ rest) stack acc]
      simp only [accessorsChildren]
      rw [accessorsGo_enc c hw.1 hk.1 ht.1 fuel (by omega) rest (stack ++ [e]) (STree.accsL cs es stack ++ acc)]
      simp [STree.accsL]
end

/-! ### the accessors carry the paths -/

mutual
theorem STree.accsT_path : ∀ (s : STree) (pre : List AccEntry), s.wf = true → s.typedOk = true →
    (s.accsT pre).map (fun a => a.map (·.entry)) = s.pathsT (pre.map (·.entry))
  | .leaf, _, _, _ => rfl
  | .node i cs, pre, hw, ht => by
      obtain ⟨_, hnone, _, hwl⟩ := STree.wf_node hw
      simp only [STree.typedOk, Bool.and_eq_true, Bool.or_eq_true, beq_iff_eq] at ht
      obtain ⟨⟨hty, _⟩, htl⟩ := ht
      simp only [STree.accsT, STree.pathsT]
      rcases hty with hn | hs
      · have := hnone hn; subst this
        simp [STree.accsL, STree.pathsL]
      · rw [STree.accsL_path cs _ pre hwl htl, NInfo.accEntries_path i _ hs]
theorem STree.accsL_path : ∀ (cs : List STree) (es pre : List AccEntry), STree.wfL cs = true →
    STree.typedOkL cs = true →
    (STree.accsL cs es pre).map (fun a => a.map (·.entry)) = STree.pathsL cs (es.map (·.entry)) (pre.map (·.entry))
  | [], _, _, _, _ => by simp [STree.accsL, STree.pathsL]
  | c :: cs, [], _, _, _ => by simp [STree.accsL, STree.pathsL]
  | c :: cs, e :: es, pre, hw, ht => by
      simp only [STree.wfL, STree.typedOkL, Bool.and_eq_true] at hw ht
      simp only [STree.accsL, STree.pathsL, List.map_append, List.map_cons,
        STree.accsT_path c (pre ++ [e]) hw.1 ht.1, STree.accsL_path cs es pre hw.2 ht.2, List.map_nil]
end

theorem STree.accsT_length (s : STree) (hw : s.wf = true) (hk : s.entriesOk = true) (ht : s.typedOk = true)
    (pre : List AccEntry) : (s.accsT pre).length = s.leaves := by
  have := congrArg List.length (STree.accsT_path s pre hw ht)
  simpa [STree.pathsT_length s _ hk] using this

/-- **`accessors()` lists, in leaf order, the typed child entries from the root to every leaf** -/
theorem accessors_enc (s : STree) (hw : s.wf = true) (hk : s.entriesOk = true) (ht : s.typedOk = true)
    (nil : Bool) (ns : String) :
    accessors (s.spec nil ns) = .ok (s.accsT []) := by
  have hlen := STree.accsT_length s hw hk ht []
  unfold accessors
  simp only [STree.spec_sane, Bool.not_true, Bool.false_eq_true, if_false, STree.spec_numLeaves]
  by_cases h0 : s.leaves = 0
  · have : s.accsT [] = [] := List.length_eq_zero_iff.mp (by rw [hlen, h0])
    simp [h0, this]
  · have h0' : (s.leaves == 0) = false := by simp [h0]
    simp only [h0', Bool.false_eq_true, if_false]
    have := accessorsGo_enc s hw hk ht (s.enc.length + 1) (by rw [STree.enc_length]; omega) [] [] []
    simp only [List.append_nil, STree.renc] at this
    simp only [STree.spec]
    rw [this]
    simp [hlen]

/-! ### shapes made by `flatten` are typed -/

theorem STree.typedOkL_iff (cs : List STree) : STree.typedOkL cs = true ↔ ∀ c ∈ cs, c.typedOk = true := by
  induction cs with
  | nil => simp [STree.typedOkL]
  | cons c cs ih => simp [STree.typedOkL, ih]

def TY (cfg : Cfg) (s : Bool) (t : PyObj) : Prop := (shapeOf cfg s t).typedOk = true

theorem ty_list (cfg : Cfg) (s : Bool) (xs : List PyObj) (ih : ∀ x ∈ xs, TY cfg s x) :
    STree.typedOkL (shapeOfList cfg s xs) = true := by
  rw [shapeOfList_eq, STree.typedOkL_iff]
  intro c hc
  simp only [List.mem_map] at hc
  obtain ⟨x, hx, rfl⟩ := hc
  exact ih x hx

theorem ty_items (cfg : Cfg) (s od : Bool) (kvs : List (Key × PyObj)) (ih : ∀ p ∈ kvs, TY cfg s p.2) :
    STree.typedOkL ((dictOrder od s (shapeOfKVs cfg s kvs)).map (·.2)) = true := by
  rw [STree.typedOkL_iff]
  intro c hc
  simp only [List.mem_map] at hc
  obtain ⟨q, hq, rfl⟩ := hc
  have := (shape_items_perm cfg s od kvs).subset hq
  simp only [List.mem_map] at this
  obtain ⟨p, hp, rfl⟩ := this
  exact ih p hp

theorem ty_plain (kind : Kind) (data : NodeData) (ok : Option (List Key)) (cs : List STree)
    (hk : kind = .tuple ∨ kind = .list ∨ kind = .deque ∨ kind = .dict ∨ kind = .ordereddict ∨ kind = .defaultdict ∨
      (kind = .namedtuple ∧ ∃ c, data = .cls c) ∨ (kind = .structseq ∧ ∃ c, data = .cls c))
    (h : STree.typedOkL cs = true) : (STree.node (plainInfo kind data ok) cs).typedOk = true := by
  simp only [STree.typedOk, Bool.and_eq_true, h, and_true]
  rcases hk with hk | hk | hk | hk | hk | hk | ⟨hk, c, hc⟩ | ⟨hk, c, hc⟩ <;>
    simp [NInfo.accTy, Node.typeRef, Node.pathEntryKind, NInfo.toNode, plainInfo, *]

theorem ty_custom (reg : Reg) (md : Option Key) (es : Option (List Key)) (cs : List STree)
    (h : STree.typedOkL cs = true) :
    (STree.node ⟨.custom, .md md, es, some reg, Option.none⟩ cs).typedOk = true := by
  simp [STree.typedOk, h, NInfo.accTy, Node.typeRef, Node.pathEntryKind, NInfo.toNode]

mutual
theorem ty (cfg : Cfg) (s : Bool) : ∀ t : PyObj, TY cfg s t
  | .leaf _ _ => rfl
  | .none => by
      unfold TY
      simp only [shapeOf]
      by_cases hn : cfg.noneIsLeaf = true
      · rw [if_pos hn]; rfl
      · rw [if_neg hn]; decide
  | .tuple xs => ty_plain _ _ _ _ (by simp) (ty_list cfg s xs (tyList cfg s xs))
  | .list xs => ty_plain _ _ _ _ (by simp) (ty_list cfg s xs (tyList cfg s xs))
  | .deque m xs => ty_plain _ _ _ _ (by simp) (ty_list cfg s xs (tyList cfg s xs))
  | .dict kvs => ty_plain _ _ _ _ (by simp) (ty_items cfg s false kvs (tyKVs cfg s kvs))
  | .odict kvs => by
      have := ty_items cfg s true kvs (tyKVs cfg s kvs)
      simp only [dictOrder, Bool.not_true, Bool.false_and, Bool.false_eq_true, if_false] at this
      exact ty_plain _ _ _ _ (by simp) this
  | .ddict f kvs => ty_plain _ _ _ _ (by simp) (ty_items cfg s false kvs (tyKVs cfg s kvs))
  | .ntuple cls xs => by
      unfold TY
      simp only [shapeOf]
      have hl := ty_list cfg s xs (tyList cfg s xs)
      rcases Option.eq_none_or_eq_some (cfg.reg.lookup cfg.ns 1 cls) with h | ⟨reg, h⟩
      · simp only [h]; exact ty_plain _ _ _ _ (by simp) hl
      · simp only [h]; exact ty_custom _ _ _ _ hl
  | .sseq cls xs => by
      unfold TY
      simp only [shapeOf]
      have hl := ty_list cfg s xs (tyList cfg s xs)
      rcases Option.eq_none_or_eq_some (cfg.reg.lookup cfg.ns 2 cls) with h | ⟨reg, h⟩
      · simp only [h]; exact ty_plain _ _ _ _ (by simp) hl
      · simp only [h]; exact ty_custom _ _ _ _ hl
  | .user cls md q xs => by
      unfold TY
      simp only [shapeOf]
      have hl := ty_list cfg s xs (tyList cfg s xs)
      rcases Option.eq_none_or_eq_some (cfg.reg.lookup cfg.ns 0 cls) with h | ⟨reg, h⟩
      · simp only [h]; rfl
      · simp only [h]; exact ty_custom _ _ _ _ hl
theorem tyList (cfg : Cfg) (s : Bool) : ∀ xs : List PyObj, ∀ x ∈ xs, TY cfg s x
  | [] => by intro x hx; simp at hx
  | y :: ys => by
      intro x hx
      simp only [List.mem_cons] at hx
      rcases hx with hx | hx
      · subst hx; exact ty cfg s x
      · exact tyList cfg s ys x hx
theorem tyKVs (cfg : Cfg) (s : Bool) : ∀ kvs : List (Key × PyObj), ∀ p ∈ kvs, TY cfg s p.2
  | [] => by intro p hp; simp at hp
  | (k, y) :: ys => by
      intro p hp
      simp only [List.mem_cons] at hp
      rcases hp with hp | hp
      · subst hp; exact ty cfg s y
      · exact tyKVs cfg s ys p hp
end

end Optree
