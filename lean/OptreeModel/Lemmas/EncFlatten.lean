/-
  `flatten` produces encodings of well-formed shapes only (L1 → L0): whatever the tree, the
  configuration, the predicate and the registry, the node array of a successful flatten is
  `STree.enc s` for a well-formed `s` with as many leaves as were returned.  Every refinement
  theorem about `enc s` therefore applies to every treespec made by flattening.
-/
import OptreeModel.Lemmas.Enc
import OptreeModel.Lemmas.Roundtrip

namespace Optree

/-- the output of a flatten is the encoding of a well-formed shape -/
def IsEnc (out : FlatOut) : Prop :=
  ∃ st : STree, st.wf = true ∧ out.nodes = st.enc ∧ out.leaves.length = st.leaves

/-- the concatenated outputs of `n` children are the encoding of a forest of `n` shapes -/
def IsEncL (out : FlatOut) (n : Nat) : Prop :=
  ∃ cs : List STree, STree.wfL cs = true ∧ out.nodes = STree.encL cs ∧
    out.leaves.length = STree.leavesL cs ∧ cs.length = n

theorem leafOut_isEnc (x : PyObj) : IsEnc (leafOut x) :=
  ⟨.leaf, rfl, rfl, rfl⟩

theorem seqOuts_isEncL (rs : List (Except Err FlatOut))
    (h : ∀ r ∈ rs, ∀ o, r = .ok o → IsEnc o) (b : FlatOut) (hb : seqOuts rs = .ok b) :
    IsEncL b rs.length := by
  induction rs generalizing b with
  | nil =>
    simp [seqOuts] at hb; subst hb
    exact ⟨[], rfl, rfl, rfl, rfl⟩
  | cons r rs ih =>
    cases r with
    | error e => simp [seqOuts] at hb
    | ok a =>
      simp only [seqOuts] at hb
      split at hb
      · simp at hb
      · rename_i b' hb'
        simp at hb; subst hb
        obtain ⟨st, hw, hn, hl⟩ := h (.ok a) (by simp) a rfl
        obtain ⟨cs, hws, hns, hls, hlen⟩ := ih (fun q hq => h q (by simp [hq])) b' hb'
        refine ⟨st :: cs, ?_, ?_, ?_, ?_⟩
        · simp [STree.wfL, hw, hws]
        · simp [FlatOut.append, STree.encL, hn, hns]
        · simp [FlatOut.append, STree.leavesL, hl, hls]
        · simp [hlen]

/-- closing a node over an encoded forest gives an encoded tree -/
theorem close_isEnc (body : FlatOut) (n : Nat) (hb : IsEncL body n) (kind : Kind) (data : NodeData)
    (entries : Option (List Key)) (custom : Option Reg) (okeys : Option (List Key)) (fc : Bool)
    (hk : kind ≠ .leaf) (hnone : kind = .none → n = 0)
    (hdict : kind.isDict = true →
      (NInfo.mk kind data entries custom okeys).keys.length = n ∧
      (NInfo.mk kind data entries custom okeys).keys.Nodup) :
    IsEnc (body.close kind n data entries custom okeys fc) := by
  obtain ⟨cs, hw, hn, hl, hlen⟩ := hb
  refine ⟨.node ⟨kind, data, entries, custom, okeys⟩ cs, ?_, ?_, ?_⟩
  · simp only [STree.wf, Bool.and_eq_true, bne_iff_ne, ne_eq, Bool.or_eq_true, Bool.not_eq_true',
      List.isEmpty_iff, beq_iff_eq, decide_eq_true_eq]
    refine ⟨⟨⟨hk, ?_⟩, ?_⟩, hw⟩
    · by_cases hkn : kind = .none
      · right
        have := hnone hkn
        rw [← hlen] at this
        exact List.length_eq_zero_iff.mp this
      · left; exact hkn
    · by_cases hd : kind.isDict = true
      · right
        obtain ⟨h1, h2⟩ := hdict hd
        exact ⟨by rw [h1, hlen], h2⟩
      · left; simpa using hd
  · simp only [FlatOut.close, STree.enc, NInfo.toNode, hn, hlen, hl, STree.encL_length]
  · simp [FlatOut.close, STree.leaves, hl]

theorem closeSeq_isEnc (rs : List (Except Err FlatOut))
    (h : ∀ r ∈ rs, ∀ o, r = .ok o → IsEnc o) (kind : Kind) (arity : Nat) (harity : arity = rs.length)
    (data : NodeData) (okeys : Option (List Key))
    (hk : kind ≠ .leaf) (hnone : kind = .none → arity = 0)
    (hdict : kind.isDict = true →
      (NInfo.mk kind data Option.none Option.none okeys).keys.length = arity ∧
      (NInfo.mk kind data Option.none Option.none okeys).keys.Nodup)
    (out : FlatOut) (ho : closeSeq rs kind arity data Option.none Option.none okeys = .ok out) :
    IsEnc out := by
  unfold closeSeq at ho
  split at ho
  · simp at ho
  · rename_i b hb
    simp at ho; subst ho
    subst harity
    exact close_isEnc b _ (seqOuts_isEncL rs h b hb) kind data _ _ okeys false hk hnone hdict

theorem customFlatten_isEnc (reg : Reg) (co : CustomOut) (rs : List (Except Err FlatOut))
    (h : ∀ r ∈ rs, ∀ o, r = .ok o → IsEnc o) (out : FlatOut)
    (ho : customFlatten reg co rs = .ok out) : IsEnc out := by
  unfold customFlatten at ho
  split at ho; · simp at ho
  split at ho; · simp at ho
  split at ho; · simp at ho
  rename_i b hb
  simp only at ho
  split at ho; · simp at ho
  simp at ho; subst ho
  exact close_isEnc b _ (seqOuts_isEncL rs h b hb) .custom _ _ _ _ true (by simp) (by simp)
    (by simp [Kind.isDict])

def Eobj (cfg : Cfg) (s : Bool) (t : PyObj) : Prop :=
  ∀ d out, flattenGo cfg s d t = .ok out → IsEnc out

theorem list_results_isEnc (cfg : Cfg) (s : Bool) (d : Nat) (xs : List PyObj)
    (ih : ∀ x ∈ xs, Eobj cfg s x) :
    ∀ r ∈ flattenList cfg s d xs, ∀ o, r = .ok o → IsEnc o := by
  rw [flattenList_eq]
  intro r hr o ho
  simp only [List.mem_map] at hr
  obtain ⟨x, hx, rfl⟩ := hr
  exact ih x hx d o ho

theorem kvs_results_isEnc (cfg : Cfg) (s : Bool) (d : Nat) (kvs : List (Key × PyObj)) (od : Bool)
    (ih : ∀ p ∈ kvs, Eobj cfg s p.2) :
    ∀ r ∈ (dictOrder od s (flattenKVs cfg s d kvs)).map (·.2), ∀ o, r = .ok o → IsEnc o := by
  intro r hr o ho
  simp only [List.mem_map] at hr
  obtain ⟨q, hq, rfl⟩ := hr
  have hq' := (dictOrder_perm od s _).subset hq
  rw [flattenKVs_eq] at hq'
  simp only [List.mem_map] at hq'
  obtain ⟨p, hp, rfl⟩ := hq'
  exact ih p hp d o ho

/-- the keys a dict-kind node records are a permutation of the dict's keys -/
theorem dict_keys_perm (cfg : Cfg) (s : Bool) (d : Nat) (kvs : List (Key × PyObj)) (od : Bool) :
    ((dictOrder od s (flattenKVs cfg s d kvs)).map (·.1)).Perm (kvs.map (·.1)) := by
  have h1 := (dictOrder_perm od s (flattenKVs cfg s d kvs)).map (·.1)
  have h2 : (flattenKVs cfg s d kvs).map (·.1) = kvs.map (·.1) := by
    rw [flattenKVs_eq]; simp [List.map_map, Function.comp_def]
  rw [h2] at h1
  exact h1

theorem flattenList_length (cfg : Cfg) (s : Bool) (d : Nat) (xs : List PyObj) :
    (flattenList cfg s d xs).length = xs.length := by
  rw [flattenList_eq]; simp

theorem dict_results_length (cfg : Cfg) (s : Bool) (d : Nat) (kvs : List (Key × PyObj)) (od : Bool) :
    ((dictOrder od s (flattenKVs cfg s d kvs)).map (·.2)).length = kvs.length := by
  have := (dictOrder_perm od s (flattenKVs cfg s d kvs)).length_eq
  have h2 : (flattenKVs cfg s d kvs).length = kvs.length := by rw [flattenKVs_eq]; simp
  simp only [List.length_map]
  omega

mutual
theorem eobj (cfg : Cfg) (s : Bool) : ∀ t : PyObj, t.wf = true → Eobj cfg s t
  | .leaf ty uid, _ => by
      intro d out h
      rw [flattenGo] at h
      rcases flattenGo_prelude cfg s d _ out _ h with h | h
      · subst h; exact leafOut_isEnc _
      · simp at h; subst h; exact leafOut_isEnc _
  | .none, _ => by
      intro d out h
      rw [flattenGo] at h
      rcases flattenGo_prelude cfg s d _ out _ h with h | h
      · subst h; exact leafOut_isEnc _
      · split at h
        · simp at h; subst h; exact leafOut_isEnc _
        · simp at h; subst h
          exact close_isEnc FlatOut.empty 0 ⟨[], rfl, rfl, rfl, rfl⟩ .none .none _ _ _ false (by simp)
            (by simp) (by simp [Kind.isDict])
  | .tuple xs, hwf => by
      intro d out h
      rw [flattenGo] at h
      rcases flattenGo_prelude cfg s d _ out _ h with h | h
      · subst h; exact leafOut_isEnc _
      · simp only [PyObj.wf] at hwf
        exact closeSeq_isEnc _ (list_results_isEnc cfg s (d + 1) xs (elist cfg s xs hwf)) _ _
          (flattenList_length cfg s (d + 1) xs).symm _ _ (by simp) (by simp) (by simp [Kind.isDict]) out h
  | .list xs, hwf => by
      intro d out h
      rw [flattenGo] at h
      rcases flattenGo_prelude cfg s d _ out _ h with h | h
      · subst h; exact leafOut_isEnc _
      · simp only [PyObj.wf] at hwf
        exact closeSeq_isEnc _ (list_results_isEnc cfg s (d + 1) xs (elist cfg s xs hwf)) _ _
          (flattenList_length cfg s (d + 1) xs).symm _ _ (by simp) (by simp) (by simp [Kind.isDict]) out h
  | .deque m xs, hwf => by
      intro d out h
      rw [flattenGo] at h
      rcases flattenGo_prelude cfg s d _ out _ h with h | h
      · subst h; exact leafOut_isEnc _
      · simp only [PyObj.wf, Bool.and_eq_true] at hwf
        exact closeSeq_isEnc _ (list_results_isEnc cfg s (d + 1) xs (elist cfg s xs hwf.2)) _ _
          (flattenList_length cfg s (d + 1) xs).symm _ _ (by simp) (by simp) (by simp [Kind.isDict]) out h
  | .dict kvs, hwf => by
      intro d out h
      rw [flattenGo] at h
      rcases flattenGo_prelude cfg s d _ out _ h with h | h
      · subst h; exact leafOut_isEnc _
      · simp only [PyObj.wf, Bool.and_eq_true, decide_eq_true_eq] at hwf
        have hp := dict_keys_perm cfg s (d + 1) kvs false
        exact closeSeq_isEnc _ (kvs_results_isEnc cfg s (d + 1) kvs false (ekvs cfg s kvs hwf.2)) _ _
          (dict_results_length cfg s (d + 1) kvs false).symm _ _ (by simp) (by simp)
          (by intro _; exact ⟨by simpa [NInfo.keys] using hp.length_eq,
                             by simpa [NInfo.keys] using hp.nodup_iff.mpr hwf.1⟩) out h
  | .odict kvs, hwf => by
      intro d out h
      rw [flattenGo] at h
      rcases flattenGo_prelude cfg s d _ out _ h with h | h
      · subst h; exact leafOut_isEnc _
      · simp only [PyObj.wf, Bool.and_eq_true, decide_eq_true_eq] at hwf
        have hp := dict_keys_perm cfg s (d + 1) kvs true
        have hr := kvs_results_isEnc cfg s (d + 1) kvs true (ekvs cfg s kvs hwf.2)
        have hl := dict_results_length cfg s (d + 1) kvs true
        simp only [dictOrder, Bool.not_true, Bool.false_and, Bool.false_eq_true, if_false] at hp hr hl
        exact closeSeq_isEnc _ hr _ _ hl.symm _ _ (by simp) (by simp)
          (by intro _; exact ⟨by simpa [NInfo.keys] using hp.length_eq,
                             by simpa [NInfo.keys] using hp.nodup_iff.mpr hwf.1⟩) out h
  | .ddict f kvs, hwf => by
      intro d out h
      rw [flattenGo] at h
      rcases flattenGo_prelude cfg s d _ out _ h with h | h
      · subst h; exact leafOut_isEnc _
      · simp only [PyObj.wf, Bool.and_eq_true, decide_eq_true_eq] at hwf
        have hp := dict_keys_perm cfg s (d + 1) kvs false
        exact closeSeq_isEnc _ (kvs_results_isEnc cfg s (d + 1) kvs false (ekvs cfg s kvs hwf.2)) _ _
          (dict_results_length cfg s (d + 1) kvs false).symm _ _ (by simp) (by simp)
          (by intro _; exact ⟨by simpa [NInfo.keys] using hp.length_eq,
                             by simpa [NInfo.keys] using hp.nodup_iff.mpr hwf.1⟩) out h
  | .ntuple cls xs, hwf => by
      intro d out h
      rw [flattenGo] at h
      rcases flattenGo_prelude cfg s d _ out _ h with h | h
      · subst h; exact leafOut_isEnc _
      · simp only [PyObj.wf] at hwf
        split at h
        · exact customFlatten_isEnc _ _ _ (list_results_isEnc cfg s (d + 1) xs (elist cfg s xs hwf)) out h
        · exact closeSeq_isEnc _ (list_results_isEnc cfg s (d + 1) xs (elist cfg s xs hwf)) _ _
            (flattenList_length cfg s (d + 1) xs).symm _ _ (by simp) (by simp) (by simp [Kind.isDict]) out h
  | .sseq cls xs, hwf => by
      intro d out h
      rw [flattenGo] at h
      rcases flattenGo_prelude cfg s d _ out _ h with h | h
      · subst h; exact leafOut_isEnc _
      · simp only [PyObj.wf] at hwf
        split at h
        · exact customFlatten_isEnc _ _ _ (list_results_isEnc cfg s (d + 1) xs (elist cfg s xs hwf)) out h
        · exact closeSeq_isEnc _ (list_results_isEnc cfg s (d + 1) xs (elist cfg s xs hwf)) _ _
            (flattenList_length cfg s (d + 1) xs).symm _ _ (by simp) (by simp) (by simp [Kind.isDict]) out h
  | .user cls md q xs, hwf => by
      intro d out h
      rw [flattenGo] at h
      rcases flattenGo_prelude cfg s d _ out _ h with h | h
      · subst h; exact leafOut_isEnc _
      · simp only [PyObj.wf, Bool.and_eq_true] at hwf
        split at h
        · exact customFlatten_isEnc _ _ _ (list_results_isEnc cfg s (d + 1) xs (elist cfg s xs hwf.2)) out h
        · simp at h; subst h; exact leafOut_isEnc _
theorem elist (cfg : Cfg) (s : Bool) : ∀ xs : List PyObj, PyObj.wfList xs = true →
    ∀ x ∈ xs, Eobj cfg s x
  | [], _ => by intro x hx; simp at hx
  | y :: ys, hwf => by
      simp only [PyObj.wfList, Bool.and_eq_true] at hwf
      intro x hx
      simp only [List.mem_cons] at hx
      rcases hx with hx | hx
      · subst hx; exact eobj cfg s x hwf.1
      · exact elist cfg s ys hwf.2 x hx
theorem ekvs (cfg : Cfg) (s : Bool) : ∀ kvs : List (Key × PyObj), PyObj.wfKVs kvs = true →
    ∀ p ∈ kvs, Eobj cfg s p.2
  | [], _ => by intro p hp; simp at hp
  | (k, y) :: ys, hwf => by
      simp only [PyObj.wfKVs, Bool.and_eq_true] at hwf
      intro p hp
      simp only [List.mem_cons] at hp
      rcases hp with hp | hp
      · subst hp; exact eobj cfg s y hwf.1
      · exact ekvs cfg s ys hwf.2 p hp
end

/-- **every treespec made by flattening is the encoding of a well-formed shape** with as many leaves
as `flatten` returned -/
theorem flatten_isEnc (cfg : Cfg) (t : PyObj) (hwf : t.wf = true) (ls : List PyObj) (sp : Spec)
    (h : flatten cfg t = .ok (ls, sp)) :
    ∃ st : STree, st.wf = true ∧ sp = st.spec cfg.noneIsLeaf sp.ns ∧ ls.length = st.leaves := by
  unfold flatten at h
  simp only at h
  split at h
  · simp at h
  · rename_i out ho
    simp only [Except.ok.injEq, Prod.mk.injEq] at h
    obtain ⟨h1, h2⟩ := h
    obtain ⟨st, hw, hn, hl⟩ := eobj cfg _ t hwf 0 out ho
    refine ⟨st, hw, ?_, ?_⟩
    · subst h2; simp [STree.spec, hn]
    · subst h1; exact hl

end Optree
