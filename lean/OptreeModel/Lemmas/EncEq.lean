/-
  `PyTreeSpec::EqualTo` on encodings is structural equality of shapes up to what `==` ignores
  (custom path entries, the remembered insertion order of dict keys) — refinement, for C06.
-/
import OptreeModel.Lemmas.EncPrefix

namespace Optree

/-! ### tree-level equality as `==` sees it -/

def NInfo.eqv (i j : NInfo) : Bool :=
  i.kind == j.kind && i.data.isSome == j.data.isSome && i.custom == j.custom &&
    (!i.data.isSome || i.data == j.data)

mutual
def STree.eqB : STree → STree → Bool
  | .leaf, .leaf => true
  | .node i cs, .node j ds => i.eqv j && STree.eqL cs ds
  | _, _ => false
def STree.eqL : List STree → List STree → Bool
  | [], [] => true
  | c :: cs, d :: ds => STree.eqB c d && STree.eqL cs ds
  | _, _ => false
end

theorem STree.eqL_length : ∀ (cs ds : List STree), STree.eqL cs ds = true → cs.length = ds.length
  | [], [], _ => rfl
  | [], _ :: _, h => by simp [STree.eqL] at h
  | _ :: _, [], h => by simp [STree.eqL] at h
  | _ :: cs, _ :: ds, h => by
      simp only [STree.eqL, Bool.and_eq_true] at h
      simp [STree.eqL_length cs ds h.2]

mutual
theorem STree.eqB_counts : ∀ a b : STree, a.eqB b = true → a.size = b.size ∧ a.leaves = b.leaves
  | .leaf, .leaf, _ => ⟨rfl, rfl⟩
  | .leaf, .node _ _, h => by simp [STree.eqB] at h
  | .node _ _, .leaf, h => by simp [STree.eqB] at h
  | .node i cs, .node j ds, h => by
      simp only [STree.eqB, Bool.and_eq_true] at h
      have := STree.eqL_counts cs ds h.2
      simp [STree.size, STree.leaves, this.1, this.2]
theorem STree.eqL_counts : ∀ cs ds : List STree, STree.eqL cs ds = true →
    STree.sizeL cs = STree.sizeL ds ∧ STree.leavesL cs = STree.leavesL ds
  | [], [], _ => ⟨rfl, rfl⟩
  | [], _ :: _, h => by simp [STree.eqL] at h
  | _ :: _, [], h => by simp [STree.eqL] at h
  | c :: cs, d :: ds, h => by
      simp only [STree.eqL, Bool.and_eq_true] at h
      have h1 := STree.eqB_counts c d h.1
      have h2 := STree.eqL_counts cs ds h.2
      simp [STree.sizeL, STree.leavesL, h1.1, h1.2, h2.1, h2.2]
end

/-! ### the per-node loop -/

def nodeEqv (x y : Node) : Bool :=
  x.kind == y.kind && x.arity == y.arity && x.data.isSome == y.data.isSome && x.custom == y.custom &&
    (!x.data.isSome || x.data == y.data) && x.numLeaves == y.numLeaves && x.numNodes == y.numNodes

def allEqv : List Node → List Node → Bool
  | [], [] => true
  | x :: xs, y :: ys => nodeEqv x y && allEqv xs ys
  | _, _ => false

theorem nodesEq_true_iff : ∀ xs ys : List Node, nodesEq xs ys = .ok true ↔ allEqv xs ys = true
  | [], [] => by simp [nodesEq, allEqv]
  | [], _ :: _ => by simp [nodesEq, allEqv]
  | _ :: _, [] => by simp [nodesEq, allEqv]
  | x :: xs, y :: ys => by
      have ih := nodesEq_true_iff xs ys
      unfold nodesEq allEqv nodeEqv
      by_cases h1 : x.kind = y.kind <;> by_cases h2 : x.arity = y.arity <;>
        by_cases h3 : x.data.isSome = y.data.isSome <;> by_cases h4 : x.custom = y.custom <;>
        simp [h1, h2, h3, h4]
      by_cases h5 : y.data.isSome = true
      · by_cases h6 : x.data = y.data
        · by_cases h7 : x.numLeaves = y.numLeaves <;> by_cases h8 : x.numNodes = y.numNodes <;>
            simp [h5, h6, h7, h8, ih]
        · simp [h5, h6]
      · simp only [Bool.not_eq_true] at h5
        by_cases h7 : x.numLeaves = y.numLeaves <;> by_cases h8 : x.numNodes = y.numNodes <;>
          simp [h5, h7, h8, ih]

theorem allEqv_length : ∀ xs ys : List Node, allEqv xs ys = true → xs.length = ys.length
  | [], [], _ => rfl
  | [], _ :: _, h => by simp [allEqv] at h
  | _ :: _, [], h => by simp [allEqv] at h
  | _ :: xs, _ :: ys, h => by
      simp only [allEqv, Bool.and_eq_true] at h
      simp [allEqv_length xs ys h.2]

theorem allEqv_append : ∀ (x1 y1 x2 y2 : List Node), x1.length = y1.length →
    allEqv (x1 ++ x2) (y1 ++ y2) = (allEqv x1 y1 && allEqv x2 y2)
  | [], [], _, _, _ => by simp [allEqv]
  | [], _ :: _, _, _, h => by simp at h
  | _ :: _, [], _, _, h => by simp at h
  | x :: x1, y :: y1, x2, y2, h => by
      simp only [List.length_cons, Nat.add_right_cancel_iff] at h
      simp [allEqv, allEqv_append x1 y1 x2 y2 h, Bool.and_assoc]

theorem allEqv_reverse_of : ∀ xs ys : List Node, allEqv xs ys = true →
    allEqv xs.reverse ys.reverse = true
  | [], [], _ => by simp [allEqv]
  | [], _ :: _, h => by simp [allEqv] at h
  | _ :: _, [], h => by simp [allEqv] at h
  | x :: xs, y :: ys, h => by
      simp only [allEqv, Bool.and_eq_true] at h
      have hl := allEqv_length xs ys h.2
      simp only [List.reverse_cons]
      rw [allEqv_append _ _ _ _ (by simp [hl])]
      simp [allEqv, h.1, allEqv_reverse_of xs ys h.2]

theorem allEqv_reverse (xs ys : List Node) : allEqv xs.reverse ys.reverse = allEqv xs ys := by
  cases h : allEqv xs ys with
  | true => exact allEqv_reverse_of xs ys h
  | false =>
    cases h' : allEqv xs.reverse ys.reverse with
    | false => rfl
    | true =>
      have := allEqv_reverse_of _ _ h'
      simp only [List.reverse_reverse] at this
      rw [h] at this
      exact absurd this (by simp)

/-! ### the walk over the reversed encodings -/

mutual
theorem allEqv_renc : ∀ a : STree, a.wf = true → ∀ b : STree, b.wf = true → ∀ xs ys : List Node,
    allEqv (a.renc ++ xs) (b.renc ++ ys) = (a.eqB b && allEqv xs ys)
  | .leaf, _, .leaf, _, xs, ys => by
      simp [STree.renc, STree.enc, allEqv, nodeEqv, STree.eqB, Node.leaf, NodeData.isSome]
  | .leaf, _, .node j ds, hb, xs, ys => by
      have hk := (STree.wf_node hb).1
      rw [STree.renc_eq, STree.renc_eq]
      simp only [List.cons_append, allEqv, nodeEqv, STree.root, Node.leaf, NInfo.toNode, STree.eqB]
      have : (Kind.leaf == j.kind) = false := by
        simp only [beq_eq_false_iff_ne, ne_eq]; exact fun e => hk e.symm
      simp [this]
  | .node i cs, ha, .leaf, _, xs, ys => by
      have hk := (STree.wf_node ha).1
      rw [STree.renc_eq, STree.renc_eq]
      simp only [List.cons_append, allEqv, nodeEqv, STree.root, Node.leaf, NInfo.toNode, STree.eqB]
      have : (i.kind == Kind.leaf) = false := by simp [hk]
      simp [this]
  | .node i cs, ha, .node j ds, hb, xs, ys => by
      have hwa := (STree.wf_node ha).2.2.2
      have hwb := (STree.wf_node hb).2.2.2
      rw [STree.renc_eq, STree.renc_eq]
      simp only [List.cons_append, allEqv, nodeEqv, STree.root, NInfo.toNode, STree.eqB, STree.children,
        NInfo.eqv]
      by_cases hlen : cs.length = ds.length
      · rw [allEqv_rencL cs hwa ds hwb hlen xs ys]
        by_cases he : STree.eqL cs ds = true
        · have hc := STree.eqL_counts cs ds he
          simp only [hlen, hc.1, hc.2, he, beq_self_eq_true, Bool.and_true, Bool.true_and]
        · simp [he]
      · have hne : STree.eqL cs ds = false := by
          cases h : STree.eqL cs ds with
          | false => rfl
          | true => exact absurd (STree.eqL_length cs ds h) hlen
        simp [hlen, hne]
theorem allEqv_rencL : ∀ cs : List STree, STree.wfL cs = true → ∀ ds : List STree,
    STree.wfL ds = true → cs.length = ds.length → ∀ xs ys : List Node,
    allEqv (STree.rencL cs ++ xs) (STree.rencL ds ++ ys) = (STree.eqL cs ds && allEqv xs ys)
  | [], _, [], _, _, xs, ys => by simp [STree.rencL_nil, STree.eqL]
  | [], _, _ :: _, _, h, _, _ => by simp at h
  | _ :: _, _, [], _, h, _, _ => by simp at h
  | c :: cs, hc, d :: ds, hd, h, xs, ys => by
      simp only [STree.wfL, Bool.and_eq_true] at hc hd
      simp only [STree.rencL_cons, List.append_assoc]
      rw [allEqv_rencL cs hc.2 ds hd.2 (by simpa using h), allEqv_renc c hc.1 d hd.1]
      simp only [STree.eqL]
      cases STree.eqL cs ds <;> cases c.eqB d <;> cases allEqv xs ys <;> rfl
end

/-- **`==` on treespecs is `True` exactly for equal shapes** (up to custom path entries and remembered
key insertion order, which `==` ignores), equal `none_is_leaf` and compatible namespaces -/
theorem equalTo_enc_true (a b : STree) (ha : a.wf = true) (hb : b.wf = true) (nil nil' : Bool)
    (ns ns' : String) :
    equalTo (a.spec nil ns) (b.spec nil' ns') = .ok true ↔
      (nil = nil' ∧ nsCompatible ns ns' = true ∧ a.eqB b = true) := by
  have hwalk : allEqv a.enc b.enc = a.eqB b := by
    have := allEqv_renc a ha b hb [] []
    simp only [List.append_nil, STree.renc, allEqv, Bool.and_true] at this
    rw [allEqv_reverse] at this
    exact this
  unfold equalTo
  simp only [STree.spec_sane, Bool.not_true, Bool.or_self, Bool.false_eq_true, if_false,
    STree.spec_numNodes, STree.spec_numLeaves]
  simp only [STree.spec, STree.enc_length]
  constructor
  · intro h
    by_cases h1 : (a.size != b.size || nil != nil') = true
    · simp [h1] at h
    · by_cases h2 : nsCompatible ns ns' = true
      · by_cases h3 : (a.size != b.size || a.leaves != b.leaves) = true
        · simp [h1, h2, h3] at h
        · simp only [h1, h2, h3, Bool.not_true, Bool.false_eq_true, if_false] at h
          simp only [Bool.or_eq_true, bne_iff_ne, ne_eq, not_or, Decidable.not_not] at h1
          rw [nodesEq_true_iff, hwalk] at h
          exact ⟨h1.2, h2, h⟩
      · simp [h1, h2] at h
  · rintro ⟨rfl, hc, he⟩
    have hcnt := STree.eqB_counts a b he
    simp only [hcnt.1, hcnt.2, bne_self_eq_false, Bool.or_self, Bool.false_eq_true, if_false, hc,
      Bool.not_true]
    rw [nodesEq_true_iff, hwalk]
    exact he

end Optree
