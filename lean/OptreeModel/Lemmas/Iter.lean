/-
  The lazy iterator visits the leaves `flatten` returns, in the same order (helper for C03).
-/
import OptreeModel.Lemmas.Agree

namespace Optree

theorem seqOuts_ok (rs : List (Except Err FlatOut)) (b : FlatOut) (h : seqOuts rs = .ok b) :
    ∃ outs : List FlatOut, rs = outs.map Except.ok ∧ b.leaves = (outs.map (·.leaves)).flatten := by
  induction rs generalizing b with
  | nil => simp [seqOuts] at h; subst h; exact ⟨[], rfl, rfl⟩
  | cons r rs ih =>
    cases r with
    | error e => simp [seqOuts] at h
    | ok a =>
      simp only [seqOuts] at h
      cases hs : seqOuts rs with
      | error e => rw [hs] at h; simp at h
      | ok b' =>
        rw [hs] at h
        simp only [Except.ok.injEq] at h
        subst h
        obtain ⟨outs, h1, h2⟩ := ih b' hs
        exact ⟨a :: outs, by simp [h1], by simp [FlatOut.append, h2]⟩

theorem sizeList_perm {l1 l2 : List PyObj} (h : l1.Perm l2) : PyObj.sizeList l1 = PyObj.sizeList l2 := by
  induction h with
  | nil => rfl
  | cons x _ ih => simp [PyObj.sizeList, ih]
  | swap x y l => simp only [PyObj.sizeList]; omega
  | trans _ _ ih1 ih2 => exact ih1.trans ih2

theorem sizeKVs_eq (kvs : List (Key × PyObj)) : PyObj.sizeKVs kvs = PyObj.sizeList (kvs.map (·.2)) := by
  induction kvs with
  | nil => rfl
  | cons p kvs ih => obtain ⟨k, x⟩ := p; simp [PyObj.sizeKVs, PyObj.sizeList, ih]

theorem size_pos (t : PyObj) : t.size ≥ 1 := by
  cases t <;> simp [PyObj.size] <;> omega

/-- statement proved by mutual induction: popping `t` off the agenda and running until the agenda is
back to what was below it appends exactly the leaves `flattenGo` returns for `t` -/
def Iobj (cfg : Cfg) (s : Bool) (t : PyObj) : Prop :=
  ∀ d out, flattenGo cfg s d t = .ok out →
    ∀ fuel agenda acc, fuel ≥ t.size →
      ∃ fuel', fuel' + t.size ≥ fuel ∧
        iterRun cfg s fuel ((t, d) :: agenda) acc = iterRun cfg s fuel' agenda (out.leaves.reverse ++ acc)

/-- the children of a node, pushed on the agenda together -/
theorem iterRun_children (cfg : Cfg) (s : Bool) (d : Nat) :
    ∀ (cs : List PyObj) (outs : List FlatOut), (∀ x ∈ cs, Iobj cfg s x) →
      cs.map (flattenGo cfg s d) = outs.map Except.ok →
      ∀ fuel agenda acc, fuel ≥ PyObj.sizeList cs →
        ∃ fuel', fuel' + PyObj.sizeList cs ≥ fuel ∧
          iterRun cfg s fuel (cs.map (·, d) ++ agenda) acc =
            iterRun cfg s fuel' agenda ((outs.map (·.leaves)).flatten.reverse ++ acc)
  | [], outs, _, h, fuel, agenda, acc, _ => by
      cases outs with
      | nil => exact ⟨fuel, by simp [PyObj.sizeList], by simp⟩
      | cons o os => simp at h
  | c :: cs, outs, ih, h, fuel, agenda, acc, hf => by
      cases outs with
      | nil => simp at h
      | cons o os =>
        simp only [List.map_cons, List.cons.injEq] at h
        simp only [PyObj.sizeList] at hf
        obtain ⟨f1, hf1, e1⟩ := ih c (by simp) d o h.1 fuel (cs.map (·, d) ++ agenda) acc (by omega)
        obtain ⟨f2, hf2, e2⟩ := iterRun_children cfg s d cs os (fun x hx => ih x (by simp [hx])) h.2 f1 agenda
          (o.leaves.reverse ++ acc) (by omega)
        refine ⟨f2, by simp only [PyObj.sizeList]; omega, ?_⟩
        simp only [List.map_cons, List.cons_append]
        rw [e1, e2]
        simp [List.append_assoc]

end Optree

namespace Optree

theorem closeSeq_ok (rs : List (Except Err FlatOut)) (kind : Kind) (arity : Nat) (data : NodeData)
    (entries : Option (List Key)) (custom : Option Reg) (okeys : Option (List Key)) (out : FlatOut)
    (h : closeSeq rs kind arity data entries custom okeys = .ok out) :
    ∃ body, seqOuts rs = .ok body ∧ out.leaves = body.leaves := by
  unfold closeSeq at h
  cases hs : seqOuts rs with
  | error e => rw [hs] at h; simp at h
  | ok body =>
    rw [hs] at h
    simp only [Except.ok.injEq] at h
    subst h
    exact ⟨body, rfl, by simp [FlatOut.close]⟩

/-- children pushed together, given the sequenced result of flattening them -/
theorem iobj_children (cfg : Cfg) (s : Bool) (d : Nat) (cs : List PyObj) (ih : ∀ x ∈ cs, Iobj cfg s x)
    (body out : FlatOut) (hb : seqOuts (cs.map (flattenGo cfg s d)) = .ok body)
    (hl : out.leaves = body.leaves) (fuel : Nat) (agenda : List (PyObj × Nat)) (acc : List PyObj)
    (hf : fuel ≥ PyObj.sizeList cs) :
    ∃ fuel', fuel' + PyObj.sizeList cs ≥ fuel ∧
      iterRun cfg s fuel (cs.map (·, d) ++ agenda) acc =
        iterRun cfg s fuel' agenda (out.leaves.reverse ++ acc) := by
  obtain ⟨outs, h1, h2⟩ := seqOuts_ok _ body hb
  obtain ⟨f, hf', e⟩ := iterRun_children cfg s d cs outs ih h1 fuel agenda acc hf
  exact ⟨f, hf', by rw [e, hl, h2]⟩

/-- the first step of the iterator on a node that `flattenGo` accepted -/
theorem iter_prelude (cfg : Cfg) (s : Bool) (d : Nat) (x : PyObj) (out : FlatOut)
    (body : Except Err FlatOut)
    (h : (if d > cfg.maxDepth then Except.error Err.recursion
      else match cfg.evalPred x with
        | .error e => .error e
        | .ok true => .ok (leafOut x)
        | .ok false => body) = .ok out)
    (fuel : Nat) (agenda : List (PyObj × Nat)) (acc : List PyObj) (hf : fuel ≥ x.size)
    (hbody : body = .ok out → cfg.evalPred x = .ok false →
      ∃ fuel', fuel' + x.size ≥ fuel ∧
        (match iterChildren cfg s x with
          | .error e => .error e
          | .ok Option.none => iterRun cfg s (fuel - 1) agenda (x :: acc)
          | .ok (some cs) => iterRun cfg s (fuel - 1) (cs.map (·, d + 1) ++ agenda) acc) =
          iterRun cfg s fuel' agenda (out.leaves.reverse ++ acc)) :
    ∃ fuel', fuel' + x.size ≥ fuel ∧
      iterRun cfg s fuel ((x, d) :: agenda) acc = iterRun cfg s fuel' agenda (out.leaves.reverse ++ acc) := by
  have hsz := size_pos x
  obtain ⟨f, rfl⟩ : ∃ f, fuel = f + 1 := ⟨fuel - 1, by omega⟩
  rw [iterRun]
  split at h
  · simp at h
  · rename_i hd
    simp only [hd, if_false]
    cases hp : cfg.evalPred x with
    | error e => rw [hp] at h; simp at h
    | ok b =>
      rw [hp] at h
      cases b with
      | true =>
        simp only [Except.ok.injEq] at h
        subst h
        exact ⟨f, by omega, by simp [leafOut]⟩
      | false =>
        simp only at h
        have := hbody h hp
        simp only [Nat.add_sub_cancel] at this
        exact this

/-- a dict-kind node: children visited in `dictOrder` -/
theorem iobj_kvs_node (cfg : Cfg) (s : Bool) (d : Nat) (kvs : List (Key × PyObj))
    (ih : ∀ p ∈ kvs, Iobj cfg s p.2) (od : Bool) (out : FlatOut) (kind : Kind) (arity : Nat)
    (data : NodeData) (okeys : Option (List Key))
    (hb : closeSeq ((dictOrder od s (flattenKVs cfg s (d + 1) kvs)).map (·.2)) kind arity data
      Option.none Option.none okeys = .ok out)
    (fuel : Nat) (agenda : List (PyObj × Nat)) (acc : List PyObj) (hf : fuel ≥ 1 + PyObj.sizeKVs kvs) :
    ∃ fuel', fuel' + PyObj.sizeKVs kvs ≥ fuel - 1 ∧
      iterRun cfg s (fuel - 1) (((dictOrder od s kvs).map (·.2)).map (·, d + 1) ++ agenda) acc =
        iterRun cfg s fuel' agenda (out.leaves.reverse ++ acc) := by
  obtain ⟨body, hs, hl⟩ := closeSeq_ok _ _ _ _ _ _ _ out hb
  rw [flattenKVs_eq, dictOrder_map od s (fun (p : Key × PyObj) => (p.1, flattenGo cfg s (d + 1) p.2))
    (by intro p; rfl)] at hs
  simp only [List.map_map, Function.comp_def] at hs
  have hperm := dictOrder_perm od s kvs
  have hsz : PyObj.sizeList ((dictOrder od s kvs).map (·.2)) = PyObj.sizeKVs kvs := by
    rw [sizeKVs_eq]; exact sizeList_perm (hperm.map _)
  have ih' : ∀ x ∈ (dictOrder od s kvs).map (·.2), Iobj cfg s x := by
    intro x hx
    simp only [List.mem_map] at hx
    obtain ⟨p, hp, rfl⟩ := hx
    exact ih p (hperm.mem_iff.mp hp)
  have hs' : seqOuts (((dictOrder od s kvs).map (·.2)).map (flattenGo cfg s (d + 1))) = .ok body := by
    simpa [List.map_map, Function.comp_def] using hs
  obtain ⟨f, hf', e⟩ := iobj_children cfg s (d + 1) _ ih' body out hs' hl (fuel - 1) agenda acc (by omega)
  exact ⟨f, by omega, e⟩

theorem customOutOf_children (reg : Reg) (md : Option Key) (q : Quirk) (xs cs : List PyObj)
    (h : (customOutOf reg md q xs).children = some cs) : cs = xs := by
  cases q <;> simp [customOutOf] at h <;> exact h.symm

/-- a registered custom node -/
theorem iobj_custom (cfg : Cfg) (s : Bool) (d : Nat) (reg : Reg) (x : PyObj) (xs : List PyObj)
    (md : Option Key) (q : Quirk) (ih : ∀ y ∈ xs, Iobj cfg s y) (out : FlatOut)
    (hco : customOut reg x = customOutOf reg md q xs)
    (hb : customFlatten reg (customOutOf reg md q xs) (flattenList cfg s (d + 1) xs) = .ok out)
    (fuel : Nat) (agenda : List (PyObj × Nat)) (acc : List PyObj) (hf : fuel ≥ PyObj.sizeList xs) :
    ∃ fuel', fuel' + PyObj.sizeList xs ≥ fuel ∧
      (match iterCustomChildren (customOut reg x) with
        | .error e => .error e
        | .ok Option.none => iterRun cfg s fuel agenda (x :: acc)
        | .ok (some cs) => iterRun cfg s fuel (cs.map (·, d + 1) ++ agenda) acc) =
        iterRun cfg s fuel' agenda (out.leaves.reverse ++ acc) := by
  rw [hco]
  unfold customFlatten at hb
  unfold iterCustomChildren
  split at hb; · simp at hb
  rename_i hnum
  simp only [hnum]
  cases hch : (customOutOf reg md q xs).children with
  | none => rw [hch] at hb; simp at hb
  | some cs =>
    have hcs := customOutOf_children reg md q xs cs hch
    subst hcs
    rw [hch] at hb
    simp only at hb ⊢
    cases hs : seqOuts (flattenList cfg s (d + 1) cs) with
    | error e => rw [hs] at hb; simp at hb
    | ok body =>
      rw [hs] at hb
      simp only at hb
      have hlen : (flattenList cfg s (d + 1) cs).length = cs.length := by simp [flattenList_eq]
      rw [hlen] at hb
      rw [flattenList_eq] at hs
      have fin : ∀ entries : Option (List Key), ∃ fuel', fuel' + PyObj.sizeList cs ≥ fuel ∧
          iterRun cfg s fuel (cs.map (·, d + 1) ++ agenda) acc =
            iterRun cfg s fuel' agenda
              ((body.close .custom cs.length (.md (customOutOf reg md q cs).md) entries (some reg) Option.none
                true).leaves.reverse ++ acc) := by
        intro entries
        exact iobj_children cfg s (d + 1) cs ih body _ hs (by simp [FlatOut.close]) fuel agenda acc hf
      -- the entries check is the same in both traversals
      by_cases h3 : ((customOutOf reg md q cs).numOut == 3) = true
      · simp only [h3, if_true] at hb ⊢
        cases he : (customOutOf reg md q cs).entries with
        | absent =>
          rw [he] at hb
          simp only [Except.ok.injEq] at hb
          subst hb
          simpa using fin _
        | noneVal =>
          rw [he] at hb
          simp only [Except.ok.injEq] at hb
          subst hb
          simpa using fin _
        | tuple ks =>
          rw [he] at hb
          simp only at hb ⊢
          by_cases hl : (ks.length != cs.length) = true
          · simp [hl] at hb
          · simp only [hl, Bool.false_eq_true, if_false, Except.ok.injEq] at hb ⊢
            subst hb
            simpa using fin _
        | nonIter => rw [he] at hb; simp at hb
      · simp only [h3, Bool.false_eq_true, if_false, Except.ok.injEq] at hb ⊢
        subst hb
        simpa using fin _

mutual
theorem iobj (cfg : Cfg) (s : Bool) : ∀ t : PyObj, Iobj cfg s t
  | .leaf ty uid => by
      intro d out h fuel agenda acc hf
      rw [flattenGo] at h
      apply iter_prelude cfg s d _ out _ h fuel agenda acc hf
      intro hb _
      simp only [Except.ok.injEq] at hb
      subst hb
      exact ⟨fuel - 1, by simp [PyObj.size]; omega, by simp [iterChildren, leafOut]⟩
  | .none => by
      intro d out h fuel agenda acc hf
      rw [flattenGo] at h
      apply iter_prelude cfg s d _ out _ h fuel agenda acc hf
      intro hb _
      refine ⟨fuel - 1, by simp [PyObj.size]; omega, ?_⟩
      by_cases hn : cfg.noneIsLeaf = true
      · simp only [hn, if_true, Except.ok.injEq] at hb
        subst hb
        simp [iterChildren, hn, leafOut]
      · simp only [hn, Bool.false_eq_true, if_false, Except.ok.injEq] at hb
        subst hb
        simp [iterChildren, hn, FlatOut.close, FlatOut.empty]
  | .tuple xs => by
      intro d out h fuel agenda acc hf
      rw [flattenGo] at h
      apply iter_prelude cfg s d _ out _ h fuel agenda acc hf
      intro hb _
      obtain ⟨body, hs, hl⟩ := closeSeq_ok _ _ _ _ _ _ _ out hb
      rw [flattenList_eq] at hs
      simp only [PyObj.size] at hf
      obtain ⟨f, hf', e⟩ := iobj_children cfg s (d + 1) xs (ilist cfg s xs) body out hs hl (fuel - 1) agenda acc (by omega)
      exact ⟨f, by simp only [PyObj.size]; omega, by simpa [iterChildren] using e⟩
  | .list xs => by
      intro d out h fuel agenda acc hf
      rw [flattenGo] at h
      apply iter_prelude cfg s d _ out _ h fuel agenda acc hf
      intro hb _
      obtain ⟨body, hs, hl⟩ := closeSeq_ok _ _ _ _ _ _ _ out hb
      rw [flattenList_eq] at hs
      simp only [PyObj.size] at hf
      obtain ⟨f, hf', e⟩ := iobj_children cfg s (d + 1) xs (ilist cfg s xs) body out hs hl (fuel - 1) agenda acc (by omega)
      exact ⟨f, by simp only [PyObj.size]; omega, by simpa [iterChildren] using e⟩
  | .deque m xs => by
      intro d out h fuel agenda acc hf
      rw [flattenGo] at h
      apply iter_prelude cfg s d _ out _ h fuel agenda acc hf
      intro hb _
      obtain ⟨body, hs, hl⟩ := closeSeq_ok _ _ _ _ _ _ _ out hb
      rw [flattenList_eq] at hs
      simp only [PyObj.size] at hf
      obtain ⟨f, hf', e⟩ := iobj_children cfg s (d + 1) xs (ilist cfg s xs) body out hs hl (fuel - 1) agenda acc (by omega)
      exact ⟨f, by simp only [PyObj.size]; omega, by simpa [iterChildren] using e⟩
  | .dict kvs => by
      intro d out h fuel agenda acc hf
      rw [flattenGo] at h
      apply iter_prelude cfg s d _ out _ h fuel agenda acc hf
      intro hb _
      exact iobj_kvs_node cfg s d kvs (ikvs cfg s kvs) false out _ _ _ _ hb fuel agenda acc
        (by simpa [PyObj.size] using hf) |>.imp fun f hf' =>
          ⟨by simp only [PyObj.size]; omega, by simpa [iterChildren] using hf'.2⟩
  | .odict kvs => by
      intro d out h fuel agenda acc hf
      rw [flattenGo] at h
      apply iter_prelude cfg s d _ out _ h fuel agenda acc hf
      intro hb _
      have hb' : closeSeq ((dictOrder true s (flattenKVs cfg s (d + 1) kvs)).map (·.2)) .ordereddict kvs.length
          (.keys ((dictOrder true s (flattenKVs cfg s (d + 1) kvs)).map (·.1))) Option.none Option.none Option.none = .ok out := by
        simpa [dictOrder] using hb
      exact iobj_kvs_node cfg s d kvs (ikvs cfg s kvs) true out _ _ _ _ hb' fuel agenda acc
        (by simpa [PyObj.size] using hf) |>.imp fun f hf' =>
          ⟨by simp only [PyObj.size]; omega, by simpa [iterChildren, dictOrder] using hf'.2⟩
  | .ddict fac kvs => by
      intro d out h fuel agenda acc hf
      rw [flattenGo] at h
      apply iter_prelude cfg s d _ out _ h fuel agenda acc hf
      intro hb _
      exact iobj_kvs_node cfg s d kvs (ikvs cfg s kvs) false out _ _ _ _ hb fuel agenda acc
        (by simpa [PyObj.size] using hf) |>.imp fun f hf' =>
          ⟨by simp only [PyObj.size]; omega, by simpa [iterChildren] using hf'.2⟩
  | .ntuple cls xs => by
      intro d out h fuel agenda acc hf
      rw [flattenGo] at h
      apply iter_prelude cfg s d _ out _ h fuel agenda acc hf
      intro hb _
      simp only [PyObj.size] at hf
      cases hl : cfg.reg.lookup cfg.ns 1 cls with
      | some reg =>
        rw [hl] at hb
        simp only at hb
        obtain ⟨f, hf', e⟩ := iobj_custom cfg s d reg (.ntuple cls xs) xs Option.none .ok (ilist cfg s xs) out
          (by simp [customOut, customParts]) hb (fuel - 1) agenda acc (by omega)
        exact ⟨f, by simp only [PyObj.size]; omega, by simpa [iterChildren, getKind, hl] using e⟩
      | none =>
        rw [hl] at hb
        simp only at hb
        obtain ⟨body, hs, hl'⟩ := closeSeq_ok _ _ _ _ _ _ _ out hb
        rw [flattenList_eq] at hs
        obtain ⟨f, hf', e⟩ := iobj_children cfg s (d + 1) xs (ilist cfg s xs) body out hs hl' (fuel - 1) agenda acc (by omega)
        exact ⟨f, by simp only [PyObj.size]; omega, by simpa [iterChildren, getKind, hl] using e⟩
  | .sseq cls xs => by
      intro d out h fuel agenda acc hf
      rw [flattenGo] at h
      apply iter_prelude cfg s d _ out _ h fuel agenda acc hf
      intro hb _
      simp only [PyObj.size] at hf
      cases hl : cfg.reg.lookup cfg.ns 2 cls with
      | some reg =>
        rw [hl] at hb
        simp only at hb
        obtain ⟨f, hf', e⟩ := iobj_custom cfg s d reg (.sseq cls xs) xs Option.none .ok (ilist cfg s xs) out
          (by simp [customOut, customParts]) hb (fuel - 1) agenda acc (by omega)
        exact ⟨f, by simp only [PyObj.size]; omega, by simpa [iterChildren, getKind, hl] using e⟩
      | none =>
        rw [hl] at hb
        simp only at hb
        obtain ⟨body, hs, hl'⟩ := closeSeq_ok _ _ _ _ _ _ _ out hb
        rw [flattenList_eq] at hs
        obtain ⟨f, hf', e⟩ := iobj_children cfg s (d + 1) xs (ilist cfg s xs) body out hs hl' (fuel - 1) agenda acc (by omega)
        exact ⟨f, by simp only [PyObj.size]; omega, by simpa [iterChildren, getKind, hl] using e⟩
  | .user cls md q xs => by
      intro d out h fuel agenda acc hf
      rw [flattenGo] at h
      apply iter_prelude cfg s d _ out _ h fuel agenda acc hf
      intro hb _
      simp only [PyObj.size] at hf
      cases hl : cfg.reg.lookup cfg.ns 0 cls with
      | some reg =>
        rw [hl] at hb
        simp only at hb
        obtain ⟨f, hf', e⟩ := iobj_custom cfg s d reg (.user cls md q xs) xs md q (ilist cfg s xs) out
          (by simp [customOut, customParts]) hb (fuel - 1) agenda acc (by omega)
        exact ⟨f, by simp only [PyObj.size]; omega, by simpa [iterChildren, getKind, hl] using e⟩
      | none =>
        rw [hl] at hb
        simp only [Except.ok.injEq] at hb
        subst hb
        exact ⟨fuel - 1, by simp only [PyObj.size]; omega, by simp [iterChildren, getKind, hl, leafOut]⟩
theorem ilist (cfg : Cfg) (s : Bool) : ∀ xs : List PyObj, ∀ x ∈ xs, Iobj cfg s x
  | [] => by intro x hx; simp at hx
  | y :: ys => by
      intro x hx
      simp only [List.mem_cons] at hx
      rcases hx with hx | hx
      · subst hx; exact iobj cfg s x
      · exact ilist cfg s ys x hx
theorem ikvs (cfg : Cfg) (s : Bool) : ∀ kvs : List (Key × PyObj), ∀ p ∈ kvs, Iobj cfg s p.2
  | [] => by intro p hp; simp at hp
  | (k, y) :: ys => by
      intro p hp
      simp only [List.mem_cons] at hp
      rcases hp with hp | hp
      · subst hp; exact iobj cfg s y
      · exact ikvs cfg s ys p hp
end

end Optree
