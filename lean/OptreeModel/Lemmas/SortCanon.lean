/-
  Canonicity of `sortBy`: with a strict total order on the elements of a list, sorting any
  permutation of the list gives the same result (helper for C02: the insertion order of a dict with
  sortable keys is irrelevant).
-/
import OptreeModel.Lemmas.Sort

namespace Optree

/-- `lt` is a strict total order on the members of `l` -/
structure StrictTotalOn {α : Type} (lt : α → α → Bool) (l : List α) : Prop where
  irrefl : ∀ a ∈ l, lt a a = false
  trans : ∀ a ∈ l, ∀ b ∈ l, ∀ c ∈ l, lt a b = true → lt b c = true → lt a c = true
  total : ∀ a ∈ l, ∀ b ∈ l, a ≠ b → lt a b = true ∨ lt b a = true

theorem StrictTotalOn.of_perm {α : Type} {lt : α → α → Bool} {l l' : List α} (h : StrictTotalOn lt l)
    (hp : l.Perm l') : StrictTotalOn lt l' :=
  ⟨fun a ha => h.irrefl a (hp.mem_iff.mpr ha),
   fun a ha b hb c hc => h.trans a (hp.mem_iff.mpr ha) b (hp.mem_iff.mpr hb) c (hp.mem_iff.mpr hc),
   fun a ha b hb => h.total a (hp.mem_iff.mpr ha) b (hp.mem_iff.mpr hb)⟩

/-- every element is below all later ones -/
def SortedBy {α : Type} (lt : α → α → Bool) : List α → Prop
  | [] => True
  | x :: xs => (∀ y ∈ xs, lt x y = true) ∧ SortedBy lt xs

theorem mem_insertBy {α : Type} (lt : α → α → Bool) (x : α) (xs : List α) (z : α) :
    z ∈ insertBy lt x xs ↔ z = x ∨ z ∈ xs := by
  rw [(insertBy_perm lt x xs).mem_iff]; simp

theorem insertBy_sorted {α : Type} (lt : α → α → Bool) (x : α) (xs : List α)
    (hto : StrictTotalOn lt (x :: xs)) (hx : x ∉ xs) (hs : SortedBy lt xs) :
    SortedBy lt (insertBy lt x xs) := by
  induction xs with
  | nil => simp [insertBy, SortedBy]
  | cons y ys ih =>
    unfold insertBy
    have hyx : y ≠ x := fun e => hx (by simp [e])
    split
    · rename_i hlt
      refine ⟨?_, ?_⟩
      · intro z hz
        rw [mem_insertBy] at hz
        rcases hz with rfl | hz
        · exact hlt
        · exact hs.1 z hz
      · apply ih
        · exact ⟨fun a ha => hto.irrefl a (by simp at ha ⊢; rcases ha with h | h <;> simp [h]),
                 fun a ha b hb c hc => hto.trans a (by simp at ha ⊢; rcases ha with h | h <;> simp [h])
                   b (by simp at hb ⊢; rcases hb with h | h <;> simp [h])
                   c (by simp at hc ⊢; rcases hc with h | h <;> simp [h]),
                 fun a ha b hb => hto.total a (by simp at ha ⊢; rcases ha with h | h <;> simp [h])
                   b (by simp at hb ⊢; rcases hb with h | h <;> simp [h])⟩
        · intro hc; exact hx (by simp [hc])
        · exact hs.2
    · rename_i hnlt
      have hxy : lt x y = true := by
        rcases hto.total y (by simp) x (by simp) hyx with h | h
        · exact absurd h hnlt
        · exact h
      refine ⟨?_, hs⟩
      intro z hz
      simp only [List.mem_cons] at hz
      rcases hz with rfl | hz
      · exact hxy
      · exact hto.trans x (by simp) y (by simp) z (by simp [hz]) hxy (hs.1 z hz)

theorem sortBy_sorted {α : Type} (lt : α → α → Bool) (xs : List α) (hto : StrictTotalOn lt xs)
    (hnd : xs.Nodup) : SortedBy lt (sortBy lt xs) := by
  induction xs with
  | nil => simp [sortBy, SortedBy]
  | cons x xs ih =>
    simp only [List.nodup_cons] at hnd
    unfold sortBy
    have hto' : StrictTotalOn lt xs :=
      ⟨fun a ha => hto.irrefl a (by simp [ha]),
       fun a ha b hb c hc => hto.trans a (by simp [ha]) b (by simp [hb]) c (by simp [hc]),
       fun a ha b hb => hto.total a (by simp [ha]) b (by simp [hb])⟩
    apply insertBy_sorted
    · exact hto.of_perm (List.Perm.cons x (sortBy_perm lt xs).symm)
    · intro hc; exact hnd.1 ((sortBy_perm lt xs).mem_iff.mp hc)
    · exact ih hto' hnd.2

/-- two sorted lists with the same members (no repetitions) are equal -/
theorem sorted_perm_eq {α : Type} (lt : α → α → Bool) :
    ∀ (l1 l2 : List α), StrictTotalOn lt l1 → l1.Perm l2 → l1.Nodup → SortedBy lt l1 → SortedBy lt l2 →
      l1 = l2
  | [], l2, _, hp, _, _, _ => by simpa using hp.symm.eq_nil
  | x :: xs, [], _, hp, _, _, _ => by simpa using hp.eq_nil
  | x :: xs, y :: ys, hto, hp, hnd, h1, h2 => by
    have hxy : x = y := by
      apply Classical.byContradiction
      intro hne
      have hx2 : x ∈ y :: ys := hp.mem_iff.mp (by simp)
      have hy1 : y ∈ x :: xs := hp.mem_iff.mpr (by simp)
      simp only [List.mem_cons] at hx2 hy1
      have hxys : x ∈ ys := by rcases hx2 with h | h; exact absurd h hne; exact h
      have hyxs : y ∈ xs := by rcases hy1 with h | h; exact absurd h.symm hne; exact h
      have a := h1.1 y hyxs
      have b := h2.1 x hxys
      have c := hto.trans x (by simp) y (by simp [hyxs]) x (by simp) a b
      rw [hto.irrefl x (by simp)] at c
      exact Bool.noConfusion c
    subst hxy
    have hp' : xs.Perm ys := (List.perm_cons x).mp hp
    simp only [List.nodup_cons] at hnd
    have hto' : StrictTotalOn lt xs :=
      ⟨fun a ha => hto.irrefl a (by simp [ha]),
       fun a ha b hb c hc => hto.trans a (by simp [ha]) b (by simp [hb]) c (by simp [hc]),
       fun a ha b hb => hto.total a (by simp [ha]) b (by simp [hb])⟩
    rw [sorted_perm_eq lt xs ys hto' hp' hnd.2 h1.2 h2.2]

/-- **sorting is canonical**: permutations of a repetition-free list sort to the same list -/
theorem sortBy_canonical {α : Type} (lt : α → α → Bool) (l1 l2 : List α) (hto : StrictTotalOn lt l1)
    (hp : l1.Perm l2) (hnd : l1.Nodup) : sortBy lt l1 = sortBy lt l2 := by
  have p1 := sortBy_perm lt l1
  have p2 := sortBy_perm lt l2
  apply sorted_perm_eq lt _ _ (hto.of_perm p1.symm) (p1.trans (hp.trans p2.symm))
    (p1.nodup_iff.mpr hnd)
  · exact sortBy_sorted lt l1 hto hnd
  · exact sortBy_sorted lt l2 (hto.of_perm hp) (hp.nodup_iff.mp hnd)

/-- `allPairs` of a symmetric relation over a repetition-free list is a statement about its members -/
theorem allPairs_iff_mem {α : Type} (p : α → α → Bool) (hsym : ∀ a b, p a b = p b a) (l : List α)
    (hnd : l.Nodup) :
    allPairs p l = true ↔ ∀ a ∈ l, ∀ b ∈ l, a ≠ b → p a b = true := by
  induction l with
  | nil => simp [allPairs]
  | cons x xs ih =>
    simp only [List.nodup_cons] at hnd
    simp only [allPairs, Bool.and_eq_true, List.all_eq_true, ih hnd.2]
    constructor
    · rintro ⟨h1, h2⟩ a ha b hb hne
      simp only [List.mem_cons] at ha hb
      rcases ha with rfl | ha <;> rcases hb with rfl | hb
      · exact absurd rfl hne
      · exact h1 b hb
      · rw [hsym]; exact h1 a ha
      · exact h2 a ha b hb hne
    · intro h
      refine ⟨fun y hy => h x (by simp) y (by simp [hy]) (fun e => hnd.1 (e ▸ hy)), ?_⟩
      intro a ha b hb hne
      exact h a (by simp [ha]) b (by simp [hb]) hne

theorem allPairs_perm {α : Type} (p : α → α → Bool) (hsym : ∀ a b, p a b = p b a) (l l' : List α)
    (hnd : l.Nodup) (hp : l.Perm l') : allPairs p l = allPairs p l' := by
  have h1 := allPairs_iff_mem p hsym l hnd
  have h2 := allPairs_iff_mem p hsym l' (hp.nodup_iff.mp hnd)
  have : (∀ a ∈ l, ∀ b ∈ l, a ≠ b → p a b = true) ↔ (∀ a ∈ l', ∀ b ∈ l', a ≠ b → p a b = true) := by
    constructor
    · intro h a ha b hb; exact h a (hp.mem_iff.mpr ha) b (hp.mem_iff.mpr hb)
    · intro h a ha b hb; exact h a (hp.mem_iff.mp ha) b (hp.mem_iff.mp hb)
  have hiff : allPairs p l = true ↔ allPairs p l' = true := h1.trans (this.trans h2.symm)
  cases hA : allPairs p l <;> cases hB : allPairs p l'
  · rfl
  · rw [hA, hB] at hiff; exact absurd (hiff.mpr rfl) (by simp)
  · rw [hA, hB] at hiff; exact absurd (hiff.mp rfl) (by simp)
  · rfl

end Optree
