/-
  Order theory of the tree-level least common suffix `STree.lub` (C09).

  Normal forms: at a pair of internal nodes both `prefixB` and `lub` are "node-level compatibility ∧
  the same thing on the children lists, the second list re-paired by key when the first node is of a
  dict kind" (`prefixB_nf`, `lub_nf`).  On these normal forms, by mutual structural induction with no
  bound on size or nesting:

    * `lub_extends_right`  the second operand is a prefix of the merged shape
    * `lub_least`          every common suffix of the operands is a suffix of the merged shape, and the
                           merged shape exists whenever a common suffix exists
    * corollaries          existence ⇔ common suffix; symmetry up to mutual prefix; `a ≤ b → lub a b ≈ b`
-/
import OptreeModel.Lemmas.PrefixOrder
import OptreeModel.Lemmas.EncBroadcast

namespace Optree

/-! ### normal forms -/

/-- node-level part of `prefixB` (everything but the children) -/
def NInfo.preC (i j : NInfo) : Bool :=
  i.data.isSome == j.data.isSome && i.custom == j.custom &&
  (match i.kind with
   | .none | .tuple | .list | .deque => i.kind == j.kind
   | .dict | .ordereddict | .defaultdict => j.kind.isDict && keySetEq i.keys j.keys
   | .namedtuple | .structseq | .custom => i.kind == j.kind && (!i.data.isSome || i.data == j.data)
   | .leaf => false)

/-- node-level part of `lub` -/
def NInfo.lubC (i j : NInfo) : Bool :=
  match i.kind with
  | .leaf => false
  | .none => j.kind == .none
  | .tuple | .list | .deque => i.kind == j.kind
  | .dict | .ordereddict | .defaultdict => j.kind.isDict && keySetEq i.keys j.keys
  | .namedtuple | .structseq => i.kind == j.kind && i.data == j.data
  | .custom =>
      match i.custom, j.custom with
      | some r, some r' => j.kind == .custom && r.cls == r'.cls && r.clsKind == r'.clsKind && i.data == j.data
      | _, _ => false

/-- the children of the second node, in the order of the first node's children -/
def alignC (i j : NInfo) (ds : List STree) : List STree :=
  if i.kind.isDict then pickD i.keys j.keys ds else ds

theorem alignC_dict {i j : NInfo} (ds : List STree) (h : i.kind.isDict = true) :
    alignC i j ds = pickD i.keys j.keys ds := by simp [alignC, h]

theorem alignC_seq {i j : NInfo} (ds : List STree) (h : i.kind.isDict = false) :
    alignC i j ds = ds := by simp [alignC, h]

/-- `prefixB` at two internal nodes, normal form -/
theorem STree.prefixB_nf (i j : NInfo) (cs ds : List STree)
    (hdi : i.kind.isDict = true → i.keys.length = cs.length)
    (hdj : j.kind.isDict = true → j.keys.length = ds.length) :
    (STree.node i cs).prefixB (.node j ds) =
      (cs.length == ds.length && i.preC j && STree.prefixL cs (alignC i j ds)) := by
  have dictCase : i.kind.isDict = true →
      (j.kind.isDict && keySetEq i.keys j.keys && STree.prefixD i.keys cs j.keys ds) =
      (j.kind.isDict && keySetEq i.keys j.keys && STree.prefixL cs (pickD i.keys j.keys ds)) := by
    intro hid
    cases hjd : j.kind.isDict with
    | false => simp
    | true =>
      cases hks : keySetEq i.keys j.keys with
      | false => simp
      | true =>
        rw [STree.prefixD_eq j.keys ds (hdj hjd) i.keys cs (hdi hid) ((keySetEq_iff _ _).mp hks).2]
  simp only [STree.prefixB, NInfo.preC]
  rcases Kind.cases_eq i.kind with hk | hk | hk | hk | hk | hk | hk | hk | hk | hk | hk
  · simp only [hk, alignC, Kind.isDict, Bool.false_eq_true, if_false, Bool.and_assoc]
  · simp [hk]
  · simp only [hk, alignC, Kind.isDict, Bool.false_eq_true, if_false, Bool.and_assoc]
  · simp only [hk, alignC, Kind.isDict, Bool.false_eq_true, if_false, Bool.and_assoc]
  · simp only [hk, alignC, Kind.isDict, Bool.false_eq_true, if_false, Bool.and_assoc]
  · have := dictCase (by simp [hk, Kind.isDict])
    simp only [hk, alignC, Kind.isDict, if_true, Bool.and_assoc] at this ⊢
    rw [this]
  · simp only [hk, alignC, Kind.isDict, Bool.false_eq_true, if_false, Bool.and_assoc]
  · have := dictCase (by simp [hk, Kind.isDict])
    simp only [hk, alignC, Kind.isDict, if_true, Bool.and_assoc] at this ⊢
    rw [this]
  · have := dictCase (by simp [hk, Kind.isDict])
    simp only [hk, alignC, Kind.isDict, if_true, Bool.and_assoc] at this ⊢
    rw [this]
  · simp only [hk, alignC, Kind.isDict, Bool.false_eq_true, if_false, Bool.and_assoc]
  · simp only [hk, alignC, Kind.isDict, Bool.false_eq_true, if_false, Bool.and_assoc]

theorem keySetEq_length {a b : List Key} (h : keySetEq a b = true) : a.length = b.length :=
  ((keySetEq_iff _ _).mp h).1

/-- `lub` at two internal nodes, normal form -/
theorem STree.lub_nf (i j : NInfo) (cs ds : List STree) (ha : (STree.node i cs).wf = true)
    (hb : (STree.node j ds).wf = true) :
    (STree.node i cs).lub (.node j ds) =
      if i.lubC j && cs.length == ds.length then (STree.lubL cs (alignC i j ds)).map (.node i)
      else Option.none := by
  obtain ⟨hnl, hnone, hdi, _⟩ := STree.wf_node ha
  obtain ⟨_, hnonej, hdj, _⟩ := STree.wf_node hb
  have dictCase : i.kind.isDict = true →
      (if (!j.kind.isDict || !keySetEq i.keys j.keys) = true then Option.none
       else (STree.lubD i.keys cs j.keys ds).map (STree.node i)) =
      if (j.kind.isDict && keySetEq i.keys j.keys && cs.length == ds.length) = true then
        (STree.lubL cs (pickD i.keys j.keys ds)).map (STree.node i) else Option.none := by
    intro hid
    cases hjd : j.kind.isDict with
    | false => simp
    | true =>
      cases hks : keySetEq i.keys j.keys with
      | false => simp
      | true =>
        have hl : cs.length = ds.length := by
          rw [← (hdi hid).1, ← (hdj hjd).1]; exact keySetEq_length hks
        rw [STree.lubD_eq j.keys ds (hdj hjd).1 i.keys cs (hdi hid).1 ((keySetEq_iff _ _).mp hks).2]
        simp [hl]
  simp only [STree.lub, NInfo.lubC]
  rcases Kind.cases_eq i.kind with hk | hk | hk | hk | hk | hk | hk | hk | hk | hk | hk
  · -- custom
    simp only [hk, alignC, Kind.isDict, Bool.false_eq_true, if_false]
    cases i.custom with
    | none => simp
    | some r =>
      cases j.custom with
      | none => simp
      | some r' =>
        simp only
        by_cases h1 : j.kind = .custom <;> by_cases h2 : r.cls = r'.cls <;>
          by_cases h3 : r.clsKind = r'.clsKind <;> by_cases h4 : cs.length = ds.length <;>
          by_cases h5 : i.data = j.data <;> simp [h1, h2, h3, h4, h5]
  · exact absurd hk hnl
  · -- none
    simp only [hk, alignC, Kind.isDict, Bool.false_eq_true, if_false]
    by_cases h1 : j.kind = .none
    · have hcs := hnone hk
      have hds := hnonej h1
      subst hcs; subst hds
      simp [h1, STree.lubL]
    · simp [h1]
  · simp only [hk, alignC, Kind.isDict, Bool.false_eq_true, if_false]
    by_cases h1 : Kind.tuple = j.kind <;> by_cases h4 : cs.length = ds.length <;> simp [h1, h4]
  · simp only [hk, alignC, Kind.isDict, Bool.false_eq_true, if_false]
    by_cases h1 : Kind.list = j.kind <;> by_cases h4 : cs.length = ds.length <;> simp [h1, h4]
  · have := dictCase (by simp [hk, Kind.isDict])
    simp only [hk, alignC, Kind.isDict, if_true] at this ⊢
    exact this
  · simp only [hk, alignC, Kind.isDict, Bool.false_eq_true, if_false]
    by_cases h1 : Kind.namedtuple = j.kind <;> by_cases h4 : cs.length = ds.length <;>
      by_cases h5 : i.data = j.data <;> simp [h1, h4, h5]
  · have := dictCase (by simp [hk, Kind.isDict])
    simp only [hk, alignC, Kind.isDict, if_true] at this ⊢
    exact this
  · have := dictCase (by simp [hk, Kind.isDict])
    simp only [hk, alignC, Kind.isDict, if_true] at this ⊢
    exact this
  · simp only [hk, alignC, Kind.isDict, Bool.false_eq_true, if_false]
    by_cases h1 : Kind.deque = j.kind <;> by_cases h4 : cs.length = ds.length <;> simp [h1, h4]
  · simp only [hk, alignC, Kind.isDict, Bool.false_eq_true, if_false]
    by_cases h1 : Kind.structseq = j.kind <;> by_cases h4 : cs.length = ds.length <;>
      by_cases h5 : i.data = j.data <;> simp [h1, h4, h5]


/-! ### re-pairing by key, both ways -/

theorem lookupChild_pickD (jk : List Key) (ds : List STree) (hlen : jk.length = ds.length) (k : Key) :
    ∀ (ik : List Key), ik.Nodup → (∀ k' ∈ ik, k' ∈ jk) → k ∈ ik →
      lookupChild k ik (pickD ik jk ds) = lookupChild k jk ds
  | [], _, _, hk => by simp at hk
  | k0 :: ik, hnd, hm, hk => by
      obtain ⟨j, hj⟩ := keyIndex_of_mem (hm k0 (by simp))
      have hjd : j < ds.length := hlen ▸ keyIndex_lt hj
      have hl0 : lookupChild k0 jk ds = some ds[j] := by
        rw [lookupChild_eq_getElem k0 jk ds hlen, hj]; simp [hjd]
      rw [pickD_cons k0 ik jk ds _ hl0]
      have hnd' := List.nodup_cons.mp hnd
      simp only [lookupChild]
      by_cases h0 : k0 = k
      · subst h0; simp [hl0]
      · have hne : (k0 == k) = false := by simp [h0]
        simp only [hne, Bool.false_eq_true, if_false]
        have hk' : k ∈ ik := by
          rcases List.mem_cons.mp hk with e | e
          · exact absurd e.symm h0
          · exact e
        exact lookupChild_pickD jk ds hlen k ik hnd'.2 (fun k' hk'' => hm k' (by simp [hk''])) hk'

/-- re-pairing there and back is the identity -/
theorem pickD_inv {ik jk : List Key} {ds : List STree} (hks : keySetEq ik jk = true) (hni : ik.Nodup)
    (hnj : jk.Nodup) (hlen : jk.length = ds.length) : pickD jk ik (pickD ik jk ds) = ds := by
  have hp := keys_perm hks hni
  have hm := ((keySetEq_iff _ _).mp hks).2
  have : pickD jk ik (pickD ik jk ds) = pickD jk jk ds := by
    unfold pickD
    apply filterMap_congr'
    intro k hk
    exact lookupChild_pickD jk ds hlen k ik hni hm (hp.mem_iff.mpr hk)
  rw [this, pickD_self jk ds hlen hnj]

theorem keySetEq_symm {a b : List Key} (h : keySetEq a b = true) (hnd : a.Nodup) : keySetEq b a = true := by
  have hp := keys_perm h hnd
  rw [keySetEq_iff] at *
  exact ⟨h.1.symm, fun k hk => hp.mem_iff.mpr hk⟩

/-- from "the re-paired children sit below `rc`" to "the children sit below `rc` re-paired the other way" -/
theorem prefixL_unpick {ik jk : List Key} {ds rc : List STree} (hks : keySetEq ik jk = true) (hni : ik.Nodup)
    (hnj : jk.Nodup) (hlen : jk.length = ds.length) (hlr : ik.length = rc.length)
    (h : STree.prefixL (pickD ik jk ds) rc = true) : STree.prefixL ds (pickD jk ik rc) = true := by
  have hm := ((keySetEq_iff _ _).mp hks).2
  have hm' := ((keySetEq_iff _ _).mp (keySetEq_symm hks hni)).2
  have hpl : ik.length = (pickD ik jk ds).length := (pickD_length ik jk ds hlen hm).symm
  have h' : STree.prefixL (pickD ik jk ds) (pickD ik ik rc) = true := by
    rw [pickD_self ik rc hlr hni]; exact h
  have := prefixL_reindex ik (pickD ik jk ds) ik rc h' hpl (fun _ hk => hk) hlr jk hm'
  rwa [pickD_inv hks hni hnj hlen] at this

/-! ### node-level compatibility -/

theorem NInfo.preC_isDict {i j : NInfo} (h : i.preC j = true) : j.kind.isDict = i.kind.isDict := by
  unfold NInfo.preC at h
  rcases Kind.cases_eq i.kind with hk | hk | hk | hk | hk | hk | hk | hk | hk | hk | hk <;>
    rcases Kind.cases_eq j.kind with hj | hj | hj | hj | hj | hj | hj | hj | hj | hj | hj <;>
    simp_all [Kind.isDict]

theorem NInfo.lubC_isDict {i j : NInfo} (h : i.lubC j = true) : j.kind.isDict = i.kind.isDict := by
  unfold NInfo.lubC at h
  cases hci : i.custom <;> cases hcj : j.custom <;>
  rcases Kind.cases_eq i.kind with hk | hk | hk | hk | hk | hk | hk | hk | hk | hk | hk <;>
    rcases Kind.cases_eq j.kind with hj | hj | hj | hj | hj | hj | hj | hj | hj | hj | hj <;>
    simp_all [Kind.isDict]

/-- nodes that `lub` merges are prefix-compatible both ways, provided each custom class has one
registration record -/
theorem NInfo.pre_of_lubC {i j : NInfo} (h : i.lubC j = true) (fi : i.fits = true) (fj : j.fits = true)
    (hni : i.kind.isDict = true → i.keys.Nodup)
    (hreg : ∀ r r', i.custom = some r → j.custom = some r' → r.cls = r'.cls → r.clsKind = r'.clsKind → r = r') :
    i.preC j = true ∧ j.preC i = true := by
  simp only [NInfo.lubC] at h
  rcases Kind.cases_eq i.kind with hk | hk | hk | hk | hk | hk | hk | hk | hk | hk | hk <;>
    simp only [hk, Bool.and_eq_true, beq_iff_eq, Bool.false_eq_true] at h
  · -- custom
    cases hci : i.custom with
    | none => simp [hci] at h
    | some r =>
      cases hcj : j.custom with
      | none => simp [hci, hcj] at h
      | some r' =>
        simp only [hci, hcj, Bool.and_eq_true, beq_iff_eq] at h
        obtain ⟨⟨⟨hjk, hcls⟩, hck⟩, hd⟩ := h
        have := hreg r r' hci hcj hcls hck
        subst this
        simp [NInfo.preC, hk, hjk, hci, hcj, hd]
  · -- none
    simp only [NInfo.fits, hk, h, Bool.and_eq_true, Bool.not_eq_true', Option.isNone_iff_eq_none] at fi fj
    simp [NInfo.preC, hk, h, fi.1, fi.2, fj.1, fj.2]
  · simp only [NInfo.fits, hk, ← h, Bool.and_eq_true, Bool.not_eq_true', Option.isNone_iff_eq_none] at fi fj
    simp [NInfo.preC, hk, ← h, fi.1, fi.2, fj.1, fj.2]
  · simp only [NInfo.fits, hk, ← h, Bool.and_eq_true, Bool.not_eq_true', Option.isNone_iff_eq_none] at fi fj
    simp [NInfo.preC, hk, ← h, fi.1, fi.2, fj.1, fj.2]
  · have hnd := hni (by simp [hk, Kind.isDict])
    have hsym := keySetEq_symm h.2 hnd
    have hjd := h.1
    simp only [NInfo.fits, hk, Bool.and_eq_true, Option.isNone_iff_eq_none] at fi
    have fj' : j.data.isSome = true ∧ j.custom = none := by
      rcases Kind.cases_eq j.kind with hj | hj | hj | hj | hj | hj | hj | hj | hj | hj | hj <;>
        simp only [hj, Kind.isDict, Bool.false_eq_true] at hjd <;>
        simpa [NInfo.fits, hj] using fj
    constructor
    · simp [NInfo.preC, hk, fi.1, fi.2, fj'.1, fj'.2, hjd, h.2]
    · rcases Kind.cases_eq j.kind with hj | hj | hj | hj | hj | hj | hj | hj | hj | hj | hj <;>
        simp only [hj, Kind.isDict, Bool.false_eq_true] at hjd <;>
        simp [NInfo.preC, hk, hj, fi.1, fi.2, fj'.1, fj'.2, hsym, Kind.isDict]
  · simp only [NInfo.fits, hk, ← h.1, Bool.and_eq_true, Option.isNone_iff_eq_none] at fi fj
    simp [NInfo.preC, hk, ← h.1, fi.1, fi.2, fj.1, fj.2, h.2]
  · have hnd := hni (by simp [hk, Kind.isDict])
    have hsym := keySetEq_symm h.2 hnd
    have hjd := h.1
    simp only [NInfo.fits, hk, Bool.and_eq_true, Option.isNone_iff_eq_none] at fi
    have fj' : j.data.isSome = true ∧ j.custom = none := by
      rcases Kind.cases_eq j.kind with hj | hj | hj | hj | hj | hj | hj | hj | hj | hj | hj <;>
        simp only [hj, Kind.isDict, Bool.false_eq_true] at hjd <;>
        simpa [NInfo.fits, hj] using fj
    constructor
    · simp [NInfo.preC, hk, fi.1, fi.2, fj'.1, fj'.2, hjd, h.2]
    · rcases Kind.cases_eq j.kind with hj | hj | hj | hj | hj | hj | hj | hj | hj | hj | hj <;>
        simp only [hj, Kind.isDict, Bool.false_eq_true] at hjd <;>
        simp [NInfo.preC, hk, hj, fi.1, fi.2, fj'.1, fj'.2, hsym, Kind.isDict]
  · have hnd := hni (by simp [hk, Kind.isDict])
    have hsym := keySetEq_symm h.2 hnd
    have hjd := h.1
    simp only [NInfo.fits, hk, Bool.and_eq_true, Option.isNone_iff_eq_none] at fi
    have fj' : j.data.isSome = true ∧ j.custom = none := by
      rcases Kind.cases_eq j.kind with hj | hj | hj | hj | hj | hj | hj | hj | hj | hj | hj <;>
        simp only [hj, Kind.isDict, Bool.false_eq_true] at hjd <;>
        simpa [NInfo.fits, hj] using fj
    constructor
    · simp [NInfo.preC, hk, fi.1, fi.2, fj'.1, fj'.2, hjd, h.2]
    · rcases Kind.cases_eq j.kind with hj | hj | hj | hj | hj | hj | hj | hj | hj | hj | hj <;>
        simp only [hj, Kind.isDict, Bool.false_eq_true] at hjd <;>
        simp [NInfo.preC, hk, hj, fi.1, fi.2, fj'.1, fj'.2, hsym, Kind.isDict]
  · simp only [NInfo.fits, hk, ← h, Bool.and_eq_true, Option.isNone_iff_eq_none] at fi fj
    simp [NInfo.preC, hk, ← h, fi.1, fi.2, fj.1, fj.2]
  · simp only [NInfo.fits, hk, ← h.1, Bool.and_eq_true, Option.isNone_iff_eq_none] at fi fj
    simp [NInfo.preC, hk, ← h.1, fi.1, fi.2, fj.1, fj.2, h.2]


theorem NInfo.preC_keys {i j : NInfo} (h : i.preC j = true) (hid : i.kind.isDict = true) :
    keySetEq i.keys j.keys = true := by
  unfold NInfo.preC at h
  rcases Kind.cases_eq i.kind with hk | hk | hk | hk | hk | hk | hk | hk | hk | hk | hk <;>
    simp only [hk, Kind.isDict, Bool.false_eq_true] at hid <;>
    simp only [hk, Bool.and_eq_true] at h <;> exact h.2.2

theorem NInfo.lubC_keys {i j : NInfo} (h : i.lubC j = true) (hid : i.kind.isDict = true) :
    keySetEq i.keys j.keys = true := by
  unfold NInfo.lubC at h
  rcases Kind.cases_eq i.kind with hk | hk | hk | hk | hk | hk | hk | hk | hk | hk | hk <;>
    simp only [hk, Kind.isDict, Bool.false_eq_true] at hid <;>
    simp only [hk, Bool.and_eq_true] at h <;> exact h.2

theorem NInfo.preC_seq {i j : NInfo} (h : i.preC j = true) (hid : i.kind.isDict = false) :
    i.kind = j.kind ∧ i.custom = j.custom ∧ i.data.isSome = j.data.isSome ∧
      ((i.kind = .namedtuple ∨ i.kind = .structseq ∨ i.kind = .custom) → i.data.isSome = true →
        i.data = j.data) := by
  unfold NInfo.preC at h
  rcases Kind.cases_eq i.kind with hk | hk | hk | hk | hk | hk | hk | hk | hk | hk | hk <;>
    simp only [hk, Bool.and_eq_true, beq_iff_eq, Bool.or_eq_true, Bool.not_eq_true',
      Bool.false_eq_true, and_false] at h
  · exact ⟨hk.trans h.2.1, h.1.2, h.1.1, fun _ hs => by
      rcases h.2.2 with e | e
      · rw [hs] at e; cases e
      · exact e⟩
  · exact ⟨hk.trans h.2, h.1.2, h.1.1, fun hh => by rcases hh with e | e | e <;> rw [hk] at e <;> cases e⟩
  · exact ⟨hk.trans h.2, h.1.2, h.1.1, fun hh => by rcases hh with e | e | e <;> rw [hk] at e <;> cases e⟩
  · exact ⟨hk.trans h.2, h.1.2, h.1.1, fun hh => by rcases hh with e | e | e <;> rw [hk] at e <;> cases e⟩
  · simp [hk, Kind.isDict] at hid
  · exact ⟨hk.trans h.2.1, h.1.2, h.1.1, fun _ hs => by
      rcases h.2.2 with e | e
      · rw [hs] at e; cases e
      · exact e⟩
  · simp [hk, Kind.isDict] at hid
  · simp [hk, Kind.isDict] at hid
  · exact ⟨hk.trans h.2, h.1.2, h.1.1, fun hh => by rcases hh with e | e | e <;> rw [hk] at e <;> cases e⟩
  · exact ⟨hk.trans h.2.1, h.1.2, h.1.1, fun _ hs => by
      rcases h.2.2 with e | e
      · rw [hs] at e; cases e
      · exact e⟩

/-- two nodes that are both prefix-compatible with a third are merged by `lub` -/
theorem NInfo.lubC_of_preC {i j k : NInfo} (hik : i.preC k = true) (hjk : j.preC k = true)
    (fi : i.fits = true) (fj : j.fits = true) (hnj : j.kind.isDict = true → j.keys.Nodup) :
    i.lubC j = true := by
  have hdi := NInfo.preC_isDict hik
  have hdj := NInfo.preC_isDict hjk
  by_cases hid : i.kind.isDict = true
  · -- dict kinds: key sets
    have hjd : j.kind.isDict = true := by rw [← hdj, hdi]; exact hid
    have hks : keySetEq i.keys j.keys = true :=
      keySetEq_trans (NInfo.preC_keys hik hid) (keySetEq_symm (NInfo.preC_keys hjk hjd) (hnj hjd))
    clear hik hjk hdi hdj fi fj hnj
    unfold NInfo.lubC
    rcases Kind.cases_eq i.kind with hk | hk | hk | hk | hk | hk | hk | hk | hk | hk | hk <;>
      simp_all [Kind.isDict]
  · -- other kinds: same kind, same payload, same registration
    have hid' : i.kind.isDict = false := by simpa using hid
    have hjd : j.kind.isDict = false := by rw [← hdj, hdi]; exact hid'
    obtain ⟨k1, c1, s1, d1⟩ := NInfo.preC_seq hik hid'
    obtain ⟨k2, c2, s2, d2⟩ := NInfo.preC_seq hjk hjd
    have hkind : i.kind = j.kind := k1.trans k2.symm
    have hcus : i.custom = j.custom := c1.trans c2.symm
    clear hik hjk hdi hdj hnj hid
    unfold NInfo.lubC
    unfold NInfo.fits at fi fj
    rcases Kind.cases_eq i.kind with hk | hk | hk | hk | hk | hk | hk | hk | hk | hk | hk
    · -- custom
      have hj : j.kind = .custom := hkind ▸ hk
      simp only [hk, Bool.and_eq_true] at fi
      simp only [hj, Bool.and_eq_true] at fj
      obtain ⟨r, hr⟩ := Option.isSome_iff_exists.mp fi.2
      have e1 := d1 (Or.inr (Or.inr hk)) fi.1
      have e2 := d2 (Or.inr (Or.inr hj)) fj.1
      have hr' : j.custom = some r := hcus ▸ hr
      simp [hk, hj, hr, hr', e1, e2]
    · simp [hk, Kind.isDict] at fi
    · have hj : j.kind = .none := hkind ▸ hk
      simp [hk, hj]
    · have hj : j.kind = .tuple := hkind ▸ hk
      simp [hk, hj]
    · have hj : j.kind = .list := hkind ▸ hk
      simp [hk, hj]
    · simp [hk, Kind.isDict] at hid'
    · have hj : j.kind = .namedtuple := hkind ▸ hk
      simp only [hk, Bool.and_eq_true] at fi
      simp only [hj, Bool.and_eq_true] at fj
      have e1 := d1 (Or.inl hk) fi.1
      have e2 := d2 (Or.inl hj) fj.1
      simp [hk, hj, e1, e2]
    · simp [hk, Kind.isDict] at hid'
    · simp [hk, Kind.isDict] at hid'
    · have hj : j.kind = .deque := hkind ▸ hk
      simp [hk, hj]
    · have hj : j.kind = .structseq := hkind ▸ hk
      simp only [hk, Bool.and_eq_true] at fi
      simp only [hj, Bool.and_eq_true] at fj
      have e1 := d1 (Or.inr (Or.inl hk)) fi.1
      have e2 := d2 (Or.inr (Or.inl hj)) fj.1
      simp [hk, hj, e1, e2]

/-! ### registrations occurring in a shape -/

mutual
def STree.regs : STree → List Reg
  | .leaf => []
  | .node i cs => i.custom.toList ++ STree.regsL cs
def STree.regsL : List STree → List Reg
  | [] => []
  | c :: cs => c.regs ++ STree.regsL cs
end

theorem STree.mem_regsL {r : Reg} : ∀ {cs : List STree}, r ∈ STree.regsL cs ↔ ∃ c ∈ cs, r ∈ c.regs
  | [] => by simp [STree.regsL]
  | c :: cs => by simp [STree.regsL, STree.mem_regsL (cs := cs)]

/-- one registration record per class among the custom nodes of the two shapes (as when both treespecs
were made in one registry state and one namespace) -/
def RegsAgree (ra rb : List Reg) : Prop :=
  ∀ r ∈ ra, ∀ r' ∈ rb, r.cls = r'.cls → r.clsKind = r'.clsKind → r = r'

theorem RegsAgree.mono {ra rb ra' rb' : List Reg} (h : RegsAgree ra rb) (h1 : ∀ r ∈ ra', r ∈ ra)
    (h2 : ∀ r ∈ rb', r ∈ rb) : RegsAgree ra' rb' :=
  fun r hr r' hr' => h r (h1 r hr) r' (h2 r' hr')

theorem STree.regsL_perm_subset {xs ys : List STree} (h : xs.Perm ys) : ∀ r ∈ STree.regsL xs, r ∈ STree.regsL ys := by
  intro r hr
  obtain ⟨c, hc, hrc⟩ := STree.mem_regsL.mp hr
  exact STree.mem_regsL.mpr ⟨c, h.subset hc, hrc⟩

theorem STree.fitsL_perm {xs ys : List STree} (h : xs.Perm ys) (hf : STree.fitsL ys = true) :
    STree.fitsL xs = true := by
  rw [STree.fitsL_iff] at hf ⊢
  exact fun c hc => hf c (h.subset hc)

/-! ### the second operand is a prefix of the merged shape -/

mutual
theorem STree.lub_extends_right : ∀ a : STree, a.wf = true → a.fitsT = true → ∀ b : STree, b.wf = true →
    b.fitsT = true → RegsAgree a.regs b.regs → ∀ c : STree, a.lub b = some c → b.prefixB c = true
  | .leaf, _, _, b, hb, _, _, c, h => by
      simp only [STree.lub, Option.some.injEq] at h
      subst h
      exact STree.prefixB_refl _ hb
  | .node _ _, _, _, .leaf, _, _, _, _, _ => rfl
  | .node i cs, ha, hfa, .node j ds, hb, hfb, hreg, c, h => by
      obtain ⟨_, _, hdi, hwa⟩ := STree.wf_node ha
      obtain ⟨_, _, hdj, hwb⟩ := STree.wf_node hb
      simp only [STree.fitsT, Bool.and_eq_true] at hfa hfb
      rw [STree.lub_nf i j cs ds ha hb] at h
      split at h
      · rename_i hcond
        simp only [Bool.and_eq_true, beq_iff_eq] at hcond
        obtain ⟨hC, hlen⟩ := hcond
        cases hl : STree.lubL cs (alignC i j ds) with
        | none => simp [hl] at h
        | some rc =>
          simp only [hl, Option.map_some, Option.some.injEq] at h
          subst h
          have hrl := (STree.lubL_length cs _ rc hl).1
          have hisd := NInfo.lubC_isDict hC
          have hregN : ∀ r r', i.custom = some r → j.custom = some r' → r.cls = r'.cls →
              r.clsKind = r'.clsKind → r = r' := by
            intro r r' h1 h2
            exact hreg r (by simp [STree.regs, h1]) r' (by simp [STree.regs, h2])
          have hpre := (NInfo.pre_of_lubC hC hfa.1 hfb.1 (fun hd => (hdi hd).2) hregN).2
          have hregL : RegsAgree (STree.regsL cs) (STree.regsL ds) :=
            hreg.mono (fun r hr => by simp [STree.regs, hr]) (fun r hr => by simp [STree.regs, hr])
          rw [STree.prefixB_nf j i ds rc (fun hd => (hdj hd).1)
            (fun hd => by rw [hrl]; exact (hdi hd).1)]
          simp only [hpre, hrl, hlen, beq_self_eq_true, Bool.true_and]
          by_cases hid : i.kind.isDict = true
          · have hjd : j.kind.isDict = true := hisd.trans hid
            obtain ⟨hli, hni⟩ := hdi hid
            obtain ⟨hlj, hnj⟩ := hdj hjd
            have hks : keySetEq i.keys j.keys = true := NInfo.lubC_keys hC hid
            rw [alignC_dict _ hid] at hl
            rw [alignC_dict _ hjd]
            have hperm := pickD_perm hks hni hnj hlj
            have ih := STree.lubL_extends_right cs hwa hfa.2 (pickD i.keys j.keys ds)
              (STree.wfL_perm hperm hwb) (STree.fitsL_perm hperm hfb.2)
              (hregL.mono (fun _ h => h) (STree.regsL_perm_subset hperm)) rc hl
            exact prefixL_unpick hks hni hnj hlj (by rw [hrl]; exact hli) ih
          · have hid' : i.kind.isDict = false := by simpa using hid
            have hjd : j.kind.isDict = false := hisd.trans hid'
            rw [alignC_seq _ hid'] at hl
            rw [alignC_seq _ hjd]
            exact STree.lubL_extends_right cs hwa hfa.2 ds hwb hfb.2 hregL rc hl
      · simp at h
theorem STree.lubL_extends_right : ∀ cs : List STree, STree.wfL cs = true → STree.fitsL cs = true →
    ∀ ds : List STree, STree.wfL ds = true → STree.fitsL ds = true →
    RegsAgree (STree.regsL cs) (STree.regsL ds) → ∀ rc : List STree, STree.lubL cs ds = some rc →
    STree.prefixL ds rc = true
  | [], _, _, [], _, _, _, rc, h => by simp [STree.lubL] at h; subst h; rfl
  | [], _, _, _ :: _, _, _, _, _, h => by simp [STree.lubL] at h
  | _ :: _, _, _, [], _, _, _, _, h => by simp [STree.lubL] at h
  | c :: cs, hw, hf, d :: ds, hwd, hfd, hreg, rc, h => by
      simp only [STree.wfL, STree.fitsL, Bool.and_eq_true] at hw hwd hf hfd
      simp only [STree.lubL] at h
      cases h1 : c.lub d with
      | none => simp [h1] at h
      | some x =>
        cases h2 : STree.lubL cs ds with
        | none => simp [h1, h2] at h
        | some xs =>
          simp [h1, h2] at h
          subst h
          have r1 : RegsAgree c.regs d.regs :=
            hreg.mono (fun r hr => by simp [STree.regsL, hr]) (fun r hr => by simp [STree.regsL, hr])
          have r2 : RegsAgree (STree.regsL cs) (STree.regsL ds) :=
            hreg.mono (fun r hr => by simp [STree.regsL, hr]) (fun r hr => by simp [STree.regsL, hr])
          simp [STree.prefixL, STree.lub_extends_right c hw.1 hf.1 d hwd.1 hfd.1 r1 x h1,
            STree.lubL_extends_right cs hw.2 hf.2 ds hwd.2 hfd.2 r2 xs h2]
end

/-! ### leastness -/

mutual
theorem STree.lub_least : ∀ a : STree, a.wf = true → a.fitsT = true → ∀ b : STree, b.wf = true →
    b.fitsT = true → ∀ d : STree, d.wf = true → a.prefixB d = true → b.prefixB d = true →
    ∃ c, a.lub b = some c ∧ c.prefixB d = true
  | .leaf, _, _, b, _, _, _, _, _, h2 => ⟨b, rfl, h2⟩
  | .node i cs, _, _, .leaf, _, _, _, _, h1, _ => ⟨.node i cs, rfl, h1⟩
  | .node _ _, _, _, .node _ _, _, _, .leaf, _, h1, _ => by simp [STree.prefixB] at h1
  | .node i cs, ha, hfa, .node j ds, hb, hfb, .node k es, hd, h1, h2 => by
      obtain ⟨_, _, hdi, hwa⟩ := STree.wf_node ha
      obtain ⟨_, _, hdj, hwb⟩ := STree.wf_node hb
      obtain ⟨_, _, hdk, hwd⟩ := STree.wf_node hd
      simp only [STree.fitsT, Bool.and_eq_true] at hfa hfb
      rw [STree.prefixB_nf i k cs es (fun h => (hdi h).1) (fun h => (hdk h).1)] at h1
      rw [STree.prefixB_nf j k ds es (fun h => (hdj h).1) (fun h => (hdk h).1)] at h2
      simp only [Bool.and_eq_true, beq_iff_eq] at h1 h2
      obtain ⟨⟨l1, p1⟩, c1⟩ := h1
      obtain ⟨⟨l2, p2⟩, c2⟩ := h2
      have hC := NInfo.lubC_of_preC p1 p2 hfa.1 hfb.1 (fun h => (hdj h).2)
      have hki := NInfo.preC_isDict p1
      have hkj := NInfo.preC_isDict p2
      -- the second operand's children, re-paired to follow the first, sit below the target's
      have hX : STree.wfL (alignC i j ds) = true ∧ STree.fitsL (alignC i j ds) = true ∧
          STree.wfL (alignC i k es) = true ∧
          STree.prefixL (alignC i j ds) (alignC i k es) = true := by
        by_cases hid : i.kind.isDict = true
        · have hkd : k.kind.isDict = true := hki.trans hid
          have hjd : j.kind.isDict = true := hkj.symm.trans hkd
          obtain ⟨hli, hni⟩ := hdi hid
          obtain ⟨hlj, hnj⟩ := hdj hjd
          obtain ⟨hlk, hnk⟩ := hdk hkd
          have hksik : keySetEq i.keys k.keys = true := NInfo.preC_keys p1 hid
          have hksjk : keySetEq j.keys k.keys = true := NInfo.preC_keys p2 hjd
          have hksij := keySetEq_trans hksik (keySetEq_symm hksjk hnj)
          rw [alignC_dict _ hid, alignC_dict _ hid]
          rw [alignC_dict _ hjd] at c2
          have hp1 := pickD_perm hksij hni hnj hlj
          have hp2 := pickD_perm hksik hni hnk hlk
          refine ⟨STree.wfL_perm hp1 hwb, STree.fitsL_perm hp1 hfb.2, STree.wfL_perm hp2 hwd, ?_⟩
          exact prefixL_reindex j.keys ds k.keys es c2 hlj ((keySetEq_iff _ _).mp hksjk).2 hlk i.keys
            ((keySetEq_iff _ _).mp hksij).2
        · have hid' : i.kind.isDict = false := by simpa using hid
          have hkd : k.kind.isDict = false := hki.trans hid'
          have hjd : j.kind.isDict = false := hkj.symm.trans hkd
          rw [alignC_seq _ hid', alignC_seq _ hid']
          rw [alignC_seq _ hjd] at c2
          exact ⟨hwb, hfb.2, hwd, c2⟩
      obtain ⟨hwX, hfX, hwE, hpX⟩ := hX
      obtain ⟨rc, hrc, hpr⟩ := STree.lubL_least cs hwa hfa.2 (alignC i j ds) hwX hfX (alignC i k es) hwE c1 hpX
      have hrl := (STree.lubL_length cs _ rc hrc).1
      refine ⟨.node i rc, ?_, ?_⟩
      · have hlen : cs.length = ds.length := l1.trans l2.symm
        rw [STree.lub_nf i j cs ds ha hb, if_pos (by simp only [hC, hlen, beq_self_eq_true, Bool.and_self]), hrc]
        rfl
      · rw [STree.prefixB_nf i k rc es (fun h => by rw [hrl]; exact (hdi h).1) (fun h => (hdk h).1)]
        have hlen : rc.length = es.length := hrl.trans l1
        simp only [hlen, p1, hpr, beq_self_eq_true, Bool.and_self]
theorem STree.lubL_least : ∀ cs : List STree, STree.wfL cs = true → STree.fitsL cs = true →
    ∀ ds : List STree, STree.wfL ds = true → STree.fitsL ds = true → ∀ es : List STree, STree.wfL es = true →
    STree.prefixL cs es = true → STree.prefixL ds es = true →
    ∃ rc, STree.lubL cs ds = some rc ∧ STree.prefixL rc es = true
  | [], _, _, [], _, _, [], _, _, _ => ⟨[], rfl, rfl⟩
  | [], _, _, _, _, _, _ :: _, _, h, _ => by simp [STree.prefixL] at h
  | [], _, _, _ :: _, _, _, [], _, _, h => by simp [STree.prefixL] at h
  | _ :: _, _, _, _, _, _, [], _, h, _ => by simp [STree.prefixL] at h
  | _ :: _, _, _, [], _, _, _ :: _, _, _, h => by simp [STree.prefixL] at h
  | c :: cs, hw, hf, d :: ds, hwd, hfd, e :: es, hwe, h1, h2 => by
      simp only [STree.wfL, STree.fitsL, Bool.and_eq_true] at hw hwd hf hfd hwe
      simp only [STree.prefixL, Bool.and_eq_true] at h1 h2
      obtain ⟨x, hx, hpx⟩ := STree.lub_least c hw.1 hf.1 d hwd.1 hfd.1 e hwe.1 h1.1 h2.1
      obtain ⟨xs, hxs, hpxs⟩ := STree.lubL_least cs hw.2 hf.2 ds hwd.2 hfd.2 es hwe.2 h1.2 h2.2
      exact ⟨x :: xs, by simp [STree.lubL, hx, hxs], by simp [STree.prefixL, hpx, hpxs]⟩
end


/-! ### the merged shape is again a shape a treespec can have -/

theorem STree.wf_node_mk {i : NInfo} {rc : List STree} (h1 : i.kind ≠ .leaf) (h2 : i.kind = .none → rc = [])
    (h3 : i.kind.isDict = true → i.keys.length = rc.length ∧ i.keys.Nodup) (h4 : STree.wfL rc = true) :
    (STree.node i rc).wf = true := by
  simp only [STree.wf, Bool.and_eq_true, bne_iff_ne, ne_eq, Bool.or_eq_true, Bool.not_eq_true',
    List.isEmpty_iff, beq_iff_eq, decide_eq_true_eq]
  refine ⟨⟨⟨h1, ?_⟩, ?_⟩, h4⟩
  · by_cases hk : i.kind = .none
    · right; exact h2 hk
    · left; exact hk
  · cases hd : i.kind.isDict with
    | false => left; rfl
    | true => right; exact h3 hd

mutual
theorem STree.lub_wf : ∀ a : STree, a.wf = true → a.fitsT = true → ∀ b : STree, b.wf = true →
    b.fitsT = true → ∀ c : STree, a.lub b = some c → c.wf = true ∧ c.fitsT = true
  | .leaf, _, _, b, hb, hfb, c, h => by
      simp only [STree.lub, Option.some.injEq] at h
      subst h
      exact ⟨hb, hfb⟩
  | .node i cs, ha, hfa, .leaf, _, _, c, h => by
      simp only [STree.lub, Option.some.injEq] at h
      subst h
      exact ⟨ha, hfa⟩
  | .node i cs, ha, hfa, .node j ds, hb, hfb, c, h => by
      obtain ⟨hnl, hnone, hdi, hwa⟩ := STree.wf_node ha
      obtain ⟨_, _, hdj, hwb⟩ := STree.wf_node hb
      have hfa' := hfa
      simp only [STree.fitsT, Bool.and_eq_true] at hfa hfb
      rw [STree.lub_nf i j cs ds ha hb] at h
      split at h
      · rename_i hcond
        simp only [Bool.and_eq_true, beq_iff_eq] at hcond
        obtain ⟨hC, hlen⟩ := hcond
        cases hl : STree.lubL cs (alignC i j ds) with
        | none => simp [hl] at h
        | some rc =>
          simp only [hl, Option.map_some, Option.some.injEq] at h
          subst h
          have hrl := (STree.lubL_length cs _ rc hl).1
          have hisd := NInfo.lubC_isDict hC
          have hX : STree.wfL (alignC i j ds) = true ∧ STree.fitsL (alignC i j ds) = true := by
            by_cases hid : i.kind.isDict = true
            · have hjd : j.kind.isDict = true := hisd.trans hid
              have hperm := pickD_perm (NInfo.lubC_keys hC hid) (hdi hid).2 (hdj hjd).2 (hdj hjd).1
              rw [alignC_dict _ hid]
              exact ⟨STree.wfL_perm hperm hwb, STree.fitsL_perm hperm hfb.2⟩
            · have hid' : i.kind.isDict = false := by simpa using hid
              rw [alignC_seq _ hid']
              exact ⟨hwb, hfb.2⟩
          obtain ⟨hwr, hfr⟩ := STree.lubL_wf cs hwa hfa.2 _ hX.1 hX.2 rc hl
          refine ⟨STree.wf_node_mk hnl ?_ ?_ hwr, ?_⟩
          · intro hk
            have := hnone hk
            subst this
            cases rc with
            | nil => rfl
            | cons _ _ => simp at hrl
          · intro hd
            exact ⟨by rw [hrl]; exact (hdi hd).1, (hdi hd).2⟩
          · simp only [STree.fitsT, hfa.1, hfr, Bool.and_self]
      · simp at h
theorem STree.lubL_wf : ∀ cs : List STree, STree.wfL cs = true → STree.fitsL cs = true →
    ∀ ds : List STree, STree.wfL ds = true → STree.fitsL ds = true → ∀ rc : List STree,
    STree.lubL cs ds = some rc → STree.wfL rc = true ∧ STree.fitsL rc = true
  | [], _, _, [], _, _, rc, h => by simp [STree.lubL] at h; subst h; exact ⟨rfl, rfl⟩
  | [], _, _, _ :: _, _, _, _, h => by simp [STree.lubL] at h
  | _ :: _, _, _, [], _, _, _, h => by simp [STree.lubL] at h
  | c :: cs, hw, hf, d :: ds, hwd, hfd, rc, h => by
      simp only [STree.wfL, STree.fitsL, Bool.and_eq_true] at hw hwd hf hfd
      simp only [STree.lubL] at h
      cases h1 : c.lub d with
      | none => simp [h1] at h
      | some x =>
        cases h2 : STree.lubL cs ds with
        | none => simp [h1, h2] at h
        | some xs =>
          simp [h1, h2] at h
          subst h
          have r1 := STree.lub_wf c hw.1 hf.1 d hwd.1 hfd.1 x h1
          have r2 := STree.lubL_wf cs hw.2 hf.2 ds hwd.2 hfd.2 xs h2
          simp [STree.wfL, STree.fitsL, r1.1, r1.2, r2.1, r2.2]
end

end Optree
