/-
  Lemmas about the association-list model of Python dicts (`dictSet`, `dictBuild`) and about
  `dictOrder` (helper file).
-/
import OptreeModel.Model.Unflatten
import OptreeModel.Lemmas.Sort

namespace Optree

theorem dictOrder_perm {α : Type} (od sorted : Bool) (items : List (Key × α)) :
    (dictOrder od sorted items).Perm items := by
  unfold dictOrder
  split
  · exact totalOrderSortOn_perm _ _
  · exact List.Perm.refl _

theorem dictOrder_map {α β : Type} (od sorted : Bool) (g : Key × α → Key × β)
    (h : ∀ p, (g p).1 = p.1) (items : List (Key × α)) :
    dictOrder od sorted (items.map g) = (dictOrder od sorted items).map g := by
  unfold dictOrder
  split
  · exact totalOrderSortOn_map (·.1) (·.1) g h items
  · rfl

theorem dictSet_keys_of_mem {α : Type} (k : Key) (v : α) (d : List (Key × α))
    (h : k ∈ d.map (·.1)) : (dictSet k v d).map (·.1) = d.map (·.1) := by
  induction d with
  | nil => simp at h
  | cons p rest ih =>
    obtain ⟨k', v'⟩ := p
    unfold dictSet
    by_cases hk : k' = k
    · simp [hk]
    · have : (k' == k) = false := by simp [hk]
      simp only [this]
      simp only [List.map_cons, List.mem_cons] at h
      rcases h with h | h
      · exact absurd h.symm hk
      · simp [ih h]

theorem dictSet_of_not_mem {α : Type} (k : Key) (v : α) (d : List (Key × α))
    (h : k ∉ d.map (·.1)) : dictSet k v d = d ++ [(k, v)] := by
  induction d with
  | nil => simp [dictSet]
  | cons p rest ih =>
    obtain ⟨k', v'⟩ := p
    simp only [List.map_cons, List.mem_cons, not_or] at h
    unfold dictSet
    have : (k' == k) = false := by
      simp; exact fun e => h.1 e.symm
    simp [this, ih h.2]

theorem dictSet_mem_self {α : Type} (k : Key) (v : α) (d : List (Key × α)) :
    (k, v) ∈ dictSet k v d := by
  induction d with
  | nil => simp [dictSet]
  | cons p rest ih =>
    obtain ⟨k', v'⟩ := p
    unfold dictSet
    by_cases hk : k' = k
    · simp [hk]
    · have : (k' == k) = false := by simp [hk]
      simp [this, ih]

theorem dictSet_mem_other {α : Type} (k : Key) (v : α) (d : List (Key × α)) (k₂ : Key) (v₂ : α)
    (hne : k₂ ≠ k) (h : (k₂, v₂) ∈ d) : (k₂, v₂) ∈ dictSet k v d := by
  induction d with
  | nil => simp at h
  | cons p rest ih =>
    obtain ⟨k', v'⟩ := p
    unfold dictSet
    simp only [List.mem_cons] at h
    by_cases hk : k' = k
    · simp only [hk, beq_self_eq_true, if_true, List.mem_cons]
      rcases h with h | h
      · have : k₂ = k' := by injection h
        exact absurd (this.trans hk) hne
      · exact Or.inr h
    · have hb : (k' == k) = false := by simp [hk]
      rw [hb]
      simp only [Bool.false_eq_true, if_false, List.mem_cons]
      rcases h with h | h
      · exact Or.inl h
      · exact Or.inr (ih h)

theorem dictSetMany_mem_preserved {α : Type} (upd : List (Key × α)) (d : List (Key × α)) (k : Key)
    (v : α) (hnot : k ∉ upd.map (·.1)) (h : (k, v) ∈ d) : (k, v) ∈ dictSetMany d upd := by
  induction upd generalizing d with
  | nil => simpa [dictSetMany] using h
  | cons r rs ih =>
    obtain ⟨k₂, v₂⟩ := r
    unfold dictSetMany
    simp only [List.map_cons, List.mem_cons, not_or] at hnot
    exact ih (dictSet k₂ v₂ d) hnot.2 (dictSet_mem_other k₂ v₂ d k v hnot.1 h)

/-- seeding an empty dict with distinct keys lists them in order -/
theorem dictSetMany_fresh {α : Type} (d : List (Key × α)) (kvs : List (Key × α))
    (hnd : (kvs.map (·.1)).Nodup) (hdis : ∀ k ∈ kvs.map (·.1), k ∉ d.map (·.1)) :
    dictSetMany d kvs = d ++ kvs := by
  induction kvs generalizing d with
  | nil => simp [dictSetMany]
  | cons p rest ih =>
    obtain ⟨k, v⟩ := p
    unfold dictSetMany
    have hk : k ∉ d.map (·.1) := hdis k (by simp)
    rw [dictSet_of_not_mem k v d hk]
    simp only [List.map_cons, List.nodup_cons] at hnd
    rw [ih (d ++ [(k, v)]) hnd.2]
    · simp
    · intro k' hk'
      simp only [List.map_append, List.map_cons, List.map_nil, List.mem_append, List.mem_cons,
        List.not_mem_nil, or_false, not_or]
      refine ⟨hdis k' (by simp [hk']), ?_⟩
      intro e
      subst e
      exact hnd.1 hk'

/-- overwriting existing keys keeps the key order and installs every update -/
theorem dictSetMany_update {α : Type} (d : List (Key × α)) (upd : List (Key × α))
    (hsub : ∀ k ∈ upd.map (·.1), k ∈ d.map (·.1)) (hnd : (upd.map (·.1)).Nodup) :
    (dictSetMany d upd).map (·.1) = d.map (·.1) ∧ ∀ p ∈ upd, p ∈ dictSetMany d upd := by
  induction upd generalizing d with
  | nil => simp [dictSetMany]
  | cons p rest ih =>
    obtain ⟨k, v⟩ := p
    unfold dictSetMany
    have hk : k ∈ d.map (·.1) := hsub k (by simp)
    have hkeys := dictSet_keys_of_mem k v d hk
    simp only [List.map_cons, List.nodup_cons] at hnd
    have hsub' : ∀ k' ∈ rest.map (·.1), k' ∈ (dictSet k v d).map (·.1) := by
      intro k' hk'
      rw [hkeys]
      exact hsub k' (by simp [hk'])
    obtain ⟨h1, h2⟩ := ih (dictSet k v d) hsub' hnd.2
    refine ⟨h1.trans hkeys, ?_⟩
    intro q hq
    simp only [List.mem_cons] at hq
    rcases hq with hq | hq
    · subst hq
      exact dictSetMany_mem_preserved rest _ k v hnd.1 (dictSet_mem_self k v d)
    · exact h2 q hq

/-- two association lists with the same duplicate-free key column that share all entries -/
theorem assoc_eq_of_keys_of_mem {α : Type} (l₁ l₂ : List (Key × α))
    (hk : l₁.map (·.1) = l₂.map (·.1)) (hnd : (l₁.map (·.1)).Nodup) (hmem : ∀ p ∈ l₂, p ∈ l₁) :
    l₁ = l₂ := by
  induction l₁ generalizing l₂ with
  | nil =>
    cases l₂ with
    | nil => rfl
    | cons _ _ => simp at hk
  | cons p ps ih =>
    cases l₂ with
    | nil => simp at hk
    | cons q qs =>
      simp only [List.map_cons, List.cons.injEq] at hk
      simp only [List.map_cons, List.nodup_cons] at hnd
      have hq : q ∈ p :: ps := hmem q (by simp)
      have hpq : p = q := by
        simp only [List.mem_cons] at hq
        rcases hq with hq | hq
        · exact hq.symm
        · exfalso
          apply hnd.1
          rw [hk.1]
          exact List.mem_map_of_mem (f := (·.1)) hq
      subst hpq
      congr 1
      apply ih qs hk.2 hnd.2
      intro r hr
      have := hmem r (by simp [hr])
      simp only [List.mem_cons] at this
      rcases this with h | h
      · exfalso
        apply hnd.1
        rw [hk.2, ← h]
        exact List.mem_map_of_mem (f := (·.1)) hr
      · exact h

/-- `MakeNode` on (original keys, visiting order) rebuilds exactly the original dict -/
theorem dictBuild_perm (kvs perm : List (Key × PyObj)) (hp : perm.Perm kvs)
    (hnd : (kvs.map (·.1)).Nodup) :
    dictBuild (some (kvs.map (·.1))) (perm.map (·.1)) (perm.map (·.2)) = kvs := by
  unfold dictBuild
  simp only
  have hzip : (perm.map (·.1)).zip (perm.map (·.2)) = perm := by
    rw [List.zip_map', List.map_id'']
    intro p; rfl
  rw [hzip]
  have hseed : dictSetMany [] ((kvs.map (·.1)).map fun k => (k, PyObj.none)) =
      (kvs.map (·.1)).map fun k => (k, PyObj.none) := by
    have := dictSetMany_fresh ([] : List (Key × PyObj))
      ((kvs.map (·.1)).map fun k => (k, PyObj.none))
      (by simpa [List.map_map, Function.comp_def] using hnd) (by simp)
    simpa using this
  rw [hseed]
  have hseedkeys : (((kvs.map (·.1)).map fun k => (k, PyObj.none)).map (·.1)) = kvs.map (·.1) := by
    simp [List.map_map, Function.comp_def]
  have hpk : (perm.map (·.1)).Perm (kvs.map (·.1)) := hp.map _
  obtain ⟨h1, h2⟩ := dictSetMany_update ((kvs.map (·.1)).map fun k => (k, PyObj.none)) perm
    (by intro k hk; rw [hseedkeys]; exact hpk.subset hk)
    (hpk.nodup_iff.mpr hnd)
  apply assoc_eq_of_keys_of_mem
  · rw [h1, hseedkeys]
  · rw [h1, hseedkeys]; exact hnd
  · intro p hpm
    exact h2 p (hp.symm.subset hpm)

theorem dictBuild_none (kvs : List (Key × PyObj)) (hnd : (kvs.map (·.1)).Nodup) :
    dictBuild Option.none (kvs.map (·.1)) (kvs.map (·.2)) = kvs := by
  unfold dictBuild
  simp only
  have hzip : (kvs.map (·.1)).zip (kvs.map (·.2)) = kvs := by
    rw [List.zip_map', List.map_id'']
    intro p; rfl
  rw [hzip]
  have := dictSetMany_fresh ([] : List (Key × PyObj)) kvs hnd (by simp)
  simpa using this

end Optree
