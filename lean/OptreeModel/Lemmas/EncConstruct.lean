/-
  The treespec constructors on encodings (refinement, for C08): `MakeFromCollection` over a collection of
  child treespecs assembles the node whose children are the child shapes, so rebuilding the root of a
  treespec from `children()` gives the treespec back.
-/
import OptreeModel.Lemmas.EncInspect

namespace Optree

/-- `assemble` concatenates the child arrays and appends the root record with summed counts -/
theorem assemble_enc (nil : Bool) (ns : String) (cs : List STree) (nil' : Bool) (ns' : String) (kind : Kind)
    (data : NodeData) (entries : Option (List Key)) (custom : Option Reg) (okeys : Option (List Key))
    (hk : kind ≠ .leaf) :
    assemble nil ns (cs.map fun c => c.spec nil' ns') kind data entries custom okeys =
      (STree.node ⟨kind, data, entries, custom, okeys⟩ cs).spec nil ns := by
  have hbody : (cs.map fun c => c.spec nil' ns').flatMap (·.nodes) = STree.encL cs := by
    rw [STree.encL_eq_flatMap, List.flatMap_map]
    rfl
  have hleaves : ((cs.map fun c => c.spec nil' ns').map Spec.numLeaves).sum = STree.leavesL cs := by
    rw [STree.leavesL_eq_sum, List.map_map]
    congr 1
    apply List.map_congr_left
    intro c _
    exact STree.spec_numLeaves c nil' ns'
  have hkf : (kind == Kind.leaf) = false := by simp [hk]
  unfold assemble
  simp only [hbody, hleaves, hkf, Bool.false_eq_true, if_false, Nat.add_zero, List.length_map,
    STree.encL_length]
  simp only [STree.spec, STree.enc, NInfo.toNode]

/-- the common namespace of child treespecs that all carry the namespace `n` -/
theorem common_uniform (n : String) : ∀ (cs : List Spec) (acc : String), (∀ c ∈ cs, c.ns = n) →
    (acc = "" ∨ acc = n) →
    verifyChildren.common cs acc = .ok (if cs.isEmpty || n == "" then acc else n)
  | [], acc, _, _ => by simp [verifyChildren.common]
  | c :: cs, acc, h, hacc => by
      have hc := h c (by simp)
      have ih := common_uniform n cs
      simp only [verifyChildren.common, hc]
      by_cases hn : n = ""
      · subst hn
        rw [ih acc (fun c' hc' => h c' (by simp [hc'])) hacc]
        simp
      · have hne : (n != "") = true := by simp [hn]
        simp only [hne, if_true]
        rcases hacc with ha | ha
        · subst ha
          simp only [beq_self_eq_true, if_true]
          rw [ih n (fun c' hc' => h c' (by simp [hc'])) (Or.inr rfl)]
          simp [hn]
        · subst ha
          have : (acc == "") = false := by simp [hn]
          simp only [this, Bool.false_eq_true, if_false, bne_self_eq_false]
          rw [ih acc (fun c' hc' => h c' (by simp [hc'])) (Or.inr rfl)]
          simp [hn]

/-- children taken from one treespec verify, and keep its namespace (dropped when there are none) -/
theorem verifyChildren_uniform (nil : Bool) (ns : String) (cs : List STree) :
    verifyChildren nil ns false (cs.map fun c => c.spec nil ns) =
      .ok (if cs.isEmpty then "" else ns) := by
  unfold verifyChildren
  have hsane : (cs.map fun c => c.spec nil ns).all Spec.sane = true := by
    simp only [List.all_map, List.all_eq_true]; intro c _; exact STree.spec_sane c nil ns
  have hnil : (cs.map fun c => c.spec nil ns).any (fun c => c.noneIsLeaf != nil) = false := by
    simp [List.any_map, STree.spec]
  simp only [hsane, Bool.not_true, Bool.false_eq_true, if_false, hnil]
  rw [common_uniform ns _ "" (by intro c hc; simp only [List.mem_map] at hc; obtain ⟨x, _, rfl⟩ := hc; rfl) (Or.inl rfl)]
  cases cs with
  | nil => simp
  | cons c cs =>
    by_cases hn : ns = "" <;> simp [hn]

end Optree
