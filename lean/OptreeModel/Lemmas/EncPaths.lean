/-
  `PyTreeSpec::Paths` on encodings is the tree-level path listing `STree.pathsT` (refinement, for
  C03 / C04): one path per leaf, in leaf order, each the sequence of child entries from the root.
-/
import OptreeModel.Lemmas.UpToPrefix
import OptreeModel.Lemmas.EncInspect

namespace Optree

mutual
/-- every node has exactly one child entry per child (what `flatten` guarantees: it rejects a custom
node whose entries and children differ in number) -/
def STree.entriesOk : STree → Bool
  | .leaf => true
  | .node i cs => (i.childEntries cs.length).length == cs.length && STree.entriesOkL cs
def STree.entriesOkL : List STree → Bool
  | [] => true
  | c :: cs => c.entriesOk && STree.entriesOkL cs
end

theorem pathsChildren_append (fuel : Nat) (xs ys : List Key) (rest : List Node) (stack : List Key)
    (acc : List (List Key)) :
    pathsChildren fuel (xs ++ ys) rest stack acc =
      match pathsChildren fuel xs rest stack acc with
      | .error e => .error e
      | .ok (acc', rest') => pathsChildren fuel ys rest' stack acc' := by
  induction xs generalizing rest acc with
  | nil => simp [pathsChildren]
  | cons x xs ih =>
    simp only [List.cons_append, pathsChildren]
    cases pathsGo fuel rest (stack ++ [x]) acc with
    | error e => rfl
    | ok p => obtain ⟨a, r⟩ := p; exact ih r a

mutual
theorem STree.pathsT_length : ∀ (s : STree) (pre : List Key), s.entriesOk = true →
    (s.pathsT pre).length = s.leaves
  | .leaf, _, _ => rfl
  | .node i cs, pre, h => by
      simp only [STree.entriesOk, Bool.and_eq_true, beq_iff_eq] at h
      simp only [STree.pathsT, STree.leaves]
      exact STree.pathsL_length cs _ pre h.1 h.2
theorem STree.pathsL_length : ∀ (cs : List STree) (es pre : List Key), es.length = cs.length →
    STree.entriesOkL cs = true → (STree.pathsL cs es pre).length = STree.leavesL cs
  | [], _, _, _, _ => by simp [STree.pathsL, STree.leavesL]
  | c :: cs, [], _, h, _ => by simp at h
  | c :: cs, e :: es, pre, h, hk => by
      simp only [STree.entriesOkL, Bool.and_eq_true] at hk
      simp only [STree.pathsL, List.length_append, STree.leavesL,
        STree.pathsT_length c (pre ++ [e]) hk.1, STree.pathsL_length cs es pre (by simpa using h) hk.2]
end

theorem NInfo.childEntries_toNode (i : NInfo) (n nl nn : Nat) :
    (i.toNode n nl nn).childEntries = i.childEntries n := by
  simp only [NInfo.childEntries, Node.childEntries, NInfo.toNode, Node.defaultEntries, Node.keys]

mutual
theorem pathsGo_enc : ∀ (s : STree), s.wf = true → s.entriesOk = true → ∀ (fuel : Nat), s.size ≤ fuel →
    ∀ (rest : List Node) (stack : List Key) (acc : List (List Key)),
      pathsGo fuel (s.renc ++ rest) stack acc = .ok (s.pathsT stack ++ acc, rest)
  | .leaf, _, _, fuel, hf, rest, stack, acc => by
      cases fuel with
      | zero => simp [STree.size] at hf
      | succ f =>
        simp [STree.renc, STree.enc, pathsGo, Node.leaf, STree.pathsT]
  | .node i cs, hw, hk, fuel, hf, rest, stack, acc => by
      obtain ⟨hnl, hnone, _, hwl⟩ := STree.wf_node hw
      simp only [STree.entriesOk, Bool.and_eq_true, beq_iff_eq] at hk
      cases fuel with
      | zero => simp [STree.size] at hf
      | succ f =>
        simp only [STree.size, Nat.add_le_add_iff_right] at hf
        rw [STree.renc_eq]
        simp only [List.cons_append, STree.children, STree.root]
        have hch := pathsChildren_enc cs hwl hk.2 f hf (i.childEntries cs.length) hk.1 rest stack acc
        simp only [pathsGo, NInfo.childEntries_toNode, STree.pathsT]
        have hkind : (i.toNode cs.length (STree.leavesL cs) (STree.sizeL cs + 1)).kind = i.kind := rfl
        have hent : (i.toNode cs.length (STree.leavesL cs) (STree.sizeL cs + 1)).entries = i.entries := rfl
        have har : (i.toNode cs.length (STree.leavesL cs) (STree.sizeL cs + 1)).arity = cs.length := rfl
        rw [hkind, hent, har]
        have hlt : ¬ ((i.childEntries cs.length).length < cs.length) := by omega
        cases he : i.entries with
        | some es =>
          simp only [hlt, if_false]
          exact hch
        | none =>
          rcases Kind.cases_eq i.kind with h | h | h | h | h | h | h | h | h | h | h
          · simp only [h, hlt, if_false]; exact hch
          · exact absurd h hnl
          · -- none: no children, no paths
            have hcs := hnone h
            subst hcs
            simp [h, STree.pathsL, STree.rencL_nil]
          all_goals (simp only [h, hlt, if_false]; exact hch)
theorem pathsChildren_enc : ∀ (cs : List STree), STree.wfL cs = true → STree.entriesOkL cs = true →
    ∀ (fuel : Nat), STree.sizeL cs ≤ fuel → ∀ (es : List Key), es.length = cs.length →
    ∀ (rest : List Node) (stack : List Key) (acc : List (List Key)),
      pathsChildren fuel es.reverse (STree.rencL cs ++ rest) stack acc =
        .ok (STree.pathsL cs es stack ++ acc, rest)
  | [], _, _, fuel, _, es, hl, rest, stack, acc => by
      have : es = [] := List.length_eq_zero_iff.mp hl
      subst this
      simp [pathsChildren, STree.rencL_nil, STree.pathsL]
  | c :: cs, hw, hk, fuel, hf, [], hl, _, _, _ => by simp at hl
  | c :: cs, hw, hk, fuel, hf, e :: es, hl, rest, stack, acc => by
      simp only [STree.wfL, STree.entriesOkL, Bool.and_eq_true] at hw hk
      simp only [STree.sizeL] at hf
      simp only [List.reverse_cons, STree.rencL_cons, List.append_assoc]
      rw [pathsChildren_append,
        pathsChildren_enc cs hw.2 hk.2 fuel (by omega) es (by simpa using hl) (c.renc ++ rest) stack acc]
      simp only [pathsChildren]
      rw [pathsGo_enc c hw.1 hk.1 fuel (by omega) rest (stack ++ [e]) (STree.pathsL cs es stack ++ acc)]
      simp [STree.pathsL]
end

/-- **`paths()` lists, in leaf order, the child entries from the root to every leaf** -/
theorem paths_enc (s : STree) (hw : s.wf = true) (hk : s.entriesOk = true) (nil : Bool) (ns : String) :
    paths (s.spec nil ns) = .ok (s.pathsT []) := by
  have hlen := STree.pathsT_length s [] hk
  unfold paths
  simp only [STree.spec_sane, Bool.not_true, Bool.false_eq_true, if_false, STree.spec_numLeaves,
    STree.spec_numNodes]
  by_cases h0 : s.leaves = 0
  · have : s.pathsT [] = [] := List.length_eq_zero_iff.mp (by rw [hlen, h0])
    simp [h0, this]
  · have h0' : (s.leaves == 0) = false := by simp [h0]
    simp only [h0', Bool.false_eq_true, if_false]
    by_cases h1 : (s.size == 1 && s.leaves == 1) = true
    · simp only [h1, if_true]
      cases s with
      | leaf => rfl
      | node i cs =>
        exfalso
        simp only [STree.size, STree.leaves, Bool.and_eq_true, beq_iff_eq] at h1
        have : STree.sizeL cs = 0 := by omega
        have hle := STree.leavesL_le_sizeL cs
        omega
    · simp only [h1, Bool.false_eq_true, if_false]
      have := pathsGo_enc s hw hk (s.enc.length + 1) (by rw [STree.enc_length]; omega) [] [] []
      simp only [List.append_nil, STree.renc] at this
      simp only [STree.spec]
      rw [this]
      simp [hlen]

/-! ### shapes made by `flatten` have one entry per child -/

theorem STree.entriesOkL_iff (cs : List STree) : STree.entriesOkL cs = true ↔ ∀ c ∈ cs, c.entriesOk = true := by
  induction cs with
  | nil => simp [STree.entriesOkL]
  | cons c cs ih => simp [STree.entriesOkL, ih]

theorem intEntries_length (n : Nat) : (intEntries n).length = n := by simp [intEntries]

theorem customEntries_ok (reg : Reg) (md : Option Key) (n : Nat) :
    ((NInfo.mk .custom (.md md) (customEntries reg n) (some reg) Option.none).childEntries n).length = n := by
  simp only [NInfo.childEntries, Node.childEntries, NInfo.toNode, customEntries]
  cases reg.mode <;> simp [Node.defaultEntries, intEntries, namedEntries, shiftedEntries]

def EO (cfg : Cfg) (s : Bool) (t : PyObj) : Prop := (shapeOf cfg s t).entriesOk = true

theorem eo_list (cfg : Cfg) (s : Bool) (xs : List PyObj) (ih : ∀ x ∈ xs, EO cfg s x) :
    STree.entriesOkL (shapeOfList cfg s xs) = true := by
  rw [shapeOfList_eq, STree.entriesOkL_iff]
  intro c hc
  simp only [List.mem_map] at hc
  obtain ⟨x, hx, rfl⟩ := hc
  exact ih x hx

theorem eo_items (cfg : Cfg) (s od : Bool) (kvs : List (Key × PyObj)) (ih : ∀ p ∈ kvs, EO cfg s p.2) :
    STree.entriesOkL ((dictOrder od s (shapeOfKVs cfg s kvs)).map (·.2)) = true := by
  rw [STree.entriesOkL_iff]
  intro c hc
  simp only [List.mem_map] at hc
  obtain ⟨q, hq, rfl⟩ := hc
  have := (shape_items_perm cfg s od kvs).subset hq
  simp only [List.mem_map] at this
  obtain ⟨p, hp, rfl⟩ := this
  exact ih p hp

theorem eo_plain_seq (kind : Kind) (data : NodeData) (cs : List STree)
    (hk : kind = .tuple ∨ kind = .list ∨ kind = .deque ∨ kind = .namedtuple ∨ kind = .structseq)
    (h : STree.entriesOkL cs = true) : (STree.node (plainInfo kind data Option.none) cs).entriesOk = true := by
  simp only [STree.entriesOk, Bool.and_eq_true, beq_iff_eq, h, and_true]
  rcases hk with hk | hk | hk | hk | hk <;>
    simp [NInfo.childEntries, Node.childEntries, NInfo.toNode, plainInfo, Node.defaultEntries, hk, intEntries]

mutual
theorem eo (cfg : Cfg) (s : Bool) : ∀ t : PyObj, EO cfg s t
  | .leaf _ _ => rfl
  | .none => by
      unfold EO
      simp only [shapeOf]
      by_cases hn : cfg.noneIsLeaf = true
      · rw [if_pos hn]; rfl
      · rw [if_neg hn]; decide
  | .tuple xs => eo_plain_seq _ _ _ (by simp) (eo_list cfg s xs (eoList cfg s xs))
  | .list xs => eo_plain_seq _ _ _ (by simp) (eo_list cfg s xs (eoList cfg s xs))
  | .deque m xs => eo_plain_seq _ _ _ (by simp) (eo_list cfg s xs (eoList cfg s xs))
  | .dict kvs => by
      unfold EO
      simp only [shapeOf, STree.entriesOk, Bool.and_eq_true, beq_iff_eq, eo_items cfg s false kvs (eoKVs cfg s kvs),
        and_true]
      simp [NInfo.childEntries, Node.childEntries, NInfo.toNode, plainInfo, Node.defaultEntries, Node.keys]
  | .odict kvs => by
      unfold EO
      have := eo_items cfg s true kvs (eoKVs cfg s kvs)
      simp only [dictOrder, Bool.not_true, Bool.false_and, Bool.false_eq_true, if_false] at this
      simp only [shapeOf, STree.entriesOk, Bool.and_eq_true, beq_iff_eq, this, and_true]
      simp [NInfo.childEntries, Node.childEntries, NInfo.toNode, plainInfo, Node.defaultEntries, Node.keys]
  | .ddict f kvs => by
      unfold EO
      simp only [shapeOf, STree.entriesOk, Bool.and_eq_true, beq_iff_eq, eo_items cfg s false kvs (eoKVs cfg s kvs),
        and_true]
      simp [NInfo.childEntries, Node.childEntries, NInfo.toNode, plainInfo, Node.defaultEntries, Node.keys]
  | .ntuple cls xs => by
      unfold EO
      simp only [shapeOf]
      have hl := eo_list cfg s xs (eoList cfg s xs)
      rcases Option.eq_none_or_eq_some (cfg.reg.lookup cfg.ns 1 cls) with h | ⟨reg, h⟩
      · simp only [h]; exact eo_plain_seq _ _ _ (by simp) hl
      · simp only [h, STree.entriesOk, Bool.and_eq_true, beq_iff_eq, hl, and_true, shapeOfList_length]
        have := customEntries_ok reg Option.none xs.length
        simpa [shapeOfList_length] using this
  | .sseq cls xs => by
      unfold EO
      simp only [shapeOf]
      have hl := eo_list cfg s xs (eoList cfg s xs)
      rcases Option.eq_none_or_eq_some (cfg.reg.lookup cfg.ns 2 cls) with h | ⟨reg, h⟩
      · simp only [h]; exact eo_plain_seq _ _ _ (by simp) hl
      · simp only [h, STree.entriesOk, Bool.and_eq_true, beq_iff_eq, hl, and_true, shapeOfList_length]
        have := customEntries_ok reg Option.none xs.length
        simpa [shapeOfList_length] using this
  | .user cls md q xs => by
      unfold EO
      simp only [shapeOf]
      have hl := eo_list cfg s xs (eoList cfg s xs)
      rcases Option.eq_none_or_eq_some (cfg.reg.lookup cfg.ns 0 cls) with h | ⟨reg, h⟩
      · simp only [h]; rfl
      · simp only [h, STree.entriesOk, Bool.and_eq_true, beq_iff_eq, hl, and_true, shapeOfList_length]
        have := customEntries_ok reg md xs.length
        simpa [shapeOfList_length] using this
theorem eoList (cfg : Cfg) (s : Bool) : ∀ xs : List PyObj, ∀ x ∈ xs, EO cfg s x
  | [] => by intro x hx; simp at hx
  | y :: ys => by
      intro x hx
      simp only [List.mem_cons] at hx
      rcases hx with hx | hx
      · subst hx; exact eo cfg s x
      · exact eoList cfg s ys x hx
theorem eoKVs (cfg : Cfg) (s : Bool) : ∀ kvs : List (Key × PyObj), ∀ p ∈ kvs, EO cfg s p.2
  | [] => by intro p hp; simp at hp
  | (k, y) :: ys => by
      intro p hp
      simp only [List.mem_cons] at hp
      rcases hp with hp | hp
      · subst hp; exact eo cfg s y
      · exact eoKVs cfg s ys p hp
end

mutual
/-- every path below a node starts with the entries that lead to the node -/
theorem STree.pathsT_prefix : ∀ (s : STree) (pre : List Key) (p : List Key), p ∈ s.pathsT pre → pre <+: p
  | .leaf, pre, p, h => by
      simp only [STree.pathsT, List.mem_singleton] at h
      subst h; exact List.prefix_refl _
  | .node i cs, pre, p, h => by
      obtain ⟨e, _, hp⟩ := STree.pathsL_prefix cs _ pre p h
      exact (List.prefix_append pre [e]).trans hp
theorem STree.pathsL_prefix : ∀ (cs : List STree) (es pre : List Key) (p : List Key),
    p ∈ STree.pathsL cs es pre → ∃ e ∈ es, (pre ++ [e]) <+: p
  | [], _, _, _, h => by simp [STree.pathsL] at h
  | _ :: _, [], _, _, h => by simp [STree.pathsL] at h
  | c :: cs, e :: es, pre, p, h => by
      simp only [STree.pathsL, List.mem_append] at h
      rcases h with h | h
      · exact ⟨e, by simp, STree.pathsT_prefix c (pre ++ [e]) p h⟩
      · obtain ⟨e', he', hp⟩ := STree.pathsL_prefix cs es pre p h
        exact ⟨e', by simp [he'], hp⟩
end

theorem STree.pathsL_prefix' (cs : List STree) (es pre p : List Key) (h : p ∈ STree.pathsL cs es pre) :
    pre <+: p := by
  obtain ⟨e, _, hp⟩ := STree.pathsL_prefix cs es pre p h
  exact (List.prefix_append pre [e]).trans hp

mutual
/-- child entries pairwise distinct at every node (dict keys, positions, declared entries) -/
def STree.entriesNodup : STree → Bool
  | .leaf => true
  | .node i cs => decide (i.childEntries cs.length).Nodup && STree.entriesNodupL cs
def STree.entriesNodupL : List STree → Bool
  | [] => true
  | c :: cs => c.entriesNodup && STree.entriesNodupL cs
end

end Optree
