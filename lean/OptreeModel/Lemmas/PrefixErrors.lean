/-
  `prefix_errors` (Model/PrefixErrors.lean) against the tree-level matcher `STree.upTo` that `flatten_up_to` refines:
  for every prefix tree without registered custom nodes — leaves, None, tuple, list, deque, the three dict kinds
  (keys sorted or in insertion order), unregistered namedtuple / struct-sequence classes — and *every* full tree,
  `prefix_errors` reports nothing exactly when the match succeeds (`pe_agree`); with a consistent registry and
  well-behaved flatten functions the same holds for every prefix tree, registered custom nodes included (`pe_full`,
  `pe_custom`, `hty_any`: same exact type ⇔ same registration).  Structural induction over the prefix tree; the
  dict case goes through "for every item of the prefix the key is found and the sub-trees agree", which both sides
  compute in the same (sorted or insertion) order.
-/
import OptreeModel.Model.PrefixErrors
import OptreeModel.Lemmas.UpToPrefix
import OptreeModel.Lemmas.Roundtrip
namespace Optree

theorem seqErrs_nil : ∀ rs : List (Except Err PErrs), seqErrs rs = .ok [] ↔ ∀ r ∈ rs, r = .ok []
  | [] => by simp [seqErrs]
  | .error e :: rest => by simp [seqErrs]
  | .ok a :: rest => by
      have ih := seqErrs_nil rest
      simp only [seqErrs, List.mem_cons, forall_eq_or_imp, Except.ok.injEq]
      cases h : seqErrs rest with
      | error e =>
        simp only [reduceCtorEq, false_iff, not_and]
        intro _ hall
        rw [h] at ih
        exact absurd (ih.2 hall) (by simp)
      | ok b =>
        rw [h] at ih
        simp only [Except.ok.injEq, List.append_eq_nil_iff]
        constructor
        · rintro ⟨ha, hb⟩; exact ⟨ha, ih.1 (by rw [hb])⟩
        · rintro ⟨ha, hall⟩; exact ⟨ha, by simpa using ih.2 hall⟩

mutual
/-- prefix trees without registered custom nodes -/
def PyObj.noCustom (cfg : Cfg) : PyObj → Bool
  | .leaf _ _ | .none => true
  | .tuple xs | .list xs | .deque _ xs => PyObj.noCustomList cfg xs
  | .ntuple cls xs => (cfg.reg.lookup cfg.ns 1 cls).isNone && PyObj.noCustomList cfg xs
  | .sseq cls xs => (cfg.reg.lookup cfg.ns 2 cls).isNone && PyObj.noCustomList cfg xs
  | .user cls _ _ _ => (cfg.reg.lookup cfg.ns 0 cls).isNone
  | .dict kvs | .odict kvs | .ddict _ kvs => PyObj.noCustomKVs cfg kvs
def PyObj.noCustomList (cfg : Cfg) : List PyObj → Bool
  | [] => true
  | x :: xs => x.noCustom cfg && PyObj.noCustomList cfg xs
def PyObj.noCustomKVs (cfg : Cfg) : List (Key × PyObj) → Bool
  | [] => true
  | (_, x) :: xs => x.noCustom cfg && PyObj.noCustomKVs cfg xs
end

def isOk {α : Type} (r : Except Err α) : Prop := ∃ a, r = .ok a

theorem upToL_cons_ok (reg : Registry) (nil : Bool) (ns : String) (c : STree) (cs : List STree) (x : PyObj)
    (xs : List PyObj) :
    isOk (STree.upToL reg nil ns (c :: cs) (x :: xs)) ↔
      isOk (STree.upTo reg nil ns c x) ∧ isOk (STree.upToL reg nil ns cs xs) := by
  simp only [STree.upToL, isOk]
  cases STree.upToL reg nil ns cs xs <;> cases STree.upTo reg nil ns c x <;> simp


theorem evalPred_none' (cfg : Cfg) (hp : cfg.pred = Option.none) (x : PyObj) : cfg.evalPred x = .ok false := by
  simp [Cfg.evalPred, hp]

theorem intEntries_len (n : Nat) : (intEntries n).length = n := by simp [intEntries]

section
variable (cfg : Cfg) (s : Bool) (hp : cfg.pred = Option.none)

/-- list level, given the statement for the elements -/
theorem pe_list (xs : List PyObj)
    (ih : ∀ x ∈ xs, ∀ (path : List Key) (t : PyObj),
      prefixErrorsGo cfg s path x t = .ok [] ↔ isOk (STree.upTo cfg.reg cfg.noneIsLeaf cfg.ns (shapeOf cfg s x) t)) :
    ∀ (path es : List Key) (ys : List PyObj), es.length = xs.length → ys.length = xs.length →
      (seqErrs (prefixErrorsList cfg s path es xs ys) = .ok [] ↔
        isOk (STree.upToL cfg.reg cfg.noneIsLeaf cfg.ns (shapeOfList cfg s xs) ys)) := by
  induction xs with
  | nil =>
    intro path es ys he hy
    have : ys = [] := List.length_eq_zero_iff.mp hy
    subst this
    simp [prefixErrorsList, seqErrs, shapeOfList, STree.upToL, isOk]
  | cons x xs ihx =>
    intro path es ys he hy
    cases es with
    | nil => simp at he
    | cons e es =>
      cases ys with
      | nil => simp at hy
      | cons y ys =>
        simp only [List.length_cons, Nat.add_right_cancel_iff] at he hy
        have h1 := ih x (by simp) (path ++ [e]) y
        have h2 := ihx (fun x' hx' => ih x' (by simp [hx'])) path es ys he hy
        rw [seqErrs_nil] at h2
        simp only [prefixErrorsList, shapeOfList, upToL_cons_ok, seqErrs_nil, List.mem_cons, forall_eq_or_imp,
          h1, h2]
end



theorem pe_memKVs (cfg : Cfg) : ∀ (kvs : List (Key × PyObj)), PyObj.noCustomKVs cfg kvs = true →
    ∀ q ∈ kvs, q.2.noCustom cfg = true
  | [], _, q, hq => by simp at hq
  | (k, y) :: ys, h, q, hq => by
      simp only [PyObj.noCustomKVs, Bool.and_eq_true] at h
      simp only [List.mem_cons] at hq
      rcases hq with hq | hq
      · subst hq; exact h.1
      · exact pe_memKVs cfg ys h.2 q hq

theorem prefixErrorsKVs_eq (cfg : Cfg) (s : Bool) (path : List Key) (kvt : List (Key × PyObj)) :
    ∀ kvs : List (Key × PyObj), prefixErrorsKVs cfg s path kvs kvt =
      kvs.map fun q => (q.1, match lookupKey q.1 kvt with
        | Option.none => .error .key
        | some y => prefixErrorsGo cfg s (path ++ [q.1]) q.2 y)
  | [] => by simp [prefixErrorsKVs]
  | (k, x) :: rest => by rw [prefixErrorsKVs, prefixErrorsKVs_eq cfg s path kvt rest]; rfl

/-- the `flatten_up_to` side of a dict node: every key of the prefix is found and its sub-tree matches -/
theorem upTo_dict_side (cfg : Cfg) (s : Bool) (kvt : List (Key × PyObj)) :
    ∀ L : List (Key × PyObj),
      isOk (match (L.map (·.1)).mapM (fun k => lookupKey k kvt) with
        | Option.none => (Except.error Err.key : Except Err (List PyObj))
        | some xs => STree.upToL cfg.reg cfg.noneIsLeaf cfg.ns (L.map fun q => shapeOf cfg s q.2) xs) ↔
      ∀ q ∈ L, ∃ y, lookupKey q.1 kvt = some y ∧
        isOk (STree.upTo cfg.reg cfg.noneIsLeaf cfg.ns (shapeOf cfg s q.2) y)
  | [] => by simp [STree.upToL, isOk]
  | (k, x) :: rest => by
      have ih := upTo_dict_side cfg s kvt rest
      simp only [List.map_cons, List.mapM_cons, List.mem_cons, forall_eq_or_imp]
      cases hk : lookupKey k kvt with
      | none => simp [isOk]
      | some y =>
        cases hm : (rest.map (·.1)).mapM (fun k => lookupKey k kvt) with
        | none =>
          rw [hm] at ih
          simp only [Option.bind_eq_bind, Option.bind_some, Option.bind_none, Option.pure_def]
          have : ¬ ∀ q ∈ rest, ∃ y, lookupKey q.1 kvt = some y ∧
              isOk (STree.upTo cfg.reg cfg.noneIsLeaf cfg.ns (shapeOf cfg s q.2) y) := by
            intro h; have := ih.2 h; simp [isOk] at this
          constructor
          · intro h; simp [isOk] at h
          · intro h; exact absurd h.2 this
        | some ys =>
          rw [hm] at ih
          simp only [Option.bind_eq_bind, Option.bind_some, Option.pure_def]
          rw [upToL_cons_ok, ih]
          simp

theorem pe_dict (cfg : Cfg) (s od : Bool) (path : List Key) (kvs kvt : List (Key × PyObj))
    (ih : ∀ q ∈ kvs, ∀ (path : List Key) (t : PyObj),
      prefixErrorsGo cfg s path q.2 t = .ok [] ↔
        isOk (STree.upTo cfg.reg cfg.noneIsLeaf cfg.ns (shapeOf cfg s q.2) t)) :
    ((if (!keySetEq ((dictOrder od s kvs).map (·.1)) (kvt.map (·.1))) = true then Except.ok [(PErr.keys, path)]
      else seqErrs ((dictOrder od s (prefixErrorsKVs cfg s path kvs kvt)).map (·.2))) = .ok [] ↔
     isOk (if (!keySetEq ((dictOrder od s (shapeOfKVs cfg s kvs)).map (·.1)) (kvt.map (·.1))) = true
        then (Except.error Err.value : Except Err (List PyObj))
        else match ((dictOrder od s (shapeOfKVs cfg s kvs)).map (·.1)).mapM (fun k => lookupKey k kvt) with
          | Option.none => .error .key
          | some xs => STree.upToL cfg.reg cfg.noneIsLeaf cfg.ns ((dictOrder od s (shapeOfKVs cfg s kvs)).map (·.2)) xs)) := by
  have hitems : dictOrder od s (shapeOfKVs cfg s kvs) = (dictOrder od s kvs).map fun q => (q.1, shapeOf cfg s q.2) := by
    rw [shapeOfKVs_eq, dictOrder_mapVals]
  have hk : (dictOrder od s (shapeOfKVs cfg s kvs)).map (·.1) = (dictOrder od s kvs).map (·.1) := by
    rw [hitems, List.map_map]; rfl
  have hc : (dictOrder od s (shapeOfKVs cfg s kvs)).map (·.2) = (dictOrder od s kvs).map fun q => shapeOf cfg s q.2 := by
    rw [hitems, List.map_map]; rfl
  rw [hk, hc]
  by_cases hks : keySetEq ((dictOrder od s kvs).map (·.1)) (kvt.map (·.1)) = true
  · simp only [hks, Bool.not_true, Bool.false_eq_true, if_false]
    have hg := dictOrder_map od s (fun (q : Key × PyObj) => (q.1, (match lookupKey q.1 kvt with
        | Option.none => (Except.error Err.key : Except Err PErrs)
        | some y => prefixErrorsGo cfg s (path ++ [q.1]) q.2 y))) (fun _ => rfl) kvs
    rw [upTo_dict_side cfg s kvt (dictOrder od s kvs), seqErrs_nil, prefixErrorsKVs_eq, hg, List.map_map]
    simp only [List.mem_map, forall_exists_index, and_imp, forall_apply_eq_imp_iff₂, Function.comp_apply]
    constructor
    · intro h q hq
      have hq' : q ∈ kvs := (dictOrder_perm od s kvs).subset hq
      have := h q hq
      cases hl : lookupKey q.1 kvt with
      | none => simp [hl] at this
      | some y =>
        simp only [hl] at this
        exact ⟨y, rfl, (ih q hq' _ y).1 this⟩
    · intro h q hq
      have hq' : q ∈ kvs := (dictOrder_perm od s kvs).subset hq
      obtain ⟨y, hl, hy⟩ := h q hq
      simp only [hl]
      exact (ih q hq' _ y).2 hy
  · simp only [Bool.not_eq_true] at hks
    simp [hks, isOk]

theorem seq_close (path : List Key) (xs ys : List PyObj) (A : Except Err PErrs) (B : Except Err (List PyObj))
    (h : ys.length = xs.length → (A = .ok [] ↔ isOk B)) :
    ((if (xs.length != ys.length) = true then Except.ok [(PErr.arity, path)] else A) = .ok [] ↔
      isOk (if (ys.length != xs.length) = true then .error .value else B)) := by
  by_cases hlen : ys.length = xs.length
  · simp [hlen, h hlen]
  · have hlen' : ¬ xs.length = ys.length := fun h => hlen h.symm
    simp [hlen, hlen', isOk]

theorem pe_mem (cfg : Cfg) : ∀ (xs : List PyObj), PyObj.noCustomList cfg xs = true → ∀ x ∈ xs, x.noCustom cfg = true
  | [], _, x, hx => by simp at hx
  | y :: ys, h, x, hx => by
      simp only [PyObj.noCustomList, Bool.and_eq_true] at h
      simp only [List.mem_cons] at hx
      rcases hx with hx | hx
      · subst hx; exact h.1
      · exact pe_mem cfg ys h.2 x hx

theorem pe_agree (cfg : Cfg) (s : Bool) (hp : cfg.pred = Option.none) :
    ∀ p : PyObj, p.noCustom cfg = true → ∀ (path : List Key) (t : PyObj),
      prefixErrorsGo cfg s path p t = .ok [] ↔ isOk (STree.upTo cfg.reg cfg.noneIsLeaf cfg.ns (shapeOf cfg s p) t)
  | .leaf ty uid, _, path, t => by
      rw [prefixErrorsGo]
      simp [evalPred_none' cfg hp, getKind, shapeOf, STree.upTo, isOk]
  | .none, _, path, t => by
      rw [prefixErrorsGo]
      by_cases hn : cfg.noneIsLeaf = true
      · simp [evalPred_none' cfg hp, getKind, shapeOf, STree.upTo, isOk, hn]
      · simp only [Bool.not_eq_true] at hn
        simp only [evalPred_none' cfg hp, getKind, hn, shapeOf]
        cases t <;>
          simp [STree.upTo, isOk, plainInfo, PyObj.pyType, PyType.isStdDict, STree.upToL]
  | .tuple xs, hf, path, t => by
      simp only [PyObj.noCustom] at hf
      have hl := pe_list cfg s xs (fun x hx => pe_agree cfg s hp x (pe_mem cfg xs hf x hx))
        path (intEntries xs.length)
      rw [prefixErrorsGo]
      simp only [evalPred_none' cfg hp, getKind, shapeOf]
      cases t
      all_goals simp only [PyObj.pyType, PyType.isStdDict, STree.upTo, plainInfo, PyObj.seqKids, Option.getD_some,
        shapeOfList_length]
      all_goals try (simp [isOk]; done)
      simp only [show (Kind.tuple == Kind.leaf) = false from by decide,
        show (PyType.tuple != PyType.tuple && !(false && false)) = false from by decide, Bool.false_eq_true, if_false]
      exact seq_close path xs _ _ _ (fun h => hl _ (intEntries_len _) h)
  | .list xs, hf, path, t => by
      simp only [PyObj.noCustom] at hf
      have hl := pe_list cfg s xs (fun x hx => pe_agree cfg s hp x (pe_mem cfg xs hf x hx))
        path (intEntries xs.length)
      rw [prefixErrorsGo]
      simp only [evalPred_none' cfg hp, getKind, shapeOf]
      cases t
      all_goals simp only [PyObj.pyType, PyType.isStdDict, STree.upTo, plainInfo, PyObj.seqKids, Option.getD_some,
        shapeOfList_length]
      all_goals try (simp [isOk]; done)
      simp only [show (Kind.list == Kind.leaf) = false from by decide,
        show (PyType.list != PyType.list && !(false && false)) = false from by decide, Bool.false_eq_true, if_false]
      exact seq_close path xs _ _ _ (fun h => hl _ (intEntries_len _) h)
  | .deque m xs, hf, path, t => by
      simp only [PyObj.noCustom] at hf
      have hl := pe_list cfg s xs (fun x hx => pe_agree cfg s hp x (pe_mem cfg xs hf x hx))
        path (intEntries xs.length)
      rw [prefixErrorsGo]
      simp only [evalPred_none' cfg hp, getKind, shapeOf]
      cases t
      all_goals simp only [PyObj.pyType, PyType.isStdDict, STree.upTo, plainInfo, PyObj.seqKids, Option.getD_some,
        shapeOfList_length]
      all_goals try (simp [isOk]; done)
      simp only [show (Kind.deque == Kind.leaf) = false from by decide,
        show (PyType.deque != PyType.deque && !(false && false)) = false from by decide, Bool.false_eq_true, if_false]
      exact seq_close path xs _ _ _ (fun h => hl _ (intEntries_len _) h)
  | .ntuple cls xs, hf, path, t => by
      simp only [PyObj.noCustom, Bool.and_eq_true, Option.isNone_iff_eq_none] at hf
      obtain ⟨hlk, hf⟩ := hf
      have hl := pe_list cfg s xs (fun x hx => pe_agree cfg s hp x (pe_mem cfg xs hf x hx))
        path (intEntries xs.length)
      rw [prefixErrorsGo]
      simp only [evalPred_none' cfg hp, getKind, shapeOf, hlk]
      cases t
      all_goals simp only [PyObj.pyType, PyType.isStdDict, STree.upTo, plainInfo, PyObj.seqKids, Option.getD_some,
        shapeOfList_length]
      all_goals try (simp [isOk]; done)
      rename_i cls' ys
      by_cases hc : cls = cls'
      · subst hc
        simp only [show (Kind.namedtuple == Kind.leaf) = false from by decide, bne_self_eq_false, Bool.false_and,
          Bool.false_eq_true, if_false]
        exact seq_close path xs _ _ _ (fun h => hl _ (intEntries_len _) h)
      · have h1 : (PyType.nt cls != PyType.nt cls' && !(false && false)) = true := by simp [hc]
        have h2 : (NodeData.cls cls != NodeData.cls cls') = true := by simp [hc]
        simp only [show (Kind.namedtuple == Kind.leaf) = false from by decide, h1, h2, Bool.false_eq_true, if_false, if_true]
        simp [isOk]
        try (split <;> simp)
  | .sseq cls xs, hf, path, t => by
      simp only [PyObj.noCustom, Bool.and_eq_true, Option.isNone_iff_eq_none] at hf
      obtain ⟨hlk, hf⟩ := hf
      have hl := pe_list cfg s xs (fun x hx => pe_agree cfg s hp x (pe_mem cfg xs hf x hx))
        path (intEntries xs.length)
      rw [prefixErrorsGo]
      simp only [evalPred_none' cfg hp, getKind, shapeOf, hlk]
      cases t
      all_goals simp only [PyObj.pyType, PyType.isStdDict, STree.upTo, plainInfo, PyObj.seqKids, Option.getD_some,
        shapeOfList_length]
      all_goals try (simp [isOk]; done)
      rename_i cls' ys
      by_cases hc : cls = cls'
      · subst hc
        simp only [show (Kind.structseq == Kind.leaf) = false from by decide, bne_self_eq_false, Bool.false_and,
          Bool.false_eq_true, if_false]
        exact seq_close path xs _ _ _ (fun h => hl _ (intEntries_len _) h)
      · have h1 : (PyType.ss cls != PyType.ss cls' && !(false && false)) = true := by simp [hc]
        have h2 : (NodeData.cls cls != NodeData.cls cls') = true := by simp [hc]
        simp only [show (Kind.structseq == Kind.leaf) = false from by decide, h1, h2, Bool.false_eq_true, if_false, if_true]
        simp [isOk]
        try (split <;> simp)
  | .user cls md q xs, hf, path, t => by
      simp only [PyObj.noCustom, Option.isNone_iff_eq_none] at hf
      rw [prefixErrorsGo]
      simp [evalPred_none' cfg hp, getKind, shapeOf, hf, STree.upTo, isOk]
  | .dict kvs, hf, path, t => by
      simp only [PyObj.noCustom] at hf
      have hd := fun kvt => pe_dict cfg s false path kvs kvt
        (fun q hq => pe_agree cfg s hp q.2 (pe_memKVs cfg kvs hf q hq))
      rw [prefixErrorsGo]
      simp only [evalPred_none' cfg hp, getKind, shapeOf]
      cases t
      all_goals simp only [PyObj.pyType, PyType.isStdDict, STree.upTo, plainInfo, dictItems?, Option.getD_some,
        NInfo.keys]
      all_goals try (simp [isOk]; done)
      all_goals
        simp only [show (Kind.dict == Kind.leaf) = false from by decide, Bool.and_self, Bool.not_true, Bool.and_false,
          Bool.false_eq_true, if_false]
        first
          | exact hd _
          | (have h0 := hd ‹_›
             simp only [dictOrder, Bool.not_true, Bool.false_and, Bool.false_eq_true, if_false] at h0 ⊢
             exact h0)
  | .odict kvs, hf, path, t => by
      simp only [PyObj.noCustom] at hf
      have hd := fun kvt => pe_dict cfg s true path kvs kvt
        (fun q hq => pe_agree cfg s hp q.2 (pe_memKVs cfg kvs hf q hq))
      rw [prefixErrorsGo]
      simp only [evalPred_none' cfg hp, getKind, shapeOf]
      cases t
      all_goals simp only [PyObj.pyType, PyType.isStdDict, STree.upTo, plainInfo, dictItems?, Option.getD_some,
        NInfo.keys]
      all_goals try (simp [isOk]; done)
      all_goals
        simp only [show (Kind.ordereddict == Kind.leaf) = false from by decide, Bool.and_self, Bool.not_true, Bool.and_false,
          Bool.false_eq_true, if_false]
        first
          | exact hd _
          | (have h0 := hd ‹_›
             simp only [dictOrder, Bool.not_true, Bool.false_and, Bool.false_eq_true, if_false] at h0 ⊢
             exact h0)
  | .ddict f kvs, hf, path, t => by
      simp only [PyObj.noCustom] at hf
      have hd := fun kvt => pe_dict cfg s false path kvs kvt
        (fun q hq => pe_agree cfg s hp q.2 (pe_memKVs cfg kvs hf q hq))
      rw [prefixErrorsGo]
      simp only [evalPred_none' cfg hp, getKind, shapeOf]
      cases t
      all_goals simp only [PyObj.pyType, PyType.isStdDict, STree.upTo, plainInfo, dictItems?, Option.getD_some,
        NInfo.keys]
      all_goals try (simp [isOk]; done)
      all_goals
        simp only [show (Kind.defaultdict == Kind.leaf) = false from by decide, Bool.and_self, Bool.not_true, Bool.and_false,
          Bool.false_eq_true, if_false]
        first
          | exact hd _
          | (have h0 := hd ‹_›
             simp only [dictOrder, Bool.not_true, Bool.false_and, Bool.false_eq_true, if_false] at h0 ⊢
             exact h0)
termination_by p => sizeOf p
decreasing_by
  all_goals simp_wf
  all_goals first
    | (have := List.sizeOf_lt_of_mem hx; omega)
    | (have h1 := List.sizeOf_lt_of_mem hq
       have h2 : sizeOf q.2 < sizeOf q := by cases q; simp; omega
       omega)


mutual
/-- every registered-class instance in the tree has a well-behaved flatten function -/
def PyObj.tame : PyObj → Bool
  | .user _ _ q xs => q == .ok && PyObj.tameList xs
  | .tuple xs | .list xs | .deque _ xs | .ntuple _ xs | .sseq _ xs => PyObj.tameList xs
  | .dict kvs | .odict kvs | .ddict _ kvs => PyObj.tameKVs kvs
  | _ => true
def PyObj.tameList : List PyObj → Bool
  | [] => true
  | x :: xs => x.tame && PyObj.tameList xs
def PyObj.tameKVs : List (Key × PyObj) → Bool
  | [] => true
  | (_, x) :: xs => x.tame && PyObj.tameKVs xs
end

theorem tame_mem : ∀ (xs : List PyObj), PyObj.tameList xs = true → ∀ x ∈ xs, x.tame = true
  | [], _, x, hx => by simp at hx
  | y :: ys, h, x, hx => by
      simp only [PyObj.tameList, Bool.and_eq_true] at h
      simp only [List.mem_cons] at hx
      rcases hx with hx | hx
      · subst hx; exact h.1
      · exact tame_mem ys h.2 x hx

theorem tame_memKVs : ∀ (kvs : List (Key × PyObj)), PyObj.tameKVs kvs = true → ∀ q ∈ kvs, q.2.tame = true
  | [], _, q, hq => by simp at hq
  | (k, y) :: ys, h, q, hq => by
      simp only [PyObj.tameKVs, Bool.and_eq_true] at h
      simp only [List.mem_cons] at hq
      rcases hq with hq | hq
      · subst hq; exact h.1
      · exact tame_memKVs ys h.2 q hq

theorem tame_lookup : ∀ (kvs : List (Key × PyObj)), PyObj.tameKVs kvs = true → ∀ k y, lookupKey k kvs = some y →
    y.tame = true
  | [], _, k, y, h => by simp [lookupKey] at h
  | (k', y') :: rest, ht, k, y, h => by
      simp only [PyObj.tameKVs, Bool.and_eq_true] at ht
      simp only [lookupKey] at h
      split at h
      · simp only [Option.some.injEq] at h; subst h; exact ht.1
      · exact tame_lookup rest ht.2 k y h

/-- what Python's one-level flattening sees of a well-behaved node: as many entries as children -/
theorem oneLevelCustom_tame (reg : Reg) (x : PyObj) (md : Option Key) (xs : List PyObj)
    (h : customParts x = (md, .ok, xs)) :
    ∃ es, es.length = xs.length ∧ oneLevelCustom reg x = .ok (xs.length, md, es) := by
  unfold oneLevelCustom customOut
  rw [h]
  simp only [customOutOf]
  have hm : reg.mode = .two ∨ reg.mode = .none3 ∨ reg.mode = .named ∨ reg.mode = .shifted := by
    cases reg.mode <;> simp
  rcases hm with hm | hm | hm | hm <;> simp [hm, entriesFor, namedEntries, shiftedEntries, intEntries]

theorem customOut_tame (reg : Reg) (x : PyObj) (md : Option Key) (xs : List PyObj)
    (h : customParts x = (md, .ok, xs)) :
    ((customOut reg x).numOut != 2 && (customOut reg x).numOut != 3) = false ∧
      (customOut reg x).children = some xs ∧ (customOut reg x).md = md := by
  unfold customOut
  rw [h]
  simp only [customOutOf]
  have hm : reg.mode = .two ∨ reg.mode = .none3 ∨ reg.mode = .named ∨ reg.mode = .shifted := by
    cases reg.mode <;> simp
  rcases hm with hm | hm | hm | hm <;> simp [hm]


theorem pe_list' (cfg : Cfg) (s : Bool) (xs : List PyObj)
    (ih : ∀ x ∈ xs, ∀ (path : List Key) (t : PyObj), t.tame = true →
      (prefixErrorsGo cfg s path x t = .ok [] ↔ isOk (STree.upTo cfg.reg cfg.noneIsLeaf cfg.ns (shapeOf cfg s x) t))) :
    ∀ (path es : List Key) (ys : List PyObj), PyObj.tameList ys = true → es.length = xs.length → ys.length = xs.length →
      (seqErrs (prefixErrorsList cfg s path es xs ys) = .ok [] ↔
        isOk (STree.upToL cfg.reg cfg.noneIsLeaf cfg.ns (shapeOfList cfg s xs) ys)) := by
  induction xs with
  | nil =>
    intro path es ys _ he hy
    have : ys = [] := List.length_eq_zero_iff.mp hy
    subst this
    simp [prefixErrorsList, seqErrs, shapeOfList, STree.upToL, isOk]
  | cons x xs ihx =>
    intro path es ys hty he hy
    cases es with
    | nil => simp at he
    | cons e es =>
      cases ys with
      | nil => simp at hy
      | cons y ys =>
        simp only [List.length_cons, Nat.add_right_cancel_iff] at he hy
        simp only [PyObj.tameList, Bool.and_eq_true] at hty
        have h1 := ih x (by simp) (path ++ [e]) y hty.1
        have h2 := ihx (fun x' hx' => ih x' (by simp [hx'])) path es ys hty.2 he hy
        rw [seqErrs_nil] at h2
        simp only [prefixErrorsList, shapeOfList, upToL_cons_ok, seqErrs_nil, List.mem_cons, forall_eq_or_imp,
          h1, h2]

theorem pe_dict' (cfg : Cfg) (s od : Bool) (path : List Key) (kvs kvt : List (Key × PyObj))
    (hkt : PyObj.tameKVs kvt = true)
    (ih : ∀ q ∈ kvs, ∀ (path : List Key) (t : PyObj), t.tame = true →
      (prefixErrorsGo cfg s path q.2 t = .ok [] ↔
        isOk (STree.upTo cfg.reg cfg.noneIsLeaf cfg.ns (shapeOf cfg s q.2) t))) :
    ((if (!keySetEq ((dictOrder od s kvs).map (·.1)) (kvt.map (·.1))) = true then Except.ok [(PErr.keys, path)]
      else seqErrs ((dictOrder od s (prefixErrorsKVs cfg s path kvs kvt)).map (·.2))) = .ok [] ↔
     isOk (if (!keySetEq ((dictOrder od s (shapeOfKVs cfg s kvs)).map (·.1)) (kvt.map (·.1))) = true
        then (Except.error Err.value : Except Err (List PyObj))
        else match ((dictOrder od s (shapeOfKVs cfg s kvs)).map (·.1)).mapM (fun k => lookupKey k kvt) with
          | Option.none => .error .key
          | some xs => STree.upToL cfg.reg cfg.noneIsLeaf cfg.ns ((dictOrder od s (shapeOfKVs cfg s kvs)).map (·.2)) xs)) := by
  have hitems : dictOrder od s (shapeOfKVs cfg s kvs) = (dictOrder od s kvs).map fun q => (q.1, shapeOf cfg s q.2) := by
    rw [shapeOfKVs_eq, dictOrder_mapVals]
  have hk : (dictOrder od s (shapeOfKVs cfg s kvs)).map (·.1) = (dictOrder od s kvs).map (·.1) := by
    rw [hitems, List.map_map]; rfl
  have hc : (dictOrder od s (shapeOfKVs cfg s kvs)).map (·.2) = (dictOrder od s kvs).map fun q => shapeOf cfg s q.2 := by
    rw [hitems, List.map_map]; rfl
  rw [hk, hc]
  by_cases hks : keySetEq ((dictOrder od s kvs).map (·.1)) (kvt.map (·.1)) = true
  · simp only [hks, Bool.not_true, Bool.false_eq_true, if_false]
    have hg := dictOrder_map od s (fun (q : Key × PyObj) => (q.1, (match lookupKey q.1 kvt with
        | Option.none => (Except.error Err.key : Except Err PErrs)
        | some y => prefixErrorsGo cfg s (path ++ [q.1]) q.2 y))) (fun _ => rfl) kvs
    rw [upTo_dict_side cfg s kvt (dictOrder od s kvs), seqErrs_nil, prefixErrorsKVs_eq, hg, List.map_map]
    simp only [List.mem_map, forall_exists_index, and_imp, forall_apply_eq_imp_iff₂, Function.comp_apply]
    constructor
    · intro h q hq
      have hq' : q ∈ kvs := (dictOrder_perm od s kvs).subset hq
      have := h q hq
      cases hl : lookupKey q.1 kvt with
      | none => simp [hl] at this
      | some y =>
        simp only [hl] at this
        exact ⟨y, rfl, (ih q hq' _ y (tame_lookup kvt hkt _ y hl)).1 this⟩
    · intro h q hq
      have hq' : q ∈ kvs := (dictOrder_perm od s kvs).subset hq
      obtain ⟨y, hl, hy⟩ := h q hq
      simp only [hl]
      exact (ih q hq' _ y (tame_lookup kvt hkt _ y hl)).2 hy
  · simp only [Bool.not_eq_true] at hks
    simp [hks, isOk]

theorem pe_custom (cfg : Cfg) (s : Bool) (path : List Key) (reg : Reg) (p t : PyObj) (mdp : Option Key)
    (xs : List PyObj) (ents : Option (List Key))
    (hpp : customParts p = (mdp, .ok, xs)) (hstd : p.pyType.isStdDict = false)
    (hty : p.pyType = t.pyType ↔ lookupForObject cfg.reg cfg.ns t = some reg)
    (htame : p.pyType = t.pyType → ∃ mdt ys, customParts t = (mdt, .ok, ys) ∧ t.seqKids = some ys ∧
      PyObj.tameList ys = true)
    (hl : ∀ (es : List Key) (ys : List PyObj), PyObj.tameList ys = true → es.length = xs.length → ys.length = xs.length →
      (seqErrs (prefixErrorsList cfg s path es xs ys) = .ok [] ↔
        isOk (STree.upToL cfg.reg cfg.noneIsLeaf cfg.ns (shapeOfList cfg s xs) ys))) :
    ((if (p.pyType != t.pyType && !(p.pyType.isStdDict && t.pyType.isStdDict)) = true then
        (Except.ok [(PErr.types, path)] : Except Err PErrs)
      else
        match oneLevelCustom reg p with
        | Except.error e => Except.error e
        | Except.ok (np, mdp', ep) =>
          match oneLevelCustom reg t with
          | Except.error e => Except.error e
          | Except.ok (nt, mdt, _) =>
            if (np != nt) = true then Except.ok [(PErr.arity, path)]
            else
              if (mdp' != mdt) = true then Except.ok [(PErr.metadata, path)]
              else seqErrs (prefixErrorsList cfg s path ep xs (t.seqKids.getD []))) = .ok [] ↔
      isOk (STree.upTo cfg.reg cfg.noneIsLeaf cfg.ns
        (STree.node ⟨.custom, .md mdp, ents, some reg, Option.none⟩ (shapeOfList cfg s xs)) t)) := by
  simp only [hstd, Bool.false_and, Bool.not_false, Bool.and_true]
  by_cases heq : p.pyType = t.pyType
  · obtain ⟨mdt, ys, hpt, hkids, htl⟩ := htame heq
    obtain ⟨ep, hep, h1⟩ := oneLevelCustom_tame reg p mdp xs hpp
    obtain ⟨et, _, h2⟩ := oneLevelCustom_tame reg t mdt ys hpt
    obtain ⟨c1, c2, c3⟩ := customOut_tame reg t mdt ys hpt
    have hlo := hty.1 heq
    simp only [heq, bne_self_eq_false, Bool.false_eq_true, if_false, h1, h2, hkids, Option.getD_some]
    simp only [STree.upTo, hlo, bne_self_eq_false, Bool.false_eq_true, if_false, c1, c2, c3, shapeOfList_length]
    by_cases hlen : ys.length = xs.length
    · by_cases hmd : mdp = mdt
      · subst hmd
        simp only [hlen, bne_self_eq_false, Bool.false_eq_true, if_false]
        exact hl ep ys htl hep hlen
      · have hm1 : (mdp != mdt) = true := by simp [hmd]
        have hm2 : (NodeData.md mdp != NodeData.md mdt) = true := by simp [hmd]
        simp [hlen, hm1, hm2, isOk]
    · have hlen' : ¬ xs.length = ys.length := fun h => hlen h.symm
      have hn : (xs.length != ys.length) = true := by simp [hlen']
      simp only [hn, if_true]
      by_cases hmd : mdp = mdt
      · subst hmd; simp [hlen, isOk]
      · have hm2 : (NodeData.md mdp != NodeData.md mdt) = true := by simp [hmd]
        simp [hm2, isOk]
  · have hne : (p.pyType != t.pyType) = true := by simp [heq]
    have hlo : lookupForObject cfg.reg cfg.ns t ≠ some reg := fun h => heq (hty.2 h)
    have hlo' : (lookupForObject cfg.reg cfg.ns t != some reg) = true := by simp [hlo]
    simp [hne, STree.upTo, hlo', isOk]

theorem hty_any (cfg : Cfg) (hreg : cfg.reg.OK) (ck : Nat) (cls : TypeId) (reg : Reg)
    (hlk : cfg.reg.lookup cfg.ns ck cls = some reg) (pt : PyType)
    (hpt : pt = (if ck = 0 then PyType.user cls else if ck = 1 then PyType.nt cls else PyType.ss cls))
    (hck : ck = 0 ∨ ck = 1 ∨ ck = 2) (t : PyObj) :
    pt = t.pyType ↔ lookupForObject cfg.reg cfg.ns t = some reg := by
  obtain ⟨hc1, hc2⟩ := hreg _ _ _ _ hlk
  subst hpt
  cases t
  case user cls' md' q' ys =>
    simp only [PyObj.pyType, lookupForObject]
    constructor
    · intro h
      rcases hck with h0 | h0 | h0 <;> subst h0 <;> simp at h
      subst h; exact hlk
    · intro h
      obtain ⟨d1, d2⟩ := hreg _ _ _ _ h
      have : ck = 0 := by rw [← hc2, d2]
      subst this
      simp only [if_true, PyType.user.injEq]
      rw [← hc1, d1]
  case ntuple cls' ys =>
    simp only [PyObj.pyType, lookupForObject]
    constructor
    · intro h
      rcases hck with h0 | h0 | h0 <;> subst h0 <;> simp at h
      subst h; exact hlk
    · intro h
      obtain ⟨d1, d2⟩ := hreg _ _ _ _ h
      have : ck = 1 := by rw [← hc2, d2]
      subst this
      first | (simp only [PyType.nt.injEq]; rw [← hc1, d1]; done) | (rw [← hc1, d1]; simp) | simp [← hc1, d1]
  case sseq cls' ys =>
    simp only [PyObj.pyType, lookupForObject]
    constructor
    · intro h
      rcases hck with h0 | h0 | h0 <;> subst h0 <;> simp at h
      subst h; exact hlk
    · intro h
      obtain ⟨d1, d2⟩ := hreg _ _ _ _ h
      have : ck = 2 := by rw [← hc2, d2]
      subst this
      first | (rw [← hc1, d1]; done) | (rw [← hc1, d1]; simp) | simp [← hc1, d1]
  all_goals
    simp only [PyObj.pyType, lookupForObject]
    rcases hck with h0 | h0 | h0 <;> subst h0 <;> first | (simp; done) | (intro h; simp at h) | (constructor <;> intro h <;> simp at h)

theorem pe_full (cfg : Cfg) (s : Bool) (hp : cfg.pred = Option.none) (hreg : cfg.reg.OK) :
    ∀ p : PyObj, p.tame = true → ∀ (path : List Key) (t : PyObj), t.tame = true →
      (prefixErrorsGo cfg s path p t = .ok [] ↔ isOk (STree.upTo cfg.reg cfg.noneIsLeaf cfg.ns (shapeOf cfg s p) t))
  | .leaf ty uid, _, path, t, _ => by
      rw [prefixErrorsGo]
      simp [evalPred_none' cfg hp, getKind, shapeOf, STree.upTo, isOk]
  | .none, _, path, t, _ => by
      rw [prefixErrorsGo]
      by_cases hn : cfg.noneIsLeaf = true
      · simp [evalPred_none' cfg hp, getKind, shapeOf, STree.upTo, isOk, hn]
      · simp only [Bool.not_eq_true] at hn
        simp only [evalPred_none' cfg hp, getKind, hn, shapeOf]
        cases t <;>
          simp [STree.upTo, isOk, plainInfo, PyObj.pyType, PyType.isStdDict, STree.upToL]
  | .tuple xs, hf, path, t, htt => by
      simp only [PyObj.tame] at hf
      have hl := pe_list' cfg s xs (fun x hx => pe_full cfg s hp hreg x (tame_mem xs hf x hx))
        path (intEntries xs.length)
      rw [prefixErrorsGo]
      simp only [evalPred_none' cfg hp, getKind, shapeOf]
      cases t
      all_goals simp only [PyObj.pyType, PyType.isStdDict, STree.upTo, plainInfo, PyObj.seqKids, Option.getD_some,
        shapeOfList_length]
      all_goals try (simp [isOk]; done)
      simp only [PyObj.tame] at htt
      simp only [show (Kind.tuple == Kind.leaf) = false from by decide,
        show (PyType.tuple != PyType.tuple && !(false && false)) = false from by decide, Bool.false_eq_true, if_false]
      exact seq_close path xs _ _ _ (fun h => hl _ htt (intEntries_len _) h)
  | .list xs, hf, path, t, htt => by
      simp only [PyObj.tame] at hf
      have hl := pe_list' cfg s xs (fun x hx => pe_full cfg s hp hreg x (tame_mem xs hf x hx))
        path (intEntries xs.length)
      rw [prefixErrorsGo]
      simp only [evalPred_none' cfg hp, getKind, shapeOf]
      cases t
      all_goals simp only [PyObj.pyType, PyType.isStdDict, STree.upTo, plainInfo, PyObj.seqKids, Option.getD_some,
        shapeOfList_length]
      all_goals try (simp [isOk]; done)
      simp only [PyObj.tame] at htt
      simp only [show (Kind.list == Kind.leaf) = false from by decide,
        show (PyType.list != PyType.list && !(false && false)) = false from by decide, Bool.false_eq_true, if_false]
      exact seq_close path xs _ _ _ (fun h => hl _ htt (intEntries_len _) h)
  | .deque m xs, hf, path, t, htt => by
      simp only [PyObj.tame] at hf
      have hl := pe_list' cfg s xs (fun x hx => pe_full cfg s hp hreg x (tame_mem xs hf x hx))
        path (intEntries xs.length)
      rw [prefixErrorsGo]
      simp only [evalPred_none' cfg hp, getKind, shapeOf]
      cases t
      all_goals simp only [PyObj.pyType, PyType.isStdDict, STree.upTo, plainInfo, PyObj.seqKids, Option.getD_some,
        shapeOfList_length]
      all_goals try (simp [isOk]; done)
      simp only [PyObj.tame] at htt
      simp only [show (Kind.deque == Kind.leaf) = false from by decide,
        show (PyType.deque != PyType.deque && !(false && false)) = false from by decide, Bool.false_eq_true, if_false]
      exact seq_close path xs _ _ _ (fun h => hl _ htt (intEntries_len _) h)
  | .ntuple cls xs, hf, path, t, htt => by
      simp only [PyObj.tame] at hf
      rw [prefixErrorsGo]
      simp only [evalPred_none' cfg hp, getKind, shapeOf]
      cases hlk : cfg.reg.lookup cfg.ns 1 cls with
      | some reg =>
        simp only []
        have hty := hty_any cfg hreg 1 cls reg hlk (PyObj.ntuple cls xs).pyType (by simp [PyObj.pyType]) (by decide) t
        have htame : (PyObj.ntuple cls xs).pyType = t.pyType → ∃ mdt ys, customParts t = (mdt, .ok, ys) ∧
            t.seqKids = some ys ∧ PyObj.tameList ys = true := by
          intro h
          cases t <;> simp only [PyObj.pyType, reduceCtorEq] at h
          simp only [PyObj.tame, Bool.and_eq_true, beq_iff_eq] at htt
          first
            | (obtain ⟨hq', htl⟩ := htt; subst hq'; exact ⟨_, _, rfl, rfl, htl⟩)
            | exact ⟨_, _, rfl, rfl, htt⟩
        simp only [show (Kind.custom == Kind.leaf) = false from by decide, Bool.false_eq_true, if_false]
        exact pe_custom cfg s path reg (PyObj.ntuple cls xs) t Option.none xs _ rfl rfl hty htame
          (fun es ys hys he hy => pe_list' cfg s xs (fun x hx => pe_full cfg s hp hreg x (tame_mem xs hf x hx))
            path es ys hys he hy)
      | none =>
        have hl := pe_list' cfg s xs (fun x hx => pe_full cfg s hp hreg x (tame_mem xs hf x hx))
          path (intEntries xs.length)
        simp only []
        cases t
        all_goals simp only [PyObj.pyType, PyType.isStdDict, STree.upTo, plainInfo, PyObj.seqKids, Option.getD_some,
          shapeOfList_length]
        all_goals try (simp [isOk]; done)
        rename_i cls' ys
        simp only [PyObj.tame] at htt
        by_cases hc : cls = cls'
        · subst hc
          simp only [show (Kind.namedtuple == Kind.leaf) = false from by decide, bne_self_eq_false, Bool.false_and,
            Bool.false_eq_true, if_false]
          exact seq_close path xs _ _ _ (fun h => hl _ htt (intEntries_len _) h)
        · have h1 : (PyType.nt cls != PyType.nt cls' && !(false && false)) = true := by simp [hc]
          have h2 : (NodeData.cls cls != NodeData.cls cls') = true := by simp [hc]
          simp only [show (Kind.namedtuple == Kind.leaf) = false from by decide, h1, h2, Bool.false_eq_true, if_false, if_true]
          simp [isOk]
          try (split <;> simp)
  | .sseq cls xs, hf, path, t, htt => by
      simp only [PyObj.tame] at hf
      rw [prefixErrorsGo]
      simp only [evalPred_none' cfg hp, getKind, shapeOf]
      cases hlk : cfg.reg.lookup cfg.ns 2 cls with
      | some reg =>
        simp only []
        have hty := hty_any cfg hreg 2 cls reg hlk (PyObj.sseq cls xs).pyType (by simp [PyObj.pyType]) (by decide) t
        have htame : (PyObj.sseq cls xs).pyType = t.pyType → ∃ mdt ys, customParts t = (mdt, .ok, ys) ∧
            t.seqKids = some ys ∧ PyObj.tameList ys = true := by
          intro h
          cases t <;> simp only [PyObj.pyType, reduceCtorEq] at h
          simp only [PyObj.tame, Bool.and_eq_true, beq_iff_eq] at htt
          first
            | (obtain ⟨hq', htl⟩ := htt; subst hq'; exact ⟨_, _, rfl, rfl, htl⟩)
            | exact ⟨_, _, rfl, rfl, htt⟩
        simp only [show (Kind.custom == Kind.leaf) = false from by decide, Bool.false_eq_true, if_false]
        exact pe_custom cfg s path reg (PyObj.sseq cls xs) t Option.none xs _ rfl rfl hty htame
          (fun es ys hys he hy => pe_list' cfg s xs (fun x hx => pe_full cfg s hp hreg x (tame_mem xs hf x hx))
            path es ys hys he hy)
      | none =>
        have hl := pe_list' cfg s xs (fun x hx => pe_full cfg s hp hreg x (tame_mem xs hf x hx))
          path (intEntries xs.length)
        simp only []
        cases t
        all_goals simp only [PyObj.pyType, PyType.isStdDict, STree.upTo, plainInfo, PyObj.seqKids, Option.getD_some,
          shapeOfList_length]
        all_goals try (simp [isOk]; done)
        rename_i cls' ys
        simp only [PyObj.tame] at htt
        by_cases hc : cls = cls'
        · subst hc
          simp only [show (Kind.structseq == Kind.leaf) = false from by decide, bne_self_eq_false, Bool.false_and,
            Bool.false_eq_true, if_false]
          exact seq_close path xs _ _ _ (fun h => hl _ htt (intEntries_len _) h)
        · have h1 : (PyType.ss cls != PyType.ss cls' && !(false && false)) = true := by simp [hc]
          have h2 : (NodeData.cls cls != NodeData.cls cls') = true := by simp [hc]
          simp only [show (Kind.structseq == Kind.leaf) = false from by decide, h1, h2, Bool.false_eq_true, if_false, if_true]
          simp [isOk]
          try (split <;> simp)
  | .user cls md q xs, hf, path, t, htt => by
      simp only [PyObj.tame, Bool.and_eq_true, beq_iff_eq] at hf
      obtain ⟨hq, hf⟩ := hf
      subst hq
      rw [prefixErrorsGo]
      simp only [evalPred_none' cfg hp, getKind, shapeOf]
      cases hlk : cfg.reg.lookup cfg.ns 0 cls with
      | none => simp [STree.upTo, isOk]
      | some reg =>
        simp only []
        have hty := hty_any cfg hreg 0 cls reg hlk (PyObj.user cls md Quirk.ok xs).pyType (by simp [PyObj.pyType]) (by decide) t
        have htame : (PyObj.user cls md Quirk.ok xs).pyType = t.pyType → ∃ mdt ys, customParts t = (mdt, .ok, ys) ∧
            t.seqKids = some ys ∧ PyObj.tameList ys = true := by
          intro h
          cases t <;> simp only [PyObj.pyType, reduceCtorEq] at h
          simp only [PyObj.tame, Bool.and_eq_true, beq_iff_eq] at htt
          first
            | (obtain ⟨hq', htl⟩ := htt; subst hq'; exact ⟨_, _, rfl, rfl, htl⟩)
            | exact ⟨_, _, rfl, rfl, htt⟩
        simp only [show (Kind.custom == Kind.leaf) = false from by decide, Bool.false_eq_true, if_false]
        exact pe_custom cfg s path reg (PyObj.user cls md Quirk.ok xs) t md xs _ rfl rfl hty htame
          (fun es ys hys he hy => pe_list' cfg s xs (fun x hx => pe_full cfg s hp hreg x (tame_mem xs hf x hx))
            path es ys hys he hy)
  | .dict kvs, hf, path, t, htt => by
      simp only [PyObj.tame] at hf
      have hd := fun kvt hkt => pe_dict' cfg s false path kvs kvt hkt
        (fun q hq => pe_full cfg s hp hreg q.2 (tame_memKVs kvs hf q hq))
      rw [prefixErrorsGo]
      simp only [evalPred_none' cfg hp, getKind, shapeOf]
      cases t
      all_goals simp only [PyObj.pyType, PyType.isStdDict, STree.upTo, plainInfo, dictItems?, Option.getD_some,
        NInfo.keys]
      all_goals try (simp [isOk]; done)
      all_goals
        simp only [PyObj.tame] at htt
        simp only [show (Kind.dict == Kind.leaf) = false from by decide, Bool.and_self, Bool.not_true, Bool.and_false,
          Bool.false_eq_true, if_false]
        first
          | exact hd _ htt
          | (have h0 := hd _ htt
             simp only [dictOrder, Bool.not_true, Bool.false_and, Bool.false_eq_true, if_false] at h0 ⊢
             exact h0)
  | .odict kvs, hf, path, t, htt => by
      simp only [PyObj.tame] at hf
      have hd := fun kvt hkt => pe_dict' cfg s true path kvs kvt hkt
        (fun q hq => pe_full cfg s hp hreg q.2 (tame_memKVs kvs hf q hq))
      rw [prefixErrorsGo]
      simp only [evalPred_none' cfg hp, getKind, shapeOf]
      cases t
      all_goals simp only [PyObj.pyType, PyType.isStdDict, STree.upTo, plainInfo, dictItems?, Option.getD_some,
        NInfo.keys]
      all_goals try (simp [isOk]; done)
      all_goals
        simp only [PyObj.tame] at htt
        simp only [show (Kind.ordereddict == Kind.leaf) = false from by decide, Bool.and_self, Bool.not_true, Bool.and_false,
          Bool.false_eq_true, if_false]
        first
          | exact hd _ htt
          | (have h0 := hd _ htt
             simp only [dictOrder, Bool.not_true, Bool.false_and, Bool.false_eq_true, if_false] at h0 ⊢
             exact h0)
  | .ddict f kvs, hf, path, t, htt => by
      simp only [PyObj.tame] at hf
      have hd := fun kvt hkt => pe_dict' cfg s false path kvs kvt hkt
        (fun q hq => pe_full cfg s hp hreg q.2 (tame_memKVs kvs hf q hq))
      rw [prefixErrorsGo]
      simp only [evalPred_none' cfg hp, getKind, shapeOf]
      cases t
      all_goals simp only [PyObj.pyType, PyType.isStdDict, STree.upTo, plainInfo, dictItems?, Option.getD_some,
        NInfo.keys]
      all_goals try (simp [isOk]; done)
      all_goals
        simp only [PyObj.tame] at htt
        simp only [show (Kind.defaultdict == Kind.leaf) = false from by decide, Bool.and_self, Bool.not_true, Bool.and_false,
          Bool.false_eq_true, if_false]
        first
          | exact hd _ htt
          | (have h0 := hd _ htt
             simp only [dictOrder, Bool.not_true, Bool.false_and, Bool.false_eq_true, if_false] at h0 ⊢
             exact h0)
termination_by p => sizeOf p
decreasing_by
  all_goals simp_wf
  all_goals first
    | (have := List.sizeOf_lt_of_mem hx; omega)
    | (have h1 := List.sizeOf_lt_of_mem hq
       have h2 : sizeOf q.2 < sizeOf q := by cases q; simp; omega
       omega)

end Optree
