/-
  The paths `flatten_with_path` computes on the fly (entry stack carried down the recursion) are the
  tree-level paths `STree.pathsT` of the tree's shape — hence equal to what `treespec.paths()` reads
  off the node array (Lemmas/EncPaths.lean).  For C03 / C04.
-/
import OptreeModel.Lemmas.EncPaths

namespace Optree

/-- the i-th child result carries the i-th path list -/
def PathsAre (rs : List (Except Err FlatOutP)) (pl : List (List (List Key))) : Prop :=
  rs.length = pl.length ∧ ∀ (i : Nat) (o : FlatOutP) (p : List (List Key)),
    rs[i]? = some (.ok o) → pl[i]? = some p → o.leaves.map (·.1) = p

theorem seqOutsP_paths (rs : List (Except Err FlatOutP)) (pl : List (List (List Key))) (h : PathsAre rs pl)
    (b : FlatOutP) (hb : seqOutsP rs = .ok b) : b.leaves.map (·.1) = pl.flatten := by
  induction rs generalizing pl b with
  | nil =>
    obtain ⟨hl, _⟩ := h
    have : pl = [] := by cases pl with | nil => rfl | cons _ _ => simp at hl
    subst this
    simp [seqOutsP] at hb; subst hb
    rfl
  | cons r rs ih =>
    obtain ⟨hl, hh⟩ := h
    cases pl with
    | nil => simp at hl
    | cons p pl =>
      cases r with
      | error e => simp [seqOutsP] at hb
      | ok a =>
        simp only [seqOutsP] at hb
        split at hb
        · simp at hb
        · rename_i b' hb'
          simp at hb; subst hb
          have h0 := hh 0 a p (by simp) (by simp)
          have ih' := ih pl ⟨by simpa using hl, fun i o p' h1 h2 => hh (i + 1) o p' (by simpa using h1)
            (by simpa using h2)⟩ b' hb'
          simp [FlatOutP.append, h0, ih']

/-- `pathsL` as a concatenation over the children zipped with their entries -/
theorem STree.pathsL_eq_flatten : ∀ (cs : List STree) (es pre : List Key),
    STree.pathsL cs es pre = (List.zipWith (fun c e => STree.pathsT c (pre ++ [e])) cs es).flatten
  | [], _, _ => by simp [STree.pathsL]
  | _ :: _, [], _ => by simp [STree.pathsL]
  | c :: cs, e :: es, pre => by
      simp [STree.pathsL, STree.pathsL_eq_flatten cs es pre]

def PSh (cfg : Cfg) (s : Bool) (t : PyObj) : Prop :=
  ∀ d path out, flattenGoP cfg s d path t = .ok out →
    out.leaves.map (·.1) = (shapeOf cfg s t).pathsT path

theorem flattenGoP_prelude_nopred (cfg : Cfg) (hp : cfg.pred = Option.none) (d : Nat) (path : List Key)
    (x : PyObj) (out : FlatOutP) (body : Except Err FlatOutP)
    (h : (if d > cfg.maxDepth then Except.error Err.recursion
      else match cfg.evalPred x with
        | .error e => .error e
        | .ok true => .ok (leafOutP path x)
        | .ok false => body) = .ok out) : body = .ok out := by
  have he : cfg.evalPred x = .ok false := by simp [Cfg.evalPred, hp]
  split at h
  · simp at h
  · rw [he] at h; exact h

/-- children under the integer entries `i, i+1, …` -/
theorem listP_pathsAre (cfg : Cfg) (s : Bool) (d : Nat) (path : List Key) :
    ∀ (xs : List PyObj) (i : Nat), (∀ x ∈ xs, PSh cfg s x) →
      PathsAre (flattenListP cfg s d path i xs)
        (List.zipWith (fun c e => STree.pathsT c (path ++ [e])) (shapeOfList cfg s xs)
          ((List.range' i xs.length).map fun (j : Nat) => Key.int (j : Int)))
  | [], i, _ => ⟨by simp [flattenListP, shapeOfList], by intro j o p h1; simp [flattenListP] at h1⟩
  | x :: xs, i, ih => by
      have ih' := listP_pathsAre cfg s d path xs (i + 1) (fun y hy => ih y (by simp [hy]))
      refine ⟨?_, ?_⟩
      · simp [flattenListP, shapeOfList, shapeOfList_length, List.length_zipWith] at ih' ⊢
        have := ih'.1
        simp [shapeOfList_length] at this
        omega
      · intro j o p h1 h2
        cases j with
        | zero =>
          simp only [flattenListP, List.getElem?_cons_zero, Option.some.injEq] at h1
          simp only [shapeOfList, List.length_cons, List.range'_succ, List.map_cons, List.zipWith_cons_cons,
            List.getElem?_cons_zero, Option.some.injEq] at h2
          subst h2
          exact ih x (by simp) d _ o h1
        | succ j =>
          simp only [flattenListP, List.getElem?_cons_succ] at h1
          simp only [shapeOfList, List.length_cons, List.range'_succ, List.map_cons, List.zipWith_cons_cons,
            List.getElem?_cons_succ] at h2
          exact ih'.2 j o p h1 h2

theorem intEntries_eq_range' (n : Nat) :
    intEntries n = (List.range' 0 n).map fun (j : Nat) => Key.int (j : Int) := by
  simp [intEntries, List.range_eq_range']

/-- children under explicit entries -/
theorem listE_pathsAre (cfg : Cfg) (s : Bool) (d : Nat) (path : List Key) :
    ∀ (ks : List Key) (xs : List PyObj), ks.length = xs.length → (∀ x ∈ xs, PSh cfg s x) →
      PathsAre (flattenListE cfg s d path ks xs)
        (List.zipWith (fun c e => STree.pathsT c (path ++ [e])) (shapeOfList cfg s xs) ks)
  | [], [], _, _ => ⟨by simp [flattenListE, shapeOfList], by intro j o p h1; simp [flattenListE] at h1⟩
  | [], _ :: _, h, _ => by simp at h
  | _ :: _, [], h, _ => by simp at h
  | k :: ks, x :: xs, h, ih => by
      have ih' := listE_pathsAre cfg s d path ks xs (by simpa using h) (fun y hy => ih y (by simp [hy]))
      refine ⟨?_, ?_⟩
      · have := ih'.1
        simp [flattenListE, shapeOfList] at this ⊢
        omega
      · intro j o p h1 h2
        cases j with
        | zero =>
          simp only [flattenListE, List.getElem?_cons_zero, Option.some.injEq] at h1
          simp only [shapeOfList, List.zipWith_cons_cons, List.getElem?_cons_zero, Option.some.injEq] at h2
          subst h2
          exact ih x (by simp) d _ o h1
        | succ j =>
          simp only [flattenListE, List.getElem?_cons_succ] at h1
          simp only [shapeOfList, List.zipWith_cons_cons, List.getElem?_cons_succ] at h2
          exact ih'.2 j o p h1 h2

theorem flattenKVsP_eq (cfg : Cfg) (s : Bool) (d : Nat) (path : List Key) (kvs : List (Key × PyObj)) :
    flattenKVsP cfg s d path kvs = kvs.map (fun p => (p.1, flattenGoP cfg s d (path ++ [p.1]) p.2)) := by
  induction kvs with
  | nil => simp [flattenKVsP]
  | cons p kvs ih => obtain ⟨k, x⟩ := p; simp [flattenKVsP, ih]

/-- dict children: results and shapes are both the re-ordered items, keys attached -/
theorem kvsP_pathsAre (cfg : Cfg) (s : Bool) (d : Nat) (path : List Key) (kvs : List (Key × PyObj)) (od : Bool)
    (ih : ∀ p ∈ kvs, PSh cfg s p.2) :
    PathsAre ((dictOrder od s (flattenKVsP cfg s d path kvs)).map (·.2))
      (List.zipWith (fun c e => STree.pathsT c (path ++ [e]))
        ((dictOrder od s (shapeOfKVs cfg s kvs)).map (·.2)) ((dictOrder od s (shapeOfKVs cfg s kvs)).map (·.1))) ∧
    (dictOrder od s (flattenKVsP cfg s d path kvs)).map (·.1) =
      (dictOrder od s (shapeOfKVs cfg s kvs)).map (·.1) := by
  rw [flattenKVsP_eq, shapeOfKVs_eq]
  rw [dictOrder_map od s (fun p => (p.1, flattenGoP cfg s d (path ++ [p.1]) p.2)) (by intro p; rfl) kvs,
    dictOrder_mapVals od s (fun x => shapeOf cfg s x) kvs]
  simp only [List.map_map, Function.comp_def]
  refine ⟨⟨by simp [List.length_zipWith], ?_⟩, trivial⟩
  intro i o p h1 h2
  simp only [List.getElem?_map, Option.map_eq_some_iff] at h1
  obtain ⟨q, hq, hoq⟩ := h1
  rw [List.getElem?_zipWith] at h2
  simp only [List.getElem?_map, hq, Option.map_some] at h2
  simp only [Option.some.injEq] at h2
  subst h2
  have hmem : q ∈ kvs := (dictOrder_perm od s kvs).subset (List.mem_of_getElem? hq)
  exact ih q hmem d _ o hoq

theorem closeSeqP_paths (rs : List (Except Err FlatOutP)) (pl : List (List (List Key))) (h : PathsAre rs pl)
    (kind : Kind) (arity : Nat) (data : NodeData) (okeys : Option (List Key)) (out : FlatOutP)
    (ho : closeSeqP rs kind arity data Option.none Option.none okeys = .ok out) :
    out.leaves.map (·.1) = pl.flatten := by
  unfold closeSeqP at ho
  split at ho
  · simp at ho
  · rename_i b hb
    simp at ho; subst ho
    simpa [FlatOutP.close] using seqOutsP_paths rs pl h b hb

theorem flattenListP_length (cfg : Cfg) (s : Bool) (d : Nat) (path : List Key) :
    ∀ (xs : List PyObj) (i : Nat), (flattenListP cfg s d path i xs).length = xs.length
  | [], _ => rfl
  | _ :: xs, i => by simp [flattenListP, flattenListP_length cfg s d path xs (i + 1)]

theorem flattenListE_length (cfg : Cfg) (s : Bool) (d : Nat) (path : List Key) :
    ∀ (ks : List Key) (xs : List PyObj), ks.length = xs.length → (flattenListE cfg s d path ks xs).length = xs.length
  | [], [], _ => rfl
  | [], _ :: _, h => by simp at h
  | _ :: _, [], h => by simp at h
  | _ :: ks, _ :: xs, h => by
      simp [flattenListE, flattenListE_length cfg s d path ks xs (by simpa using h)]

/-- the paths below a node whose children carry integer entries -/
theorem seq_node_paths (cfg : Cfg) (s : Bool) (xs : List PyObj) (i : NInfo) (path : List Key)
    (he : i.childEntries (shapeOfList cfg s xs).length = intEntries xs.length) :
    (STree.node i (shapeOfList cfg s xs)).pathsT path =
      (List.zipWith (fun c e => STree.pathsT c (path ++ [e])) (shapeOfList cfg s xs)
        ((List.range' 0 xs.length).map fun (j : Nat) => Key.int (j : Int))).flatten := by
  simp only [STree.pathsT, he, STree.pathsL_eq_flatten, intEntries_eq_range']

theorem customFlattenP_paths (cfg : Cfg) (s : Bool) (d : Nat) (path : List Key) (reg : Reg) (md : Option Key)
    (xs : List PyObj) (ih : ∀ x ∈ xs, PSh cfg s x) (out : FlatOutP)
    (ho : customFlattenP reg (customOutOf reg md .ok xs) (flattenListP cfg s d path 0 xs)
      (fun ks => flattenListE cfg s d path ks xs) xs.length = .ok out) :
    out.leaves.map (·.1) =
      (STree.node ⟨.custom, .md md, customEntries reg xs.length, some reg, Option.none⟩
        (shapeOfList cfg s xs)).pathsT path := by
  have hP := listP_pathsAre cfg s d path xs 0 ih
  unfold customFlattenP at ho
  cases hm : reg.mode
  case two =>
    simp only [customOutOf, hm, entriesFor] at ho
    simp at ho
    split at ho
    · simp at ho
    · rename_i b hb
      simp at ho; subst ho
      rw [seq_node_paths cfg s xs _ path (by simp [NInfo.childEntries, Node.childEntries, NInfo.toNode, customEntries, hm,
        Node.defaultEntries, shapeOfList_length])]
      simpa [FlatOutP.close] using seqOutsP_paths _ _ hP b hb
  case none3 =>
    simp only [customOutOf, hm, entriesFor] at ho
    simp at ho
    split at ho
    · simp at ho
    · rename_i b hb
      simp at ho; subst ho
      rw [seq_node_paths cfg s xs _ path (by simp [NInfo.childEntries, Node.childEntries, NInfo.toNode, customEntries, hm,
        Node.defaultEntries, shapeOfList_length])]
      simpa [FlatOutP.close] using seqOutsP_paths _ _ hP b hb
  case named =>
    simp only [customOutOf, hm, entriesFor] at ho
    simp at ho
    have hkl : (namedEntries xs.length).length = xs.length := by simp [namedEntries]
    have hE := listE_pathsAre cfg s d path (namedEntries xs.length) xs hkl ih
    have htake : (flattenListE cfg s d path (namedEntries xs.length) xs).take (namedEntries xs.length).length =
        flattenListE cfg s d path (namedEntries xs.length) xs := by
      rw [List.take_of_length_le]; rw [flattenListE_length _ _ _ _ _ _ hkl, hkl]; exact Nat.le_refl _
    rw [htake] at ho
    split at ho
    · simp at ho
    · rename_i b hb
      simp only [hkl, bne_self_eq_false, Bool.false_eq_true, if_false] at ho
      simp at ho; subst ho
      simp only [STree.pathsT, STree.pathsL_eq_flatten]
      have hce : (NInfo.mk .custom (.md md) (customEntries reg xs.length) (some reg) Option.none).childEntries
          (shapeOfList cfg s xs).length = namedEntries xs.length := by
        simp [NInfo.childEntries, Node.childEntries, NInfo.toNode, customEntries, hm, shapeOfList_length, hkl,
          List.take_of_length_le]
      rw [hce]
      simpa [FlatOutP.close] using seqOutsP_paths _ _ hE b hb
  case shifted =>
    simp only [customOutOf, hm, entriesFor] at ho
    simp at ho
    have hkl : (shiftedEntries xs.length).length = xs.length := by simp [shiftedEntries]
    have hE := listE_pathsAre cfg s d path (shiftedEntries xs.length) xs hkl ih
    have htake : (flattenListE cfg s d path (shiftedEntries xs.length) xs).take (shiftedEntries xs.length).length =
        flattenListE cfg s d path (shiftedEntries xs.length) xs := by
      rw [List.take_of_length_le]; rw [flattenListE_length _ _ _ _ _ _ hkl, hkl]; exact Nat.le_refl _
    rw [htake] at ho
    split at ho
    · simp at ho
    · rename_i b hb
      simp only [hkl, bne_self_eq_false, Bool.false_eq_true, if_false] at ho
      simp at ho; subst ho
      simp only [STree.pathsT, STree.pathsL_eq_flatten]
      have hce : (NInfo.mk .custom (.md md) (customEntries reg xs.length) (some reg) Option.none).childEntries
          (shapeOfList cfg s xs).length = shiftedEntries xs.length := by
        simp [NInfo.childEntries, Node.childEntries, NInfo.toNode, customEntries, hm, shapeOfList_length, hkl,
          List.take_of_length_le]
      rw [hce]
      simpa [FlatOutP.close] using seqOutsP_paths _ _ hE b hb

theorem dict_childEntries (i : NInfo) (n : Nat) (he : i.entries = Option.none) (hd : i.kind.isDict = true) :
    i.childEntries n = i.keys := by
  simp only [NInfo.childEntries, Node.childEntries, NInfo.toNode, he, Node.defaultEntries]
  rcases Kind.cases_eq i.kind with h | h | h | h | h | h | h | h | h | h | h <;>
    simp [h, Kind.isDict] at hd ⊢ <;> rfl

mutual
theorem psh (cfg : Cfg) (hp : cfg.pred = Option.none) (s : Bool) : ∀ t : PyObj, t.wf = true → PSh cfg s t
  | .leaf ty uid, _ => by
      intro d path out h
      rw [flattenGoP] at h
      have h := flattenGoP_prelude_nopred cfg hp d path _ out _ h
      simp at h; subst h; rfl
  | .none, _ => by
      intro d path out h
      rw [flattenGoP] at h
      have h := flattenGoP_prelude_nopred cfg hp d path _ out _ h
      simp only [shapeOf]
      by_cases hn : cfg.noneIsLeaf = true
      · simp only [hn, if_true] at h ⊢
        simp at h; subst h; rfl
      · simp only [hn, Bool.false_eq_true, if_false] at h ⊢
        simp at h; subst h
        simp [FlatOutP.close, FlatOutP.empty, STree.pathsT, STree.pathsL]
  | .tuple xs, hwf => by
      simp only [PyObj.wf, Bool.and_eq_true] at hwf
      have hxs := pshList cfg hp s xs hwf
      intro d path out h
      rw [flattenGoP] at h
      have h := flattenGoP_prelude_nopred cfg hp d path _ out _ h
      simp only [shapeOf]
      rw [seq_node_paths cfg s xs _ path (by simp [NInfo.childEntries, Node.childEntries, NInfo.toNode, plainInfo,
        Node.defaultEntries, shapeOfList_length])]
      exact closeSeqP_paths _ _ (listP_pathsAre cfg s (d + 1) path xs 0 hxs) _ _ _ _ out h
  | .list xs, hwf => by
      simp only [PyObj.wf, Bool.and_eq_true] at hwf
      have hxs := pshList cfg hp s xs hwf
      intro d path out h
      rw [flattenGoP] at h
      have h := flattenGoP_prelude_nopred cfg hp d path _ out _ h
      simp only [shapeOf]
      rw [seq_node_paths cfg s xs _ path (by simp [NInfo.childEntries, Node.childEntries, NInfo.toNode, plainInfo,
        Node.defaultEntries, shapeOfList_length])]
      exact closeSeqP_paths _ _ (listP_pathsAre cfg s (d + 1) path xs 0 hxs) _ _ _ _ out h
  | .deque m xs, hwf => by
      simp only [PyObj.wf, Bool.and_eq_true] at hwf
      have hxs := pshList cfg hp s xs hwf.2
      intro d path out h
      rw [flattenGoP] at h
      have h := flattenGoP_prelude_nopred cfg hp d path _ out _ h
      simp only [shapeOf]
      rw [seq_node_paths cfg s xs _ path (by simp [NInfo.childEntries, Node.childEntries, NInfo.toNode, plainInfo,
        Node.defaultEntries, shapeOfList_length])]
      exact closeSeqP_paths _ _ (listP_pathsAre cfg s (d + 1) path xs 0 hxs) _ _ _ _ out h
  | .dict kvs, hwf => by
      simp only [PyObj.wf, Bool.and_eq_true] at hwf
      have hkv := pshKVs cfg hp s kvs hwf.2
      intro d path out h
      rw [flattenGoP] at h
      have h := flattenGoP_prelude_nopred cfg hp d path _ out _ h
      obtain ⟨h1, h2⟩ := kvsP_pathsAre cfg s (d + 1) path kvs false hkv
      skip
      simp only [shapeOf, STree.pathsT, STree.pathsL_eq_flatten]
      dsimp only at h
      rw [h2] at h
      rw [dict_childEntries _ _ rfl rfl]
      simp only [plainInfo_keys_keys, plainInfo_keys_ddict]
      exact closeSeqP_paths _ _ h1 _ _ _ _ out h
  | .odict kvs, hwf => by
      simp only [PyObj.wf, Bool.and_eq_true] at hwf
      have hkv := pshKVs cfg hp s kvs hwf.2
      intro d path out h
      rw [flattenGoP] at h
      have h := flattenGoP_prelude_nopred cfg hp d path _ out _ h
      obtain ⟨h1, h2⟩ := kvsP_pathsAre cfg s (d + 1) path kvs true hkv
      simp only [dictOrder, Bool.not_true, Bool.false_and, Bool.false_eq_true, if_false] at h1 h2
      simp only [shapeOf, STree.pathsT, STree.pathsL_eq_flatten]
      dsimp only at h
      rw [h2] at h
      rw [dict_childEntries _ _ rfl rfl]
      simp only [plainInfo_keys_keys, plainInfo_keys_ddict]
      exact closeSeqP_paths _ _ h1 _ _ _ _ out h
  | .ddict f kvs, hwf => by
      simp only [PyObj.wf, Bool.and_eq_true] at hwf
      have hkv := pshKVs cfg hp s kvs hwf.2
      intro d path out h
      rw [flattenGoP] at h
      have h := flattenGoP_prelude_nopred cfg hp d path _ out _ h
      obtain ⟨h1, h2⟩ := kvsP_pathsAre cfg s (d + 1) path kvs false hkv
      skip
      simp only [shapeOf, STree.pathsT, STree.pathsL_eq_flatten]
      dsimp only at h
      rw [h2] at h
      rw [dict_childEntries _ _ rfl rfl]
      simp only [plainInfo_keys_keys, plainInfo_keys_ddict]
      exact closeSeqP_paths _ _ h1 _ _ _ _ out h
  | .ntuple cls xs, hwf => by
      simp only [PyObj.wf, Bool.and_eq_true] at hwf
      have hxs := pshList cfg hp s xs hwf
      intro d path out h
      rw [flattenGoP] at h
      have h := flattenGoP_prelude_nopred cfg hp d path _ out _ h
      simp only [shapeOf]
      rcases Option.eq_none_or_eq_some (cfg.reg.lookup cfg.ns 1 cls) with hl | ⟨reg, hl⟩
      · simp only [hl] at h ⊢
        rw [seq_node_paths cfg s xs _ path (by simp [NInfo.childEntries, Node.childEntries, NInfo.toNode, plainInfo,
          Node.defaultEntries, shapeOfList_length])]
        exact closeSeqP_paths _ _ (listP_pathsAre cfg s (d + 1) path xs 0 hxs) _ _ _ _ out h
      · simp only [hl] at h ⊢
        exact customFlattenP_paths cfg s (d + 1) path reg Option.none xs hxs out h
  | .sseq cls xs, hwf => by
      simp only [PyObj.wf, Bool.and_eq_true] at hwf
      have hxs := pshList cfg hp s xs hwf
      intro d path out h
      rw [flattenGoP] at h
      have h := flattenGoP_prelude_nopred cfg hp d path _ out _ h
      simp only [shapeOf]
      rcases Option.eq_none_or_eq_some (cfg.reg.lookup cfg.ns 2 cls) with hl | ⟨reg, hl⟩
      · simp only [hl] at h ⊢
        rw [seq_node_paths cfg s xs _ path (by simp [NInfo.childEntries, Node.childEntries, NInfo.toNode, plainInfo,
          Node.defaultEntries, shapeOfList_length])]
        exact closeSeqP_paths _ _ (listP_pathsAre cfg s (d + 1) path xs 0 hxs) _ _ _ _ out h
      · simp only [hl] at h ⊢
        exact customFlattenP_paths cfg s (d + 1) path reg Option.none xs hxs out h
  | .user cls md q xs, hwf => by
      simp only [PyObj.wf, Bool.and_eq_true, beq_iff_eq] at hwf
      obtain ⟨hq, hwf⟩ := hwf
      subst hq
      have hxs := pshList cfg hp s xs hwf
      intro d path out h
      rw [flattenGoP] at h
      have h := flattenGoP_prelude_nopred cfg hp d path _ out _ h
      simp only [shapeOf]
      rcases Option.eq_none_or_eq_some (cfg.reg.lookup cfg.ns 0 cls) with hl | ⟨reg, hl⟩
      · simp only [hl] at h ⊢
        simp at h; subst h; rfl
      · simp only [hl] at h ⊢
        exact customFlattenP_paths cfg s (d + 1) path reg md xs hxs out h
theorem pshList (cfg : Cfg) (hp : cfg.pred = Option.none) (s : Bool) : ∀ xs : List PyObj,
    PyObj.wfList xs = true → ∀ x ∈ xs, PSh cfg s x
  | [], _ => by intro x hx; simp at hx
  | y :: ys, hwf => by
      simp only [PyObj.wfList, Bool.and_eq_true] at hwf
      intro x hx
      simp only [List.mem_cons] at hx
      rcases hx with hx | hx
      · subst hx; exact psh cfg hp s x hwf.1
      · exact pshList cfg hp s ys hwf.2 x hx
theorem pshKVs (cfg : Cfg) (hp : cfg.pred = Option.none) (s : Bool) : ∀ kvs : List (Key × PyObj),
    PyObj.wfKVs kvs = true → ∀ p ∈ kvs, PSh cfg s p.2
  | [], _ => by intro p hp; simp at hp
  | (k, y) :: ys, hwf => by
      simp only [PyObj.wfKVs, Bool.and_eq_true] at hwf
      intro p hp'
      simp only [List.mem_cons] at hp'
      rcases hp' with hp' | hp'
      · subst hp'; exact psh cfg hp s y hwf.1
      · exact pshKVs cfg hp s ys hwf.2 p hp'
end

end Optree
