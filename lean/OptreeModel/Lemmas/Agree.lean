/-
  `flattenGoP` (flatten with path) and `flattenGo` (flatten) produce the same leaves, node records,
  custom flag and errors on trees whose custom flatten functions are well-behaved (helper for C03).
-/
import OptreeModel.Lemmas.Roundtrip

namespace Optree

def FlatOutP.erase (o : FlatOutP) : FlatOut := ⟨o.leaves.map (·.2), o.nodes, o.custom⟩

def eraseR (r : Except Err FlatOutP) : Except Err FlatOut :=
  match r with
  | .ok o => .ok o.erase
  | .error e => .error e

theorem seqOuts_erase (rs : List (Except Err FlatOutP)) :
    seqOuts (rs.map eraseR) = eraseR (seqOutsP rs) := by
  induction rs with
  | nil => rfl
  | cons r rs ih =>
    simp only [List.map_cons, seqOuts, seqOutsP]
    cases r with
    | error e => rfl
    | ok a =>
      simp only [eraseR]
      rw [ih]
      cases seqOutsP rs with
      | error e => rfl
      | ok b => simp [eraseR, FlatOutP.erase, FlatOut.append, FlatOutP.append]

theorem close_erase (b : FlatOutP) (kind : Kind) (arity : Nat) (data : NodeData)
    (entries : Option (List Key)) (custom : Option Reg) (okeys : Option (List Key)) (fc : Bool) :
    (b.close kind arity data entries custom okeys fc).erase =
      b.erase.close kind arity data entries custom okeys fc := by
  simp [FlatOutP.close, FlatOut.close, FlatOutP.erase]

theorem closeSeq_erase (rs : List (Except Err FlatOutP)) (kind : Kind) (arity : Nat)
    (data : NodeData) (entries : Option (List Key)) (custom : Option Reg) (okeys : Option (List Key)) :
    closeSeq (rs.map eraseR) kind arity data entries custom okeys =
      eraseR (closeSeqP rs kind arity data entries custom okeys) := by
  unfold closeSeq closeSeqP
  rw [seqOuts_erase]
  cases seqOutsP rs with
  | error e => rfl
  | ok b => simp [eraseR, close_erase]

/-- statement proved by mutual induction -/
def Aobj (cfg : Cfg) (s : Bool) (t : PyObj) : Prop :=
  ∀ d path, eraseR (flattenGoP cfg s d path t) = flattenGo cfg s d t

theorem flattenListP_erase (cfg : Cfg) (s : Bool) (d : Nat) (path : List Key) (xs : List PyObj)
    (ih : ∀ x ∈ xs, Aobj cfg s x) (i : Nat) :
    (flattenListP cfg s d path i xs).map eraseR = flattenList cfg s d xs := by
  induction xs generalizing i with
  | nil => simp [flattenListP, flattenList]
  | cons x xs ihx =>
    simp only [flattenListP, flattenList, List.map_cons]
    rw [ih x (by simp), ihx (fun y hy => ih y (by simp [hy]))]

theorem flattenListE_erase (cfg : Cfg) (s : Bool) (d : Nat) (path : List Key) (xs : List PyObj)
    (ih : ∀ x ∈ xs, Aobj cfg s x) (ks : List Key) (hlen : ks.length = xs.length) :
    (flattenListE cfg s d path ks xs).map eraseR = flattenList cfg s d xs := by
  induction xs generalizing ks with
  | nil => cases ks <;> simp [flattenListE, flattenList]
  | cons x xs ihx =>
    cases ks with
    | nil => simp at hlen
    | cons k ks =>
      simp only [flattenListE, flattenList, List.map_cons]
      rw [ih x (by simp), ihx (fun y hy => ih y (by simp [hy])) ks (by simpa using hlen)]

theorem flattenKVsP_erase (cfg : Cfg) (s : Bool) (d : Nat) (path : List Key)
    (kvs : List (Key × PyObj)) (ih : ∀ p ∈ kvs, Aobj cfg s p.2) :
    (flattenKVsP cfg s d path kvs).map (fun p => (p.1, eraseR p.2)) = flattenKVs cfg s d kvs := by
  induction kvs with
  | nil => simp [flattenKVsP, flattenKVs]
  | cons p kvs ihx =>
    obtain ⟨k, x⟩ := p
    simp only [flattenKVsP, flattenKVs, List.map_cons]
    rw [ih (k, x) (by simp), ihx (fun q hq => ih q (by simp [hq]))]

theorem flattenListE_length (cfg : Cfg) (s : Bool) (d : Nat) (path : List Key) (ks : List Key)
    (xs : List PyObj) (hlen : ks.length = xs.length) :
    (flattenListE cfg s d path ks xs).length = xs.length := by
  induction xs generalizing ks with
  | nil => cases ks <;> simp [flattenListE]
  | cons x xs ih =>
    cases ks with
    | nil => simp at hlen
    | cons k ks => simp [flattenListE, ih ks (by simpa using hlen)]

def okEntries (mode : EntriesMode) (n : Nat) : Option (List Key) :=
  match mode with
  | .two | .none3 => Option.none
  | .named => some (namedEntries n)
  | .shifted => some (shiftedEntries n)

def finishCustom (r : Except Err FlatOut) (n : Nat) (md : Option Key) (entries : Option (List Key))
    (reg : Reg) : Except Err FlatOut :=
  match r with
  | .error e => .error e
  | .ok body => .ok (body.close .custom n (.md md) entries (some reg) Option.none true)

def finishCustomP (r : Except Err FlatOutP) (n : Nat) (md : Option Key)
    (entries : Option (List Key)) (reg : Reg) : Except Err FlatOutP :=
  match r with
  | .error e => .error e
  | .ok body => .ok (body.close .custom n (.md md) entries (some reg) Option.none true)

theorem finish_erase (r : Except Err FlatOutP) (n : Nat) (md : Option Key)
    (entries : Option (List Key)) (reg : Reg) :
    eraseR (finishCustomP r n md entries reg) = finishCustom (eraseR r) n md entries reg := by
  cases r with
  | error e => rfl
  | ok b => simp [finishCustomP, finishCustom, eraseR, close_erase]

theorem customFlatten_ok' (reg : Reg) (md : Option Key) (xs : List PyObj)
    (rs : List (Except Err FlatOut)) (hlen : rs.length = xs.length) :
    customFlatten reg (customOutOf reg md .ok xs) rs =
      finishCustom (seqOuts rs) xs.length md (okEntries reg.mode xs.length) reg := by
  unfold customFlatten customOutOf finishCustom okEntries
  cases hm : reg.mode <;> simp [entriesFor, hlen, namedEntries_length, shiftedEntries_length]
  all_goals (cases seqOuts rs <;> rfl)

theorem customFlattenP_ok' (reg : Reg) (md : Option Key) (xs : List PyObj)
    (rsInt : List (Except Err FlatOutP)) (rsEnt : List Key → List (Except Err FlatOutP))
    (hlen : ∀ ks, ks.length = xs.length → (rsEnt ks).length = xs.length) :
    customFlattenP reg (customOutOf reg md .ok xs) rsInt rsEnt xs.length =
      finishCustomP
        (seqOutsP (match okEntries reg.mode xs.length with
          | Option.none => rsInt
          | some ks => rsEnt ks))
        xs.length md (okEntries reg.mode xs.length) reg := by
  unfold customFlattenP customOutOf finishCustomP okEntries
  cases hm : reg.mode <;> simp [entriesFor, namedEntries_length, shiftedEntries_length]
  · cases seqOutsP rsInt <;> rfl
  · cases seqOutsP rsInt <;> rfl
  · rw [List.take_of_length_le (Nat.le_of_eq (hlen _ (namedEntries_length _)))]
    cases seqOutsP (rsEnt (namedEntries xs.length)) <;> rfl
  · rw [List.take_of_length_le (Nat.le_of_eq (hlen _ (shiftedEntries_length _)))]
    cases seqOutsP (rsEnt (shiftedEntries xs.length)) <;> rfl

/-- the custom case agrees when the flatten function is well-behaved -/
theorem customFlatten_erase (cfg : Cfg) (s : Bool) (reg : Reg) (md : Option Key) (xs : List PyObj)
    (ih : ∀ x ∈ xs, Aobj cfg s x) (d : Nat) (path : List Key) :
    eraseR (customFlattenP reg (customOutOf reg md .ok xs) (flattenListP cfg s d path 0 xs)
        (fun ks => flattenListE cfg s d path ks xs) xs.length) =
      customFlatten reg (customOutOf reg md .ok xs) (flattenList cfg s d xs) := by
  have hP := flattenListP_erase cfg s d path xs ih 0
  have hlenL : (flattenList cfg s d xs).length = xs.length := by simp [flattenList_eq]
  rw [customFlatten_ok' reg md xs _ hlenL,
    customFlattenP_ok' reg md xs _ _ (fun ks hk => flattenListE_length cfg s d path ks xs hk),
    finish_erase, ← seqOuts_erase]
  congr 2
  cases hm : reg.mode <;> simp only [okEntries]
  · exact hP
  · exact hP
  · exact flattenListE_erase cfg s d path xs ih _ (namedEntries_length _)
  · exact flattenListE_erase cfg s d path xs ih _ (shiftedEntries_length _)

end Optree

namespace Optree

theorem closeSeqP_listP (cfg : Cfg) (s : Bool) (d : Nat) (path : List Key) (xs : List PyObj)
    (ih : ∀ x ∈ xs, Aobj cfg s x) (kind : Kind) (n : Nat) (data : NodeData) :
    eraseR (closeSeqP (flattenListP cfg s d path 0 xs) kind n data Option.none Option.none Option.none) =
      closeSeq (flattenList cfg s d xs) kind n data Option.none Option.none Option.none := by
  rw [← closeSeq_erase, flattenListP_erase cfg s d path xs ih 0]

theorem closeSeqP_kvs (cfg : Cfg) (s : Bool) (d : Nat) (path : List Key) (kvs : List (Key × PyObj))
    (ih : ∀ p ∈ kvs, Aobj cfg s p.2) (od : Bool) (kind : Kind) (n : Nat) (mk : List Key → NodeData)
    (okeys : Option (List Key)) :
    eraseR (closeSeqP ((dictOrder od s (flattenKVsP cfg s d path kvs)).map (·.2)) kind n
      (mk ((dictOrder od s (flattenKVsP cfg s d path kvs)).map (·.1))) Option.none Option.none okeys) =
    closeSeq ((dictOrder od s (flattenKVs cfg s d kvs)).map (·.2)) kind n
      (mk ((dictOrder od s (flattenKVs cfg s d kvs)).map (·.1))) Option.none Option.none okeys := by
  rw [← flattenKVsP_erase cfg s d path kvs ih,
    dictOrder_map od s (fun p => (p.1, eraseR p.2)) (by intro p; rfl)]
  simp only [List.map_map, Function.comp_def]
  rw [← closeSeq_erase]
  simp [List.map_map, Function.comp_def]

theorem eraseR_prelude (cfg : Cfg) (d : Nat) (path : List Key) (x : PyObj)
    (bodyP : Except Err FlatOutP) (body : Except Err FlatOut) (h : eraseR bodyP = body) :
    eraseR (if d > cfg.maxDepth then Except.error Err.recursion
      else match cfg.evalPred x with
        | .error e => .error e
        | .ok true => .ok (leafOutP path x)
        | .ok false => bodyP) =
    (if d > cfg.maxDepth then Except.error Err.recursion
      else match cfg.evalPred x with
        | .error e => .error e
        | .ok true => .ok (leafOut x)
        | .ok false => body) := by
  split
  · rfl
  · split
    · rfl
    · rfl
    · exact h

mutual
theorem aobj (cfg : Cfg) (s : Bool) : ∀ t : PyObj, t.wf = true → Aobj cfg s t
  | .leaf ty uid, _ => by
      intro d path
      rw [flattenGoP, flattenGo]
      exact eraseR_prelude cfg d path _ _ _ rfl
  | .none, _ => by
      intro d path
      rw [flattenGoP, flattenGo]
      apply eraseR_prelude
      split <;> rfl
  | .tuple xs, hwf => by
      intro d path
      rw [flattenGoP, flattenGo]
      simp only [PyObj.wf] at hwf
      exact eraseR_prelude cfg d path _ _ _ (closeSeqP_listP cfg s (d + 1) path xs (alist cfg s xs hwf) _ _ _)
  | .list xs, hwf => by
      intro d path
      rw [flattenGoP, flattenGo]
      simp only [PyObj.wf] at hwf
      exact eraseR_prelude cfg d path _ _ _ (closeSeqP_listP cfg s (d + 1) path xs (alist cfg s xs hwf) _ _ _)
  | .deque m xs, hwf => by
      intro d path
      rw [flattenGoP, flattenGo]
      simp only [PyObj.wf, Bool.and_eq_true] at hwf
      exact eraseR_prelude cfg d path _ _ _ (closeSeqP_listP cfg s (d + 1) path xs (alist cfg s xs hwf.2) _ _ _)
  | .dict kvs, hwf => by
      intro d path
      rw [flattenGoP, flattenGo]
      simp only [PyObj.wf, Bool.and_eq_true] at hwf
      exact eraseR_prelude cfg d path _ _ _
        (closeSeqP_kvs cfg s (d + 1) path kvs (akvs cfg s kvs hwf.2) false _ _ .keys _)
  | .odict kvs, hwf => by
      intro d path
      rw [flattenGoP, flattenGo]
      simp only [PyObj.wf, Bool.and_eq_true] at hwf
      apply eraseR_prelude
      have := closeSeqP_kvs cfg s (d + 1) path kvs (akvs cfg s kvs hwf.2) true .ordereddict kvs.length
        .keys Option.none
      simpa [dictOrder] using this
  | .ddict f kvs, hwf => by
      intro d path
      rw [flattenGoP, flattenGo]
      simp only [PyObj.wf, Bool.and_eq_true] at hwf
      exact eraseR_prelude cfg d path _ _ _
        (closeSeqP_kvs cfg s (d + 1) path kvs (akvs cfg s kvs hwf.2) false _ _ (.ddict f) _)
  | .ntuple cls xs, hwf => by
      intro d path
      rw [flattenGoP, flattenGo]
      simp only [PyObj.wf] at hwf
      apply eraseR_prelude
      split
      · exact customFlatten_erase cfg s _ _ xs (alist cfg s xs hwf) (d + 1) path
      · exact closeSeqP_listP cfg s (d + 1) path xs (alist cfg s xs hwf) _ _ _
  | .sseq cls xs, hwf => by
      intro d path
      rw [flattenGoP, flattenGo]
      simp only [PyObj.wf] at hwf
      apply eraseR_prelude
      split
      · exact customFlatten_erase cfg s _ _ xs (alist cfg s xs hwf) (d + 1) path
      · exact closeSeqP_listP cfg s (d + 1) path xs (alist cfg s xs hwf) _ _ _
  | .user cls md q xs, hwf => by
      intro d path
      rw [flattenGoP, flattenGo]
      simp only [PyObj.wf, Bool.and_eq_true, beq_iff_eq] at hwf
      obtain ⟨hq, hwf⟩ := hwf
      subst hq
      apply eraseR_prelude
      split
      · exact customFlatten_erase cfg s _ _ xs (alist cfg s xs hwf) (d + 1) path
      · rfl
theorem alist (cfg : Cfg) (s : Bool) :
    ∀ xs : List PyObj, PyObj.wfList xs = true → ∀ x ∈ xs, Aobj cfg s x
  | [], _ => by intro x hx; simp at hx
  | y :: ys, hwf => by
      simp only [PyObj.wfList, Bool.and_eq_true] at hwf
      intro x hx
      simp only [List.mem_cons] at hx
      rcases hx with hx | hx
      · subst hx; exact aobj cfg s x hwf.1
      · exact alist cfg s ys hwf.2 x hx
theorem akvs (cfg : Cfg) (s : Bool) :
    ∀ kvs : List (Key × PyObj), PyObj.wfKVs kvs = true → ∀ p ∈ kvs, Aobj cfg s p.2
  | [], _ => by intro p hp; simp at hp
  | (k, y) :: ys, hwf => by
      simp only [PyObj.wfKVs, Bool.and_eq_true] at hwf
      intro p hp
      simp only [List.mem_cons] at hp
      rcases hp with hp | hp
      · subst hp; exact aobj cfg s y hwf.1
      · exact akvs cfg s ys hwf.2 p hp
end

end Optree
