/-
  `PyTreeSpec::Transform` with a node function (refinement, for C08): when the node function answers, for the
  one-level treespec of every internal node, a one-level treespec of the same arity, the loop produces the encoding of
  the tree with every node's information rewritten (`STree.mapInfo`) — proved by relating the two runs record by
  record (`NRel`, `loop_rel`) to the identity-on-nodes run already characterised in `EncTransform.lean`.
-/
import OptreeModel.Lemmas.EncTransform
namespace Optree

mutual
/-- rewrite the information of every internal node (what `transform` does with a node function that answers a
one-level treespec of the same arity) -/
def STree.mapInfo (g : NInfo → Nat → NInfo) : STree → STree
  | .leaf => .leaf
  | .node i cs => .node (g i cs.length) (STree.mapInfoL g cs)
def STree.mapInfoL (g : NInfo → Nat → NInfo) : List STree → List STree
  | [] => []
  | c :: cs => c.mapInfo g :: STree.mapInfoL g cs
end

theorem STree.mapInfoL_length (g : NInfo → Nat → NInfo) : ∀ cs : List STree, (STree.mapInfoL g cs).length = cs.length
  | [] => rfl
  | c :: cs => by simp [STree.mapInfoL, STree.mapInfoL_length g cs]

mutual
theorem STree.mapInfo_leaves (g : NInfo → Nat → NInfo) : ∀ a : STree, (a.mapInfo g).leaves = a.leaves
  | .leaf => rfl
  | .node i cs => by simp [STree.mapInfo, STree.leaves, STree.mapInfoL_leaves g cs]
theorem STree.mapInfoL_leaves (g : NInfo → Nat → NInfo) : ∀ cs : List STree,
    STree.leavesL (STree.mapInfoL g cs) = STree.leavesL cs
  | [] => rfl
  | c :: cs => by simp [STree.mapInfoL, STree.leavesL, STree.mapInfo_leaves g c, STree.mapInfoL_leaves g cs]
end

mutual
theorem STree.mapInfo_size (g : NInfo → Nat → NInfo) : ∀ a : STree, (a.mapInfo g).size = a.size
  | .leaf => rfl
  | .node i cs => by simp [STree.mapInfo, STree.size, STree.mapInfoL_size g cs]
theorem STree.mapInfoL_size (g : NInfo → Nat → NInfo) : ∀ cs : List STree,
    STree.sizeL (STree.mapInfoL g cs) = STree.sizeL cs
  | [] => rfl
  | c :: cs => by simp [STree.mapInfoL, STree.sizeL, STree.mapInfo_size g c, STree.mapInfoL_size g cs]
end

/-- the one-level treespec of a node with information `i` and `n` children -/
def olSpec (nil : Bool) (ns : String) (i : NInfo) (n : Nat) : Spec :=
  { nodes := List.replicate n Node.leaf ++ [Node.mk i.kind n i.data i.entries i.custom n (n + 1) i.originalKeys]
    noneIsLeaf := nil, ns := ns }

/-- record by record: a leaf stays, an internal node gets the rewritten information -/
inductive NRel (g : NInfo → Nat → NInfo) : Node → Node → Prop
  | leaf : NRel g Node.leaf Node.leaf
  | node (i : NInfo) (k l m : Nat) : i.kind ≠ .leaf → (g i k).kind ≠ .leaf →
      NRel g (i.toNode k l m) ((g i k).toNode k l m)

theorem forall₂_append' {α β : Type} {R : α → β → Prop} {a c : List α} {b d : List β}
    (h1 : List.Forall₂ R a b) (h2 : List.Forall₂ R c d) : List.Forall₂ R (a ++ c) (b ++ d) := by
  induction h1 with
  | nil => simpa using h2
  | cons h _ ih => exact List.Forall₂.cons h ih

mutual
theorem enc_rel (g : NInfo → Nat → NInfo) : ∀ a : STree, a.wf = true → (a.mapInfo g).wf = true →
    List.Forall₂ (NRel g) a.enc (a.mapInfo g).enc
  | .leaf, _, _ => by simp [STree.enc, STree.mapInfo]; exact NRel.leaf
  | .node i cs, hw, hw' => by
      obtain ⟨hnl, _, _, hwl⟩ := STree.wf_node hw
      simp only [STree.mapInfo] at hw'
      obtain ⟨hnl', _, _, hwl'⟩ := STree.wf_node hw'
      simp only [STree.enc, STree.mapInfo]
      apply forall₂_append' (encL_rel g cs hwl hwl')
      refine List.Forall₂.cons ?_ List.Forall₂.nil
      rw [STree.mapInfoL_length, STree.mapInfoL_leaves, STree.mapInfoL_size]
      exact NRel.node i cs.length _ _ hnl (by simpa [STree.mapInfoL_length] using hnl')
theorem encL_rel (g : NInfo → Nat → NInfo) : ∀ cs : List STree, STree.wfL cs = true →
    STree.wfL (STree.mapInfoL g cs) = true → List.Forall₂ (NRel g) (STree.encL cs) (STree.encL (STree.mapInfoL g cs))
  | [], _, _ => by simp [STree.encL, STree.mapInfoL]
  | c :: cs, hw, hw' => by
      simp only [STree.mapInfoL, STree.wfL, Bool.and_eq_true] at hw hw'
      simp only [STree.encL, STree.mapInfoL]
      exact forall₂_append' (enc_rel g c hw.1 hw'.1) (encL_rel g cs hw.2 hw'.2)
end


theorem oneLevelOf_toNode (sp : Spec) (i : NInfo) (k l m : Nat) (hk : i.kind ≠ .leaf) :
    oneLevelOf sp (i.toNode k l m) = olSpec sp.noneIsLeaf sp.ns i k := by
  have : (i.kind == Kind.leaf) = false := by simp [hk]
  simp [oneLevelOf, olSpec, NInfo.toNode, this]

/-- one loop iteration on an internal node, given what the node function answered -/
theorem step_node (sp : Spec) (fNode fLeaf : Option (Spec → Except Err Spec)) (st : TransformState)
    (hst : st.ns = sp.ns) (i i' : NInfo) (k l m : Nat) (hk : i.kind ≠ .leaf) (nsT : String)
    (hnsT : nsT = sp.ns ∨ nsT = "")
    (htr : (match fNode with
      | Option.none => Except.ok (olSpec sp.noneIsLeaf sp.ns i k)
      | some f => f (olSpec sp.noneIsLeaf sp.ns i k)) = .ok (olSpec sp.noneIsLeaf nsT i' k)) :
    transformStep sp fNode fLeaf st (i.toNode k l m) =
      match popSum k st.pending with
      | Option.none => .error .internal
      | some ((l', m'), pend) =>
          .ok { st with nodes := st.nodes ++ [Node.mk i'.kind k i'.data i'.entries i'.custom l' (m' + 1) i'.originalKeys]
                        pending := (l', m' + 1) :: pend } := by
  have hkb : (i.kind == Kind.leaf) = false := by simp [hk]
  have hkb' : (i.kind != Kind.leaf) = true := by simp [hk]
  have hkind : (i.toNode k l m).kind = i.kind := rfl
  have har : (i.toNode k l m).arity = k := rfl
  have hns : (if (nsT != "") = true then
        (if (st.ns == "") = true then Except.ok nsT
         else if (nsT != st.ns) = true then Except.error Err.value else Except.ok st.ns)
        else Except.ok st.ns : Except Err String) = .ok st.ns := by
    rcases hnsT with h | h
    · subst h
      by_cases h0 : sp.ns = ""
      · simp [h0, hst]
      · simp [h0, hst]
    · simp [h]
  have fin : ∀ (tr : Except Err Spec), tr = .ok (olSpec sp.noneIsLeaf nsT i' k) →
      (match tr with
        | .error e => (Except.error e : Except Err TransformState)
        | .ok tr =>
          if (tr.noneIsLeaf != sp.noneIsLeaf) = true then .error .value
          else
            match (if (tr.ns != "") = true then
                (if (st.ns == "") = true then Except.ok tr.ns
                 else if (tr.ns != st.ns) = true then Except.error Err.value else Except.ok st.ns)
                else Except.ok st.ns : Except Err String) with
            | .error e => .error e
            | .ok ns' =>
              if (i.kind != Kind.leaf) = true then
                if (tr.numLeaves != k) = true then .error .value
                else if (tr.numNodes != k + 1) = true then .error .value
                else
                  match tr.nodes.getLast? with
                  | Option.none => .error .internal
                  | some subroot =>
                    match popSum k st.pending with
                    | Option.none => .error .internal
                    | some ((l, m), pend) =>
                        .ok { st with nodes := st.nodes ++ [{ subroot with numLeaves := l, numNodes := m + 1 }]
                                      ns := ns'
                                      pending := (l, m + 1) :: pend }
              else
                if !tr.sane then .error .internal
                else
                  .ok { nodes := st.nodes ++ tr.nodes, ns := ns'
                        pending := (tr.numLeaves, tr.numNodes) :: st.pending
                        extraLeaves := st.extraLeaves + (tr.numLeaves : Int) - 1
                        extraNodes := st.extraNodes + (tr.numNodes : Int) - 1 }) =
      match popSum k st.pending with
      | Option.none => .error .internal
      | some ((l', m'), pend) =>
          .ok { st with nodes := st.nodes ++ [Node.mk i'.kind k i'.data i'.entries i'.custom l' (m' + 1) i'.originalKeys]
                        pending := (l', m' + 1) :: pend } := by
    intro tr htr'
    subst htr'
    simp only [olSpec, bne_self_eq_false, Bool.false_eq_true, if_false, Spec.numLeaves, Spec.numNodes,
      List.getLast?_append, List.getLast?_singleton, Option.some_or, Option.map_some, Option.getD_some,
      List.length_append, List.length_replicate, List.length_singleton, hkb', if_true]
    cases popSum k st.pending with
    | none =>
      rcases hnsT with h | h
      · subst h
        by_cases h0 : sp.ns = "" <;> simp [h0, hst]
      · simp [h]
    | some r =>
      obtain ⟨⟨l', m'⟩, pend⟩ := r
      rcases hnsT with h | h
      · subst h
        by_cases h0 : sp.ns = "" <;> simp [h0, hst]
      · simp [h]
  unfold transformStep
  simp only [oneLevelOf_toNode sp i k l m hk, hkind, har, hkb, Bool.false_eq_true, if_false]
  cases fNode with
  | none => exact fin _ htr
  | some f => exact fin _ htr


section
variable (sp : Spec) (g : NInfo → Nat → NInfo) (fN : Spec → Except Err Spec) (b : STree) (nsb : String)
  (hnsb : nsb = sp.ns ∨ nsb = "")
  (hN : ∀ (i : NInfo) (k : Nat), i.kind ≠ .leaf → ∃ nsT, (nsT = sp.ns ∨ nsT = "") ∧
    fN (olSpec sp.noneIsLeaf sp.ns i k) = .ok (olSpec sp.noneIsLeaf nsT (g i k) k))

include hN in
theorem step_rel (st : TransformState) (hst : st.ns = sp.ns) (n n' : Node) (h : NRel g n n') :
    transformStep sp (some fN) (some fun _ => .ok (b.spec sp.noneIsLeaf nsb)) st n =
      transformStep sp Option.none (some fun _ => .ok (b.spec sp.noneIsLeaf nsb)) st n' := by
  cases h with
  | leaf => simp only [transformStep, Node.leaf, beq_self_eq_true, if_true]
  | node i k l m hk hk' =>
    obtain ⟨nsT, hnsT, hf⟩ := hN i k hk
    rw [step_node sp (some fN) _ st hst i (g i k) k l m hk nsT hnsT hf,
      step_node sp Option.none _ st hst (g i k) (g i k) k l m hk' sp.ns (Or.inl rfl) rfl]

include hnsb in
theorem step_ns (st st' : TransformState) (hst : st.ns = sp.ns) (n n' : Node)
    (h : NRel g n n')
    (hstep : transformStep sp Option.none (some fun _ => .ok (b.spec sp.noneIsLeaf nsb)) st n' = .ok st') :
    st'.ns = sp.ns := by
  cases h with
  | leaf =>
    simp only [transformStep, Node.leaf, beq_self_eq_true, if_true, STree.spec, bne_self_eq_false,
      Bool.false_eq_true, if_false] at hstep
    rcases hnsb with h | h
    · subst h
      by_cases h0 : sp.ns = "" <;> simp [h0, hst] at hstep <;> (split at hstep <;> simp at hstep <;> rw [← hstep] <;> simp [hst, h0])
    · subst h
      simp at hstep
      split at hstep <;> simp at hstep
      rw [← hstep]; exact hst
  | node i k l m hk hk' =>
    rw [step_node sp Option.none _ st hst (g i k) (g i k) k l m hk' sp.ns (Or.inl rfl) rfl] at hstep
    cases hp : popSum k st.pending with
    | none => simp [hp] at hstep
    | some r =>
      obtain ⟨⟨l', m'⟩, pend⟩ := r
      simp only [hp, Except.ok.injEq] at hstep
      rw [← hstep]; exact hst

include hN hnsb in
theorem loop_rel (xs xs' : List Node) (h : List.Forall₂ (NRel g) xs xs') :
    ∀ st : TransformState, st.ns = sp.ns →
      transformLoop sp (some fN) (some fun _ => .ok (b.spec sp.noneIsLeaf nsb)) st xs =
        transformLoop sp Option.none (some fun _ => .ok (b.spec sp.noneIsLeaf nsb)) st xs' := by
  induction h with
  | nil => intro st _; rfl
  | cons hr _ ih =>
    intro st hst
    simp only [transformLoop]
    rw [step_rel sp g fN b nsb hN st hst _ _ hr]
    cases hs : transformStep sp Option.none (some fun _ => .ok (b.spec sp.noneIsLeaf nsb)) st _ with
    | error e => rfl
    | ok st' => exact ih st' (step_ns sp g b nsb hnsb st st' hst _ _ hr hs)
end

/-- `transform` reads of its treespec only the node array, `none_is_leaf` and the namespace -/
theorem transformLoop_congr (sp sp' : Spec) (h1 : sp.noneIsLeaf = sp'.noneIsLeaf) (h2 : sp.ns = sp'.ns)
    (fNode fLeaf : Option (Spec → Except Err Spec)) :
    ∀ (xs : List Node) (st : TransformState),
      transformLoop sp fNode fLeaf st xs = transformLoop sp' fNode fLeaf st xs := by
  have hstep : ∀ st n, transformStep sp fNode fLeaf st n = transformStep sp' fNode fLeaf st n := by
    intro st n
    simp only [transformStep, oneLevelOf, h1, h2]
  intro xs
  induction xs with
  | nil => intro st; rfl
  | cons x xs ih =>
    intro st
    simp only [transformLoop, hstep]
    cases transformStep sp' fNode fLeaf st x with
    | error e => rfl
    | ok st' => exact ih st'

/-- **`transform` with a node function**: if the node function answers, for the one-level treespec of a node with
information `i` and `k` children, the one-level treespec of `g i k` with `k` children (namespace kept or dropped), and
the leaf function always answers the treespec of `b`, the result is the encoding of `a` with every node's
information rewritten by `g` and every leaf replaced by `b` -/
theorem transform_node_enc (a b : STree) (g : NInfo → Nat → NInfo) (ha : a.wf = true) (ha' : (a.mapInfo g).wf = true)
    (nil : Bool) (ns nsb : String) (hnsb : nsb = ns ∨ nsb = "") (fN : Spec → Except Err Spec)
    (hN : ∀ (i : NInfo) (k : Nat), i.kind ≠ .leaf → ∃ nsT, (nsT = ns ∨ nsT = "") ∧
      fN (olSpec nil ns i k) = .ok (olSpec nil nsT (g i k) k)) :
    transform (a.spec nil ns) (some fN) (some fun _ => .ok (b.spec nil nsb)) =
      .ok (((a.mapInfo g).subst b).spec nil ns) := by
  rw [← transform_enc (a.mapInfo g) b ha' nil ns nsb hnsb]
  unfold transform
  simp only [STree.spec_sane, Bool.not_true, Bool.false_eq_true, if_false, Option.isNone_none, Option.isNone_some,
    Bool.and_false, Bool.false_and]
  have hl := loop_rel (a.spec nil ns) g fN b nsb hnsb hN a.enc (a.mapInfo g).enc (enc_rel g a ha ha')
    ⟨[], ns, [], 0, 0⟩ rfl
  have hc := transformLoop_congr (a.spec nil ns) ((a.mapInfo g).spec nil ns) rfl rfl Option.none
    (some fun _ => .ok (b.spec nil nsb)) (a.mapInfo g).enc ⟨[], ns, [], 0, 0⟩
  have hl' : transformLoop (a.spec nil ns) (some fN) (some fun _ => .ok (b.spec nil nsb))
        ⟨[], (a.spec nil ns).ns, [], 0, 0⟩ (a.spec nil ns).nodes =
      transformLoop ((a.mapInfo g).spec nil ns) Option.none (some fun _ => .ok (b.spec nil nsb))
        ⟨[], ((a.mapInfo g).spec nil ns).ns, [], 0, 0⟩ ((a.mapInfo g).spec nil ns).nodes := hl.trans hc
  have e1 : (a.spec nil ns).numLeaves = ((a.mapInfo g).spec nil ns).numLeaves := by
    rw [STree.spec_numLeaves, STree.spec_numLeaves, STree.mapInfo_leaves]
  have e2 : (a.spec nil ns).numNodes = ((a.mapInfo g).spec nil ns).numNodes := by
    rw [STree.spec_numNodes, STree.spec_numNodes, STree.mapInfo_size]
  rw [hl', e1, e2]
  rfl

end Optree
