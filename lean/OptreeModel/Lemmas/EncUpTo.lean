/-
  `PyTreeSpec::FlattenUpTo` on encodings is a structural recursion over the shape (refinement, for
  C07 / C05): `STree.upTo` matches a tree against a shape node by node and returns the sub-trees that
  sit at the shape's leaves, in leaf order.
-/
import OptreeModel.Lemmas.EncPrefix

namespace Optree

mutual
/-- match `t` against the shape; children are matched last to first (the agenda of the C++ pops the
last child first), which only matters for *which* error is reported -/
def STree.upTo (reg : Registry) (nil : Bool) (ns : String) : STree → PyObj → Except Err (List PyObj)
  | .leaf, t => .ok [t]
  | .node i cs, t =>
      match i.kind with
      | .leaf => .error .internal
      | .none =>
          if nil then .error .internal
          else match t with
            | .none => STree.upToL reg nil ns cs []
            | _ => .error .value
      | .tuple =>
          match t with
          | .tuple xs => if xs.length != cs.length then .error .value else STree.upToL reg nil ns cs xs
          | _ => .error .value
      | .list =>
          match t with
          | .list xs => if xs.length != cs.length then .error .value else STree.upToL reg nil ns cs xs
          | _ => .error .value
      | .dict | .ordereddict | .defaultdict =>
          match dictItems? t with
          | Option.none => .error .value
          | some kvs =>
              if !keySetEq i.keys (kvs.map (·.1)) then .error .value
              else
                match i.keys.mapM (fun k => lookupKey k kvs) with
                | Option.none => .error .key
                | some xs => STree.upToL reg nil ns cs xs
      | .namedtuple =>
          match t with
          | .ntuple cls xs =>
              if xs.length != cs.length then .error .value
              else if i.data != .cls cls then .error .value
              else STree.upToL reg nil ns cs xs
          | _ => .error .value
      | .deque =>
          match t with
          | .deque _ xs => if xs.length != cs.length then .error .value else STree.upToL reg nil ns cs xs
          | _ => .error .value
      | .structseq =>
          match t with
          | .sseq cls xs =>
              if xs.length != cs.length then .error .value
              else if i.data != .cls cls then .error .value
              else STree.upToL reg nil ns cs xs
          | _ => .error .value
      | .custom =>
          match i.custom with
          | Option.none => .error .internal
          | some nreg =>
            if lookupForObject reg ns t != some nreg then .error .value
            else
              let co := customOut nreg t
              if co.numOut != 2 && co.numOut != 3 then .error .runtime
              else if i.data != .md co.md then .error .value
              else match co.children with
                | Option.none => .error .type_
                | some xs => if xs.length != cs.length then .error .value else STree.upToL reg nil ns cs xs
def STree.upToL (reg : Registry) (nil : Bool) (ns : String) :
    List STree → List PyObj → Except Err (List PyObj)
  | [], _ => .ok []
  | c :: cs, x :: xs =>
      match STree.upToL reg nil ns cs xs with
      | .error e => .error e
      | .ok b =>
          match STree.upTo reg nil ns c x with
          | .error e => .error e
          | .ok a => .ok (a ++ b)
  | _ :: _, [] => .error .internal
end

/-- number of leaf records in an array -/
def leafCount (nodes : List Node) : Nat := (nodes.filter fun n => n.kind == .leaf).length

theorem leafCount_append (xs ys : List Node) : leafCount (xs ++ ys) = leafCount xs + leafCount ys := by
  simp [leafCount]

theorem leafCount_reverse (xs : List Node) : leafCount xs.reverse = leafCount xs := by
  simp [leafCount, List.filter_reverse]

mutual
theorem STree.leafCount_enc : ∀ s : STree, s.wf = true → leafCount s.enc = s.leaves
  | .leaf, _ => by simp [leafCount, STree.enc, STree.leaves, Node.leaf]
  | .node i cs, h => by
      obtain ⟨hk, _, _, hw⟩ := STree.wf_node h
      have hk' : (i.kind == Kind.leaf) = false := by simp [hk]
      simp only [STree.enc, leafCount_append, STree.leafCount_encL cs hw, STree.leaves]
      simp [leafCount, NInfo.toNode, hk']
theorem STree.leafCount_encL : ∀ cs : List STree, STree.wfL cs = true →
    leafCount (STree.encL cs) = STree.leavesL cs
  | [], _ => by simp [leafCount, STree.encL, STree.leavesL]
  | c :: cs, h => by
      simp only [STree.wfL, Bool.and_eq_true] at h
      simp [STree.encL, leafCount_append, STree.leavesL, STree.leafCount_enc c h.1,
        STree.leafCount_encL cs h.2]
end

theorem STree.leafCount_renc (s : STree) (h : s.wf = true) : leafCount s.renc = s.leaves := by
  rw [STree.renc, leafCount_reverse, STree.leafCount_enc s h]

theorem STree.leafCount_rencL (cs : List STree) (h : STree.wfL cs = true) :
    leafCount (STree.rencL cs) = STree.leavesL cs := by
  rw [STree.rencL, leafCount_reverse, STree.leafCount_encL cs h]

/-! ### the result has one entry per leaf of the shape -/

mutual
theorem STree.upTo_length (reg : Registry) (nil : Bool) (ns : String) :
    ∀ (a : STree) (t : PyObj) (ls : List PyObj), a.upTo reg nil ns t = .ok ls → ls.length = a.leaves
  | .leaf, t, ls, h => by simp [STree.upTo] at h; subst h; rfl
  | .node i cs, t, ls, h => by
      have ih := STree.upToL_length reg nil ns cs
      unfold STree.upTo at h
      simp only [STree.leaves]
      repeat' (split at h)
      all_goals first
        | (simp at h; done)
        | exact ih _ _ h
        | (simp only at h
           repeat' (split at h)
           all_goals first | (simp at h; done) | exact ih _ _ h)
theorem STree.upToL_length (reg : Registry) (nil : Bool) (ns : String) :
    ∀ (cs : List STree) (xs : List PyObj) (ls : List PyObj), STree.upToL reg nil ns cs xs = .ok ls →
      ls.length = STree.leavesL cs
  | [], _, ls, h => by simp [STree.upToL] at h; subst h; rfl
  | c :: cs, x :: xs, ls, h => by
      simp only [STree.upToL] at h
      split at h
      · simp at h
      · rename_i b hb
        split at h
        · simp at h
        · rename_i a ha
          simp at h; subst h
          simp [STree.leavesL, STree.upTo_length reg nil ns c x a ha,
            STree.upToL_length reg nil ns cs xs b hb]
  | _ :: _, [], ls, h => by simp [STree.upToL] at h
end

/-! ### the agenda machine -/

theorem mapM_option_length {α β : Type} (f : α → Option β) : ∀ (l : List α) (r : List β),
    l.mapM f = some r → r.length = l.length
  | [], r, h => by simp at h; subst h; rfl
  | x :: l, r, h => by
      simp only [List.mapM_cons, Option.bind_eq_bind] at h
      cases hx : f x with
      | none => simp [hx] at h
      | some y =>
        cases hl : l.mapM f with
        | none => simp [hx, hl] at h
        | some ys =>
          simp [hx, hl] at h
          subst h
          simp [mapM_option_length f l ys hl]

/-- what the machine does after the root record of a node matched: push the children -/
def UpToL (reg : Registry) (nil : Bool) (ns : String) (N : Nat) (cs : List STree) : Prop :=
  ∀ (xs : List PyObj), xs.length = cs.length → ∀ (nodes : List Node) (agenda acc : List PyObj),
    acc.length + STree.leavesL cs + leafCount nodes ≤ N →
    flattenUpToGo reg nil ns N (STree.rencL cs ++ nodes) (xs.reverse ++ agenda) acc =
      match STree.upToL reg nil ns cs xs with
      | .error e => .error e
      | .ok ls => flattenUpToGo reg nil ns N nodes agenda (ls ++ acc)

mutual
theorem upTo_go (reg : Registry) (nil : Bool) (ns : String) (N : Nat) : ∀ a : STree, a.wf = true →
    ∀ (t : PyObj) (nodes : List Node) (agenda acc : List PyObj),
      acc.length + a.leaves + leafCount nodes ≤ N →
      flattenUpToGo reg nil ns N (a.renc ++ nodes) (t :: agenda) acc =
        match a.upTo reg nil ns t with
        | .error e => .error e
        | .ok ls => flattenUpToGo reg nil ns N nodes agenda (ls ++ acc)
  | .leaf, _, t, nodes, agenda, acc, hb => by
      rw [show STree.leaf.renc = [Node.leaf] from rfl, List.singleton_append]
      rw [flattenUpToGo.eq_def]
      simp only [STree.leaves] at hb
      have : ¬ (acc.length ≥ N) := by omega
      simp [Node.leaf, this, STree.upTo]
  | .node i cs, ha, t, nodes, agenda, acc, hb => by
      obtain ⟨hnl, hnone, hdict, hw⟩ := STree.wf_node ha
      have ihL : UpToL reg nil ns N cs := upToL_go reg nil ns N cs hw
      simp only [STree.leaves] at hb
      have push : ∀ xs : List PyObj, xs.length = cs.length →
          flattenUpToGo reg nil ns N (STree.rencL cs ++ nodes) (xs.reverse ++ agenda) acc =
            match STree.upToL reg nil ns cs xs with
            | .error e => .error e
            | .ok ls => flattenUpToGo reg nil ns N nodes agenda (ls ++ acc) :=
        fun xs hx => ihL xs hx nodes agenda acc hb
      rw [STree.renc_eq]
      simp only [List.cons_append, STree.children]
      rw [flattenUpToGo.eq_def]
      simp only [STree.root, NInfo.toNode]
      rcases Kind.cases_eq i.kind with hkind | hkind | hkind | hkind | hkind | hkind | hkind | hkind |
          hkind | hkind | hkind
      · -- custom
        simp only [hkind, STree.upTo]
        cases hc : i.custom with
        | none => simp
        | some nreg =>
          simp only
          by_cases h1 : (lookupForObject reg ns t != some nreg) = true
          · simp [h1]
          · simp only [h1, Bool.false_eq_true, if_false]
            by_cases h2 : ((customOut nreg t).numOut != 2 && (customOut nreg t).numOut != 3) = true
            · simp [h2]
            · simp only [h2, Bool.false_eq_true, if_false]
              by_cases h3 : (i.data != NodeData.md (customOut nreg t).md) = true
              · simp [h3]
              · simp only [h3, Bool.false_eq_true, if_false]
                cases h4 : (customOut nreg t).children with
                | none => simp
                | some xs =>
                  simp only
                  by_cases h5 : xs.length = cs.length
                  · simp only [h5, bne_self_eq_false, Bool.false_eq_true, if_false]
                    exact push xs h5
                  · simp [h5]
      · exact absurd hkind hnl
      · -- none
        have hcs := hnone hkind
        subst hcs
        simp only [hkind, STree.upTo]
        cases nil
        · cases t <;> simp [STree.upToL, STree.rencL_nil]
        · simp
      · -- tuple
        simp only [hkind, STree.upTo]
        cases t <;> try simp
        rename_i xs
        by_cases h5 : xs.length = cs.length
        · simp only [h5, bne_self_eq_false, Bool.false_eq_true, if_false]
          exact push xs h5
        · simp [h5]
      · -- list
        simp only [hkind, STree.upTo]
        cases t <;> try simp
        rename_i xs
        by_cases h5 : xs.length = cs.length
        · simp only [h5, bne_self_eq_false, Bool.false_eq_true, if_false]
          exact push xs h5
        · simp [h5]
      · -- dict
        obtain ⟨hkl, _⟩ := hdict (by simp [hkind, Kind.isDict])
        simp only [hkind, STree.upTo, Node.keys_eq, ← NInfo.keys_eq]
        cases hd : dictItems? t with
        | none => simp
        | some kvs =>
          simp only
          by_cases h1 : keySetEq i.keys (kvs.map (·.1)) = true
          · simp only [h1, Bool.not_true, Bool.false_eq_true, if_false]
            cases hm : i.keys.mapM (fun k => lookupKey k kvs) with
            | none => simp
            | some xs =>
              simp only
              exact push xs (by rw [mapM_option_length _ _ _ hm, hkl])
          · simp [h1]
      · -- namedtuple
        simp only [hkind, STree.upTo]
        cases t <;> try simp
        rename_i cls xs
        by_cases h5 : xs.length = cs.length
        · by_cases h6 : i.data = NodeData.cls cls
          · simp only [h5, h6, if_true, bne_self_eq_false, Bool.false_eq_true, if_false]
            exact push xs h5
          · simp [h5, h6]
        · simp [h5]
      · -- ordereddict
        obtain ⟨hkl, _⟩ := hdict (by simp [hkind, Kind.isDict])
        simp only [hkind, STree.upTo, Node.keys_eq, ← NInfo.keys_eq]
        cases hd : dictItems? t with
        | none => simp
        | some kvs =>
          simp only
          by_cases h1 : keySetEq i.keys (kvs.map (·.1)) = true
          · simp only [h1, Bool.not_true, Bool.false_eq_true, if_false]
            cases hm : i.keys.mapM (fun k => lookupKey k kvs) with
            | none => simp
            | some xs =>
              simp only
              exact push xs (by rw [mapM_option_length _ _ _ hm, hkl])
          · simp [h1]
      · -- defaultdict
        obtain ⟨hkl, _⟩ := hdict (by simp [hkind, Kind.isDict])
        simp only [hkind, STree.upTo, Node.keys_eq, ← NInfo.keys_eq]
        cases hd : dictItems? t with
        | none => simp
        | some kvs =>
          simp only
          by_cases h1 : keySetEq i.keys (kvs.map (·.1)) = true
          · simp only [h1, Bool.not_true, Bool.false_eq_true, if_false]
            cases hm : i.keys.mapM (fun k => lookupKey k kvs) with
            | none => simp
            | some xs =>
              simp only
              exact push xs (by rw [mapM_option_length _ _ _ hm, hkl])
          · simp [h1]
      · -- deque
        simp only [hkind, STree.upTo]
        cases t <;> try simp
        rename_i m xs
        by_cases h5 : xs.length = cs.length
        · simp only [h5, bne_self_eq_false, Bool.false_eq_true, if_false]
          exact push xs h5
        · simp [h5]
      · -- structseq
        simp only [hkind, STree.upTo]
        cases t <;> try simp
        rename_i cls xs
        by_cases h5 : xs.length = cs.length
        · by_cases h6 : i.data = NodeData.cls cls
          · simp only [h5, h6, if_true, bne_self_eq_false, Bool.false_eq_true, if_false]
            exact push xs h5
          · simp [h5, h6]
        · simp [h5]
theorem upToL_go (reg : Registry) (nil : Bool) (ns : String) (N : Nat) : ∀ cs : List STree,
    STree.wfL cs = true → UpToL reg nil ns N cs
  | [], _ => by
      intro xs hx nodes agenda acc _
      have : xs = [] := List.length_eq_zero_iff.mp hx
      subst this
      simp [STree.rencL_nil, STree.upToL]
  | c :: cs, h => by
      simp only [STree.wfL, Bool.and_eq_true] at h
      intro xs hx nodes agenda acc hb
      cases xs with
      | nil => simp at hx
      | cons x xs =>
        simp only [List.length_cons, Nat.add_right_cancel_iff] at hx
        simp only [STree.leavesL] at hb
        simp only [STree.rencL_cons, List.append_assoc, List.reverse_cons, List.singleton_append]
        rw [upToL_go reg nil ns N cs h.2 xs hx (c.renc ++ nodes) (x :: agenda) acc
          (by rw [leafCount_append, STree.leafCount_renc c h.1]; omega)]
        simp only [STree.upToL]
        cases hb' : STree.upToL reg nil ns cs xs with
        | error e => rfl
        | ok b =>
          simp only
          have hbl := STree.upToL_length reg nil ns cs xs b hb'
          rw [upTo_go reg nil ns N c h.1 x nodes agenda (b ++ acc)
            (by simp only [List.length_append, hbl]; omega)]
          cases STree.upTo reg nil ns c x with
          | error e => rfl
          | ok a => simp
end

/-- **`flatten_up_to` on the encoding of a shape is the structural match against that shape** -/
theorem flattenUpTo_enc (reg : Registry) (a : STree) (ha : a.wf = true) (nil : Bool) (ns : String)
    (t : PyObj) : flattenUpTo reg (a.spec nil ns) t = a.upTo reg nil ns t := by
  unfold flattenUpTo
  simp only [STree.spec_sane, Bool.not_true, Bool.false_eq_true, if_false, STree.spec_numLeaves]
  simp only [STree.spec]
  have := upTo_go reg nil ns a.leaves a ha t [] [] [] (by simp [leafCount])
  simp only [List.append_nil, STree.renc] at this
  rw [this]
  cases h : a.upTo reg nil ns t with
  | error e => rfl
  | ok ls =>
    have hl := STree.upTo_length reg nil ns a t ls h
    simp [flattenUpToGo, hl]

end Optree
