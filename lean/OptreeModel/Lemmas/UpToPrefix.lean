/-
  The two prefix tests agree: matching a tree against a shape (`flatten_up_to`) succeeds exactly
  when the shape is a prefix (`is_prefix`) of the tree's own shape (`tree_structure`) — for C07.
-/
import OptreeModel.Lemmas.EncUpTo
import OptreeModel.Lemmas.ShapeOf

namespace Optree

/-! ### shapes that a treespec made under this registry can have -/

/-- the payload fits the kind (as in every node `flatten` or a constructor builds) -/
def NInfo.fits (i : NInfo) : Bool :=
  match i.kind with
  | .leaf => false
  | .none | .tuple | .list => !i.data.isSome && i.custom.isNone
  | .dict | .ordereddict | .defaultdict | .deque | .namedtuple | .structseq =>
      i.data.isSome && i.custom.isNone
  | .custom => i.data.isSome && i.custom.isSome

/-- a namedtuple / struct-sequence node names a class that is not registered as a custom node in
the namespace the tree will be matched in (otherwise `flatten` would have made a custom node) -/
def NInfo.regFree (reg : Registry) (ns : String) (i : NInfo) : Bool :=
  match i.kind, i.data with
  | .namedtuple, .cls c => (reg.lookup ns 1 c).isNone
  | .structseq, .cls c => (reg.lookup ns 2 c).isNone
  | _, _ => true

mutual
def STree.good (reg : Registry) (ns : String) : STree → Bool
  | .leaf => true
  | .node i cs => i.fits && i.regFree reg ns && STree.goodL reg ns cs
def STree.goodL (reg : Registry) (ns : String) : List STree → Bool
  | [] => true
  | c :: cs => STree.good reg ns c && STree.goodL reg ns cs
end

theorem shapeOfList_length (cfg : Cfg) (s : Bool) (xs : List PyObj) :
    (shapeOfList cfg s xs).length = xs.length := by
  rw [shapeOfList_eq]; simp

/-! ### association lists -/

theorem lookupKey_map {α β : Type} (f : α → β) (k : Key) (l : List (Key × α)) :
    lookupKey k (l.map fun p => (p.1, f p.2)) = (lookupKey k l).map f := by
  induction l with
  | nil => rfl
  | cons p l ih =>
    obtain ⟨k', v⟩ := p
    simp only [List.map_cons, lookupKey]
    split <;> simp [ih]

theorem lookupKey_none_of_not_mem {α : Type} (k : Key) (l : List (Key × α)) (h : k ∉ l.map (·.1)) :
    lookupKey k l = Option.none := by
  induction l with
  | nil => rfl
  | cons p l ih =>
    obtain ⟨k', v⟩ := p
    simp only [List.map_cons, List.mem_cons, not_or] at h
    have : (k' == k) = false := by simp only [beq_eq_false_iff_ne, ne_eq]; exact fun e => h.1 e.symm
    simp [lookupKey, this, ih h.2]

/-- with distinct keys, lookup does not depend on the order of the items -/
theorem lookupKey_perm {α : Type} (k : Key) {l₁ l₂ : List (Key × α)} (hp : l₁.Perm l₂)
    (hnd : (l₁.map (·.1)).Nodup) : lookupKey k l₁ = lookupKey k l₂ := by
  induction hp with
  | nil => rfl
  | cons p _ ih =>
    obtain ⟨k', v⟩ := p
    simp only [List.map_cons, List.nodup_cons] at hnd
    simp only [lookupKey]
    split
    · rfl
    · exact ih hnd.2
  | swap p q l =>
    obtain ⟨k1, v1⟩ := p
    obtain ⟨k2, v2⟩ := q
    simp only [List.map_cons, List.nodup_cons, List.mem_cons, not_or] at hnd
    simp only [lookupKey]
    by_cases h1 : k1 = k <;> by_cases h2 : k2 = k
    · subst h1; subst h2; exact absurd rfl hnd.1.1
    · simp [h1, h2]
    · simp [h1, h2]
    · simp [h1, h2]
  | trans hp1 _ ih1 ih2 =>
    exact (ih1 hnd).trans (ih2 ((hp1.map (·.1)).nodup_iff.mp hnd))

/-- lookup in parallel key / value lists is lookup in the zipped association list -/
theorem lookupChild_unzip (k : Key) (items : List (Key × STree)) :
    lookupChild k (items.map (·.1)) (items.map (·.2)) = lookupKey k items := by
  induction items with
  | nil => rfl
  | cons p l ih =>
    obtain ⟨k', v⟩ := p
    simp only [List.map_cons, lookupChild, lookupKey]
    split <;> simp [ih]

theorem keySetEq_perm_right (ks : List Key) {l₁ l₂ : List Key} (hp : l₁.Perm l₂) :
    keySetEq ks l₁ = keySetEq ks l₂ := by
  unfold keySetEq
  rw [hp.length_eq]
  congr 1
  apply List.all_congr rfl
  intro k
  simp only [List.contains_eq_mem, decide_eq_decide]
  exact hp.mem_iff

/-- the keys and values `flatten` records for a dict-kind node -/
theorem shape_items_perm (cfg : Cfg) (s od : Bool) (kvs : List (Key × PyObj)) :
    (dictOrder od s (shapeOfKVs cfg s kvs)).Perm (kvs.map fun p => (p.1, shapeOf cfg s p.2)) := by
  rw [shapeOfKVs_eq]
  exact dictOrder_perm od s _

theorem shape_keys_perm (cfg : Cfg) (s od : Bool) (kvs : List (Key × PyObj)) :
    ((dictOrder od s (shapeOfKVs cfg s kvs)).map (·.1)).Perm (kvs.map (·.1)) := by
  have := (shape_items_perm cfg s od kvs).map (·.1)
  simpa [List.map_map, Function.comp_def] using this

/-- looking a key up among the recorded children gives the shape of the dict's value for that key -/
theorem shape_lookup (cfg : Cfg) (s od : Bool) (kvs : List (Key × PyObj))
    (hnd : (kvs.map (·.1)).Nodup) (k : Key) :
    lookupChild k ((dictOrder od s (shapeOfKVs cfg s kvs)).map (·.1))
        ((dictOrder od s (shapeOfKVs cfg s kvs)).map (·.2)) =
      (lookupKey k kvs).map (shapeOf cfg s) := by
  rw [lookupChild_unzip]
  have hp := shape_items_perm cfg s od kvs
  have hnd' : ((dictOrder od s (shapeOfKVs cfg s kvs)).map (·.1)).Nodup :=
    (shape_keys_perm cfg s od kvs).nodup_iff.mpr hnd
  rw [lookupKey_perm k hp hnd', lookupKey_map]

theorem mapM_lookup_some {α : Type} (ks : List Key) (kvs : List (Key × α)) (xs : List α)
    (h : ks.mapM (fun k => lookupKey k kvs) = some xs) :
    ks.filterMap (fun k => lookupKey k kvs) = xs := by
  induction ks generalizing xs with
  | nil => simp at h; subst h; rfl
  | cons k ks ih =>
    simp only [List.mapM_cons, Option.bind_eq_bind] at h
    cases hk : lookupKey k kvs with
    | none => simp [hk] at h
    | some v =>
      cases hm : ks.mapM (fun k => lookupKey k kvs) with
      | none => simp [hk, hm] at h
      | some vs =>
        simp [hk, hm] at h
        subst h
        simp [List.filterMap_cons, hk, ih vs hm]

theorem mapM_lookup_of_mem {α : Type} (ks : List Key) (kvs : List (Key × α))
    (h : ∀ k ∈ ks, k ∈ kvs.map (·.1)) : ∃ xs, ks.mapM (fun k => lookupKey k kvs) = some xs := by
  induction ks with
  | nil => exact ⟨[], rfl⟩
  | cons k ks ih =>
    obtain ⟨xs, hxs⟩ := ih (fun k' hk' => h k' (by simp [hk']))
    have hk := h k (by simp)
    have : ∃ v, lookupKey k kvs = some v := by
      clear hxs ih h
      induction kvs with
      | nil => simp at hk
      | cons p l ihl =>
        obtain ⟨k', v⟩ := p
        simp only [List.map_cons, List.mem_cons] at hk
        simp only [lookupKey]
        by_cases e : k' = k
        · exact ⟨v, by simp [e]⟩
        · have hne : (k' == k) = false := by simp [e]
          simp only [hne, Bool.false_eq_true, if_false]
          exact ihl (by rcases hk with hk | hk; exact absurd hk.symm e; exact hk)
    obtain ⟨v, hv⟩ := this
    exact ⟨v :: xs, by simp [List.mapM_cons, hv, hxs]⟩

theorem PyObj.wfList_of_values (kvs : List (Key × PyObj)) (h : PyObj.wfKVs kvs = true) (k : Key) (v : PyObj)
    (hv : lookupKey k kvs = some v) : v.wf = true := by
  induction kvs with
  | nil => simp [lookupKey] at hv
  | cons p l ih =>
    obtain ⟨k', x⟩ := p
    simp only [PyObj.wfKVs, Bool.and_eq_true] at h
    simp only [lookupKey] at hv
    split at hv
    · simp at hv; subst hv; exact h.1
    · exact ih h.2 hv

theorem PyObj.wfList_iff (xs : List PyObj) : PyObj.wfList xs = true ↔ ∀ x ∈ xs, x.wf = true := by
  induction xs with
  | nil => simp [PyObj.wfList]
  | cons x xs ih => simp [PyObj.wfList, ih]

/-! ### the agreement theorem -/

@[simp] theorem NodeData.isSome_none : NodeData.none.isSome = false := rfl
@[simp] theorem NodeData.isSome_keys (ks : List Key) : (NodeData.keys ks).isSome = true := rfl
@[simp] theorem NodeData.isSome_ddict (f : Option Nat) (ks : List Key) : (NodeData.ddict f ks).isSome = true := rfl
@[simp] theorem NodeData.isSome_cls (c : TypeId) : (NodeData.cls c).isSome = true := rfl
@[simp] theorem NodeData.isSome_maxlen (m : Option Nat) : (NodeData.maxlen m).isSome = true := rfl
@[simp] theorem NodeData.isSome_md (m : Option Key) : (NodeData.md m).isSome = true := rfl

def okB {α : Type} : Except Err α → Bool
  | .ok _ => true
  | .error _ => false

@[simp] theorem okB_error {α : Type} (e : Err) : okB (Except.error e : Except Err α) = false := rfl
@[simp] theorem okB_ok {α : Type} (x : α) : okB (Except.ok x : Except Err α) = true := rfl

theorem STree.good_node {reg : Registry} {ns : String} {i : NInfo} {cs : List STree}
    (h : (STree.node i cs).good reg ns = true) :
    i.fits = true ∧ i.regFree reg ns = true ∧ STree.goodL reg ns cs = true := by
  simp only [STree.good, Bool.and_eq_true] at h
  exact ⟨h.1.1, h.1.2, h.2⟩

/-- sequences: length guard plus the children, as a Boolean -/
theorem seq_okB (reg : Registry) (nil : Bool) (ns : String) (cs ds : List STree) (xs : List PyObj)
    (hds : ds.length = xs.length)
    (ih : xs.length = cs.length → okB (STree.upToL reg nil ns cs xs) = STree.prefixL cs ds) :
    okB (if (xs.length != cs.length) = true then (Except.error Err.value : Except Err (List PyObj))
         else STree.upToL reg nil ns cs xs) = (cs.length == ds.length && STree.prefixL cs ds) := by
  by_cases h : xs.length = cs.length
  · simp [h, ih h, hds]
  · have : ¬ (cs.length = xs.length) := fun e => h e.symm
    simp [h, hds, this]

/-- values looked up in a well-formed dict are well-formed -/
theorem wfList_of_lookup (ks : List Key) (kvs : List (Key × PyObj)) (h : PyObj.wfKVs kvs = true) :
    PyObj.wfList (ks.filterMap fun k => lookupKey k kvs) = true := by
  rw [PyObj.wfList_iff]
  intro x hx
  simp only [List.mem_filterMap] at hx
  obtain ⟨k, _, hk⟩ := hx
  exact PyObj.wfList_of_values kvs h k x hk

@[simp] theorem plainInfo_keys_keys (k : Kind) (ks : List Key) (ok : Option (List Key)) :
    (plainInfo k (.keys ks) ok).keys = ks := rfl
@[simp] theorem plainInfo_keys_ddict (k : Kind) (f : Option Nat) (ks : List Key) (ok : Option (List Key)) :
    (plainInfo k (.ddict f ks) ok).keys = ks := rfl
@[simp] theorem plainInfo_kind (k : Kind) (d : NodeData) (ok : Option (List Key)) : (plainInfo k d ok).kind = k := rfl
@[simp] theorem plainInfo_data (k : Kind) (d : NodeData) (ok : Option (List Key)) : (plainInfo k d ok).data = d := rfl
@[simp] theorem plainInfo_custom (k : Kind) (d : NodeData) (ok : Option (List Key)) :
    (plainInfo k d ok).custom = Option.none := rfl

/-- the heart of the dict case: keys matched as sets, values paired by key on both sides -/
theorem dict_core (cfg : Cfg) (s od : Bool) (i : NInfo) (cs : List STree) (kvs : List (Key × PyObj))
    (hkl : i.keys.length = cs.length)
    (hnd : (kvs.map (·.1)).Nodup) (hwk : PyObj.wfKVs kvs = true)
    (ihL : ∀ xs : List PyObj, PyObj.wfList xs = true → xs.length = cs.length →
      okB (STree.upToL cfg.reg cfg.noneIsLeaf cfg.ns cs xs) = STree.prefixL cs (shapeOfList cfg s xs)) :
    okB (if (!keySetEq i.keys (kvs.map (·.1))) = true then (Except.error Err.value : Except Err (List PyObj))
         else match i.keys.mapM (fun k => lookupKey k kvs) with
           | Option.none => .error .key
           | some xs => STree.upToL cfg.reg cfg.noneIsLeaf cfg.ns cs xs) =
      (cs.length == ((dictOrder od s (shapeOfKVs cfg s kvs)).map (·.2)).length &&
        (keySetEq i.keys ((dictOrder od s (shapeOfKVs cfg s kvs)).map (·.1)) &&
          STree.prefixD i.keys cs ((dictOrder od s (shapeOfKVs cfg s kvs)).map (·.1))
            ((dictOrder od s (shapeOfKVs cfg s kvs)).map (·.2)))) := by
  have hKp := shape_keys_perm cfg s od kvs
  rw [keySetEq_perm_right i.keys hKp]
  by_cases hks : keySetEq i.keys (kvs.map (·.1)) = true
  · obtain ⟨hlen, hmem⟩ := (keySetEq_iff _ _).mp hks
    obtain ⟨xs, hxs⟩ := mapM_lookup_of_mem i.keys kvs hmem
    have hxf := mapM_lookup_some i.keys kvs xs hxs
    have hxl : xs.length = cs.length := by rw [mapM_option_length _ _ _ hxs, hkl]
    have hxw : PyObj.wfList xs = true := by rw [← hxf]; exact wfList_of_lookup i.keys kvs hwk
    have hKl : ((dictOrder od s (shapeOfKVs cfg s kvs)).map (·.1)).length =
        ((dictOrder od s (shapeOfKVs cfg s kvs)).map (·.2)).length := by simp
    have hDl : ((dictOrder od s (shapeOfKVs cfg s kvs)).map (·.2)).length = cs.length := by
      rw [← hKl, hKp.length_eq, ← hkl, hlen]
    have hmemK : ∀ k ∈ i.keys, k ∈ (dictOrder od s (shapeOfKVs cfg s kvs)).map (·.1) :=
      fun k hk => hKp.mem_iff.mpr (hmem k hk)
    rw [STree.prefixD_eq _ _ hKl i.keys cs hkl hmemK]
    have hpick : pickD i.keys ((dictOrder od s (shapeOfKVs cfg s kvs)).map (·.1))
        ((dictOrder od s (shapeOfKVs cfg s kvs)).map (·.2)) = shapeOfList cfg s xs := by
      unfold pickD
      rw [shapeOfList_eq, ← hxf, List.map_filterMap]
      apply filterMap_congr'
      intro k _
      exact shape_lookup cfg s od kvs hnd k
    rw [hpick]
    simp only [hks, Bool.not_true, Bool.false_eq_true, if_false, hxs, hDl, beq_self_eq_true, Bool.true_and]
    exact ihL xs hxw hxl
  · simp [hks]

/-- a dict-kind shape node against any tree -/
theorem dict_case (cfg : Cfg) (s : Bool) (i : NInfo) (cs : List STree)
    (hk : i.kind = .dict ∨ i.kind = .ordereddict ∨ i.kind = .defaultdict)
    (hkl : i.keys.length = cs.length) (hd : i.data.isSome = true) (hc : i.custom = Option.none)
    (ihL : ∀ xs : List PyObj, PyObj.wfList xs = true → xs.length = cs.length →
      okB (STree.upToL cfg.reg cfg.noneIsLeaf cfg.ns cs xs) = STree.prefixL cs (shapeOfList cfg s xs))
    (t : PyObj) (ht : t.wf = true) :
    okB ((STree.node i cs).upTo cfg.reg cfg.noneIsLeaf cfg.ns t) =
      (STree.node i cs).prefixB (shapeOf cfg s t) := by
  have hup : (STree.node i cs).upTo cfg.reg cfg.noneIsLeaf cfg.ns t =
      match dictItems? t with
      | Option.none => .error .value
      | some kvs =>
          if !keySetEq i.keys (kvs.map (·.1)) then .error .value
          else match i.keys.mapM (fun k => lookupKey k kvs) with
            | Option.none => .error .key
            | some xs => STree.upToL cfg.reg cfg.noneIsLeaf cfg.ns cs xs := by
    rcases hk with hk | hk | hk <;> simp only [STree.upTo, hk] <;> rfl
  have hpre : ∀ (j : NInfo) (ds : List STree), (STree.node i cs).prefixB (.node j ds) =
      (cs.length == ds.length && i.data.isSome == j.data.isSome && i.custom == j.custom &&
        (j.kind.isDict && keySetEq i.keys j.keys && STree.prefixD i.keys cs j.keys ds)) := by
    intro j ds
    rcases hk with hk | hk | hk <;> simp only [STree.prefixB, hk]
  rw [hup]
  cases t
  case dict kvs =>
    simp only [PyObj.wf, Bool.and_eq_true, decide_eq_true_eq] at ht
    simp only [dictItems?, shapeOf, hpre, plainInfo_keys_keys, plainInfo_kind, plainInfo_data, plainInfo_custom, hd, hc, NodeData.isSome_keys, Kind.isDict,
      beq_self_eq_true, Bool.and_true, Bool.true_and]
    exact dict_core cfg s false i cs kvs hkl ht.1 ht.2 ihL
  case odict kvs =>
    simp only [PyObj.wf, Bool.and_eq_true, decide_eq_true_eq] at ht
    simp only [dictItems?, shapeOf, hpre, plainInfo_keys_keys, plainInfo_kind, plainInfo_data, plainInfo_custom, hd, hc, NodeData.isSome_keys, Kind.isDict,
      beq_self_eq_true, Bool.and_true, Bool.true_and]
    have := dict_core cfg s true i cs kvs hkl ht.1 ht.2 ihL
    simpa [dictOrder] using this
  case ddict f kvs =>
    simp only [PyObj.wf, Bool.and_eq_true, decide_eq_true_eq] at ht
    simp only [dictItems?, shapeOf, hpre, plainInfo_keys_ddict, plainInfo_kind, plainInfo_data, plainInfo_custom, hd, hc, NodeData.isSome_ddict, Kind.isDict,
      beq_self_eq_true, Bool.and_true, Bool.true_and]
    exact dict_core cfg s false i cs kvs hkl ht.1 ht.2 ihL
  all_goals
    simp only [dictItems?, shapeOf]
    repeat' split
    all_goals first
      | (simp [STree.prefixB]; done)
      | (rw [hpre]; simp [plainInfo, Kind.isDict])

mutual
theorem upTo_iff_prefix (cfg : Cfg) (s : Bool) : ∀ a : STree, a.wf = true →
    a.good cfg.reg cfg.ns = true → ∀ t : PyObj, t.wf = true →
      okB (a.upTo cfg.reg cfg.noneIsLeaf cfg.ns t) = a.prefixB (shapeOf cfg s t)
  | .leaf, _, _, t, _ => by simp [STree.upTo, STree.prefixB]
  | .node i cs, ha, hg, t, ht => by
      obtain ⟨hnl, hnone, hdict, hw⟩ := STree.wf_node ha
      obtain ⟨hfit, hrf, hgl⟩ := STree.good_node hg
      have ihL := upToL_iff_prefix cfg s cs hw hgl
      have seq : ∀ xs : List PyObj, PyObj.wfList xs = true →
          okB (if (xs.length != cs.length) = true then (Except.error Err.value : Except Err (List PyObj))
               else STree.upToL cfg.reg cfg.noneIsLeaf cfg.ns cs xs) =
            (cs.length == (shapeOfList cfg s xs).length && STree.prefixL cs (shapeOfList cfg s xs)) :=
        fun xs hx => seq_okB _ _ _ cs _ xs (shapeOfList_length cfg s xs) (ihL xs hx)
      rcases Kind.cases_eq i.kind with hkind | hkind | hkind | hkind | hkind | hkind | hkind | hkind |
          hkind | hkind | hkind
      · -- custom
        have hd : i.data.isSome = true := by
          simp only [NInfo.fits, hkind, Bool.and_eq_true] at hfit; exact hfit.1
        obtain ⟨nreg, hcus⟩ : ∃ r, i.custom = some r := by
          simp only [NInfo.fits, hkind, Bool.and_eq_true] at hfit
          exact Option.isSome_iff_exists.mp hfit.2
        cases t
        case user cls md q xs =>
          simp only [PyObj.wf, Bool.and_eq_true, beq_iff_eq] at ht
          have hq := ht.1; subst hq
          simp only [STree.upTo, hkind, hcus, shapeOf, lookupForObject]
          rcases Option.eq_none_or_eq_some (cfg.reg.lookup cfg.ns 0 cls) with hl | ⟨reg', hl⟩
          · simp only [hl]
            simp [STree.prefixB, hkind, plainInfo]
          · simp only [hl]
            by_cases hreg : reg' = nreg
            · subst hreg
              have hco : customOut reg' (PyObj.user cls md Quirk.ok xs) = customOutOf reg' md .ok xs := rfl
              have hno : ((customOutOf reg' md .ok xs).numOut != 2 && (customOutOf reg' md .ok xs).numOut != 3) = false := by
                simp only [customOutOf]; cases reg'.mode <;> simp
              simp only [bne_self_eq_false, Bool.false_eq_true, if_false, hco, hno]
              simp only [customOutOf, STree.prefixB, hkind, hd, hcus, NodeData.isSome_md, beq_self_eq_true,
                Bool.and_true, Bool.true_and, Bool.not_true, Bool.false_or]
              have hs := seq xs ht.2
              by_cases hdat : i.data = NodeData.md md
              · simp only [hdat, bne_self_eq_false, Bool.false_eq_true, if_false, beq_self_eq_true, Bool.true_and]
                exact hs
              · simp [hdat]
            · have : (some reg' != some nreg) = true := by simp [hreg]
              have h2 : (some nreg == some reg') = false := by
                simp only [beq_eq_false_iff_ne, ne_eq, Option.some.injEq]; exact fun e => hreg e.symm
              simp [this, STree.prefixB, hcus, h2]
        case ntuple cls xs =>
          simp only [PyObj.wf, Bool.and_eq_true, beq_iff_eq] at ht
          skip
          simp only [STree.upTo, hkind, hcus, shapeOf, lookupForObject]
          rcases Option.eq_none_or_eq_some (cfg.reg.lookup cfg.ns 1 cls) with hl | ⟨reg', hl⟩
          · simp only [hl]
            simp [STree.prefixB, hkind, plainInfo]
          · simp only [hl]
            by_cases hreg : reg' = nreg
            · subst hreg
              have hco : customOut reg' (PyObj.ntuple cls xs) = customOutOf reg' Option.none .ok xs := rfl
              have hno : ((customOutOf reg' Option.none .ok xs).numOut != 2 && (customOutOf reg' Option.none .ok xs).numOut != 3) = false := by
                simp only [customOutOf]; cases reg'.mode <;> simp
              simp only [bne_self_eq_false, Bool.false_eq_true, if_false, hco, hno]
              simp only [customOutOf, STree.prefixB, hkind, hd, hcus, NodeData.isSome_md, beq_self_eq_true,
                Bool.and_true, Bool.true_and, Bool.not_true, Bool.false_or]
              have hs := seq xs ht
              by_cases hdat : i.data = NodeData.md Option.none
              · simp only [hdat, bne_self_eq_false, Bool.false_eq_true, if_false, beq_self_eq_true, Bool.true_and]
                exact hs
              · simp [hdat]
            · have : (some reg' != some nreg) = true := by simp [hreg]
              have h2 : (some nreg == some reg') = false := by
                simp only [beq_eq_false_iff_ne, ne_eq, Option.some.injEq]; exact fun e => hreg e.symm
              simp [this, STree.prefixB, hcus, h2]
        case sseq cls xs =>
          simp only [PyObj.wf, Bool.and_eq_true, beq_iff_eq] at ht
          skip
          simp only [STree.upTo, hkind, hcus, shapeOf, lookupForObject]
          rcases Option.eq_none_or_eq_some (cfg.reg.lookup cfg.ns 2 cls) with hl | ⟨reg', hl⟩
          · simp only [hl]
            simp [STree.prefixB, hkind, plainInfo]
          · simp only [hl]
            by_cases hreg : reg' = nreg
            · subst hreg
              have hco : customOut reg' (PyObj.sseq cls xs) = customOutOf reg' Option.none .ok xs := rfl
              have hno : ((customOutOf reg' Option.none .ok xs).numOut != 2 && (customOutOf reg' Option.none .ok xs).numOut != 3) = false := by
                simp only [customOutOf]; cases reg'.mode <;> simp
              simp only [bne_self_eq_false, Bool.false_eq_true, if_false, hco, hno]
              simp only [customOutOf, STree.prefixB, hkind, hd, hcus, NodeData.isSome_md, beq_self_eq_true,
                Bool.and_true, Bool.true_and, Bool.not_true, Bool.false_or]
              have hs := seq xs ht
              by_cases hdat : i.data = NodeData.md Option.none
              · simp only [hdat, bne_self_eq_false, Bool.false_eq_true, if_false, beq_self_eq_true, Bool.true_and]
                exact hs
              · simp [hdat]
            · have : (some reg' != some nreg) = true := by simp [hreg]
              have h2 : (some nreg == some reg') = false := by
                simp only [beq_eq_false_iff_ne, ne_eq, Option.some.injEq]; exact fun e => hreg e.symm
              simp [this, STree.prefixB, hcus, h2]
        case none =>
          have hL : okB ((STree.node i cs).upTo cfg.reg cfg.noneIsLeaf cfg.ns PyObj.none) = false := by
            simp [STree.upTo, hkind, hcus, lookupForObject]
          rw [hL]
          simp only [shapeOf]
          by_cases hn : cfg.noneIsLeaf = true
          · rw [if_pos hn]; simp [STree.prefixB]
          · rw [if_neg hn]; simp [STree.prefixB, hkind, plainInfo]
        all_goals
          simp only [STree.upTo, hkind, hcus, shapeOf, lookupForObject]
          repeat' split
          all_goals simp [STree.prefixB, hkind, plainInfo]
      · exact absurd hkind hnl
      · -- none
        have hcs := hnone hkind
        subst hcs
        have hd : i.data.isSome = false := by
          simp only [NInfo.fits, hkind, Bool.and_eq_true, Bool.not_eq_true'] at hfit; exact hfit.1
        have hc : i.custom = Option.none := by
          simp only [NInfo.fits, hkind, Bool.and_eq_true, Option.isNone_iff_eq_none] at hfit; exact hfit.2
        by_cases hn : cfg.noneIsLeaf = true
        · cases t
          all_goals
            simp only [STree.upTo, hkind, shapeOf, hn, if_true]
            repeat' split
            all_goals simp [STree.prefixB, hkind, plainInfo]
        · cases t
          case none =>
            simp only [STree.upTo, hkind, shapeOf, hn, if_false]
            simp [STree.upToL, STree.prefixB, hkind, plainInfo, hd, hc, STree.prefixL]
          all_goals
            simp only [STree.upTo, hkind, shapeOf, hn]
            repeat' split
            all_goals simp [STree.prefixB, hkind, plainInfo]
      · -- tuple
        have hd : i.data.isSome = false := by
          simp only [NInfo.fits, hkind, Bool.and_eq_true, Bool.not_eq_true'] at hfit; exact hfit.1
        have hc : i.custom = Option.none := by
          simp only [NInfo.fits, hkind, Bool.and_eq_true, Option.isNone_iff_eq_none] at hfit; exact hfit.2
        cases t
        case tuple xs =>
          simp only [PyObj.wf, Bool.and_eq_true] at ht
          simp only [STree.upTo, hkind, shapeOf, STree.prefixB, plainInfo, hd, hc, NodeData.isSome_none,
            NodeData.isSome_maxlen, beq_self_eq_true, Bool.and_true, Bool.true_and]
          exact seq xs ht
        all_goals
          simp only [STree.upTo, hkind, shapeOf]
          repeat' split
          all_goals simp [STree.prefixB, hkind, plainInfo]
      · -- list
        have hd : i.data.isSome = false := by
          simp only [NInfo.fits, hkind, Bool.and_eq_true, Bool.not_eq_true'] at hfit; exact hfit.1
        have hc : i.custom = Option.none := by
          simp only [NInfo.fits, hkind, Bool.and_eq_true, Option.isNone_iff_eq_none] at hfit; exact hfit.2
        cases t
        case list xs =>
          simp only [PyObj.wf, Bool.and_eq_true] at ht
          simp only [STree.upTo, hkind, shapeOf, STree.prefixB, plainInfo, hd, hc, NodeData.isSome_none,
            NodeData.isSome_maxlen, beq_self_eq_true, Bool.and_true, Bool.true_and]
          exact seq xs ht
        all_goals
          simp only [STree.upTo, hkind, shapeOf]
          repeat' split
          all_goals simp [STree.prefixB, hkind, plainInfo]
      · -- dict
        obtain ⟨hkl, _⟩ := hdict (by simp [hkind, Kind.isDict])
        have hd : i.data.isSome = true := by
          simp only [NInfo.fits, hkind, Bool.and_eq_true] at hfit; exact hfit.1
        have hc : i.custom = Option.none := by
          simp only [NInfo.fits, hkind, Bool.and_eq_true, Option.isNone_iff_eq_none] at hfit; exact hfit.2
        exact dict_case cfg s i cs (by simp [hkind]) hkl hd hc ihL t ht
      · -- namedtuple
        have hd : i.data.isSome = true := by
          simp only [NInfo.fits, hkind, Bool.and_eq_true] at hfit; exact hfit.1
        have hc : i.custom = Option.none := by
          simp only [NInfo.fits, hkind, Bool.and_eq_true, Option.isNone_iff_eq_none] at hfit; exact hfit.2
        cases t
        case ntuple cls xs =>
          simp only [PyObj.wf] at ht
          simp only [STree.upTo, hkind, shapeOf]
          cases hl : cfg.reg.lookup cfg.ns 1 cls with
          | none =>
            simp only [STree.prefixB, plainInfo, hkind, hd, hc, NodeData.isSome_cls, beq_self_eq_true,
              Bool.and_true, Bool.true_and, Bool.not_true, Bool.false_or]
            have hs := seq xs ht
            by_cases hx : xs.length = cs.length
            · simp only [hx, bne_self_eq_false, Bool.false_eq_true, if_false] at hs ⊢
              by_cases hdat : i.data = NodeData.cls cls
              · simp only [hdat, bne_self_eq_false, Bool.false_eq_true, if_false, beq_self_eq_true,
                  Bool.true_and]
                simpa [hx] using hs
              · simp [hdat]
            · have : ¬ (cs.length = (shapeOfList cfg s xs).length) := by
                rw [shapeOfList_length]; exact fun e => hx e.symm
              simp [hx, this]
          | some reg =>
            -- the class is registered: `flatten` makes a custom node; the shape must not name that class
            simp only [STree.prefixB, hkind]
            by_cases hx : xs.length = cs.length
            · by_cases hdat : i.data = NodeData.cls cls
              · exfalso
                simp only [NInfo.regFree, hkind, hdat, hl] at hrf
                simp at hrf
              · simp [hx, hdat]
            · simp [hx]
        all_goals
          simp only [STree.upTo, hkind, shapeOf]
          repeat' split
          all_goals simp [STree.prefixB, hkind, plainInfo]
      · -- ordereddict
        obtain ⟨hkl, _⟩ := hdict (by simp [hkind, Kind.isDict])
        have hd : i.data.isSome = true := by
          simp only [NInfo.fits, hkind, Bool.and_eq_true] at hfit; exact hfit.1
        have hc : i.custom = Option.none := by
          simp only [NInfo.fits, hkind, Bool.and_eq_true, Option.isNone_iff_eq_none] at hfit; exact hfit.2
        exact dict_case cfg s i cs (by simp [hkind]) hkl hd hc ihL t ht
      · -- defaultdict
        obtain ⟨hkl, _⟩ := hdict (by simp [hkind, Kind.isDict])
        have hd : i.data.isSome = true := by
          simp only [NInfo.fits, hkind, Bool.and_eq_true] at hfit; exact hfit.1
        have hc : i.custom = Option.none := by
          simp only [NInfo.fits, hkind, Bool.and_eq_true, Option.isNone_iff_eq_none] at hfit; exact hfit.2
        exact dict_case cfg s i cs (by simp [hkind]) hkl hd hc ihL t ht
      · -- deque
        have hd : i.data.isSome = true := by
          simp only [NInfo.fits, hkind, Bool.and_eq_true] at hfit; exact hfit.1
        have hc : i.custom = Option.none := by
          simp only [NInfo.fits, hkind, Bool.and_eq_true, Option.isNone_iff_eq_none] at hfit; exact hfit.2
        cases t
        case deque m xs =>
          simp only [PyObj.wf, Bool.and_eq_true] at ht
          simp only [STree.upTo, hkind, shapeOf, STree.prefixB, plainInfo, hd, hc, NodeData.isSome_none,
            NodeData.isSome_maxlen, beq_self_eq_true, Bool.and_true, Bool.true_and]
          exact seq xs ht.2
        all_goals
          simp only [STree.upTo, hkind, shapeOf]
          repeat' split
          all_goals simp [STree.prefixB, hkind, plainInfo]
      · -- structseq
        have hd : i.data.isSome = true := by
          simp only [NInfo.fits, hkind, Bool.and_eq_true] at hfit; exact hfit.1
        have hc : i.custom = Option.none := by
          simp only [NInfo.fits, hkind, Bool.and_eq_true, Option.isNone_iff_eq_none] at hfit; exact hfit.2
        cases t
        case sseq cls xs =>
          simp only [PyObj.wf] at ht
          simp only [STree.upTo, hkind, shapeOf]
          cases hl : cfg.reg.lookup cfg.ns 2 cls with
          | none =>
            simp only [STree.prefixB, plainInfo, hkind, hd, hc, NodeData.isSome_cls, beq_self_eq_true,
              Bool.and_true, Bool.true_and, Bool.not_true, Bool.false_or]
            have hs := seq xs ht
            by_cases hx : xs.length = cs.length
            · simp only [hx, bne_self_eq_false, Bool.false_eq_true, if_false] at hs ⊢
              by_cases hdat : i.data = NodeData.cls cls
              · simp only [hdat, bne_self_eq_false, Bool.false_eq_true, if_false, beq_self_eq_true,
                  Bool.true_and]
                simpa [hx] using hs
              · simp [hdat]
            · have : ¬ (cs.length = (shapeOfList cfg s xs).length) := by
                rw [shapeOfList_length]; exact fun e => hx e.symm
              simp [hx, this]
          | some reg =>
            -- the class is registered: `flatten` makes a custom node; the shape must not name that class
            simp only [STree.prefixB, hkind]
            by_cases hx : xs.length = cs.length
            · by_cases hdat : i.data = NodeData.cls cls
              · exfalso
                simp only [NInfo.regFree, hkind, hdat, hl] at hrf
                simp at hrf
              · simp [hx, hdat]
            · simp [hx]
        all_goals
          simp only [STree.upTo, hkind, shapeOf]
          repeat' split
          all_goals simp [STree.prefixB, hkind, plainInfo]
theorem upToL_iff_prefix (cfg : Cfg) (s : Bool) : ∀ cs : List STree, STree.wfL cs = true →
    STree.goodL cfg.reg cfg.ns cs = true → ∀ xs : List PyObj, PyObj.wfList xs = true →
    xs.length = cs.length →
      okB (STree.upToL cfg.reg cfg.noneIsLeaf cfg.ns cs xs) = STree.prefixL cs (shapeOfList cfg s xs)
  | [], _, _, xs, _, hl => by
      have : xs = [] := List.length_eq_zero_iff.mp hl
      subst this
      simp [STree.upToL, shapeOfList, STree.prefixL]
  | c :: cs, hw, hg, xs, hx, hl => by
      cases xs with
      | nil => simp at hl
      | cons x xs =>
        simp only [STree.wfL, STree.goodL, PyObj.wfList, Bool.and_eq_true] at hw hg hx
        simp only [List.length_cons, Nat.add_right_cancel_iff] at hl
        have h1 := upTo_iff_prefix cfg s c hw.1 hg.1 x hx.1
        have h2 := upToL_iff_prefix cfg s cs hw.2 hg.2 xs hx.2 hl
        simp only [STree.upToL, shapeOfList, STree.prefixL, ← h1, ← h2]
        cases STree.upToL cfg.reg cfg.noneIsLeaf cfg.ns cs xs <;>
          cases STree.upTo cfg.reg cfg.noneIsLeaf cfg.ns c x <;> simp
end

/-! ### shapes made by `flatten` are well-formed and fit their registry -/

theorem STree.goodL_iff (reg : Registry) (ns : String) (cs : List STree) :
    STree.goodL reg ns cs = true ↔ ∀ c ∈ cs, c.good reg ns = true := by
  induction cs with
  | nil => simp [STree.goodL]
  | cons c cs ih => simp [STree.goodL, ih]

def WG (cfg : Cfg) (s : Bool) (t : PyObj) : Prop :=
  (shapeOf cfg s t).wf = true ∧ (shapeOf cfg s t).good cfg.reg cfg.ns = true

theorem wg_list (cfg : Cfg) (s : Bool) (xs : List PyObj) (ih : ∀ x ∈ xs, WG cfg s x) :
    STree.wfL (shapeOfList cfg s xs) = true ∧ STree.goodL cfg.reg cfg.ns (shapeOfList cfg s xs) = true := by
  rw [shapeOfList_eq, STree.wfL_iff, STree.goodL_iff]
  constructor <;> intro c hc <;> simp only [List.mem_map] at hc <;> obtain ⟨x, hx, rfl⟩ := hc
  · exact (ih x hx).1
  · exact (ih x hx).2

theorem wg_items (cfg : Cfg) (s od : Bool) (kvs : List (Key × PyObj)) (ih : ∀ p ∈ kvs, WG cfg s p.2) :
    STree.wfL ((dictOrder od s (shapeOfKVs cfg s kvs)).map (·.2)) = true ∧
      STree.goodL cfg.reg cfg.ns ((dictOrder od s (shapeOfKVs cfg s kvs)).map (·.2)) = true := by
  rw [STree.wfL_iff, STree.goodL_iff]
  have hmem : ∀ c ∈ (dictOrder od s (shapeOfKVs cfg s kvs)).map (·.2), ∃ p ∈ kvs, c = shapeOf cfg s p.2 := by
    intro c hc
    simp only [List.mem_map] at hc
    obtain ⟨q, hq, rfl⟩ := hc
    have := (shape_items_perm cfg s od kvs).subset hq
    simp only [List.mem_map] at this
    obtain ⟨p, hp, rfl⟩ := this
    exact ⟨p, hp, rfl⟩
  constructor <;> intro c hc <;> obtain ⟨p, hp, rfl⟩ := hmem c hc
  · exact (ih p hp).1
  · exact (ih p hp).2

theorem wf_mk (i : NInfo) (cs : List STree) (h1 : i.kind ≠ .leaf) (h2 : i.kind = .none → cs = [])
    (h3 : i.kind.isDict = true → i.keys.length = cs.length ∧ i.keys.Nodup) (h4 : STree.wfL cs = true) :
    (STree.node i cs).wf = true := by
  simp only [STree.wf, Bool.and_eq_true, bne_iff_ne, ne_eq, Bool.or_eq_true, Bool.not_eq_true',
    List.isEmpty_iff, beq_iff_eq, decide_eq_true_eq]
  refine ⟨⟨⟨h1, ?_⟩, ?_⟩, h4⟩
  · by_cases hk : i.kind = .none
    · right; exact h2 hk
    · left; exact hk
  · by_cases hd : i.kind.isDict = true
    · right; exact h3 hd
    · left; simpa using hd

mutual
theorem wg (cfg : Cfg) (s : Bool) : ∀ t : PyObj, t.wf = true → WG cfg s t
  | .leaf _ _, _ => ⟨rfl, rfl⟩
  | .none, _ => by
      unfold WG
      simp only [shapeOf]
      by_cases hn : cfg.noneIsLeaf = true
      · rw [if_pos hn]; exact ⟨rfl, rfl⟩
      · rw [if_neg hn]; exact ⟨by decide, by simp [STree.good, NInfo.fits, NInfo.regFree, plainInfo, STree.goodL]⟩
  | .tuple xs, h => by
      simp only [PyObj.wf] at h
      obtain ⟨h1, h2⟩ := wg_list cfg s xs (wgList cfg s xs h)
      exact ⟨wf_mk _ _ (by simp [plainInfo]) (by simp [plainInfo]) (by simp [plainInfo, Kind.isDict]) h1,
        by simp [shapeOf, STree.good, NInfo.fits, NInfo.regFree, plainInfo, h2]⟩
  | .list xs, h => by
      simp only [PyObj.wf] at h
      obtain ⟨h1, h2⟩ := wg_list cfg s xs (wgList cfg s xs h)
      exact ⟨wf_mk _ _ (by simp [plainInfo]) (by simp [plainInfo]) (by simp [plainInfo, Kind.isDict]) h1,
        by simp [shapeOf, STree.good, NInfo.fits, NInfo.regFree, plainInfo, h2]⟩
  | .deque m xs, h => by
      simp only [PyObj.wf, Bool.and_eq_true] at h
      obtain ⟨h1, h2⟩ := wg_list cfg s xs (wgList cfg s xs h.2)
      exact ⟨wf_mk _ _ (by simp [plainInfo]) (by simp [plainInfo]) (by simp [plainInfo, Kind.isDict]) h1,
        by simp [shapeOf, STree.good, NInfo.fits, NInfo.regFree, plainInfo, h2]⟩
  | .dict kvs, h => by
      simp only [PyObj.wf, Bool.and_eq_true, decide_eq_true_eq] at h
      obtain ⟨h1, h2⟩ := wg_items cfg s false kvs (wgKVs cfg s kvs h.2)
      have hp := shape_keys_perm cfg s false kvs
      exact ⟨wf_mk _ _ (by simp [plainInfo]) (by simp [plainInfo])
          (by intro _; simp only [plainInfo_keys_keys, List.length_map]; exact ⟨trivial, hp.nodup_iff.mpr h.1⟩) h1,
        by simp [shapeOf, STree.good, NInfo.fits, NInfo.regFree, plainInfo, h2]⟩
  | .odict kvs, h => by
      simp only [PyObj.wf, Bool.and_eq_true, decide_eq_true_eq] at h
      obtain ⟨h1, h2⟩ := wg_items cfg s true kvs (wgKVs cfg s kvs h.2)
      have hp := shape_keys_perm cfg s true kvs
      simp only [dictOrder, Bool.not_true, Bool.false_and, Bool.false_eq_true, if_false] at h1 h2 hp
      exact ⟨wf_mk _ _ (by simp [plainInfo]) (by simp [plainInfo])
          (by intro _; simp only [plainInfo_keys_keys, List.length_map]; exact ⟨trivial, hp.nodup_iff.mpr h.1⟩) h1,
        by simp [shapeOf, STree.good, NInfo.fits, NInfo.regFree, plainInfo, h2]⟩
  | .ddict f kvs, h => by
      simp only [PyObj.wf, Bool.and_eq_true, decide_eq_true_eq] at h
      obtain ⟨h1, h2⟩ := wg_items cfg s false kvs (wgKVs cfg s kvs h.2)
      have hp := shape_keys_perm cfg s false kvs
      exact ⟨wf_mk _ _ (by simp [plainInfo]) (by simp [plainInfo])
          (by intro _; simp only [plainInfo_keys_ddict, List.length_map]; exact ⟨trivial, hp.nodup_iff.mpr h.1⟩) h1,
        by simp [shapeOf, STree.good, NInfo.fits, NInfo.regFree, plainInfo, h2]⟩
  | .ntuple cls xs, h => by
      simp only [PyObj.wf] at h
      obtain ⟨h1, h2⟩ := wg_list cfg s xs (wgList cfg s xs h)
      unfold WG
      simp only [shapeOf]
      rcases Option.eq_none_or_eq_some (cfg.reg.lookup cfg.ns 1 cls) with hl | ⟨reg, hl⟩
      · simp only [hl]
        exact ⟨wf_mk _ _ (by simp [plainInfo]) (by simp [plainInfo]) (by simp [plainInfo, Kind.isDict]) h1,
          by simp [STree.good, NInfo.fits, NInfo.regFree, plainInfo, h2, hl]⟩
      · simp only [hl]
        exact ⟨wf_mk _ _ (by simp) (by simp) (by simp [Kind.isDict]) h1,
          by simp [STree.good, NInfo.fits, NInfo.regFree, h2]⟩
  | .sseq cls xs, h => by
      simp only [PyObj.wf] at h
      obtain ⟨h1, h2⟩ := wg_list cfg s xs (wgList cfg s xs h)
      unfold WG
      simp only [shapeOf]
      rcases Option.eq_none_or_eq_some (cfg.reg.lookup cfg.ns 2 cls) with hl | ⟨reg, hl⟩
      · simp only [hl]
        exact ⟨wf_mk _ _ (by simp [plainInfo]) (by simp [plainInfo]) (by simp [plainInfo, Kind.isDict]) h1,
          by simp [STree.good, NInfo.fits, NInfo.regFree, plainInfo, h2, hl]⟩
      · simp only [hl]
        exact ⟨wf_mk _ _ (by simp) (by simp) (by simp [Kind.isDict]) h1,
          by simp [STree.good, NInfo.fits, NInfo.regFree, h2]⟩
  | .user cls md q xs, h => by
      simp only [PyObj.wf, Bool.and_eq_true] at h
      obtain ⟨h1, h2⟩ := wg_list cfg s xs (wgList cfg s xs h.2)
      unfold WG
      simp only [shapeOf]
      rcases Option.eq_none_or_eq_some (cfg.reg.lookup cfg.ns 0 cls) with hl | ⟨reg, hl⟩
      · simp only [hl]; exact ⟨rfl, rfl⟩
      · simp only [hl]
        exact ⟨wf_mk _ _ (by simp) (by simp) (by simp [Kind.isDict]) h1,
          by simp [STree.good, NInfo.fits, NInfo.regFree, h2]⟩
theorem wgList (cfg : Cfg) (s : Bool) : ∀ xs : List PyObj, PyObj.wfList xs = true → ∀ x ∈ xs, WG cfg s x
  | [], _ => by intro x hx; simp at hx
  | y :: ys, hwf => by
      simp only [PyObj.wfList, Bool.and_eq_true] at hwf
      intro x hx
      simp only [List.mem_cons] at hx
      rcases hx with hx | hx
      · subst hx; exact wg cfg s x hwf.1
      · exact wgList cfg s ys hwf.2 x hx
theorem wgKVs (cfg : Cfg) (s : Bool) : ∀ kvs : List (Key × PyObj), PyObj.wfKVs kvs = true →
    ∀ p ∈ kvs, WG cfg s p.2
  | [], _ => by intro p hp; simp at hp
  | (k, y) :: ys, hwf => by
      simp only [PyObj.wfKVs, Bool.and_eq_true] at hwf
      intro p hp
      simp only [List.mem_cons] at hp
      rcases hp with hp | hp
      · subst hp; exact wg cfg s y hwf.1
      · exact wgKVs cfg s ys hwf.2 p hp
end

end Optree
