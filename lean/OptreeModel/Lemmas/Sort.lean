/-
  Lemmas about `sortBy` / `totalOrderSortOn` (helper file; the property theorems live in
  `Properties/`).
-/
import OptreeModel.Model.Sort

namespace Optree

theorem insertBy_perm {α : Type} (lt : α → α → Bool) (x : α) (xs : List α) :
    (insertBy lt x xs).Perm (x :: xs) := by
  induction xs with
  | nil => simp [insertBy]
  | cons y ys ih =>
    unfold insertBy
    split
    · exact (List.Perm.cons y ih).trans (List.Perm.swap x y ys)
    · exact List.Perm.refl _

theorem sortBy_perm {α : Type} (lt : α → α → Bool) (xs : List α) : (sortBy lt xs).Perm xs := by
  induction xs with
  | nil => simp [sortBy]
  | cons x xs ih =>
    unfold sortBy
    exact (insertBy_perm lt x _).trans (List.Perm.cons x ih)

theorem totalOrderSortOn_perm {α : Type} (f : α → Key) (xs : List α) :
    (totalOrderSortOn f xs).Perm xs := by
  unfold totalOrderSortOn
  simp only
  split
  · exact sortBy_perm _ _
  · split
    · exact sortBy_perm _ _
    · exact List.Perm.refl _

theorem insertBy_map {α β : Type} (g : α → β) (lt : α → α → Bool) (lt' : β → β → Bool)
    (h : ∀ a b, lt' (g a) (g b) = lt a b) (x : α) (xs : List α) :
    insertBy lt' (g x) (xs.map g) = (insertBy lt x xs).map g := by
  induction xs with
  | nil => simp [insertBy]
  | cons y ys ih =>
    simp only [List.map, insertBy, h]
    split <;> simp [ih]

theorem sortBy_map {α β : Type} (g : α → β) (lt : α → α → Bool) (lt' : β → β → Bool)
    (h : ∀ a b, lt' (g a) (g b) = lt a b) (xs : List α) :
    sortBy lt' (xs.map g) = (sortBy lt xs).map g := by
  induction xs with
  | nil => simp [sortBy]
  | cons x xs ih =>
    simp only [List.map, sortBy, ih]
    exact insertBy_map g lt lt' h x _

/-- sorting items by their key commutes with any map that preserves the key -/
theorem totalOrderSortOn_map {α β : Type} (f : α → Key) (f' : β → Key) (g : α → β)
    (h : ∀ a, f' (g a) = f a) (xs : List α) :
    totalOrderSortOn f' (xs.map g) = (totalOrderSortOn f xs).map g := by
  unfold totalOrderSortOn
  have hk : (xs.map g).map f' = xs.map f := by
    simp [List.map_map, Function.comp_def, h]
  simp only [hk]
  split
  · exact sortBy_map g _ _ (by intro a b; simp [h]) xs
  · split
    · exact sortBy_map g _ _ (by intro a b; simp [h]) xs
    · rfl

theorem totalOrderSortOn_length {α : Type} (f : α → Key) (xs : List α) :
    (totalOrderSortOn f xs).length = xs.length :=
  (totalOrderSortOn_perm f xs).length_eq

end Optree
