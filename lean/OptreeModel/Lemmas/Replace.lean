/-
  Replacement leaves (third clause of C01): unflattening a treespec with *any* list of leaf-typed
  objects of the right length builds a tree that flattens back to exactly those objects and the same
  node array.  By mutual structural induction over the tree, in parallel with `Lemmas/Roundtrip.lean`:
  the machine run over the records of `t` with new leaves pushes a tree `t'`, and `flattenGo` of `t'`
  reproduces the records with the new leaves.
-/
import OptreeModel.Lemmas.Roundtrip
import OptreeModel.Model.Compare

namespace Optree

/-- `x` is leaf-typed under `cfg`: wherever the depth limit allows, flattening it yields itself as the
only leaf (an opaque object, `None` when `none_is_leaf`, an instance of an unregistered class, or
anything the `is_leaf` predicate accepts) -/
def LeafObj (cfg : Cfg) (x : PyObj) : Prop :=
  ∀ s d, ¬ (d > cfg.maxDepth) → flattenGo cfg s d x = .ok (leafOut x)

/-- the `is_leaf` predicate does not fire on container nodes (it decides among leaf-typed objects
only): the documented contract under which a rebuilt tree flattens like the original -/
def PredOnLeaves (cfg : Cfg) : Prop :=
  ∀ x, (getKind cfg x).1 ≠ .leaf → cfg.evalPred x = .ok false

theorem predOnLeaves_of_none (cfg : Cfg) (h : cfg.pred = Option.none) : PredOnLeaves cfg := by
  intro x _
  simp [Cfg.evalPred, h]

/-- the same records with other leaves -/
def withLeaves (out : FlatOut) (ls : List PyObj) : FlatOut := ⟨ls, out.nodes, out.custom⟩

theorem withLeaves_append (a b : FlatOut) (l1 l2 : List PyObj) :
    withLeaves (a.append b) (l1 ++ l2) = (withLeaves a l1).append (withLeaves b l2) := rfl

theorem withLeaves_close (body : FlatOut) (ls : List PyObj) (hl : ls.length = body.leaves.length)
    (kind : Kind) (arity : Nat) (data : NodeData) (entries : Option (List Key)) (custom : Option Reg)
    (okeys : Option (List Key)) (fc : Bool) :
    withLeaves (body.close kind arity data entries custom okeys fc) ls =
      (withLeaves body ls).close kind arity data entries custom okeys fc := by
  simp [withLeaves, FlatOut.close, hl]

/-- what the depth / predicate prelude of `flattenGo` leaves behind on success (stronger form) -/
theorem flattenGo_prelude' (cfg : Cfg) (d : Nat) (x : PyObj) (out : FlatOut) (body : Except Err FlatOut)
    (h : (if d > cfg.maxDepth then Except.error Err.recursion
      else match cfg.evalPred x with
        | .error e => .error e
        | .ok true => .ok (leafOut x)
        | .ok false => body) = .ok out) :
    ¬ (d > cfg.maxDepth) ∧
      ((cfg.evalPred x = .ok true ∧ out = leafOut x) ∨ (cfg.evalPred x = .ok false ∧ body = .ok out)) := by
  split at h
  · simp at h
  · rename_i hd
    refine ⟨hd, ?_⟩
    split at h
    · simp at h
    · rename_i hp; left; simp at h; exact ⟨hp, h.symm⟩
    · rename_i hp; right; exact ⟨hp, h⟩

theorem flattenGo_prelude_mk (cfg : Cfg) (d : Nat) (x : PyObj) (body : Except Err FlatOut)
    (hd : ¬ (d > cfg.maxDepth)) (hp : cfg.evalPred x = .ok false) :
    (if d > cfg.maxDepth then Except.error Err.recursion
      else match cfg.evalPred x with
        | .error e => .error e
        | .ok true => .ok (leafOut x)
        | .ok false => body) = body := by
  simp [hd, hp]

/-- the statement proved by mutual induction -/
def Robj (cfg : Cfg) (s : Bool) (t : PyObj) : Prop :=
  ∀ d out, flattenGo cfg s d t = .ok out → ∀ ls' : List PyObj, ls'.length = out.leaves.length →
    (∀ x ∈ ls', LeafObj cfg x) →
    ∃ t', RT (withLeaves out ls') [t'] ∧ flattenGo cfg s d t' = .ok (withLeaves out ls')

/-- the hypothesis on one child, as used by the sequencing lemma -/
def Rchild (cfg : Cfg) (F : PyObj → Except Err FlatOut) (p : Except Err FlatOut × PyObj) : Prop :=
  ∀ o, p.1 = .ok o → ∀ ls' : List PyObj, ls'.length = o.leaves.length → (∀ x ∈ ls', LeafObj cfg x) →
    ∃ t', RT (withLeaves o ls') [t'] ∧ F t' = .ok (withLeaves o ls')

theorem R_seq (cfg : Cfg) (F : PyObj → Except Err FlatOut) :
    ∀ (ps : List (Except Err FlatOut × PyObj)), (∀ p ∈ ps, Rchild cfg F p) →
    ∀ (b : FlatOut), seqOuts (ps.map (·.1)) = .ok b → ∀ ls' : List PyObj, ls'.length = b.leaves.length →
    (∀ x ∈ ls', LeafObj cfg x) →
    ∃ ts', ts'.length = ps.length ∧ RT (withLeaves b ls') ts' ∧
      seqOuts (ts'.map F) = .ok (withLeaves b ls')
  | [], _, b, hb, ls', hl, _ => by
      simp [seqOuts] at hb
      subst hb
      have : ls' = [] := by simpa [FlatOut.empty] using hl
      subst this
      exact ⟨[], rfl, by simpa [withLeaves, FlatOut.empty] using RT_empty, by simp [seqOuts, withLeaves, FlatOut.empty]⟩
  | p :: ps, h, b, hb, ls', hl, hleaf => by
      simp only [List.map_cons] at hb
      unfold seqOuts at hb
      split at hb
      · simp at hb
      · rename_i a ha
        split at hb
        · simp at hb
        · rename_i b' hb'
          simp at hb
          subst hb
          simp only [FlatOut.append, List.length_append] at hl
          have e : ls' = ls'.take a.leaves.length ++ ls'.drop a.leaves.length := (List.take_append_drop _ _).symm
          have l1 : (ls'.take a.leaves.length).length = a.leaves.length := by
            rw [List.length_take]; omega
          have l2 : (ls'.drop a.leaves.length).length = b'.leaves.length := by
            rw [List.length_drop]; omega
          obtain ⟨t', rt1, f1⟩ := h p (by simp) a ha _ l1 (fun x hx => hleaf x (List.mem_of_mem_take hx))
          obtain ⟨ts', len, rt2, f2⟩ := R_seq cfg F ps (fun q hq => h q (by simp [hq])) b' hb' _ l2
            (fun x hx => hleaf x (List.mem_of_mem_drop hx))
          refine ⟨t' :: ts', by simp [len], ?_, ?_⟩
          · rw [e, withLeaves_append]
            have := RT_append rt1 rt2
            simpa using this
          · rw [e, withLeaves_append]
            simp only [List.map_cons]
            unfold seqOuts
            simp only [f1, f2]

/-- children pushed and the parent record closed, with the new leaves -/
theorem R_closeSeq (cfg : Cfg) (F : PyObj → Except Err FlatOut)
    (ps : List (Except Err FlatOut × PyObj)) (h : ∀ p ∈ ps, Rchild cfg F p)
    (kind : Kind) (data : NodeData) (entries : Option (List Key)) (custom : Option Reg)
    (okeys : Option (List Key)) (fc : Bool) (out : FlatOut)
    (hout : (match seqOuts (ps.map (·.1)) with
             | .error e => Except.error e
             | .ok b => .ok (b.close kind ps.length data entries custom okeys fc)) = .ok out)
    (ls' : List PyObj) (hl : ls'.length = out.leaves.length) (hleaf : ∀ x ∈ ls', LeafObj cfg x) :
    ∃ ts', ts'.length = ps.length ∧
      (∀ t', kind ≠ .leaf →
        (∀ nl nn, makeNode (Node.mk kind ps.length data entries custom nl nn okeys) ts' = .ok t') →
        RT (withLeaves out ls') [t']) ∧
      (match seqOuts (ts'.map F) with
       | .error e => Except.error e
       | .ok b => .ok (b.close kind ps.length data entries custom okeys fc)) = .ok (withLeaves out ls') := by
  split at hout
  · simp at hout
  · rename_i b hb
    simp at hout
    subst hout
    have hl' : ls'.length = b.leaves.length := by simpa [FlatOut.close] using hl
    obtain ⟨ts', len, rt, fs⟩ := R_seq cfg F ps h b hb ls' hl' hleaf
    refine ⟨ts', len, ?_, ?_⟩
    · intro t' hkind hmk
      rw [withLeaves_close b ls' hl']
      have := RT_close (xs := ts') rt kind data entries custom okeys fc t' hkind
        (by rw [len]; exact hmk _ _)
      rw [len] at this
      exact this
    · rw [fs, withLeaves_close b ls' hl']

/-! ### association lists: installing new values under the same keys -/

theorem lookupKey_zip_self {α : Type} (dflt : α) :
    ∀ (ks : List Key) (vs : List α), ks.Nodup → vs.length = ks.length →
      ks.map (fun k => (lookupKey k (ks.zip vs)).getD dflt) = vs
  | [], [], _, _ => rfl
  | [], _ :: _, _, h => by simp at h
  | _ :: _, [], _, h => by simp at h
  | k :: ks, v :: vs, hnd, hl => by
      have hnd' := List.nodup_cons.mp hnd
      simp only [List.length_cons, Nat.add_right_cancel_iff] at hl
      simp only [List.zip_cons_cons, List.map_cons, lookupKey, beq_self_eq_true, if_true, Option.getD_some,
        List.cons.injEq, true_and]
      rw [← lookupKey_zip_self dflt ks vs hnd'.2 hl]
      apply List.map_congr_left
      intro k' hk'
      have hne : (k == k') = false := by
        simp only [beq_eq_false_iff_ne, ne_eq]
        intro e; subst e; exact hnd'.1 hk'
      simp only [hne, Bool.false_eq_true, if_false]
      rw [lookupKey_zip_self dflt ks vs hnd'.2 hl]

/-- the items of `kvs` with the values replaced: the value of the key visited i-th (in the order
`perm`) becomes `ts'[i]` -/
def reval (perm : List (Key × PyObj)) (ts' : List PyObj) (p : Key × PyObj) : Key × PyObj :=
  (p.1, (lookupKey p.1 ((perm.map (·.1)).zip ts')).getD PyObj.none)

theorem reval_perm_keys (perm : List (Key × PyObj)) (ts' : List PyObj) (l : List (Key × PyObj)) :
    (l.map (reval perm ts')).map (·.1) = l.map (·.1) := by
  simp [List.map_map, Function.comp_def, reval]

theorem reval_perm_vals (perm : List (Key × PyObj)) (ts' : List PyObj)
    (hnd : (perm.map (·.1)).Nodup) (hl : ts'.length = perm.length) :
    (perm.map (reval perm ts')).map (·.2) = ts' := by
  have := lookupKey_zip_self PyObj.none (perm.map (·.1)) ts' hnd (by simpa using hl)
  simpa [List.map_map, Function.comp_def, reval] using this

theorem dictBuild_none_zip (ks : List Key) (vs : List PyObj) (hnd : ks.Nodup) (hl : vs.length = ks.length) :
    dictBuild Option.none ks vs = ks.zip vs := by
  have h1 : (ks.zip vs).map (·.1) = ks := by
    rw [List.map_fst_zip]; omega
  have h2 : (ks.zip vs).map (·.2) = vs := by
    rw [List.map_snd_zip]; omega
  have := dictBuild_none (ks.zip vs) (by rw [h1]; exact hnd)
  rwa [h1, h2] at this

/-- rebuilding a dict-kind node from new children gives the original items with the values replaced;
sorting those visits the keys in the old order and meets exactly the new children -/
theorem dict_rebuild (od s : Bool) (kvs : List (Key × PyObj)) (hnd : (kvs.map (·.1)).Nodup)
    (okeys : Option (List Key)) (hok : okeys = some (kvs.map (·.1)) ∨ (okeys = Option.none ∧ od = true))
    (ts' : List PyObj) (hl : ts'.length = kvs.length) :
    let perm := dictOrder od s kvs
    let kvs' := kvs.map (reval perm ts')
    dictBuild okeys (perm.map (·.1)) ts' = kvs' ∧ kvs'.map (·.1) = kvs.map (·.1) ∧
      (dictOrder od s kvs').map (·.1) = perm.map (·.1) ∧ (dictOrder od s kvs').map (·.2) = ts' := by
  intro perm kvs'
  have hperm : perm.Perm kvs := dictOrder_perm od s kvs
  have hpn : (perm.map (·.1)).Nodup := (hperm.map (·.1)).nodup_iff.mpr hnd
  have hpl : ts'.length = perm.length := by rw [hperm.length_eq]; exact hl
  have hord : dictOrder od s kvs' = perm.map (reval perm ts') :=
    dictOrder_map od s (reval perm ts') (fun _ => rfl) kvs
  have hk : kvs'.map (·.1) = kvs.map (·.1) := reval_perm_keys perm ts' kvs
  have hv : (perm.map (reval perm ts')).map (·.2) = ts' := reval_perm_vals perm ts' hpn hpl
  refine ⟨?_, hk, by rw [hord, reval_perm_keys], by rw [hord, hv]⟩
  rcases hok with hok | ⟨hok, hod⟩
  · subst hok
    have hp' : (perm.map (reval perm ts')).Perm kvs' := hperm.map _
    have := dictBuild_perm kvs' (perm.map (reval perm ts')) hp' (by rw [hk]; exact hnd)
    rwa [hk, reval_perm_keys, hv] at this
  · subst hok
    have hpe : perm = kvs := by simp [perm, dictOrder, hod]
    rw [dictBuild_none_zip _ _ hpn (by simpa using hpl)]
    have h1 : kvs' = (kvs'.map (·.1)).zip (kvs'.map (·.2)) := by
      rw [List.zip_map', List.map_id'']; intro p; rfl
    rw [h1, hk]
    have : kvs'.map (·.2) = ts' := by
      have := hv
      rw [hpe] at this
      simpa [kvs', hpe] using this
    rw [this, hpe]


/-! ### node kinds -/

/-- entries a well-behaved registered flatten function reports for `n` children -/
def regEntries (reg : Reg) (n : Nat) : Option (List Key) :=
  match reg.mode with
  | .two | .none3 => Option.none
  | .named => some (namedEntries n)
  | .shifted => some (shiftedEntries n)

/-- for a well-behaved flatten function the custom case is "sequence the children, close the node" with
entries that depend on the registration and the number of children only -/
theorem customFlatten_regEntries (reg : Reg) (md : Option Key) (xs : List PyObj)
    (rs : List (Except Err FlatOut)) (hlen : rs.length = xs.length) :
    customFlatten reg (customOutOf reg md .ok xs) rs =
      (match seqOuts rs with
       | .error e => .error e
       | .ok body => .ok (body.close .custom xs.length (.md md) (regEntries reg xs.length) (some reg)
                            Option.none true)) := by
  unfold customFlatten customOutOf regEntries
  cases hm : reg.mode <;> simp [entriesFor, hlen, namedEntries_length, shiftedEntries_length] <;>
    cases seqOuts rs <;> rfl

theorem robj_tuple_like (cfg : Cfg) (s : Bool) (xs : List PyObj) (ih : ∀ x ∈ xs, Robj cfg s x) (d : Nat)
    (kind : Kind) (data : NodeData) (mk : List PyObj → PyObj) (hkind : kind ≠ .leaf)
    (hmk : ∀ ts' : List PyObj, ts'.length = xs.length → ∀ nl nn,
      makeNode (Node.mk kind xs.length data Option.none Option.none nl nn Option.none) ts' = .ok (mk ts'))
    (out : FlatOut)
    (h : closeSeq (flattenList cfg s d xs) kind xs.length data Option.none Option.none Option.none = .ok out)
    (ls' : List PyObj) (hl : ls'.length = out.leaves.length) (hleaf : ∀ x ∈ ls', LeafObj cfg x) :
    ∃ ts' : List PyObj, ts'.length = xs.length ∧ RT (withLeaves out ls') [mk ts'] ∧
      closeSeq (flattenList cfg s d ts') kind ts'.length data Option.none Option.none Option.none =
        .ok (withLeaves out ls') := by
  rw [flattenList_eq] at h
  let ps := xs.map fun x => (flattenGo cfg s d x, x)
  have h1 : ps.map (·.1) = xs.map (flattenGo cfg s d) := by simp [ps, List.map_map, Function.comp_def]
  have hpl : ps.length = xs.length := by simp [ps]
  have hps : ∀ p ∈ ps, Rchild cfg (flattenGo cfg s d) p := by
    intro p hp o ho ls'' hl'' hleaf''
    simp only [ps, List.mem_map] at hp
    obtain ⟨x, hx, rfl⟩ := hp
    exact ih x hx d o ho ls'' hl'' hleaf''
  unfold closeSeq at h
  rw [← h1, ← hpl] at h
  obtain ⟨ts', len, rt, fs⟩ := R_closeSeq cfg (flattenGo cfg s d) ps hps kind data Option.none Option.none
    Option.none false out h ls' hl hleaf
  rw [hpl] at len
  refine ⟨ts', len, rt (mk ts') hkind (by rw [hpl]; exact hmk ts' len), ?_⟩
  unfold closeSeq
  rw [flattenList_eq, len, ← hpl]
  exact fs

theorem robj_custom (cfg : Cfg) (s : Bool) (reg : Reg) (md : Option Key) (xs : List PyObj)
    (ih : ∀ x ∈ xs, Robj cfg s x) (d : Nat) (out : FlatOut)
    (h : customFlatten reg (customOutOf reg md .ok xs) (flattenList cfg s d xs) = .ok out)
    (ls' : List PyObj) (hl : ls'.length = out.leaves.length) (hleaf : ∀ x ∈ ls', LeafObj cfg x) :
    ∃ ts' : List PyObj, ts'.length = xs.length ∧ RT (withLeaves out ls') [customUnflatten reg md ts'] ∧
      customFlatten reg (customOutOf reg md .ok ts') (flattenList cfg s d ts') = .ok (withLeaves out ls') := by
  rw [customFlatten_regEntries reg md xs _ (by simp [flattenList_eq]), flattenList_eq] at h
  let ps := xs.map fun x => (flattenGo cfg s d x, x)
  have h1 : ps.map (·.1) = xs.map (flattenGo cfg s d) := by simp [ps, List.map_map, Function.comp_def]
  have hpl : ps.length = xs.length := by simp [ps]
  have hps : ∀ p ∈ ps, Rchild cfg (flattenGo cfg s d) p := by
    intro p hp o ho ls'' hl'' hleaf''
    simp only [ps, List.mem_map] at hp
    obtain ⟨x, hx, rfl⟩ := hp
    exact ih x hx d o ho ls'' hl'' hleaf''
  rw [← h1, ← hpl] at h
  obtain ⟨ts', len, rt, fs⟩ := R_closeSeq cfg (flattenGo cfg s d) ps hps .custom (.md md)
    (regEntries reg ps.length) (some reg) Option.none true out h ls' hl hleaf
  rw [hpl] at len
  refine ⟨ts', len, rt _ (by simp) (by intro nl nn; simp [makeNode, len, hpl]), ?_⟩
  rw [customFlatten_regEntries reg md ts' _ (by simp [flattenList_eq]), flattenList_eq, len, ← hpl]
  exact fs

theorem robj_dict_like (cfg : Cfg) (s od : Bool) (kvs : List (Key × PyObj))
    (hnd : (kvs.map (·.1)).Nodup) (ih : ∀ p ∈ kvs, Robj cfg s p.2) (d : Nat)
    (kind : Kind) (mkData : List Key → NodeData) (okeys : Option (List Key))
    (hok : okeys = some (kvs.map (·.1)) ∨ (okeys = Option.none ∧ od = true))
    (mk : List (Key × PyObj) → PyObj) (hkind : kind ≠ .leaf)
    (hmk : ∀ (ks : List Key) (ts' : List PyObj), ts'.length = kvs.length → ∀ nl nn,
      makeNode (Node.mk kind kvs.length (mkData ks) Option.none Option.none nl nn okeys) ts' =
        .ok (mk (dictBuild okeys ks ts')))
    (out : FlatOut)
    (h : closeSeq ((dictOrder od s (flattenKVs cfg s d kvs)).map (·.2)) kind kvs.length
      (mkData ((dictOrder od s (flattenKVs cfg s d kvs)).map (·.1))) Option.none Option.none okeys = .ok out)
    (ls' : List PyObj) (hl : ls'.length = out.leaves.length) (hleaf : ∀ x ∈ ls', LeafObj cfg x) :
    ∃ kvs' : List (Key × PyObj), kvs'.map (·.1) = kvs.map (·.1) ∧ RT (withLeaves out ls') [mk kvs'] ∧
      closeSeq ((dictOrder od s (flattenKVs cfg s d kvs')).map (·.2)) kind kvs'.length
        (mkData ((dictOrder od s (flattenKVs cfg s d kvs')).map (·.1))) Option.none Option.none okeys =
          .ok (withLeaves out ls') := by
  have hF : ∀ l : List (Key × PyObj), dictOrder od s (flattenKVs cfg s d l) =
      (dictOrder od s l).map fun p => (p.1, flattenGo cfg s d p.2) := by
    intro l
    rw [flattenKVs_eq]
    exact dictOrder_map od s (fun p => (p.1, flattenGo cfg s d p.2)) (fun _ => rfl) l
  rw [hF kvs] at h
  let perm := dictOrder od s kvs
  have hperm : perm.Perm kvs := dictOrder_perm od s kvs
  let ps := perm.map fun p => (flattenGo cfg s d p.2, p.2)
  have h1 : ps.map (·.1) = (perm.map fun p => (p.1, flattenGo cfg s d p.2)).map (·.2) := by
    simp [ps, List.map_map, Function.comp_def]
  have h3 : (perm.map fun p => (p.1, flattenGo cfg s d p.2)).map (·.1) = perm.map (·.1) := by
    simp [List.map_map, Function.comp_def]
  have hpl : ps.length = kvs.length := by simp [ps, hperm.length_eq]
  have hps : ∀ p ∈ ps, Rchild cfg (flattenGo cfg s d) p := by
    intro p hp o ho ls'' hl'' hleaf''
    simp only [ps, List.mem_map] at hp
    obtain ⟨q, hq, rfl⟩ := hp
    exact ih q (hperm.subset hq) d o ho ls'' hl'' hleaf''
  unfold closeSeq at h
  rw [← h1, h3, ← hpl] at h
  obtain ⟨ts', len, rt, fs⟩ := R_closeSeq cfg (flattenGo cfg s d) ps hps kind (mkData (perm.map (·.1)))
    Option.none Option.none okeys false out h ls' hl hleaf
  rw [hpl] at len
  obtain ⟨hb, hk, ho1, ho2⟩ := dict_rebuild od s kvs hnd okeys hok ts' len
  refine ⟨kvs.map (reval perm ts'), hk, ?_, ?_⟩
  · have := rt (mk (dictBuild okeys (perm.map (·.1)) ts')) hkind
      (by rw [hpl]; exact hmk (perm.map (·.1)) ts' len)
    rwa [hb] at this
  · have hlen' : (kvs.map (reval perm ts')).length = kvs.length := by simp
    rw [hF, hlen']
    have ho1' : (dictOrder od s (kvs.map (reval perm ts'))).map (·.1) = perm.map (·.1) := ho1
    have ho2' : (dictOrder od s (kvs.map (reval perm ts'))).map (·.2) = ts' := ho2
    have e1 : ((dictOrder od s (kvs.map (reval perm ts'))).map fun p => (p.1, flattenGo cfg s d p.2)).map (·.2) =
        ts'.map (flattenGo cfg s d) := by
      have : ((dictOrder od s (kvs.map (reval perm ts'))).map fun p => (p.1, flattenGo cfg s d p.2)).map (·.2) =
          ((dictOrder od s (kvs.map (reval perm ts'))).map (·.2)).map (flattenGo cfg s d) := by
        simp [List.map_map, Function.comp_def]
      rw [this, ho2']
    have e2 : ((dictOrder od s (kvs.map (reval perm ts'))).map fun p => (p.1, flattenGo cfg s d p.2)).map (·.1) =
        perm.map (·.1) := by
      have : ((dictOrder od s (kvs.map (reval perm ts'))).map fun p => (p.1, flattenGo cfg s d p.2)).map (·.1) =
          (dictOrder od s (kvs.map (reval perm ts'))).map (·.1) := by
        simp [List.map_map, Function.comp_def]
      rw [this, ho1']
    unfold closeSeq
    rw [e1, e2, ← hpl]
    exact fs


/-! ### the induction -/

theorem robj_leafOut (cfg : Cfg) (s : Bool) (d : Nat) (x : PyObj) (hd : ¬ (d > cfg.maxDepth))
    (ls' : List PyObj) (hl : ls'.length = (leafOut x).leaves.length) (hleaf : ∀ y ∈ ls', LeafObj cfg y) :
    ∃ t', RT (withLeaves (leafOut x) ls') [t'] ∧ flattenGo cfg s d t' = .ok (withLeaves (leafOut x) ls') := by
  match ls', hl, hleaf with
  | [y], _, hleaf =>
    refine ⟨y, ?_, ?_⟩
    · have : withLeaves (leafOut x) [y] = leafOut y := rfl
      rw [this]; exact RT_leaf y
    · have : withLeaves (leafOut x) [y] = leafOut y := rfl
      rw [this]; exact hleaf y (by simp) s d hd
  | [], hl, _ => simp [leafOut] at hl
  | _ :: _ :: _, hl, _ => simp [leafOut] at hl

theorem withLeaves_nil (out : FlatOut) (h : out.leaves = []) : withLeaves out [] = out := by
  cases out; simp_all [withLeaves]

mutual
theorem robj (cfg : Cfg) (hreg : cfg.reg.OK) (hst : PredOnLeaves cfg) (s : Bool) :
    ∀ t : PyObj, t.wf = true → Robj cfg s t
  | .leaf ty uid, _ => by
      intro d out h ls' hl hleaf
      rw [flattenGo] at h
      obtain ⟨hd, h | h⟩ := flattenGo_prelude' cfg d _ out _ h
      · obtain ⟨_, rfl⟩ := h; exact robj_leafOut cfg s d _ hd ls' hl hleaf
      · obtain ⟨_, h⟩ := h
        simp at h; subst h; exact robj_leafOut cfg s d _ hd ls' hl hleaf
  | .none, _ => by
      intro d out h ls' hl hleaf
      have h0 := h
      rw [flattenGo] at h
      obtain ⟨hd, h | h⟩ := flattenGo_prelude' cfg d _ out _ h
      · obtain ⟨_, rfl⟩ := h; exact robj_leafOut cfg s d _ hd ls' hl hleaf
      · obtain ⟨_, h⟩ := h
        split at h
        · simp at h; subst h; exact robj_leafOut cfg s d _ hd ls' hl hleaf
        · simp at h; subst h
          have : ls' = [] := by simpa [FlatOut.close, FlatOut.empty] using hl
          subst this
          rw [withLeaves_nil _ (by simp [FlatOut.close, FlatOut.empty])]
          exact ⟨.none, pobj cfg hreg s .none (by simp [PyObj.wf]) d _ h0, h0⟩
  | .tuple xs, hwf => by
      intro d out h ls' hl hleaf
      rw [flattenGo] at h
      obtain ⟨hd, h | h⟩ := flattenGo_prelude' cfg d _ out _ h
      · obtain ⟨_, rfl⟩ := h; exact robj_leafOut cfg s d _ hd ls' hl hleaf
      · obtain ⟨_, h⟩ := h
        simp only [PyObj.wf] at hwf
        obtain ⟨ts', len, rt, fs⟩ := robj_tuple_like cfg s xs (rlist cfg hreg hst s xs hwf) (d + 1) .tuple .none
          PyObj.tuple (by simp) (by intro ts' hl' nl nn; simp [makeNode, hl']) out h ls' hl hleaf
        refine ⟨.tuple ts', rt, ?_⟩
        have hp' := hst (.tuple ts') (by simp [getKind])
        rw [flattenGo, if_neg hd, hp']
        exact fs
  | .list xs, hwf => by
      intro d out h ls' hl hleaf
      rw [flattenGo] at h
      obtain ⟨hd, h | h⟩ := flattenGo_prelude' cfg d _ out _ h
      · obtain ⟨_, rfl⟩ := h; exact robj_leafOut cfg s d _ hd ls' hl hleaf
      · obtain ⟨_, h⟩ := h
        simp only [PyObj.wf] at hwf
        obtain ⟨ts', len, rt, fs⟩ := robj_tuple_like cfg s xs (rlist cfg hreg hst s xs hwf) (d + 1) .list .none
          PyObj.list (by simp) (by intro ts' hl' nl nn; simp [makeNode, hl']) out h ls' hl hleaf
        refine ⟨.list ts', rt, ?_⟩
        have hp' := hst (.list ts') (by simp [getKind])
        rw [flattenGo, if_neg hd, hp']
        exact fs
  | .deque m xs, hwf => by
      intro d out h ls' hl hleaf
      rw [flattenGo] at h
      obtain ⟨hd, h | h⟩ := flattenGo_prelude' cfg d _ out _ h
      · obtain ⟨_, rfl⟩ := h; exact robj_leafOut cfg s d _ hd ls' hl hleaf
      · obtain ⟨_, h⟩ := h
        simp only [PyObj.wf, Bool.and_eq_true] at hwf
        obtain ⟨ts', len, rt, fs⟩ := robj_tuple_like cfg s xs (rlist cfg hreg hst s xs hwf.2) (d + 1) .deque
          (.maxlen m) (PyObj.deque m) (by simp)
          (by intro ts' hl' nl nn
              simp [makeNode, hl', mkDeque_of_ok m ts' (by rw [hl']; exact hwf.1)]) out h ls' hl hleaf
        refine ⟨.deque m ts', rt, ?_⟩
        have hp' := hst (.deque m ts') (by simp [getKind])
        rw [flattenGo, if_neg hd, hp']
        exact fs
  | .dict kvs, hwf => by
      intro d out h ls' hl hleaf
      rw [flattenGo] at h
      obtain ⟨hd, h | h⟩ := flattenGo_prelude' cfg d _ out _ h
      · obtain ⟨_, rfl⟩ := h; exact robj_leafOut cfg s d _ hd ls' hl hleaf
      · obtain ⟨_, h⟩ := h
        simp only [PyObj.wf, Bool.and_eq_true, decide_eq_true_eq] at hwf
        obtain ⟨kvs', hk, rt, fs⟩ := robj_dict_like cfg s false kvs hwf.1 (rkvs cfg hreg hst s kvs hwf.2) (d + 1)
          .dict .keys (some (kvs.map (·.1))) (Or.inl rfl) PyObj.dict (by simp)
          (by intro ks ts' hl' nl nn; simp [makeNode, hl']) out h ls' hl hleaf
        refine ⟨.dict kvs', rt, ?_⟩
        have hp' := hst (.dict kvs') (by simp [getKind])
        rw [flattenGo, if_neg hd, hp']
        simp only [hk]
        exact fs
  | .odict kvs, hwf => by
      intro d out h ls' hl hleaf
      rw [flattenGo] at h
      obtain ⟨hd, h | h⟩ := flattenGo_prelude' cfg d _ out _ h
      · obtain ⟨_, rfl⟩ := h; exact robj_leafOut cfg s d _ hd ls' hl hleaf
      · obtain ⟨_, h⟩ := h
        simp only [PyObj.wf, Bool.and_eq_true, decide_eq_true_eq] at hwf
        have hdo : ∀ l : List (Key × Except Err FlatOut), dictOrder true s l = l := by
          intro l; simp [dictOrder]
        obtain ⟨kvs', hk, rt, fs⟩ := robj_dict_like cfg s true kvs hwf.1 (rkvs cfg hreg hst s kvs hwf.2) (d + 1)
          .ordereddict .keys Option.none (Or.inr ⟨rfl, rfl⟩) PyObj.odict (by simp)
          (by intro ks ts' hl' nl nn; simp [makeNode, hl']) out (by simpa only [hdo] using h) ls' hl hleaf
        refine ⟨.odict kvs', rt, ?_⟩
        have hp' := hst (.odict kvs') (by simp [getKind])
        rw [flattenGo, if_neg hd, hp']
        simpa only [hdo] using fs
  | .ddict f kvs, hwf => by
      intro d out h ls' hl hleaf
      rw [flattenGo] at h
      obtain ⟨hd, h | h⟩ := flattenGo_prelude' cfg d _ out _ h
      · obtain ⟨_, rfl⟩ := h; exact robj_leafOut cfg s d _ hd ls' hl hleaf
      · obtain ⟨_, h⟩ := h
        simp only [PyObj.wf, Bool.and_eq_true, decide_eq_true_eq] at hwf
        obtain ⟨kvs', hk, rt, fs⟩ := robj_dict_like cfg s false kvs hwf.1 (rkvs cfg hreg hst s kvs hwf.2) (d + 1)
          .defaultdict (.ddict f) (some (kvs.map (·.1))) (Or.inl rfl) (PyObj.ddict f) (by simp)
          (by intro ks ts' hl' nl nn; simp [makeNode, hl']) out h ls' hl hleaf
        refine ⟨.ddict f kvs', rt, ?_⟩
        have hp' := hst (.ddict f kvs') (by simp [getKind])
        rw [flattenGo, if_neg hd, hp']
        simp only [hk]
        exact fs
  | .ntuple cls xs, hwf => by
      intro d out h ls' hl hleaf
      rw [flattenGo] at h
      obtain ⟨hd, h | h⟩ := flattenGo_prelude' cfg d _ out _ h
      · obtain ⟨_, rfl⟩ := h; exact robj_leafOut cfg s d _ hd ls' hl hleaf
      · obtain ⟨_, h⟩ := h
        simp only [PyObj.wf] at hwf
        have hk : ∀ ts', (getKind cfg (.ntuple cls ts')).1 ≠ .leaf := by
          intro ts'; simp only [getKind]; split <;> simp
        split at h
        · rename_i reg hlk
          obtain ⟨hc, hck⟩ := hreg _ _ _ _ hlk
          obtain ⟨ts', len, rt, fs⟩ := robj_custom cfg s reg Option.none xs (rlist cfg hreg hst s xs hwf) (d + 1)
            out h ls' hl hleaf
          have hcu : customUnflatten reg Option.none ts' = .ntuple cls ts' := by
            simp [customUnflatten, hc, hck]
          rw [hcu] at rt
          refine ⟨.ntuple cls ts', rt, ?_⟩
          have hp' := hst (.ntuple cls ts') (hk ts')
          rw [flattenGo, if_neg hd, hp']
          simp only [hlk]
          exact fs
        · rename_i hlk
          obtain ⟨ts', len, rt, fs⟩ := robj_tuple_like cfg s xs (rlist cfg hreg hst s xs hwf) (d + 1) .namedtuple
            (.cls cls) (PyObj.ntuple cls) (by simp) (by intro ts' hl' nl nn; simp [makeNode, hl']) out h ls' hl hleaf
          refine ⟨.ntuple cls ts', rt, ?_⟩
          have hp' := hst (.ntuple cls ts') (hk ts')
          rw [flattenGo, if_neg hd, hp']
          simp only [hlk]
          exact fs
  | .sseq cls xs, hwf => by
      intro d out h ls' hl hleaf
      rw [flattenGo] at h
      obtain ⟨hd, h | h⟩ := flattenGo_prelude' cfg d _ out _ h
      · obtain ⟨_, rfl⟩ := h; exact robj_leafOut cfg s d _ hd ls' hl hleaf
      · obtain ⟨_, h⟩ := h
        simp only [PyObj.wf] at hwf
        have hk : ∀ ts', (getKind cfg (.sseq cls ts')).1 ≠ .leaf := by
          intro ts'; simp only [getKind]; split <;> simp
        split at h
        · rename_i reg hlk
          obtain ⟨hc, hck⟩ := hreg _ _ _ _ hlk
          obtain ⟨ts', len, rt, fs⟩ := robj_custom cfg s reg Option.none xs (rlist cfg hreg hst s xs hwf) (d + 1)
            out h ls' hl hleaf
          have hcu : customUnflatten reg Option.none ts' = .sseq cls ts' := by
            simp [customUnflatten, hc, hck]
          rw [hcu] at rt
          refine ⟨.sseq cls ts', rt, ?_⟩
          have hp' := hst (.sseq cls ts') (hk ts')
          rw [flattenGo, if_neg hd, hp']
          simp only [hlk]
          exact fs
        · rename_i hlk
          obtain ⟨ts', len, rt, fs⟩ := robj_tuple_like cfg s xs (rlist cfg hreg hst s xs hwf) (d + 1) .structseq
            (.cls cls) (PyObj.sseq cls) (by simp) (by intro ts' hl' nl nn; simp [makeNode, hl']) out h ls' hl hleaf
          refine ⟨.sseq cls ts', rt, ?_⟩
          have hp' := hst (.sseq cls ts') (hk ts')
          rw [flattenGo, if_neg hd, hp']
          simp only [hlk]
          exact fs
  | .user cls md q xs, hwf => by
      intro d out h ls' hl hleaf
      rw [flattenGo] at h
      obtain ⟨hd, h | h⟩ := flattenGo_prelude' cfg d _ out _ h
      · obtain ⟨_, rfl⟩ := h; exact robj_leafOut cfg s d _ hd ls' hl hleaf
      · obtain ⟨_, h⟩ := h
        simp only [PyObj.wf, Bool.and_eq_true, beq_iff_eq] at hwf
        obtain ⟨hq, hwf⟩ := hwf
        subst hq
        split at h
        · rename_i reg hlk
          obtain ⟨hc, hck⟩ := hreg _ _ _ _ hlk
          obtain ⟨ts', len, rt, fs⟩ := robj_custom cfg s reg md xs (rlist cfg hreg hst s xs hwf) (d + 1)
            out h ls' hl hleaf
          have hcu : customUnflatten reg md ts' = .user cls md .ok ts' := by
            simp [customUnflatten, hc, hck]
          rw [hcu] at rt
          refine ⟨.user cls md .ok ts', rt, ?_⟩
          have hk : (getKind cfg (.user cls md .ok ts')).1 ≠ .leaf := by
            simp only [getKind, hlk]; simp
          have hp' := hst (.user cls md .ok ts') hk
          rw [flattenGo, if_neg hd, hp']
          simp only [hlk]
          exact fs
        · simp at h; subst h; exact robj_leafOut cfg s d _ hd ls' hl hleaf
theorem rlist (cfg : Cfg) (hreg : cfg.reg.OK) (hst : PredOnLeaves cfg) (s : Bool) :
    ∀ xs : List PyObj, PyObj.wfList xs = true → ∀ x ∈ xs, Robj cfg s x
  | [], _ => by intro x hx; simp at hx
  | y :: ys, hwf => by
      simp only [PyObj.wfList, Bool.and_eq_true] at hwf
      intro x hx
      simp only [List.mem_cons] at hx
      rcases hx with hx | hx
      · subst hx; exact robj cfg hreg hst s x hwf.1
      · exact rlist cfg hreg hst s ys hwf.2 x hx
theorem rkvs (cfg : Cfg) (hreg : cfg.reg.OK) (hst : PredOnLeaves cfg) (s : Bool) :
    ∀ kvs : List (Key × PyObj), PyObj.wfKVs kvs = true → ∀ p ∈ kvs, Robj cfg s p.2
  | [], _ => by intro p hp; simp at hp
  | (k, y) :: ys, hwf => by
      simp only [PyObj.wfKVs, Bool.and_eq_true] at hwf
      intro p hp
      simp only [List.mem_cons] at hp
      rcases hp with hp | hp
      · subst hp; exact robj cfg hreg hst s y hwf.1
      · exact rkvs cfg hreg hst s ys hwf.2 p hp
end

end Optree
