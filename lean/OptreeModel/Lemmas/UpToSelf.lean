/-
  Matching a tree against its *own* treespec returns exactly its leaves, in flatten order
  (`spec.flatten_up_to(tree) == tree_leaves(tree)`), for C04 / C05: together with the alignment theorem
  the i-th path (and accessor) of a treespec addresses the i-th leaf.
-/
import OptreeModel.Lemmas.UpToAlign

namespace Optree

def USelf (cfg : Cfg) (s : Bool) (t : PyObj) : Prop :=
  ∀ d out, flattenGo cfg s d t = .ok out →
    (shapeOf cfg s t).upTo cfg.reg cfg.noneIsLeaf cfg.ns t = .ok out.leaves

theorem upToL_self (cfg : Cfg) (s : Bool) (d : Nat) : ∀ (xs : List PyObj), (∀ x ∈ xs, USelf cfg s x) →
    ∀ b, seqOuts (xs.map (flattenGo cfg s d)) = .ok b →
      STree.upToL cfg.reg cfg.noneIsLeaf cfg.ns (xs.map (shapeOf cfg s)) xs = .ok b.leaves
  | [], _, b, h => by simp [seqOuts] at h; subst h; rfl
  | x :: xs, ih, b, h => by
      simp only [List.map_cons, seqOuts] at h
      cases hx : flattenGo cfg s d x with
      | error e => simp [hx] at h
      | ok a =>
        cases hr : seqOuts (xs.map (flattenGo cfg s d)) with
        | error e => simp [hx, hr] at h
        | ok b' =>
          simp [hx, hr] at h
          subst h
          have h1 := ih x (by simp) d a hx
          have h2 := upToL_self cfg s d xs (fun y hy => ih y (by simp [hy])) b' hr
          simp [STree.upToL, h1, h2, FlatOut.append]

theorem closeSeq_leaves_seq (rs : List (Except Err FlatOut)) (kind : Kind) (arity : Nat) (data : NodeData)
    (okeys : Option (List Key)) (out : FlatOut)
    (ho : closeSeq rs kind arity data Option.none Option.none okeys = .ok out) :
    ∃ b, seqOuts rs = .ok b ∧ out.leaves = b.leaves := by
  unfold closeSeq at ho
  split at ho
  · simp at ho
  · rename_i b hb
    simp at ho; subst ho
    exact ⟨b, hb, rfl⟩

theorem customFlatten_leaves_seq (reg : Reg) (co : CustomOut) (rs : List (Except Err FlatOut)) (out : FlatOut)
    (ho : customFlatten reg co rs = .ok out) : ∃ b, seqOuts rs = .ok b ∧ out.leaves = b.leaves := by
  unfold customFlatten at ho
  split at ho; · simp at ho
  split at ho; · simp at ho
  split at ho; · simp at ho
  rename_i b hb
  simp only at ho
  split at ho; · simp at ho
  simp at ho; subst ho
  exact ⟨b, hb, rfl⟩

/-- values of a nodup-keyed dict looked up in any re-ordering of its keys -/
theorem mapM_lookup_items (kvs items : List (Key × PyObj)) (hp : items.Perm kvs) (hnd : (kvs.map (·.1)).Nodup) :
    (items.map (·.1)).mapM (fun k => lookupKey k kvs) = some (items.map (·.2)) := by
  have hnd' : (items.map (·.1)).Nodup := (hp.map (·.1)).nodup_iff.mpr hnd
  have key : ∀ (l : List (Key × PyObj)), (∀ p ∈ l, p ∈ items) →
      (l.map (·.1)).mapM (fun k => lookupKey k kvs) = some (l.map (·.2)) := by
    intro l hl
    induction l with
    | nil => rfl
    | cons p l ih =>
      obtain ⟨k, v⟩ := p
      have hmem : (k, v) ∈ items := hl (k, v) (by simp)
      have hlook : lookupKey k items = some v := by
        clear ih hl hp hnd
        induction items with
        | nil => simp at hmem
        | cons q items ihi =>
          obtain ⟨k', v'⟩ := q
          simp only [List.map_cons, List.nodup_cons] at hnd'
          simp only [List.mem_cons, Prod.mk.injEq] at hmem
          simp only [lookupKey]
          rcases hmem with ⟨rfl, rfl⟩ | hmem
          · simp
          · have hne : (k' == k) = false := by
              simp only [beq_eq_false_iff_ne, ne_eq]
              intro e; subst e
              exact hnd'.1 (List.mem_map.mpr ⟨(k', v), hmem, rfl⟩)
            simp only [hne, Bool.false_eq_true, if_false]
            exact ihi hnd'.2 hmem
      have hk : lookupKey k kvs = some v := by rw [← lookupKey_perm k hp hnd']; exact hlook
      simp only [List.map_cons, List.mapM_cons, hk, Option.bind_eq_bind, Option.bind_some,
        ih (fun q hq => hl q (by simp [hq]))]
      rfl
  exact key items (fun _ h => h)

mutual
theorem uself (cfg : Cfg) (hp : cfg.pred = Option.none) (s : Bool) : ∀ t : PyObj, t.wf = true → USelf cfg s t
  | .leaf ty uid, _ => by
      intro d out h
      rw [flattenGo] at h
      have h := flattenGo_prelude_nopred cfg hp d _ out _ h
      simp at h; subst h; rfl
  | .none, _ => by
      intro d out h
      rw [flattenGo] at h
      have h := flattenGo_prelude_nopred cfg hp d _ out _ h
      simp only [shapeOf]
      by_cases hn : cfg.noneIsLeaf = true
      · simp only [hn, if_true] at h ⊢
        simp at h; subst h; rfl
      · simp only [hn, Bool.false_eq_true, if_false] at h ⊢
        simp at h; subst h
        simp [STree.upTo, plainInfo, hn, STree.upToL, FlatOut.close, FlatOut.empty]
  | .tuple xs, hwf => by
      intro d out h
      rw [flattenGo] at h
      have h := flattenGo_prelude_nopred cfg hp d _ out _ h
      simp only [PyObj.wf, Bool.and_eq_true] at hwf
      obtain ⟨b, hb, hl⟩ := closeSeq_leaves_seq _ _ _ _ _ out h
      rw [flattenList_eq] at hb
      have := upToL_self cfg s (d + 1) xs (uselfList cfg hp s xs hwf) b hb
      simp only [shapeOf, STree.upTo, plainInfo, shapeOfList_eq, List.length_map, bne_self_eq_false,
        Bool.false_eq_true, if_false, hl]
      exact this
  | .list xs, hwf => by
      intro d out h
      rw [flattenGo] at h
      have h := flattenGo_prelude_nopred cfg hp d _ out _ h
      simp only [PyObj.wf, Bool.and_eq_true] at hwf
      obtain ⟨b, hb, hl⟩ := closeSeq_leaves_seq _ _ _ _ _ out h
      rw [flattenList_eq] at hb
      have := upToL_self cfg s (d + 1) xs (uselfList cfg hp s xs hwf) b hb
      simp only [shapeOf, STree.upTo, plainInfo, shapeOfList_eq, List.length_map, bne_self_eq_false,
        Bool.false_eq_true, if_false, hl]
      exact this
  | .deque m xs, hwf => by
      intro d out h
      rw [flattenGo] at h
      have h := flattenGo_prelude_nopred cfg hp d _ out _ h
      simp only [PyObj.wf, Bool.and_eq_true] at hwf
      obtain ⟨b, hb, hl⟩ := closeSeq_leaves_seq _ _ _ _ _ out h
      rw [flattenList_eq] at hb
      have := upToL_self cfg s (d + 1) xs (uselfList cfg hp s xs hwf.2) b hb
      simp only [shapeOf, STree.upTo, plainInfo, shapeOfList_eq, List.length_map, bne_self_eq_false,
        Bool.false_eq_true, if_false, hl]
      exact this
  | .dict kvs, hwf => by
      intro d out h
      rw [flattenGo] at h
      have h := flattenGo_prelude_nopred cfg hp d _ out _ h
      simp only [PyObj.wf, Bool.and_eq_true, decide_eq_true_eq] at hwf
      dsimp only at h
      rw [flattenKVs_eq, dictOrder_mapVals false s (fun x => flattenGo cfg s (d + 1) x) kvs] at h
      skip
      obtain ⟨b, hb, hl⟩ := closeSeq_leaves_seq _ _ _ _ _ out h
      simp only [List.map_map, Function.comp_def] at hb
      have hperm := dictOrder_perm false s kvs
      have hxs : ∀ x ∈ (dictOrder false s kvs).map (·.2), USelf cfg s x := by
        intro x hx
        simp only [List.mem_map] at hx
        obtain ⟨p, hp', rfl⟩ := hx
        exact uselfKVs cfg hp s kvs hwf.2 p (hperm.subset hp')
      have hb' : seqOuts (((dictOrder false s kvs).map (·.2)).map (flattenGo cfg s (d + 1))) = .ok b := by
        simpa [List.map_map, Function.comp_def] using hb
      have hup := upToL_self cfg s (d + 1) _ hxs b hb'
      have hK : (dictOrder false s (shapeOfKVs cfg s kvs)).map (·.1) = (dictOrder false s kvs).map (·.1) := by
        rw [shapeOfKVs_eq, dictOrder_mapVals false s (fun x => shapeOf cfg s x) kvs]
        simp [List.map_map, Function.comp_def]
      have hC : (dictOrder false s (shapeOfKVs cfg s kvs)).map (·.2) =
          ((dictOrder false s kvs).map (·.2)).map (shapeOf cfg s) := by
        rw [shapeOfKVs_eq, dictOrder_mapVals false s (fun x => shapeOf cfg s x) kvs]
        simp [List.map_map, Function.comp_def]
      skip
      have hks : keySetEq ((dictOrder false s kvs).map (·.1)) (kvs.map (·.1)) = true :=
        (keySetEq_iff _ _).mpr ⟨by simp [hperm.length_eq], fun k hk => (hperm.map (·.1)).mem_iff.mp hk⟩
      have hmm := mapM_lookup_items kvs (dictOrder false s kvs) hperm hwf.1
      simp only [shapeOf, STree.upTo, plainInfo_kind, dictItems?, hK, hC, plainInfo_keys_keys, plainInfo_keys_ddict,
        hks, Bool.not_true, Bool.false_eq_true, if_false, hmm, hl]
      exact hup
  | .odict kvs, hwf => by
      intro d out h
      rw [flattenGo] at h
      have h := flattenGo_prelude_nopred cfg hp d _ out _ h
      simp only [PyObj.wf, Bool.and_eq_true, decide_eq_true_eq] at hwf
      dsimp only at h
      rw [flattenKVs_eq] at h
      rw [show kvs.map (fun p => (p.1, flattenGo cfg s (d + 1) p.2)) =
        (dictOrder true s kvs).map (fun p => (p.1, flattenGo cfg s (d + 1) p.2)) from by simp [dictOrder]] at h
      obtain ⟨b, hb, hl⟩ := closeSeq_leaves_seq _ _ _ _ _ out h
      simp only [List.map_map, Function.comp_def] at hb
      have hperm := dictOrder_perm true s kvs
      have hxs : ∀ x ∈ (dictOrder true s kvs).map (·.2), USelf cfg s x := by
        intro x hx
        simp only [List.mem_map] at hx
        obtain ⟨p, hp', rfl⟩ := hx
        exact uselfKVs cfg hp s kvs hwf.2 p (hperm.subset hp')
      have hb' : seqOuts (((dictOrder true s kvs).map (·.2)).map (flattenGo cfg s (d + 1))) = .ok b := by
        simpa [List.map_map, Function.comp_def] using hb
      have hup := upToL_self cfg s (d + 1) _ hxs b hb'
      have hK : (dictOrder true s (shapeOfKVs cfg s kvs)).map (·.1) = (dictOrder true s kvs).map (·.1) := by
        rw [shapeOfKVs_eq, dictOrder_mapVals true s (fun x => shapeOf cfg s x) kvs]
        simp [List.map_map, Function.comp_def]
      have hC : (dictOrder true s (shapeOfKVs cfg s kvs)).map (·.2) =
          ((dictOrder true s kvs).map (·.2)).map (shapeOf cfg s) := by
        rw [shapeOfKVs_eq, dictOrder_mapVals true s (fun x => shapeOf cfg s x) kvs]
        simp [List.map_map, Function.comp_def]
      have hks : keySetEq ((dictOrder true s kvs).map (·.1)) (kvs.map (·.1)) = true :=
        (keySetEq_iff _ _).mpr ⟨by simp [hperm.length_eq], fun k hk => (hperm.map (·.1)).mem_iff.mp hk⟩
      have hmm := mapM_lookup_items kvs (dictOrder true s kvs) hperm hwf.1
      simp only [dictOrder, Bool.not_true, Bool.false_and, Bool.false_eq_true, if_false] at hK hC hks hmm hup
      simp only [shapeOf, STree.upTo, plainInfo_kind, dictItems?, hK, hC, plainInfo_keys_keys, plainInfo_keys_ddict,
        hks, Bool.not_true, Bool.false_eq_true, if_false, hmm, hl]
      exact hup
  | .ddict f kvs, hwf => by
      intro d out h
      rw [flattenGo] at h
      have h := flattenGo_prelude_nopred cfg hp d _ out _ h
      simp only [PyObj.wf, Bool.and_eq_true, decide_eq_true_eq] at hwf
      dsimp only at h
      rw [flattenKVs_eq, dictOrder_mapVals false s (fun x => flattenGo cfg s (d + 1) x) kvs] at h
      skip
      obtain ⟨b, hb, hl⟩ := closeSeq_leaves_seq _ _ _ _ _ out h
      simp only [List.map_map, Function.comp_def] at hb
      have hperm := dictOrder_perm false s kvs
      have hxs : ∀ x ∈ (dictOrder false s kvs).map (·.2), USelf cfg s x := by
        intro x hx
        simp only [List.mem_map] at hx
        obtain ⟨p, hp', rfl⟩ := hx
        exact uselfKVs cfg hp s kvs hwf.2 p (hperm.subset hp')
      have hb' : seqOuts (((dictOrder false s kvs).map (·.2)).map (flattenGo cfg s (d + 1))) = .ok b := by
        simpa [List.map_map, Function.comp_def] using hb
      have hup := upToL_self cfg s (d + 1) _ hxs b hb'
      have hK : (dictOrder false s (shapeOfKVs cfg s kvs)).map (·.1) = (dictOrder false s kvs).map (·.1) := by
        rw [shapeOfKVs_eq, dictOrder_mapVals false s (fun x => shapeOf cfg s x) kvs]
        simp [List.map_map, Function.comp_def]
      have hC : (dictOrder false s (shapeOfKVs cfg s kvs)).map (·.2) =
          ((dictOrder false s kvs).map (·.2)).map (shapeOf cfg s) := by
        rw [shapeOfKVs_eq, dictOrder_mapVals false s (fun x => shapeOf cfg s x) kvs]
        simp [List.map_map, Function.comp_def]
      skip
      have hks : keySetEq ((dictOrder false s kvs).map (·.1)) (kvs.map (·.1)) = true :=
        (keySetEq_iff _ _).mpr ⟨by simp [hperm.length_eq], fun k hk => (hperm.map (·.1)).mem_iff.mp hk⟩
      have hmm := mapM_lookup_items kvs (dictOrder false s kvs) hperm hwf.1
      simp only [shapeOf, STree.upTo, plainInfo_kind, dictItems?, hK, hC, plainInfo_keys_keys, plainInfo_keys_ddict,
        hks, Bool.not_true, Bool.false_eq_true, if_false, hmm, hl]
      exact hup
  | .ntuple cls xs, hwf => by
      intro d out h
      rw [flattenGo] at h
      have h := flattenGo_prelude_nopred cfg hp d _ out _ h
      simp only [PyObj.wf] at hwf
      simp only [shapeOf]
      rcases Option.eq_none_or_eq_some (cfg.reg.lookup cfg.ns 1 cls) with hl | ⟨reg, hl⟩
      · simp only [hl] at h ⊢
        obtain ⟨b, hb, hle⟩ := closeSeq_leaves_seq _ _ _ _ _ out h
        rw [flattenList_eq] at hb
        have := upToL_self cfg s (d + 1) xs (uselfList cfg hp s xs hwf) b hb
        simp only [STree.upTo, plainInfo, shapeOfList_eq, List.length_map, bne_self_eq_false,
          Bool.false_eq_true, if_false, hle]
        exact this
      · simp only [hl] at h ⊢
        obtain ⟨b, hb, hle⟩ := customFlatten_leaves_seq _ _ _ out h
        rw [flattenList_eq] at hb
        have := upToL_self cfg s (d + 1) xs (uselfList cfg hp s xs hwf) b hb
        have hno : ((customOutOf reg Option.none .ok xs).numOut != 2 && (customOutOf reg Option.none .ok xs).numOut != 3) = false := by
          simp only [customOutOf]; cases reg.mode <;> simp
        simp only [STree.upTo, lookupForObject, hl, bne_self_eq_false, Bool.false_eq_true, if_false, customOut,
          customParts, hno]
        simp only [customOutOf, bne_self_eq_false, Bool.false_eq_true, if_false, shapeOfList_eq, List.length_map, hle]
        exact this
  | .sseq cls xs, hwf => by
      intro d out h
      rw [flattenGo] at h
      have h := flattenGo_prelude_nopred cfg hp d _ out _ h
      simp only [PyObj.wf] at hwf
      simp only [shapeOf]
      rcases Option.eq_none_or_eq_some (cfg.reg.lookup cfg.ns 2 cls) with hl | ⟨reg, hl⟩
      · simp only [hl] at h ⊢
        obtain ⟨b, hb, hle⟩ := closeSeq_leaves_seq _ _ _ _ _ out h
        rw [flattenList_eq] at hb
        have := upToL_self cfg s (d + 1) xs (uselfList cfg hp s xs hwf) b hb
        simp only [STree.upTo, plainInfo, shapeOfList_eq, List.length_map, bne_self_eq_false,
          Bool.false_eq_true, if_false, hle]
        exact this
      · simp only [hl] at h ⊢
        obtain ⟨b, hb, hle⟩ := customFlatten_leaves_seq _ _ _ out h
        rw [flattenList_eq] at hb
        have := upToL_self cfg s (d + 1) xs (uselfList cfg hp s xs hwf) b hb
        have hno : ((customOutOf reg Option.none .ok xs).numOut != 2 && (customOutOf reg Option.none .ok xs).numOut != 3) = false := by
          simp only [customOutOf]; cases reg.mode <;> simp
        simp only [STree.upTo, lookupForObject, hl, bne_self_eq_false, Bool.false_eq_true, if_false, customOut,
          customParts, hno]
        simp only [customOutOf, bne_self_eq_false, Bool.false_eq_true, if_false, shapeOfList_eq, List.length_map, hle]
        exact this
  | .user cls md q xs, hwf => by
      intro d out h
      rw [flattenGo] at h
      have h := flattenGo_prelude_nopred cfg hp d _ out _ h
      simp only [PyObj.wf, Bool.and_eq_true, beq_iff_eq] at hwf
      obtain ⟨hq, hwf⟩ := hwf
      subst hq
      simp only [shapeOf]
      rcases Option.eq_none_or_eq_some (cfg.reg.lookup cfg.ns 0 cls) with hl | ⟨reg, hl⟩
      · simp only [hl] at h ⊢
        simp at h; subst h; rfl
      · simp only [hl] at h ⊢
        obtain ⟨b, hb, hle⟩ := customFlatten_leaves_seq _ _ _ out h
        rw [flattenList_eq] at hb
        have := upToL_self cfg s (d + 1) xs (uselfList cfg hp s xs hwf) b hb
        have hno : ((customOutOf reg md .ok xs).numOut != 2 && (customOutOf reg md .ok xs).numOut != 3) = false := by
          simp only [customOutOf]; cases reg.mode <;> simp
        simp only [STree.upTo, lookupForObject, hl, bne_self_eq_false, Bool.false_eq_true, if_false, customOut,
          customParts, hno]
        simp only [customOutOf, bne_self_eq_false, Bool.false_eq_true, if_false, shapeOfList_eq, List.length_map, hle]
        exact this
theorem uselfList (cfg : Cfg) (hp : cfg.pred = Option.none) (s : Bool) : ∀ xs : List PyObj,
    PyObj.wfList xs = true → ∀ x ∈ xs, USelf cfg s x
  | [], _ => by intro x hx; simp at hx
  | y :: ys, hwf => by
      simp only [PyObj.wfList, Bool.and_eq_true] at hwf
      intro x hx
      simp only [List.mem_cons] at hx
      rcases hx with hx | hx
      · subst hx; exact uself cfg hp s x hwf.1
      · exact uselfList cfg hp s ys hwf.2 x hx
theorem uselfKVs (cfg : Cfg) (hp : cfg.pred = Option.none) (s : Bool) : ∀ kvs : List (Key × PyObj),
    PyObj.wfKVs kvs = true → ∀ p ∈ kvs, USelf cfg s p.2
  | [], _ => by intro p hp; simp at hp
  | (k, y) :: ys, hwf => by
      simp only [PyObj.wfKVs, Bool.and_eq_true] at hwf
      intro p hp'
      simp only [List.mem_cons] at hp'
      rcases hp' with hp' | hp'
      · subst hp'; exact uself cfg hp s y hwf.1
      · exact uselfKVs cfg hp s ys hwf.2 p hp'
end

/-- **`spec.flatten_up_to(tree)` with the tree's own treespec returns its leaves** -/
theorem flattenUpTo_self (cfg : Cfg) (hp : cfg.pred = Option.none) (t : PyObj) (ht : t.wf = true)
    (ls : List PyObj) (sp : Spec) (h : flatten cfg t = .ok (ls, sp)) (hns : sp.ns = cfg.ns) :
    flattenUpTo cfg.reg sp t = .ok ls := by
  obtain ⟨e1, _⟩ := flatten_shapeOf cfg hp t ht ls sp h
  obtain ⟨w1, _⟩ := wg cfg (!cfg.insertionOrdered) t ht
  rw [e1, hns, flattenUpTo_enc cfg.reg _ w1]
  unfold flatten at h
  simp only at h
  split at h
  · simp at h
  · rename_i out ho
    simp only [Except.ok.injEq, Prod.mk.injEq] at h
    rw [← h.1]
    exact uself cfg hp _ t ht 0 out ho

end Optree
