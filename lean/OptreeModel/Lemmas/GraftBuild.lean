/-
  Unflattening with *trees* instead of leaves.

  `PyTreeSpec.unflatten` does not look at what it is given: run over the records of `t` with arbitrary objects
  `xs` in place of the leaves, the stack machine builds a tree `t'` (as in `Lemmas/Replace.lean`).  Here the
  objects are trees themselves: the shape of `t'` is the shape of `t` with its i-th leaf replaced by the shape of
  `xs[i]` (`STree.graftN`), and the leaves of `t'` are the leaves of the `xs[i]`, in order.  This is what
  `tree_transpose` (unflatten the inner treespec with outer-shaped trees) and `tree_broadcast_prefix` (unflatten the
  prefix treespec with replicated subtrees) rely on.  No predicate; mutual structural induction in parallel with
  `robj`.
-/
import OptreeModel.Lemmas.Replace
import OptreeModel.Lemmas.Graft

namespace Optree

mutual
/-- the shape with its leaves replaced, left to right, by the shapes of a list (one per leaf) -/
def STree.graftN : STree → List STree → STree
  | .leaf, xs => xs.headD .leaf
  | .node i cs, xs => .node i (STree.graftNL cs xs)
def STree.graftNL : List STree → List STree → List STree
  | [], _ => []
  | c :: cs, xs => c.graftN (xs.take c.leaves) :: STree.graftNL cs (xs.drop c.leaves)
end

theorem STree.graftNL_length : ∀ (cs xs : List STree), (STree.graftNL cs xs).length = cs.length
  | [], _ => rfl
  | _ :: cs, xs => by simp [STree.graftNL, STree.graftNL_length cs]

mutual
/-- grafting the same shape everywhere is `compose` -/
theorem STree.graftN_replicate (b : STree) : ∀ s : STree, s.graftN (List.replicate s.leaves b) = s.subst b
  | .leaf => by simp [STree.graftN, STree.leaves, STree.subst]
  | .node i cs => by
      simp only [STree.graftN, STree.leaves, STree.subst]
      rw [STree.graftNL_replicate b cs]
theorem STree.graftNL_replicate (b : STree) : ∀ cs : List STree,
    STree.graftNL cs (List.replicate (STree.leavesL cs) b) = STree.substL cs b
  | [] => rfl
  | c :: cs => by
      simp only [STree.graftNL, STree.leavesL, STree.substL]
      have h1 : (List.replicate (c.leaves + STree.leavesL cs) b).take c.leaves = List.replicate c.leaves b := by
        simp [List.take_replicate]
      have h2 : (List.replicate (c.leaves + STree.leavesL cs) b).drop c.leaves = List.replicate (STree.leavesL cs) b := by
        simp [List.drop_replicate]
      rw [h1, h2, STree.graftN_replicate b c, STree.graftNL_replicate b cs]
end

/-- what is known about the tree built from `orig`'s records with `xs` in place of the leaves -/
def Gpost (cfg : Cfg) (s : Bool) (orig : PyObj) (xs : List PyObj) (t' : PyObj) : Prop :=
  shapeOf cfg s t' = (shapeOf cfg s orig).graftN (xs.map (shapeOf cfg s)) ∧
  leavesOf cfg s t' = xs.flatMap (leavesOf cfg s) ∧
  ((∀ x ∈ xs, x.wf = true) → t'.wf = true)

def Gobj (cfg : Cfg) (s : Bool) (t : PyObj) : Prop :=
  ∀ d out, flattenGo cfg s d t = .ok out → ∀ xs : List PyObj, xs.length = out.leaves.length →
    ∃ t', RT (withLeaves out xs) [t'] ∧ Gpost cfg s t xs t'

def Gchild (cfg : Cfg) (s : Bool) (p : Except Err FlatOut × PyObj) : Prop :=
  ∀ o, p.1 = .ok o → o.leaves.length = (shapeOf cfg s p.2).leaves ∧
    ∀ xs : List PyObj, xs.length = o.leaves.length → ∃ t', RT (withLeaves o xs) [t'] ∧ Gpost cfg s p.2 xs t'

theorem G_seq (cfg : Cfg) (s : Bool) :
    ∀ (ps : List (Except Err FlatOut × PyObj)), (∀ p ∈ ps, Gchild cfg s p) →
    ∀ (b : FlatOut), seqOuts (ps.map (·.1)) = .ok b → ∀ xs : List PyObj, xs.length = b.leaves.length →
    ∃ ts', ts'.length = ps.length ∧ RT (withLeaves b xs) ts' ∧
      ts'.map (shapeOf cfg s) = STree.graftNL (ps.map fun p => shapeOf cfg s p.2) (xs.map (shapeOf cfg s)) ∧
      (ts'.map (leavesOf cfg s)).flatten = xs.flatMap (leavesOf cfg s) ∧
      ((∀ x ∈ xs, x.wf = true) → ∀ t ∈ ts', t.wf = true)
  | [], _, b, hb, xs, hl => by
      simp [seqOuts] at hb
      subst hb
      have : xs = [] := by simpa [FlatOut.empty] using hl
      subst this
      exact ⟨[], rfl, by simpa [withLeaves, FlatOut.empty] using RT_empty, by simp [STree.graftNL], by simp,
        by simp⟩
  | p :: ps, h, b, hb, xs, hl => by
      simp only [List.map_cons] at hb
      unfold seqOuts at hb
      split at hb
      · simp at hb
      · rename_i a ha
        split at hb
        · simp at hb
        · rename_i b' hb'
          simp at hb
          subst hb
          simp only [FlatOut.append, List.length_append] at hl
          obtain ⟨hsz, hg⟩ := h p (by simp) a ha
          have e : xs = xs.take a.leaves.length ++ xs.drop a.leaves.length := (List.take_append_drop _ _).symm
          have l1 : (xs.take a.leaves.length).length = a.leaves.length := by rw [List.length_take]; omega
          have l2 : (xs.drop a.leaves.length).length = b'.leaves.length := by rw [List.length_drop]; omega
          obtain ⟨t', rt1, g1, g2, g3⟩ := hg _ l1
          obtain ⟨ts', len, rt2, q1, q2, q3⟩ := G_seq cfg s ps (fun q hq => h q (by simp [hq])) b' hb' _ l2
          refine ⟨t' :: ts', by simp [len], ?_, ?_, ?_, ?_⟩
          · rw [e, withLeaves_append]
            have := RT_append rt1 rt2
            simpa using this
          · simp only [List.map_cons, STree.graftNL]
            rw [g1, q1, ← hsz, List.map_take, List.map_drop]
          · simp only [List.map_cons, List.flatten_cons]
            rw [g2, q2, ← List.flatMap_append, List.take_append_drop]
          · intro hw t ht
            simp only [List.mem_cons] at ht
            rcases ht with rfl | ht
            · exact g3 (fun x hx => hw x (List.mem_of_mem_take hx))
            · exact q3 (fun x hx => hw x (List.mem_of_mem_drop hx)) t ht

/-- children pushed and the parent record closed, with arbitrary objects in place of the leaves -/
theorem G_closeSeq (cfg : Cfg) (s : Bool)
    (ps : List (Except Err FlatOut × PyObj)) (h : ∀ p ∈ ps, Gchild cfg s p)
    (kind : Kind) (data : NodeData) (entries : Option (List Key)) (custom : Option Reg)
    (okeys : Option (List Key)) (fc : Bool) (out : FlatOut)
    (hout : (match seqOuts (ps.map (·.1)) with
             | .error e => Except.error e
             | .ok b => .ok (b.close kind ps.length data entries custom okeys fc)) = .ok out)
    (xs : List PyObj) (hl : xs.length = out.leaves.length) :
    ∃ ts', ts'.length = ps.length ∧
      (∀ t', kind ≠ .leaf →
        (∀ nl nn, makeNode (Node.mk kind ps.length data entries custom nl nn okeys) ts' = .ok t') →
        RT (withLeaves out xs) [t']) ∧
      ts'.map (shapeOf cfg s) = STree.graftNL (ps.map fun p => shapeOf cfg s p.2) (xs.map (shapeOf cfg s)) ∧
      (ts'.map (leavesOf cfg s)).flatten = xs.flatMap (leavesOf cfg s) ∧
      ((∀ x ∈ xs, x.wf = true) → ∀ t ∈ ts', t.wf = true) := by
  split at hout
  · simp at hout
  · rename_i b hb
    simp at hout
    subst hout
    have hl' : xs.length = b.leaves.length := by simpa [FlatOut.close] using hl
    obtain ⟨ts', len, rt, q1, q2, q3⟩ := G_seq cfg s ps h b hb xs hl'
    refine ⟨ts', len, ?_, q1, q2, q3⟩
    intro t' hkind hmk
    rw [withLeaves_close b xs hl']
    have := RT_close (xs := ts') rt kind data entries custom okeys fc t' hkind (by rw [len]; exact hmk _ _)
    rw [len] at this
    exact this


/-! ### per kind -/

theorem wfList_iff_mem (xs : List PyObj) : PyObj.wfList xs = true ↔ ∀ x ∈ xs, x.wf = true := by
  induction xs with
  | nil => simp [PyObj.wfList]
  | cons x xs ih => simp [PyObj.wfList, ih]

theorem wfKVs_iff_mem (kvs : List (Key × PyObj)) : PyObj.wfKVs kvs = true ↔ ∀ p ∈ kvs, p.2.wf = true := by
  induction kvs with
  | nil => simp [PyObj.wfKVs]
  | cons p kvs ih => obtain ⟨k, x⟩ := p; simp [PyObj.wfKVs, ih]

theorem gobj_seq_like (cfg : Cfg) (hp : cfg.pred = Option.none) (s : Bool) (xs0 : List PyObj)
    (hwl : PyObj.wfList xs0 = true) (ih : ∀ x ∈ xs0, Gobj cfg s x) (d : Nat)
    (kind : Kind) (data : NodeData) (entries : Option (List Key)) (custom : Option Reg) (fc : Bool)
    (mk : List PyObj → PyObj) (hkind : kind ≠ .leaf)
    (hmk : ∀ ts' : List PyObj, ts'.length = xs0.length → ∀ nl nn,
      makeNode (Node.mk kind xs0.length data entries custom nl nn Option.none) ts' = .ok (mk ts'))
    (out : FlatOut)
    (h : (match seqOuts (flattenList cfg s d xs0) with
          | .error e => Except.error e
          | .ok b => .ok (b.close kind xs0.length data entries custom Option.none fc)) = .ok out)
    (xs : List PyObj) (hl : xs.length = out.leaves.length) :
    ∃ ts' : List PyObj, ts'.length = xs0.length ∧ RT (withLeaves out xs) [mk ts'] ∧
      shapeOfList cfg s ts' = STree.graftNL (shapeOfList cfg s xs0) (xs.map (shapeOf cfg s)) ∧
      leavesOfList cfg s ts' = xs.flatMap (leavesOf cfg s) ∧
      ((∀ x ∈ xs, x.wf = true) → PyObj.wfList ts' = true) := by
  rw [flattenList_eq] at h
  let ps := xs0.map fun x => (flattenGo cfg s d x, x)
  have h1 : ps.map (·.1) = xs0.map (flattenGo cfg s d) := by simp [ps, List.map_map, Function.comp_def]
  have h2 : (ps.map fun p => shapeOf cfg s p.2) = xs0.map (shapeOf cfg s) := by
    simp [ps, List.map_map, Function.comp_def]
  have hpl : ps.length = xs0.length := by simp [ps]
  have hps : ∀ p ∈ ps, Gchild cfg s p := by
    intro p hpm o ho
    simp only [ps, List.mem_map] at hpm
    obtain ⟨x, hx, rfl⟩ := hpm
    have hxw := (wfList_iff_mem xs0).mp hwl x hx
    exact ⟨(sh cfg hp s x hxw d o ho).2, fun ys hy => ih x hx d o ho ys hy⟩
  rw [← h1, ← hpl] at h
  obtain ⟨ts', len, rt, q1, q2, q3⟩ := G_closeSeq cfg s ps hps kind data entries custom Option.none fc out h xs hl
  rw [hpl] at len
  refine ⟨ts', len, rt (mk ts') hkind (by rw [hpl]; exact hmk ts' len), ?_, ?_, ?_⟩
  · rw [shapeOfList_eq, shapeOfList_eq, q1, h2]
  · rw [leavesOfList_eq, q2]
  · intro hw; exact (wfList_iff_mem ts').mpr (q3 hw)

theorem gobj_dict_like (cfg : Cfg) (hp : cfg.pred = Option.none) (s od : Bool) (kvs : List (Key × PyObj))
    (hnd : (kvs.map (·.1)).Nodup) (hwk : PyObj.wfKVs kvs = true) (ih : ∀ p ∈ kvs, Gobj cfg s p.2) (d : Nat)
    (kind : Kind) (mkData : List Key → NodeData) (okeys : Option (List Key))
    (hok : okeys = some (kvs.map (·.1)) ∨ (okeys = Option.none ∧ od = true))
    (mk : List (Key × PyObj) → PyObj) (hkind : kind ≠ .leaf)
    (hmk : ∀ (ks : List Key) (ts' : List PyObj), ts'.length = kvs.length → ∀ nl nn,
      makeNode (Node.mk kind kvs.length (mkData ks) Option.none Option.none nl nn okeys) ts' =
        .ok (mk (dictBuild okeys ks ts')))
    (out : FlatOut)
    (h : closeSeq ((dictOrder od s (flattenKVs cfg s d kvs)).map (·.2)) kind kvs.length
      (mkData ((dictOrder od s (flattenKVs cfg s d kvs)).map (·.1))) Option.none Option.none okeys = .ok out)
    (xs : List PyObj) (hl : xs.length = out.leaves.length) :
    ∃ kvs' : List (Key × PyObj), kvs'.map (·.1) = kvs.map (·.1) ∧ RT (withLeaves out xs) [mk kvs'] ∧
      (dictOrder od s kvs').map (·.1) = (dictOrder od s kvs).map (·.1) ∧
      ((dictOrder od s kvs').map fun p => shapeOf cfg s p.2) =
        STree.graftNL ((dictOrder od s kvs).map fun p => shapeOf cfg s p.2) (xs.map (shapeOf cfg s)) ∧
      (((dictOrder od s kvs').map fun p => leavesOf cfg s p.2)).flatten = xs.flatMap (leavesOf cfg s) ∧
      ((∀ x ∈ xs, x.wf = true) → PyObj.wfKVs kvs' = true) := by
  have hF : ∀ l : List (Key × PyObj), dictOrder od s (flattenKVs cfg s d l) =
      (dictOrder od s l).map fun p => (p.1, flattenGo cfg s d p.2) := by
    intro l
    rw [flattenKVs_eq]
    exact dictOrder_map od s (fun p => (p.1, flattenGo cfg s d p.2)) (fun _ => rfl) l
  rw [hF kvs] at h
  let perm := dictOrder od s kvs
  have hperm : perm.Perm kvs := dictOrder_perm od s kvs
  let ps := perm.map fun p => (flattenGo cfg s d p.2, p.2)
  have h1 : ps.map (·.1) = (perm.map fun p => (p.1, flattenGo cfg s d p.2)).map (·.2) := by
    simp [ps, List.map_map, Function.comp_def]
  have h2 : (ps.map fun p => shapeOf cfg s p.2) = perm.map fun p => shapeOf cfg s p.2 := by
    simp [ps, List.map_map, Function.comp_def]
  have h3 : (perm.map fun p => (p.1, flattenGo cfg s d p.2)).map (·.1) = perm.map (·.1) := by
    simp [List.map_map, Function.comp_def]
  have hpl : ps.length = kvs.length := by simp [ps, hperm.length_eq]
  have hps : ∀ p ∈ ps, Gchild cfg s p := by
    intro p hpm o ho
    simp only [ps, List.mem_map] at hpm
    obtain ⟨q, hq, rfl⟩ := hpm
    have hqm := hperm.subset hq
    have hqw := (wfKVs_iff_mem kvs).mp hwk q hqm
    exact ⟨(sh cfg hp s q.2 hqw d o ho).2, fun ys hy => ih q hqm d o ho ys hy⟩
  unfold closeSeq at h
  rw [← h1, h3, ← hpl] at h
  obtain ⟨ts', len, rt, q1, q2, q3⟩ := G_closeSeq cfg s ps hps kind (mkData (perm.map (·.1)))
    Option.none Option.none okeys false out h xs hl
  rw [hpl] at len
  obtain ⟨hb, hk, ho1, ho2⟩ := dict_rebuild od s kvs hnd okeys hok ts' len
  have ho1' : (dictOrder od s (kvs.map (reval perm ts'))).map (·.1) = perm.map (·.1) := ho1
  have ho2' : (dictOrder od s (kvs.map (reval perm ts'))).map (·.2) = ts' := ho2
  have hvals : ∀ (β : Type) (g : PyObj → β), ((dictOrder od s (kvs.map (reval perm ts'))).map fun p => g p.2) = ts'.map g := by
    intro β g
    have e : ((dictOrder od s (kvs.map (reval perm ts'))).map fun p => g p.2) =
        ((dictOrder od s (kvs.map (reval perm ts'))).map (·.2)).map g := by
      simp [List.map_map, Function.comp_def]
    rw [e, ho2']
  refine ⟨kvs.map (reval perm ts'), hk, ?_, ho1', ?_, ?_, ?_⟩
  · have := rt (mk (dictBuild okeys (perm.map (·.1)) ts')) hkind (by rw [hpl]; exact hmk (perm.map (·.1)) ts' len)
    rwa [hb] at this
  · rw [hvals, q1, h2]
  · rw [hvals, q2]
  · intro hw
    rw [wfKVs_iff_mem]
    intro p hpm
    have hpp : (dictOrder od s (kvs.map (reval perm ts'))).Perm (kvs.map (reval perm ts')) := dictOrder_perm od s _
    have : p.2 ∈ (dictOrder od s (kvs.map (reval perm ts'))).map (·.2) :=
      List.mem_map_of_mem (f := (·.2)) (hpp.symm.subset hpm)
    rw [ho2'] at this
    exact q3 hw p.2 this


/-! ### the induction -/

theorem dictOrder_od {α : Type} (s : Bool) (l : List (Key × α)) : dictOrder true s l = l := by
  simp [dictOrder]

theorem shapeOf_dictItems (cfg : Cfg) (s od : Bool) (kvs : List (Key × PyObj)) :
    dictOrder od s (shapeOfKVs cfg s kvs) = (dictOrder od s kvs).map fun p => (p.1, shapeOf cfg s p.2) := by
  rw [shapeOfKVs_eq]
  exact dictOrder_map od s (fun p => (p.1, shapeOf cfg s p.2)) (fun _ => rfl) kvs

theorem leavesOf_dictItems (cfg : Cfg) (s od : Bool) (kvs : List (Key × PyObj)) :
    dictOrder od s (leavesOfKVs cfg s kvs) = (dictOrder od s kvs).map fun p => (p.1, leavesOf cfg s p.2) := by
  rw [leavesOfKVs_eq]
  exact dictOrder_map od s (fun p => (p.1, leavesOf cfg s p.2)) (fun _ => rfl) kvs

theorem gobj_leaflike (cfg : Cfg) (s : Bool) (t : PyObj) (hs : shapeOf cfg s t = .leaf) (xs : List PyObj)
    (hl : xs.length = (leafOut t).leaves.length) :
    ∃ t', RT (withLeaves (leafOut t) xs) [t'] ∧ Gpost cfg s t xs t' := by
  match xs, hl with
  | [x], _ =>
    refine ⟨x, ?_, ?_, ?_, ?_⟩
    · have : withLeaves (leafOut t) [x] = leafOut x := rfl
      rw [this]; exact RT_leaf x
    · simp [hs, STree.graftN]
    · simp
    · intro hw; exact hw x (by simp)
  | [], hl => simp [leafOut] at hl
  | _ :: _ :: _, hl => simp [leafOut] at hl

theorem evalPred_none (cfg : Cfg) (hp : cfg.pred = Option.none) (x : PyObj) : cfg.evalPred x = .ok false := by
  simp [Cfg.evalPred, hp]

mutual
theorem gobj (cfg : Cfg) (hreg : cfg.reg.OK) (hp : cfg.pred = Option.none) (s : Bool) :
    ∀ t : PyObj, t.wf = true → Gobj cfg s t
  | .leaf ty uid, _ => by
      intro d out h xs hl
      rw [flattenGo] at h
      obtain ⟨_, h | h⟩ := flattenGo_prelude' cfg d _ out _ h
      · obtain ⟨_, rfl⟩ := h; exact gobj_leaflike cfg s _ rfl xs hl
      · obtain ⟨_, h⟩ := h
        simp at h; subst h; exact gobj_leaflike cfg s _ rfl xs hl
  | .none, _ => by
      intro d out h xs hl
      have h0 := h
      rw [flattenGo] at h
      obtain ⟨_, h | h⟩ := flattenGo_prelude' cfg d _ out _ h
      · obtain ⟨hpt, _⟩ := h; rw [evalPred_none cfg hp] at hpt; cases hpt
      · obtain ⟨_, h⟩ := h
        split at h
        · rename_i hn
          simp at h; subst h
          exact gobj_leaflike cfg s _ (by simp [shapeOf, hn]) xs hl
        · rename_i hn
          simp at h; subst h
          have : xs = [] := by simpa [FlatOut.close, FlatOut.empty] using hl
          subst this
          rw [withLeaves_nil _ (by simp [FlatOut.close, FlatOut.empty])]
          refine ⟨.none, pobj cfg hreg s .none (by simp [PyObj.wf]) d _ h0, ?_, ?_, ?_⟩
          · simp [shapeOf, hn, STree.graftN, STree.graftNL]
          · simp [leavesOf, hn, predTrue_none cfg hp]
          · intro _; simp [PyObj.wf]
  | .tuple xs0, hwf => by
      intro d out h xs hl
      rw [flattenGo] at h
      obtain ⟨_, h | h⟩ := flattenGo_prelude' cfg d _ out _ h
      · obtain ⟨hpt, _⟩ := h; rw [evalPred_none cfg hp] at hpt; cases hpt
      · obtain ⟨_, h⟩ := h
        simp only [PyObj.wf] at hwf
        unfold closeSeq at h
        obtain ⟨ts', len, rt, q1, q2, q3⟩ := gobj_seq_like cfg hp s xs0 hwf (glist cfg hreg hp s xs0 hwf) (d + 1)
          .tuple .none Option.none Option.none false PyObj.tuple (by simp)
          (by intro ts' hl' nl nn; simp [makeNode, hl']) out h xs hl
        refine ⟨.tuple ts', rt, ?_, ?_, ?_⟩
        · simp [shapeOf, STree.graftN, q1]
        · simp [leavesOf, predTrue_none cfg hp, q2]
        · intro hw; simp [PyObj.wf, q3 hw]
  | .list xs0, hwf => by
      intro d out h xs hl
      rw [flattenGo] at h
      obtain ⟨_, h | h⟩ := flattenGo_prelude' cfg d _ out _ h
      · obtain ⟨hpt, _⟩ := h; rw [evalPred_none cfg hp] at hpt; cases hpt
      · obtain ⟨_, h⟩ := h
        simp only [PyObj.wf] at hwf
        unfold closeSeq at h
        obtain ⟨ts', len, rt, q1, q2, q3⟩ := gobj_seq_like cfg hp s xs0 hwf (glist cfg hreg hp s xs0 hwf) (d + 1)
          .list .none Option.none Option.none false PyObj.list (by simp)
          (by intro ts' hl' nl nn; simp [makeNode, hl']) out h xs hl
        refine ⟨.list ts', rt, ?_, ?_, ?_⟩
        · simp [shapeOf, STree.graftN, q1]
        · simp [leavesOf, predTrue_none cfg hp, q2]
        · intro hw; simp [PyObj.wf, q3 hw]
  | .deque m xs0, hwf => by
      intro d out h xs hl
      rw [flattenGo] at h
      obtain ⟨_, h | h⟩ := flattenGo_prelude' cfg d _ out _ h
      · obtain ⟨hpt, _⟩ := h; rw [evalPred_none cfg hp] at hpt; cases hpt
      · obtain ⟨_, h⟩ := h
        simp only [PyObj.wf, Bool.and_eq_true] at hwf
        unfold closeSeq at h
        obtain ⟨ts', len, rt, q1, q2, q3⟩ := gobj_seq_like cfg hp s xs0 hwf.2 (glist cfg hreg hp s xs0 hwf.2) (d + 1)
          .deque (.maxlen m) Option.none Option.none false (PyObj.deque m) (by simp)
          (by intro ts' hl' nl nn
              simp [makeNode, hl', mkDeque_of_ok m ts' (by rw [hl']; exact hwf.1)]) out h xs hl
        refine ⟨.deque m ts', rt, ?_, ?_, ?_⟩
        · simp [shapeOf, STree.graftN, q1]
        · simp [leavesOf, predTrue_none cfg hp, q2]
        · intro hw; simp [PyObj.wf, q3 hw, len, hwf.1]
  | .dict kvs, hwf => by
      intro d out h xs hl
      rw [flattenGo] at h
      obtain ⟨_, h | h⟩ := flattenGo_prelude' cfg d _ out _ h
      · obtain ⟨hpt, _⟩ := h; rw [evalPred_none cfg hp] at hpt; cases hpt
      · obtain ⟨_, h⟩ := h
        simp only [PyObj.wf, Bool.and_eq_true, decide_eq_true_eq] at hwf
        obtain ⟨kvs', hk, rt, o1, q1, q2, q3⟩ := gobj_dict_like cfg hp s false kvs hwf.1 hwf.2
          (gkvs cfg hreg hp s kvs hwf.2) (d + 1) .dict .keys (some (kvs.map (·.1))) (Or.inl rfl) PyObj.dict (by simp)
          (by intro ks ts' hl' nl nn; simp [makeNode, hl']) out h xs hl
        refine ⟨.dict kvs', rt, ?_, ?_, ?_⟩
        · simp only [shapeOf, shapeOf_dictItems, STree.graftN, List.map_map, Function.comp_def, hk]
          rw [← q1]
          have : ((dictOrder false s kvs').map fun x => x.1) = (dictOrder false s kvs).map fun x => x.1 := o1
          rw [this]
        · simp only [leavesOf, predTrue_none cfg hp, Bool.false_eq_true, if_false, leavesOf_dictItems,
            List.map_map, Function.comp_def]
          exact q2
        · intro hw; simp [PyObj.wf, hk, hwf.1, q3 hw]
  | .odict kvs, hwf => by
      intro d out h xs hl
      rw [flattenGo] at h
      obtain ⟨_, h | h⟩ := flattenGo_prelude' cfg d _ out _ h
      · obtain ⟨hpt, _⟩ := h; rw [evalPred_none cfg hp] at hpt; cases hpt
      · obtain ⟨_, h⟩ := h
        simp only [PyObj.wf, Bool.and_eq_true, decide_eq_true_eq] at hwf
        have hdo : ∀ l : List (Key × Except Err FlatOut), dictOrder true s l = l := fun l => dictOrder_od s l
        obtain ⟨kvs', hk, rt, o1, q1, q2, q3⟩ := gobj_dict_like cfg hp s true kvs hwf.1 hwf.2
          (gkvs cfg hreg hp s kvs hwf.2) (d + 1) .ordereddict .keys Option.none (Or.inr ⟨rfl, rfl⟩) PyObj.odict (by simp)
          (by intro ks ts' hl' nl nn; simp [makeNode, hl']) out (by simpa only [hdo] using h) xs hl
        simp only [dictOrder_od] at o1 q1 q2
        refine ⟨.odict kvs', rt, ?_, ?_, ?_⟩
        · simp only [shapeOf, shapeOfKVs_eq, STree.graftN, List.map_map, Function.comp_def]
          rw [← q1]
          have : (kvs'.map fun x => x.1) = kvs.map fun x => x.1 := o1
          rw [this]
        · simp only [leavesOf, predTrue_none cfg hp, Bool.false_eq_true, if_false, leavesOfKVs_eq,
            List.map_map, Function.comp_def]
          exact q2
        · intro hw; simp [PyObj.wf, hk, hwf.1, q3 hw]
  | .ddict f kvs, hwf => by
      intro d out h xs hl
      rw [flattenGo] at h
      obtain ⟨_, h | h⟩ := flattenGo_prelude' cfg d _ out _ h
      · obtain ⟨hpt, _⟩ := h; rw [evalPred_none cfg hp] at hpt; cases hpt
      · obtain ⟨_, h⟩ := h
        simp only [PyObj.wf, Bool.and_eq_true, decide_eq_true_eq] at hwf
        obtain ⟨kvs', hk, rt, o1, q1, q2, q3⟩ := gobj_dict_like cfg hp s false kvs hwf.1 hwf.2
          (gkvs cfg hreg hp s kvs hwf.2) (d + 1) .defaultdict (.ddict f) (some (kvs.map (·.1))) (Or.inl rfl)
          (PyObj.ddict f) (by simp) (by intro ks ts' hl' nl nn; simp [makeNode, hl']) out h xs hl
        refine ⟨.ddict f kvs', rt, ?_, ?_, ?_⟩
        · simp only [shapeOf, shapeOf_dictItems, STree.graftN, List.map_map, Function.comp_def, hk]
          rw [← q1]
          have : ((dictOrder false s kvs').map fun x => x.1) = (dictOrder false s kvs).map fun x => x.1 := o1
          rw [this]
        · simp only [leavesOf, predTrue_none cfg hp, Bool.false_eq_true, if_false, leavesOf_dictItems,
            List.map_map, Function.comp_def]
          exact q2
        · intro hw; simp [PyObj.wf, hk, hwf.1, q3 hw]
  | .ntuple cls xs0, hwf => by
      intro d out h xs hl
      rw [flattenGo] at h
      obtain ⟨_, h | h⟩ := flattenGo_prelude' cfg d _ out _ h
      · obtain ⟨hpt, _⟩ := h; rw [evalPred_none cfg hp] at hpt; cases hpt
      · obtain ⟨_, h⟩ := h
        simp only [PyObj.wf] at hwf
        split at h
        · rename_i reg hlk
          obtain ⟨hc, hck⟩ := hreg _ _ _ _ hlk
          rw [customFlatten_regEntries reg Option.none xs0 _ (by simp [flattenList_eq])] at h
          obtain ⟨ts', len, rt, q1, q2, q3⟩ := gobj_seq_like cfg hp s xs0 hwf (glist cfg hreg hp s xs0 hwf) (d + 1)
            .custom (.md Option.none) (regEntries reg xs0.length) (some reg) true (PyObj.ntuple cls) (by simp)
            (by intro ts' hl' nl nn; simp [makeNode, hl', customUnflatten, hc, hck]) out h xs hl
          refine ⟨.ntuple cls ts', rt, ?_, ?_, ?_⟩
          · simp [shapeOf, hlk, STree.graftN, q1, len]
          · simp [leavesOf, predTrue_none cfg hp, q2]
          · intro hw; simp [PyObj.wf, q3 hw]
        · rename_i hlk
          unfold closeSeq at h
          obtain ⟨ts', len, rt, q1, q2, q3⟩ := gobj_seq_like cfg hp s xs0 hwf (glist cfg hreg hp s xs0 hwf) (d + 1)
            .namedtuple (.cls cls) Option.none Option.none false (PyObj.ntuple cls) (by simp)
            (by intro ts' hl' nl nn; simp [makeNode, hl']) out h xs hl
          refine ⟨.ntuple cls ts', rt, ?_, ?_, ?_⟩
          · simp [shapeOf, hlk, STree.graftN, q1]
          · simp [leavesOf, predTrue_none cfg hp, q2]
          · intro hw; simp [PyObj.wf, q3 hw]
  | .sseq cls xs0, hwf => by
      intro d out h xs hl
      rw [flattenGo] at h
      obtain ⟨_, h | h⟩ := flattenGo_prelude' cfg d _ out _ h
      · obtain ⟨hpt, _⟩ := h; rw [evalPred_none cfg hp] at hpt; cases hpt
      · obtain ⟨_, h⟩ := h
        simp only [PyObj.wf] at hwf
        split at h
        · rename_i reg hlk
          obtain ⟨hc, hck⟩ := hreg _ _ _ _ hlk
          rw [customFlatten_regEntries reg Option.none xs0 _ (by simp [flattenList_eq])] at h
          obtain ⟨ts', len, rt, q1, q2, q3⟩ := gobj_seq_like cfg hp s xs0 hwf (glist cfg hreg hp s xs0 hwf) (d + 1)
            .custom (.md Option.none) (regEntries reg xs0.length) (some reg) true (PyObj.sseq cls) (by simp)
            (by intro ts' hl' nl nn; simp [makeNode, hl', customUnflatten, hc, hck]) out h xs hl
          refine ⟨.sseq cls ts', rt, ?_, ?_, ?_⟩
          · simp [shapeOf, hlk, STree.graftN, q1, len]
          · simp [leavesOf, predTrue_none cfg hp, q2]
          · intro hw; simp [PyObj.wf, q3 hw]
        · rename_i hlk
          unfold closeSeq at h
          obtain ⟨ts', len, rt, q1, q2, q3⟩ := gobj_seq_like cfg hp s xs0 hwf (glist cfg hreg hp s xs0 hwf) (d + 1)
            .structseq (.cls cls) Option.none Option.none false (PyObj.sseq cls) (by simp)
            (by intro ts' hl' nl nn; simp [makeNode, hl']) out h xs hl
          refine ⟨.sseq cls ts', rt, ?_, ?_, ?_⟩
          · simp [shapeOf, hlk, STree.graftN, q1]
          · simp [leavesOf, predTrue_none cfg hp, q2]
          · intro hw; simp [PyObj.wf, q3 hw]
  | .user cls md q xs0, hwf => by
      intro d out h xs hl
      rw [flattenGo] at h
      obtain ⟨_, h | h⟩ := flattenGo_prelude' cfg d _ out _ h
      · obtain ⟨hpt, _⟩ := h; rw [evalPred_none cfg hp] at hpt; cases hpt
      · obtain ⟨_, h⟩ := h
        simp only [PyObj.wf, Bool.and_eq_true, beq_iff_eq] at hwf
        obtain ⟨hq, hwf⟩ := hwf
        subst hq
        split at h
        · rename_i reg hlk
          obtain ⟨hc, hck⟩ := hreg _ _ _ _ hlk
          rw [customFlatten_regEntries reg md xs0 _ (by simp [flattenList_eq])] at h
          obtain ⟨ts', len, rt, q1, q2, q3⟩ := gobj_seq_like cfg hp s xs0 hwf (glist cfg hreg hp s xs0 hwf) (d + 1)
            .custom (.md md) (regEntries reg xs0.length) (some reg) true (PyObj.user cls md .ok) (by simp)
            (by intro ts' hl' nl nn; simp [makeNode, hl', customUnflatten, hc, hck]) out h xs hl
          refine ⟨.user cls md .ok ts', rt, ?_, ?_, ?_⟩
          · simp [shapeOf, hlk, STree.graftN, q1, len]
          · simp [leavesOf, predTrue_none cfg hp, hlk, q2]
          · intro hw; simp [PyObj.wf, q3 hw]
        · rename_i hlk
          simp at h; subst h
          exact gobj_leaflike cfg s _ (by simp [shapeOf, hlk]) xs hl
theorem glist (cfg : Cfg) (hreg : cfg.reg.OK) (hp : cfg.pred = Option.none) (s : Bool) :
    ∀ xs : List PyObj, PyObj.wfList xs = true → ∀ x ∈ xs, Gobj cfg s x
  | [], _ => by intro x hx; simp at hx
  | y :: ys, hwf => by
      simp only [PyObj.wfList, Bool.and_eq_true] at hwf
      intro x hx
      simp only [List.mem_cons] at hx
      rcases hx with hx | hx
      · subst hx; exact gobj cfg hreg hp s x hwf.1
      · exact glist cfg hreg hp s ys hwf.2 x hx
theorem gkvs (cfg : Cfg) (hreg : cfg.reg.OK) (hp : cfg.pred = Option.none) (s : Bool) :
    ∀ kvs : List (Key × PyObj), PyObj.wfKVs kvs = true → ∀ p ∈ kvs, Gobj cfg s p.2
  | [], _ => by intro p hp'; simp at hp'
  | (k, y) :: ys, hwf => by
      simp only [PyObj.wfKVs, Bool.and_eq_true] at hwf
      intro p hp'
      simp only [List.mem_cons] at hp'
      rcases hp' with hp' | hp'
      · subst hp'; exact gobj cfg hreg hp s y hwf.1
      · exact gkvs cfg hreg hp s ys hwf.2 p hp'
end


/-! ### what flatten calls a leaf is a leaf -/

def LeafLike (cfg : Cfg) (s : Bool) (p : PyObj) : Prop :=
  shapeOf cfg s p = .leaf ∧ leavesOf cfg s p = [p] ∧ p.wf = true

mutual
theorem leafLike_of_mem (cfg : Cfg) (hp : cfg.pred = Option.none) (s : Bool) :
    ∀ t : PyObj, t.wf = true → ∀ p ∈ leavesOf cfg s t, LeafLike cfg s p
  | .leaf ty uid, _, p, h => by
      simp only [leavesOf, List.mem_singleton] at h; subst h
      exact ⟨rfl, by simp [leavesOf], rfl⟩
  | .none, _, p, h => by
      by_cases hn : cfg.noneIsLeaf = true
      · simp only [leavesOf, predTrue_none cfg hp, hn, Bool.or_true, if_true, List.mem_singleton] at h; subst h
        exact ⟨by simp [shapeOf, hn], by simp [leavesOf, hn], rfl⟩
      · simp [leavesOf, predTrue_none cfg hp, hn] at h
  | .tuple xs, hw, p, h => by
      simp only [PyObj.wf] at hw
      simp only [leavesOf, predTrue_none cfg hp, Bool.false_eq_true, if_false] at h
      exact leafLike_list cfg hp s xs hw p h
  | .list xs, hw, p, h => by
      simp only [PyObj.wf] at hw
      simp only [leavesOf, predTrue_none cfg hp, Bool.false_eq_true, if_false] at h
      exact leafLike_list cfg hp s xs hw p h
  | .deque m xs, hw, p, h => by
      simp only [PyObj.wf, Bool.and_eq_true] at hw
      simp only [leavesOf, predTrue_none cfg hp, Bool.false_eq_true, if_false] at h
      exact leafLike_list cfg hp s xs hw.2 p h
  | .ntuple c xs, hw, p, h => by
      simp only [PyObj.wf] at hw
      simp only [leavesOf, predTrue_none cfg hp, Bool.false_eq_true, if_false] at h
      exact leafLike_list cfg hp s xs hw p h
  | .sseq c xs, hw, p, h => by
      simp only [PyObj.wf] at hw
      simp only [leavesOf, predTrue_none cfg hp, Bool.false_eq_true, if_false] at h
      exact leafLike_list cfg hp s xs hw p h
  | .dict kvs, hw, p, h => by
      simp only [PyObj.wf, Bool.and_eq_true] at hw
      simp only [leavesOf, predTrue_none cfg hp, Bool.false_eq_true, if_false, leavesOf_dictItems,
        List.map_map, Function.comp_def, List.mem_flatten, List.mem_map] at h
      obtain ⟨l, ⟨q, hq, rfl⟩, hpl⟩ := h
      exact leafLike_kvs cfg hp s kvs hw.2 q ((dictOrder_perm false s kvs).subset hq) p hpl
  | .odict kvs, hw, p, h => by
      simp only [PyObj.wf, Bool.and_eq_true] at hw
      simp only [leavesOf, predTrue_none cfg hp, Bool.false_eq_true, if_false, leavesOfKVs_eq,
        List.map_map, Function.comp_def, List.mem_flatten, List.mem_map] at h
      obtain ⟨l, ⟨q, hq, rfl⟩, hpl⟩ := h
      exact leafLike_kvs cfg hp s kvs hw.2 q hq p hpl
  | .ddict f kvs, hw, p, h => by
      simp only [PyObj.wf, Bool.and_eq_true] at hw
      simp only [leavesOf, predTrue_none cfg hp, Bool.false_eq_true, if_false, leavesOf_dictItems,
        List.map_map, Function.comp_def, List.mem_flatten, List.mem_map] at h
      obtain ⟨l, ⟨q, hq, rfl⟩, hpl⟩ := h
      exact leafLike_kvs cfg hp s kvs hw.2 q ((dictOrder_perm false s kvs).subset hq) p hpl
  | .user c md q xs, hw, p, h => by
      simp only [PyObj.wf, Bool.and_eq_true] at hw
      cases hlk : cfg.reg.lookup cfg.ns 0 c with
      | some reg =>
        simp only [leavesOf, predTrue_none cfg hp, Bool.false_eq_true, if_false, hlk] at h
        exact leafLike_list cfg hp s xs hw.2 p h
      | none =>
        simp only [leavesOf, predTrue_none cfg hp, Bool.false_eq_true, if_false, hlk, List.mem_singleton] at h
        subst h
        exact ⟨by simp [shapeOf, hlk], by simp [leavesOf, predTrue_none cfg hp, hlk], by simp [PyObj.wf, hw.1, hw.2]⟩
theorem leafLike_list (cfg : Cfg) (hp : cfg.pred = Option.none) (s : Bool) :
    ∀ xs : List PyObj, PyObj.wfList xs = true → ∀ p ∈ leavesOfList cfg s xs, LeafLike cfg s p
  | [], _, p, h => by simp [leavesOfList] at h
  | x :: xs, hw, p, h => by
      simp only [PyObj.wfList, Bool.and_eq_true] at hw
      simp only [leavesOfList, List.mem_append] at h
      rcases h with h | h
      · exact leafLike_of_mem cfg hp s x hw.1 p h
      · exact leafLike_list cfg hp s xs hw.2 p h
theorem leafLike_kvs (cfg : Cfg) (hp : cfg.pred = Option.none) (s : Bool) :
    ∀ kvs : List (Key × PyObj), PyObj.wfKVs kvs = true → ∀ q ∈ kvs, ∀ p ∈ leavesOf cfg s q.2, LeafLike cfg s p
  | [], _, q, hq, _, _ => by simp at hq
  | (k, x) :: kvs, hw, q, hq, p, h => by
      simp only [PyObj.wfKVs, Bool.and_eq_true] at hw
      simp only [List.mem_cons] at hq
      rcases hq with rfl | hq
      · exact leafLike_of_mem cfg hp s x hw.1 p h
      · exact leafLike_kvs cfg hp s kvs hw.2 q hq p h
end

mutual
/-- grafting leaves onto leaves changes nothing -/
theorem STree.graftN_leaves : ∀ (s : STree) (xs : List STree), xs.length = s.leaves → (∀ x ∈ xs, x = .leaf) →
    s.graftN xs = s
  | .leaf, xs, hl, h => by
      match xs, hl with
      | [x], _ => simp [STree.graftN, h x (by simp)]
  | .node i cs, xs, hl, h => by
      simp only [STree.graftN, STree.leaves] at hl ⊢
      rw [STree.graftNL_leaves cs xs hl h]
theorem STree.graftNL_leaves : ∀ (cs : List STree) (xs : List STree), xs.length = STree.leavesL cs →
    (∀ x ∈ xs, x = .leaf) → STree.graftNL cs xs = cs
  | [], _, _, _ => rfl
  | c :: cs, xs, hl, h => by
      simp only [STree.leavesL] at hl
      simp only [STree.graftNL]
      rw [STree.graftN_leaves c (xs.take c.leaves) (by rw [List.length_take]; omega)
        (fun x hx => h x (List.mem_of_mem_take hx)),
        STree.graftNL_leaves cs (xs.drop c.leaves) (by rw [List.length_drop]; omega)
        (fun x hx => h x (List.mem_of_mem_drop hx))]
end

/-- **`unflatten` with arbitrary objects**: a treespec made by `flatten` (no predicate) accepts any `n` objects in place
of its `n` leaves and builds a tree whose shape is the original shape with the i-th leaf replaced by the shape of
the i-th object, and whose leaves are the leaves of the objects in order -/
theorem unflatten_graft (cfg : Cfg) (hreg : cfg.reg.OK) (hp : cfg.pred = Option.none) (t : PyObj)
    (hwf : t.wf = true) (ls : List PyObj) (sp : Spec) (h : flatten cfg t = .ok (ls, sp))
    (xs : List PyObj) (hl : xs.length = ls.length) :
    ∃ t', unflatten sp xs = .ok t' ∧ Gpost cfg (!cfg.insertionOrdered) t xs t' := by
  have hs : sp.sane = true := by
    unfold flatten at h
    simp only at h
    split at h
    · simp at h
    · rename_i out hout
      simp only [Except.ok.injEq, Prod.mk.injEq] at h
      obtain ⟨_, hsp⟩ := h
      subst hsp
      obtain ⟨n, h1, h2, _⟩ := flattenGo_sane cfg _ 0 t out hout
      simp [Spec.sane, h1, h2]
  unfold flatten at h
  simp only at h
  split at h
  · simp at h
  · rename_i out hout
    simp only [Except.ok.injEq, Prod.mk.injEq] at h
    obtain ⟨hls, hsp⟩ := h
    subst hls
    obtain ⟨t', rt, g⟩ := gobj cfg hreg hp _ t hwf 0 out hout xs hl
    refine ⟨t', ?_, g⟩
    unfold unflatten
    simp only [hs, Bool.not_true, Bool.false_eq_true, if_false]
    have hn : sp.nodes = out.nodes := by rw [← hsp]
    rw [hn]
    have := rt [] [] []
    simpa [withLeaves, unflattenGo] using this

end Optree
