/-
  Grafting: replacing every leaf of a tree by a tree.

  `PyObj.mapLeaves cfg σ t` replaces each object that `flatten` (without a predicate) treats as a leaf of
  `t` by `σ leaf`.  When every `σ leaf` has one and the same shape `b`, the shape of the grafted tree is
  `compose` at tree level (`STree.subst`), and its leaves are the leaves of the `σ leaf`, in order.  This
  is the tree-level meaning of `PyTreeSpec.compose` ("an a-shaped tree whose every leaf is a b-shaped
  tree") and of the shapes that `tree_transpose` works with.
-/
import OptreeModel.Lemmas.ShapeOf
import OptreeModel.Lemmas.Leaves

namespace Optree

mutual
def PyObj.mapLeaves (cfg : Cfg) (σ : PyObj → PyObj) : PyObj → PyObj
  | x@(.leaf _ _) => σ x
  | .none => if cfg.noneIsLeaf then σ .none else .none
  | .tuple xs => .tuple (PyObj.mapLeavesList cfg σ xs)
  | .list xs => .list (PyObj.mapLeavesList cfg σ xs)
  | .dict kvs => .dict (PyObj.mapLeavesKVs cfg σ kvs)
  | .odict kvs => .odict (PyObj.mapLeavesKVs cfg σ kvs)
  | .ddict f kvs => .ddict f (PyObj.mapLeavesKVs cfg σ kvs)
  | .deque m xs => .deque m (PyObj.mapLeavesList cfg σ xs)
  | .ntuple cls xs => .ntuple cls (PyObj.mapLeavesList cfg σ xs)
  | .sseq cls xs => .sseq cls (PyObj.mapLeavesList cfg σ xs)
  | x@(.user cls md q xs) =>
      match cfg.reg.lookup cfg.ns 0 cls with
      | some _ => .user cls md q (PyObj.mapLeavesList cfg σ xs)
      | Option.none => σ x
def PyObj.mapLeavesList (cfg : Cfg) (σ : PyObj → PyObj) : List PyObj → List PyObj
  | [] => []
  | x :: xs => PyObj.mapLeaves cfg σ x :: PyObj.mapLeavesList cfg σ xs
def PyObj.mapLeavesKVs (cfg : Cfg) (σ : PyObj → PyObj) : List (Key × PyObj) → List (Key × PyObj)
  | [] => []
  | (k, x) :: xs => (k, PyObj.mapLeaves cfg σ x) :: PyObj.mapLeavesKVs cfg σ xs
end

theorem PyObj.mapLeavesList_length (cfg : Cfg) (σ : PyObj → PyObj) :
    ∀ xs : List PyObj, (PyObj.mapLeavesList cfg σ xs).length = xs.length
  | [] => rfl
  | _ :: xs => by simp [PyObj.mapLeavesList, PyObj.mapLeavesList_length cfg σ xs]

theorem PyObj.mapLeavesKVs_keys (cfg : Cfg) (σ : PyObj → PyObj) :
    ∀ kvs : List (Key × PyObj), (PyObj.mapLeavesKVs cfg σ kvs).map (·.1) = kvs.map (·.1)
  | [] => rfl
  | (k, x) :: kvs => by simp [PyObj.mapLeavesKVs, PyObj.mapLeavesKVs_keys cfg σ kvs]

theorem PyObj.mapLeavesKVs_length (cfg : Cfg) (σ : PyObj → PyObj) (kvs : List (Key × PyObj)) :
    (PyObj.mapLeavesKVs cfg σ kvs).length = kvs.length := by
  have := congrArg List.length (PyObj.mapLeavesKVs_keys cfg σ kvs)
  simpa using this

theorem STree.substL_eq_map (b : STree) : ∀ cs : List STree, STree.substL cs b = cs.map (·.subst b)
  | [] => rfl
  | c :: cs => by simp [STree.substL, STree.substL_eq_map b cs]

/-! ### shape of a grafted tree -/

mutual
theorem shapeOf_mapLeaves (cfg : Cfg) (s : Bool) (σ : PyObj → PyObj) (b : STree)
    (hσ : ∀ p, shapeOf cfg s (σ p) = b) :
    ∀ t : PyObj, shapeOf cfg s (t.mapLeaves cfg σ) = (shapeOf cfg s t).subst b
  | .leaf ty uid => by simp [PyObj.mapLeaves, shapeOf, STree.subst, hσ]
  | .none => by
      by_cases hn : cfg.noneIsLeaf = true
      · simp [PyObj.mapLeaves, shapeOf, hn, STree.subst, hσ]
      · simp [PyObj.mapLeaves, shapeOf, hn, STree.subst, STree.substL]
  | .tuple xs => by
      simp [PyObj.mapLeaves, shapeOf, STree.subst, shapeOfList_mapLeaves cfg s σ b hσ xs]
  | .list xs => by
      simp [PyObj.mapLeaves, shapeOf, STree.subst, shapeOfList_mapLeaves cfg s σ b hσ xs]
  | .deque m xs => by
      simp [PyObj.mapLeaves, shapeOf, STree.subst, shapeOfList_mapLeaves cfg s σ b hσ xs]
  | .dict kvs => by
      have ih := shapeOfKVs_mapLeaves cfg s σ b hσ kvs
      have hk := PyObj.mapLeavesKVs_keys cfg σ kvs
      simp only [PyObj.mapLeaves, shapeOf, STree.subst, ih, hk]
      rw [dictOrder_map false s (fun p : Key × STree => (p.1, p.2.subst b)) (fun _ => rfl)]
      simp [List.map_map, Function.comp_def, STree.substL_eq_map]
  | .odict kvs => by
      have ih := shapeOfKVs_mapLeaves cfg s σ b hσ kvs
      simp only [PyObj.mapLeaves, shapeOf, STree.subst, ih]
      simp [List.map_map, Function.comp_def, STree.substL_eq_map]
  | .ddict f kvs => by
      have ih := shapeOfKVs_mapLeaves cfg s σ b hσ kvs
      have hk := PyObj.mapLeavesKVs_keys cfg σ kvs
      simp only [PyObj.mapLeaves, shapeOf, STree.subst, ih, hk]
      rw [dictOrder_map false s (fun p : Key × STree => (p.1, p.2.subst b)) (fun _ => rfl)]
      simp [List.map_map, Function.comp_def, STree.substL_eq_map]
  | .ntuple cls xs => by
      have ih := shapeOfList_mapLeaves cfg s σ b hσ xs
      have hl := PyObj.mapLeavesList_length cfg σ xs
      simp only [PyObj.mapLeaves, shapeOf]
      split <;> simp [STree.subst, ih, hl]
  | .sseq cls xs => by
      have ih := shapeOfList_mapLeaves cfg s σ b hσ xs
      have hl := PyObj.mapLeavesList_length cfg σ xs
      simp only [PyObj.mapLeaves, shapeOf]
      split <;> simp [STree.subst, ih, hl]
  | .user cls md q xs => by
      have ih := shapeOfList_mapLeaves cfg s σ b hσ xs
      have hl := PyObj.mapLeavesList_length cfg σ xs
      simp only [PyObj.mapLeaves, shapeOf]
      cases hlk : cfg.reg.lookup cfg.ns 0 cls with
      | none => simp [STree.subst, hσ]
      | some reg => simp [shapeOf, hlk, STree.subst, ih, hl]
theorem shapeOfList_mapLeaves (cfg : Cfg) (s : Bool) (σ : PyObj → PyObj) (b : STree)
    (hσ : ∀ p, shapeOf cfg s (σ p) = b) :
    ∀ xs : List PyObj, shapeOfList cfg s (PyObj.mapLeavesList cfg σ xs) = STree.substL (shapeOfList cfg s xs) b
  | [] => rfl
  | x :: xs => by
      simp [PyObj.mapLeavesList, shapeOfList, STree.substL, shapeOf_mapLeaves cfg s σ b hσ x,
        shapeOfList_mapLeaves cfg s σ b hσ xs]
theorem shapeOfKVs_mapLeaves (cfg : Cfg) (s : Bool) (σ : PyObj → PyObj) (b : STree)
    (hσ : ∀ p, shapeOf cfg s (σ p) = b) :
    ∀ kvs : List (Key × PyObj), shapeOfKVs cfg s (PyObj.mapLeavesKVs cfg σ kvs) =
      (shapeOfKVs cfg s kvs).map fun p => (p.1, p.2.subst b)
  | [] => rfl
  | (k, x) :: kvs => by
      simp [PyObj.mapLeavesKVs, shapeOfKVs, shapeOf_mapLeaves cfg s σ b hσ x,
        shapeOfKVs_mapLeaves cfg s σ b hσ kvs]
end

/-! ### leaves of a grafted tree (no predicate) -/

theorem predTrue_none (cfg : Cfg) (hp : cfg.pred = Option.none) (x : PyObj) : cfg.predTrue x = false := by
  simp [Cfg.predTrue, Cfg.evalPred, hp]

mutual
theorem leavesOf_mapLeaves (cfg : Cfg) (hp : cfg.pred = Option.none) (s : Bool) (σ : PyObj → PyObj) :
    ∀ t : PyObj, leavesOf cfg s (t.mapLeaves cfg σ) = (leavesOf cfg s t).flatMap fun p => leavesOf cfg s (σ p)
  | .leaf ty uid => by simp [PyObj.mapLeaves, leavesOf]
  | .none => by
      by_cases hn : cfg.noneIsLeaf = true
      · simp [PyObj.mapLeaves, leavesOf, hn, predTrue_none cfg hp]
      · simp [PyObj.mapLeaves, leavesOf, hn, predTrue_none cfg hp]
  | .tuple xs => by
      simp [PyObj.mapLeaves, leavesOf, predTrue_none cfg hp, leavesOfList_mapLeaves cfg hp s σ xs]
  | .list xs => by
      simp [PyObj.mapLeaves, leavesOf, predTrue_none cfg hp, leavesOfList_mapLeaves cfg hp s σ xs]
  | .deque m xs => by
      simp [PyObj.mapLeaves, leavesOf, predTrue_none cfg hp, leavesOfList_mapLeaves cfg hp s σ xs]
  | .dict kvs => by
      have ih := leavesOfKVs_mapLeaves cfg hp s σ kvs
      simp only [PyObj.mapLeaves, leavesOf, predTrue_none cfg hp, Bool.false_eq_true, if_false, ih]
      rw [dictOrder_map false s (fun p : Key × List PyObj => (p.1, p.2.flatMap fun q => leavesOf cfg s (σ q)))
        (fun _ => rfl)]
      simp [List.map_map, Function.comp_def, List.flatMap_def, List.flatten_flatten]
  | .odict kvs => by
      have ih := leavesOfKVs_mapLeaves cfg hp s σ kvs
      simp only [PyObj.mapLeaves, leavesOf, predTrue_none cfg hp, Bool.false_eq_true, if_false, ih]
      simp [List.map_map, Function.comp_def, List.flatMap_def, List.flatten_flatten]
  | .ddict f kvs => by
      have ih := leavesOfKVs_mapLeaves cfg hp s σ kvs
      simp only [PyObj.mapLeaves, leavesOf, predTrue_none cfg hp, Bool.false_eq_true, if_false, ih]
      rw [dictOrder_map false s (fun p : Key × List PyObj => (p.1, p.2.flatMap fun q => leavesOf cfg s (σ q)))
        (fun _ => rfl)]
      simp [List.map_map, Function.comp_def, List.flatMap_def, List.flatten_flatten]
  | .ntuple cls xs => by
      simp [PyObj.mapLeaves, leavesOf, predTrue_none cfg hp, leavesOfList_mapLeaves cfg hp s σ xs]
  | .sseq cls xs => by
      simp [PyObj.mapLeaves, leavesOf, predTrue_none cfg hp, leavesOfList_mapLeaves cfg hp s σ xs]
  | .user cls md q xs => by
      cases hlk : cfg.reg.lookup cfg.ns 0 cls with
      | none => simp [PyObj.mapLeaves, leavesOf, predTrue_none cfg hp, hlk]
      | some reg =>
        simp [PyObj.mapLeaves, leavesOf, predTrue_none cfg hp, hlk, leavesOfList_mapLeaves cfg hp s σ xs]
theorem leavesOfList_mapLeaves (cfg : Cfg) (hp : cfg.pred = Option.none) (s : Bool) (σ : PyObj → PyObj) :
    ∀ xs : List PyObj, leavesOfList cfg s (PyObj.mapLeavesList cfg σ xs) =
      (leavesOfList cfg s xs).flatMap fun p => leavesOf cfg s (σ p)
  | [] => rfl
  | x :: xs => by
      simp [PyObj.mapLeavesList, leavesOfList, leavesOf_mapLeaves cfg hp s σ x,
        leavesOfList_mapLeaves cfg hp s σ xs]
theorem leavesOfKVs_mapLeaves (cfg : Cfg) (hp : cfg.pred = Option.none) (s : Bool) (σ : PyObj → PyObj) :
    ∀ kvs : List (Key × PyObj), leavesOfKVs cfg s (PyObj.mapLeavesKVs cfg σ kvs) =
      (leavesOfKVs cfg s kvs).map fun p => (p.1, p.2.flatMap fun q => leavesOf cfg s (σ q))
  | [] => rfl
  | (k, x) :: kvs => by
      simp [PyObj.mapLeavesKVs, leavesOfKVs, leavesOf_mapLeaves cfg hp s σ x,
        leavesOfKVs_mapLeaves cfg hp s σ kvs]
end

/-! ### well-formedness is preserved -/

mutual
theorem wf_mapLeaves (cfg : Cfg) (σ : PyObj → PyObj) (hσ : ∀ p, (σ p).wf = true) :
    ∀ t : PyObj, t.wf = true → (t.mapLeaves cfg σ).wf = true
  | .leaf _ _, _ => by simp [PyObj.mapLeaves, hσ]
  | .none, _ => by
      by_cases hn : cfg.noneIsLeaf = true <;> simp [PyObj.mapLeaves, hn, hσ, PyObj.wf]
  | .tuple xs, h => by
      simp only [PyObj.wf] at h; simp [PyObj.mapLeaves, PyObj.wf, wfList_mapLeaves cfg σ hσ xs h]
  | .list xs, h => by
      simp only [PyObj.wf] at h; simp [PyObj.mapLeaves, PyObj.wf, wfList_mapLeaves cfg σ hσ xs h]
  | .deque m xs, h => by
      simp only [PyObj.wf, Bool.and_eq_true] at h
      simp [PyObj.mapLeaves, PyObj.wf, wfList_mapLeaves cfg σ hσ xs h.2, PyObj.mapLeavesList_length, h.1]
  | .dict kvs, h => by
      simp only [PyObj.wf, Bool.and_eq_true, decide_eq_true_eq] at h
      simp [PyObj.mapLeaves, PyObj.wf, wfKVs_mapLeaves cfg σ hσ kvs h.2, PyObj.mapLeavesKVs_keys, h.1]
  | .odict kvs, h => by
      simp only [PyObj.wf, Bool.and_eq_true, decide_eq_true_eq] at h
      simp [PyObj.mapLeaves, PyObj.wf, wfKVs_mapLeaves cfg σ hσ kvs h.2, PyObj.mapLeavesKVs_keys, h.1]
  | .ddict f kvs, h => by
      simp only [PyObj.wf, Bool.and_eq_true, decide_eq_true_eq] at h
      simp [PyObj.mapLeaves, PyObj.wf, wfKVs_mapLeaves cfg σ hσ kvs h.2, PyObj.mapLeavesKVs_keys, h.1]
  | .ntuple cls xs, h => by
      simp only [PyObj.wf] at h; simp [PyObj.mapLeaves, PyObj.wf, wfList_mapLeaves cfg σ hσ xs h]
  | .sseq cls xs, h => by
      simp only [PyObj.wf] at h; simp [PyObj.mapLeaves, PyObj.wf, wfList_mapLeaves cfg σ hσ xs h]
  | .user cls md q xs, h => by
      simp only [PyObj.wf, Bool.and_eq_true, beq_iff_eq] at h
      simp only [PyObj.mapLeaves]
      split
      · simp [PyObj.wf, h.1, wfList_mapLeaves cfg σ hσ xs h.2]
      · exact hσ _
theorem wfList_mapLeaves (cfg : Cfg) (σ : PyObj → PyObj) (hσ : ∀ p, (σ p).wf = true) :
    ∀ xs : List PyObj, PyObj.wfList xs = true → PyObj.wfList (PyObj.mapLeavesList cfg σ xs) = true
  | [], _ => rfl
  | x :: xs, h => by
      simp only [PyObj.wfList, Bool.and_eq_true] at h
      simp [PyObj.mapLeavesList, PyObj.wfList, wf_mapLeaves cfg σ hσ x h.1, wfList_mapLeaves cfg σ hσ xs h.2]
theorem wfKVs_mapLeaves (cfg : Cfg) (σ : PyObj → PyObj) (hσ : ∀ p, (σ p).wf = true) :
    ∀ kvs : List (Key × PyObj), PyObj.wfKVs kvs = true → PyObj.wfKVs (PyObj.mapLeavesKVs cfg σ kvs) = true
  | [], _ => rfl
  | (k, x) :: kvs, h => by
      simp only [PyObj.wfKVs, Bool.and_eq_true] at h
      simp [PyObj.mapLeavesKVs, PyObj.wfKVs, wf_mapLeaves cfg σ hσ x h.1, wfKVs_mapLeaves cfg σ hσ kvs h.2]
end

end Optree
