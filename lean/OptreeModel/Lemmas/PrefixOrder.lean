/-
  Order laws of the tree-level prefix relation (C07): with reflexivity (`STree.prefixB_refl`,
  Properties/C09.lean) `prefixB` is a preorder on well-formed shapes; two shapes that are prefixes of
  each other have the same size.
-/
import OptreeModel.Lemmas.EncPrefix

namespace Optree

theorem keySetEq_trans {a b c : List Key} (h1 : keySetEq a b = true) (h2 : keySetEq b c = true) :
    keySetEq a c = true := by
  rw [keySetEq_iff] at *
  exact ⟨h1.1.trans h2.1, fun k hk => h2.2 k (h1.2 k hk)⟩

/-- children paired through an intermediate key list: if `ds` sits below `es` key by key, then the child
of `ds` under key `k` sits below the child of `es` under `k` -/
theorem prefixL_lookup : ∀ (jk : List Key) (ds : List STree) (kk : List Key) (es : List STree) (k : Key)
    (d e : STree), STree.prefixL ds (pickD jk kk es) = true → lookupChild k jk ds = some d →
    lookupChild k kk es = some e → (∀ k' ∈ jk, k' ∈ kk) → kk.length = es.length → d.prefixB e = true
  | [], _, _, _, _, _, _, _, hd, _, _, _ => by simp [lookupChild] at hd
  | _ :: _, [], _, _, _, _, _, _, hd, _, _, _ => by simp [lookupChild] at hd
  | k0 :: jk, d0 :: ds, kk, es, k, d, e, hp, hd, he, hm, hl => by
      obtain ⟨j, hj⟩ := keyIndex_of_mem (hm k0 (by simp))
      have hjd : j < es.length := hl ▸ keyIndex_lt hj
      have hl0 : lookupChild k0 kk es = some es[j] := by
        rw [lookupChild_eq_getElem k0 kk es hl, hj]; simp [hjd]
      rw [pickD_cons k0 jk kk es _ hl0] at hp
      simp only [STree.prefixL, Bool.and_eq_true] at hp
      simp only [lookupChild] at hd
      by_cases hk : k0 = k
      · subst hk
        simp only [beq_self_eq_true, if_true, Option.some.injEq] at hd
        subst hd
        rw [hl0] at he
        simp only [Option.some.injEq] at he
        subst he
        exact hp.1
      · have hne : (k0 == k) = false := by simp [hk]
        simp only [hne, Bool.false_eq_true, if_false] at hd
        exact prefixL_lookup jk ds kk es k d e hp.2 hd he (fun k' hk' => hm k' (by simp [hk'])) hl

/-- re-indexing both sides of a key-wise comparison by a third key list -/
theorem prefixL_reindex (jk : List Key) (ds : List STree) (kk : List Key) (es : List STree)
    (hp : STree.prefixL ds (pickD jk kk es) = true) (hjd : jk.length = ds.length)
    (hm : ∀ k' ∈ jk, k' ∈ kk) (hl : kk.length = es.length) :
    ∀ (ik : List Key), (∀ k ∈ ik, k ∈ jk) → STree.prefixL (pickD ik jk ds) (pickD ik kk es) = true
  | [], _ => by simp [pickD, STree.prefixL]
  | k :: ik, hi => by
      obtain ⟨j, hj⟩ := keyIndex_of_mem (hi k (by simp))
      have hjl : j < ds.length := hjd ▸ keyIndex_lt hj
      have hl1 : lookupChild k jk ds = some ds[j] := by
        rw [lookupChild_eq_getElem k jk ds hjd, hj]; simp [hjl]
      obtain ⟨j', hj'⟩ := keyIndex_of_mem (hm k (hi k (by simp)))
      have hjl' : j' < es.length := hl ▸ keyIndex_lt hj'
      have hl2 : lookupChild k kk es = some es[j'] := by
        rw [lookupChild_eq_getElem k kk es hl, hj']; simp [hjl']
      rw [pickD_cons k ik jk ds _ hl1, pickD_cons k ik kk es _ hl2]
      simp only [STree.prefixL, Bool.and_eq_true]
      exact ⟨prefixL_lookup jk ds kk es k _ _ hp hl1 hl2 hm hl,
        prefixL_reindex jk ds kk es hp hjd hm hl ik (fun k' hk' => hi k' (by simp [hk']))⟩

theorem STree.prefixL_length : ∀ (cs ds : List STree), STree.prefixL cs ds = true → cs.length = ds.length
  | [], [], _ => rfl
  | [], _ :: _, h => by simp [STree.prefixL] at h
  | _ :: _, [], h => by simp [STree.prefixL] at h
  | _ :: cs, _ :: ds, h => by
      simp only [STree.prefixL, Bool.and_eq_true] at h
      simp [STree.prefixL_length cs ds h.2]

/-- the node-level conditions of `prefixB`, unfolded -/
theorem STree.prefixB_node {i j : NInfo} {cs ds : List STree}
    (h : (STree.node i cs).prefixB (.node j ds) = true) :
    cs.length = ds.length ∧ i.data.isSome = j.data.isSome ∧ i.custom = j.custom := by
  simp only [STree.prefixB, Bool.and_eq_true, beq_iff_eq] at h
  exact ⟨h.1.1.1, h.1.1.2, h.1.2⟩

/-- what `prefixB` says when the first node is of a dict kind -/
theorem STree.prefixB_dict {i j : NInfo} {cs ds : List STree} (hid : i.kind.isDict = true)
    (h : (STree.node i cs).prefixB (.node j ds) = true) :
    j.kind.isDict = true ∧ keySetEq i.keys j.keys = true ∧ STree.prefixD i.keys cs j.keys ds = true := by
  simp only [STree.prefixB, Bool.and_eq_true] at h
  rcases Kind.cases_eq i.kind with hk | hk | hk | hk | hk | hk | hk | hk | hk | hk | hk <;>
    simp only [hk, Kind.isDict, Bool.false_eq_true] at hid <;>
    simp only [hk, Bool.and_eq_true] at h <;> exact ⟨h.2.1.1, h.2.1.2, h.2.2⟩

/-- transitivity at a dict-kind node, given transitivity for the children lists -/
theorem STree.prefixB_trans_dict (i j k : NInfo) (cs ds es : List STree) (hid : i.kind.isDict = true)
    (hdi : i.kind.isDict = true → i.keys.length = cs.length ∧ i.keys.Nodup)
    (hdj : j.kind.isDict = true → j.keys.length = ds.length ∧ j.keys.Nodup)
    (hdk : k.kind.isDict = true → k.keys.length = es.length ∧ k.keys.Nodup)
    (hwb : STree.wfL ds = true) (hwc : STree.wfL es = true)
    (h1 : (STree.node i cs).prefixB (.node j ds) = true) (h2 : (STree.node j ds).prefixB (.node k es) = true)
    (hseq : ∀ ds' es', STree.wfL ds' = true → STree.wfL es' = true → STree.prefixL cs ds' = true →
      STree.prefixL ds' es' = true → STree.prefixL cs es' = true) :
    (k.kind.isDict && keySetEq i.keys k.keys && STree.prefixD i.keys cs k.keys es) = true := by
  obtain ⟨hjd, hks1, hp1⟩ := STree.prefixB_dict hid h1
  obtain ⟨hkd, hks2, hp2⟩ := STree.prefixB_dict hjd h2
  obtain ⟨hli, hni⟩ := hdi hid
  obtain ⟨hlj, hnj⟩ := hdj hjd
  obtain ⟨hlk, hnk⟩ := hdk hkd
  have hks3 := keySetEq_trans hks1 hks2
  have hm1 := ((keySetEq_iff _ _).mp hks1).2
  have hm2 := ((keySetEq_iff _ _).mp hks2).2
  have hm3 := ((keySetEq_iff _ _).mp hks3).2
  rw [STree.prefixD_eq j.keys ds hlj i.keys cs hli hm1] at hp1
  rw [STree.prefixD_eq k.keys es hlk j.keys ds hlj hm2] at hp2
  have hre := prefixL_reindex j.keys ds k.keys es hp2 hlj hm2 hlk i.keys hm1
  have hw1 : STree.wfL (pickD i.keys j.keys ds) = true := STree.wfL_perm (pickD_perm hks1 hni hnj hlj) hwb
  have hw2 : STree.wfL (pickD i.keys k.keys es) = true := STree.wfL_perm (pickD_perm hks3 hni hnk hlk) hwc
  have := hseq _ _ hw1 hw2 hp1 hre
  rw [STree.prefixD_eq k.keys es hlk i.keys cs hli hm3]
  simp [hkd, hks3, this]

mutual
/-- **the prefix relation is transitive** on well-formed shapes (dict kinds re-paired by key at every level) -/
theorem STree.prefixB_trans : ∀ a : STree, a.wf = true → ∀ b : STree, b.wf = true → ∀ c : STree, c.wf = true →
    a.prefixB b = true → b.prefixB c = true → a.prefixB c = true
  | .leaf, _, _, _, _, _, _, _ => rfl
  | .node _ _, _, .leaf, _, _, _, h1, _ => by simp [STree.prefixB] at h1
  | .node _ _, _, .node _ _, _, .leaf, _, _, h2 => by simp [STree.prefixB] at h2
  | .node i cs, ha, .node j ds, hb, .node k es, hc, h1, h2 => by
      obtain ⟨hnl, _, hdi, hwa⟩ := STree.wf_node ha
      obtain ⟨hnlj, _, hdj, hwb⟩ := STree.wf_node hb
      obtain ⟨_, _, hdk, hwc⟩ := STree.wf_node hc
      obtain ⟨l1, s1, c1⟩ := STree.prefixB_node h1
      obtain ⟨l2, s2, c2⟩ := STree.prefixB_node h2
      have hseq : ∀ ds' es', STree.wfL ds' = true → STree.wfL es' = true → STree.prefixL cs ds' = true →
          STree.prefixL ds' es' = true → STree.prefixL cs es' = true :=
        fun ds' es' w1 w2 p1 p2 => STree.prefixL_trans cs hwa ds' w1 es' w2 p1 p2
      have h1o := h1
      have h2o := h2
      simp only [STree.prefixB, l1, l2, s1, s2, c1, c2, beq_self_eq_true, Bool.true_and] at h1 h2 ⊢
      rcases Kind.cases_eq i.kind with hk | hk | hk | hk | hk | hk | hk | hk | hk | hk | hk
      · -- custom
        simp only [hk, Bool.and_eq_true, beq_iff_eq, Bool.or_eq_true, Bool.not_eq_true'] at h1 ⊢
        have hjk : j.kind = Kind.custom := h1.1.1.symm
        simp only [hjk, Bool.and_eq_true, beq_iff_eq, Bool.or_eq_true, Bool.not_eq_true'] at h2
        refine ⟨⟨h2.1.1, ?_⟩, hseq ds es hwb hwc h1.2 h2.2⟩
        rcases h1.1.2 with hh | hh
        · left; exact hh
        · rcases h2.1.2 with hh2 | hh2
          · left; exact hh2
          · right; exact hh.trans hh2
      · exact absurd hk hnl
      · simp only [hk, Bool.and_eq_true, beq_iff_eq] at h1 ⊢
        have hjk : j.kind = Kind.none := h1.1.symm
        simp only [hjk, Bool.and_eq_true, beq_iff_eq] at h2
        exact ⟨h2.1, hseq ds es hwb hwc h1.2 h2.2⟩
      · simp only [hk, Bool.and_eq_true, beq_iff_eq] at h1 ⊢
        have hjk : j.kind = Kind.tuple := h1.1.symm
        simp only [hjk, Bool.and_eq_true, beq_iff_eq] at h2
        exact ⟨h2.1, hseq ds es hwb hwc h1.2 h2.2⟩
      · simp only [hk, Bool.and_eq_true, beq_iff_eq] at h1 ⊢
        have hjk : j.kind = Kind.list := h1.1.symm
        simp only [hjk, Bool.and_eq_true, beq_iff_eq] at h2
        exact ⟨h2.1, hseq ds es hwb hwc h1.2 h2.2⟩
      · have := STree.prefixB_trans_dict i j k cs ds es (by simp [hk, Kind.isDict]) hdi hdj hdk hwb hwc h1o h2o hseq
        simpa [hk] using this
      · -- namedtuple
        simp only [hk, Bool.and_eq_true, beq_iff_eq, Bool.or_eq_true, Bool.not_eq_true'] at h1 ⊢
        have hjk : j.kind = Kind.namedtuple := h1.1.1.symm
        simp only [hjk, Bool.and_eq_true, beq_iff_eq, Bool.or_eq_true, Bool.not_eq_true'] at h2
        refine ⟨⟨h2.1.1, ?_⟩, hseq ds es hwb hwc h1.2 h2.2⟩
        rcases h1.1.2 with hh | hh
        · left; exact hh
        · rcases h2.1.2 with hh2 | hh2
          · left; exact hh2
          · right; exact hh.trans hh2
      · have := STree.prefixB_trans_dict i j k cs ds es (by simp [hk, Kind.isDict]) hdi hdj hdk hwb hwc h1o h2o hseq
        simpa [hk] using this
      · have := STree.prefixB_trans_dict i j k cs ds es (by simp [hk, Kind.isDict]) hdi hdj hdk hwb hwc h1o h2o hseq
        simpa [hk] using this
      · simp only [hk, Bool.and_eq_true, beq_iff_eq] at h1 ⊢
        have hjk : j.kind = Kind.deque := h1.1.symm
        simp only [hjk, Bool.and_eq_true, beq_iff_eq] at h2
        exact ⟨h2.1, hseq ds es hwb hwc h1.2 h2.2⟩
      · -- structseq
        simp only [hk, Bool.and_eq_true, beq_iff_eq, Bool.or_eq_true, Bool.not_eq_true'] at h1 ⊢
        have hjk : j.kind = Kind.structseq := h1.1.1.symm
        simp only [hjk, Bool.and_eq_true, beq_iff_eq, Bool.or_eq_true, Bool.not_eq_true'] at h2
        refine ⟨⟨h2.1.1, ?_⟩, hseq ds es hwb hwc h1.2 h2.2⟩
        rcases h1.1.2 with hh | hh
        · left; exact hh
        · rcases h2.1.2 with hh2 | hh2
          · left; exact hh2
          · right; exact hh.trans hh2
theorem STree.prefixL_trans : ∀ cs : List STree, STree.wfL cs = true → ∀ ds : List STree, STree.wfL ds = true →
    ∀ es : List STree, STree.wfL es = true → STree.prefixL cs ds = true → STree.prefixL ds es = true →
    STree.prefixL cs es = true
  | [], _, [], _, [], _, _, _ => rfl
  | [], _, [], _, _ :: _, _, _, h => by simp [STree.prefixL] at h
  | [], _, _ :: _, _, _, _, h, _ => by simp [STree.prefixL] at h
  | _ :: _, _, [], _, _, _, h, _ => by simp [STree.prefixL] at h
  | _ :: _, _, _ :: _, _, [], _, _, h => by simp [STree.prefixL] at h
  | c :: cs, hw, d :: ds, hwd, e :: es, hwe, h1, h2 => by
      simp only [STree.wfL, Bool.and_eq_true] at hw hwd hwe
      simp only [STree.prefixL, Bool.and_eq_true] at h1 h2 ⊢
      exact ⟨STree.prefixB_trans c hw.1 d hwd.1 e hwe.1 h1.1 h2.1,
        STree.prefixL_trans cs hw.2 ds hwd.2 es hwe.2 h1.2 h2.2⟩
end

mutual
/-- the prefix relation is reflexive on well-formed shapes -/
theorem STree.prefixB_refl : ∀ a : STree, a.wf = true → a.prefixB a = true
  | .leaf, _ => rfl
  | .node i cs, h => by
      obtain ⟨hnl, _, hdict, hw⟩ := STree.wf_node h
      have hl := STree.prefixL_refl cs hw
      simp only [STree.prefixB, beq_self_eq_true, Bool.true_and]
      rcases Kind.cases_eq i.kind with hk | hk | hk | hk | hk | hk | hk | hk | hk | hk | hk
      · simp only [hk, beq_self_eq_true, hl, Bool.and_true, Bool.true_and]; cases i.data.isSome <;> simp
      · exact absurd hk hnl
      · simp [hk, hl]
      · simp [hk, hl]
      · simp [hk, hl]
      · obtain ⟨hkl, hnd⟩ := hdict (by simp [hk, Kind.isDict])
        have hks : keySetEq i.keys i.keys = true := (keySetEq_iff _ _).mpr ⟨rfl, fun _ h => h⟩
        simp only [hk, Kind.isDict, hks, Bool.true_and]
        have := STree.prefixD_eq i.keys cs hkl i.keys cs hkl (fun _ h => h)
        rw [this, pickD_self i.keys cs hkl hnd]; exact hl
      · simp only [hk, beq_self_eq_true, hl, Bool.and_true, Bool.true_and]; cases i.data.isSome <;> simp
      · obtain ⟨hkl, hnd⟩ := hdict (by simp [hk, Kind.isDict])
        have hks : keySetEq i.keys i.keys = true := (keySetEq_iff _ _).mpr ⟨rfl, fun _ h => h⟩
        simp only [hk, Kind.isDict, hks, Bool.true_and]
        have := STree.prefixD_eq i.keys cs hkl i.keys cs hkl (fun _ h => h)
        rw [this, pickD_self i.keys cs hkl hnd]; exact hl
      · obtain ⟨hkl, hnd⟩ := hdict (by simp [hk, Kind.isDict])
        have hks : keySetEq i.keys i.keys = true := (keySetEq_iff _ _).mpr ⟨rfl, fun _ h => h⟩
        simp only [hk, Kind.isDict, hks, Bool.true_and]
        have := STree.prefixD_eq i.keys cs hkl i.keys cs hkl (fun _ h => h)
        rw [this, pickD_self i.keys cs hkl hnd]; exact hl
      · simp [hk, hl]
      · simp only [hk, beq_self_eq_true, hl, Bool.and_true, Bool.true_and]; cases i.data.isSome <;> simp
theorem STree.prefixL_refl : ∀ cs : List STree, STree.wfL cs = true → STree.prefixL cs cs = true
  | [], _ => rfl
  | c :: cs, h => by
      simp only [STree.wfL, Bool.and_eq_true] at h
      simp [STree.prefixL, STree.prefixB_refl c h.1, STree.prefixL_refl cs h.2]
end


/-- shapes that are prefixes of each other have the same number of nodes -/
theorem STree.prefixB_antisymm_size (a b : STree) (ha : a.wf = true) (hb : b.wf = true)
    (h1 : a.prefixB b = true) (h2 : b.prefixB a = true) : a.size = b.size :=
  Nat.le_antisymm (STree.prefixB_size a ha b hb h1) (STree.prefixB_size b hb a ha h2)

end Optree
